//! logsync: conformance harness for `/verif/spec/LogSync` (C19, C20, C21).
//!
//! Two real `LogSync::run` futures over two real `SqliteStore`s filled with real signed
//! operations are driven by hand on a current-thread tokio runtime.  The harness owns only the
//! leaves: the transport (a FIFO with the capacity semantics of the specification) and a
//! delegating `LogStore` wrapper around `SqliteStore` that records every query.  Every observable
//! of a session (store query + result, message written, message taken, broadcast event, return
//! value) passes a *gate*; the driver grants one event at a time, so it can
//!
//! * `replay`: follow a behaviour exported by TLC step by step and compare the observable of
//!   every step with the one TLC computed, and
//! * `record`: schedule the two sessions at random (plus random concurrent store mutations and a
//!   random crash) and write the events in their real order for `Trace_LogSync.tla`.
//!
//! Non-termination is decided without a clock: a session that returns `Pending` while it waits at
//! a gate or at the transport (and not for SQLite) is blocked; both blocked = deadlock.  A busy
//! spin (no await) is decided by counting polls of the inbound stream after it returned `None`.
use std::collections::{BTreeMap, HashMap, VecDeque};
use std::future::{Future, poll_fn};
use std::pin::Pin;
use std::sync::{Arc, Mutex};
use std::task::{Context, Poll};

use futures_util::{Sink, Stream};
use p2panda_core::{Body, Hash, Operation, SeqNum, SigningKey, VerifyingKey};
use p2panda_store::logs::LogStore;
use p2panda_store::operations::OperationStore;
use p2panda_store::{SqliteError, SqliteStore, Transaction};
use p2panda_sync::protocols::{LogSync, LogSyncEvent, LogSyncMessage, Logs};
use p2panda_sync::test_utils::create_operation;
use p2panda_sync::traits::Protocol;
use tokio::sync::broadcast;
use vh_common::{Args, Outcome, Rng, TraceWriter, Value, json, read_ndjson};

type L = usize;
type E = usize;
type Msg = LogSyncMessage<L>;
type Op = Operation<E>;
type OpId = (usize, usize, u32);

/// Capacity value that stands for "unbounded" in the specification.
const UNBOUNDED: u64 = 99;
/// Polls of the inbound stream after it returned `None` that are taken as a busy spin.
const SPIN_LIMIT: u64 = 20_000;

const PEERS: [&str; 2] = ["A", "B"];

// ------------------------------------------------------------------------------------------
// Watchdog: the only wall-clock judgement of this harness.  A busy loop WITHOUT an await inside
// `LogSync::run` (the select! else arm is one) never returns from `Future::poll`, so nothing that
// runs on the session's thread can see it.  A second OS thread declares non-termination when one
// single `poll` of a session has not returned for WATCHDOG_SECS (a poll does microseconds of work
// plus at most one SQLite statement), writes the result file with the violation and ends the
// process.  (The spin after a stream closure is decided without a clock, see `VStream`.)
// ------------------------------------------------------------------------------------------
const WATCHDOG_SECS: u64 = 90;

struct Watch {
    in_poll_since: Option<std::time::Instant>,
    polled: usize,
    run: Option<Shared>,
    case: Value,
    result_path: std::path::PathBuf,
    trace_path: Option<std::path::PathBuf>,
    module: String,
    mode: String,
}

static WATCH: Mutex<Option<Watch>> = Mutex::new(None);

fn watchdog_start(args: &Args) {
    *WATCH.lock().unwrap() = Some(Watch {
        in_poll_since: None,
        polled: 0,
        run: None,
        case: Value::Null,
        result_path: args.result_path(),
        trace_path: if args.mode == "record" { args.out.clone() } else { None },
        module: args.module.clone(),
        mode: args.mode.clone(),
    });
    std::thread::spawn(|| loop {
        std::thread::sleep(std::time::Duration::from_secs(2));
        let g = WATCH.lock().unwrap();
        let Some(w) = g.as_ref() else { continue };
        let Some(t) = w.in_poll_since else { continue };
        if t.elapsed().as_secs() < WATCHDOG_SECS {
            continue;
        }
        let result = json!({
            "module": w.module, "mode": w.mode, "evaluations": 1, "distinct_nontrivial": 0,
            "rule": "aborted by the watchdog", "samples": [], "counters": {}, "trace_events": 0, "trace_runs": 0,
            "violations_total": 1,
            "violations": [{"property": "C21", "signature": "spin:session-poll-never-returns",
                "detail": format!("one poll of LogSync::run has not returned for {WATCHDOG_SECS} s: busy loop without an await"),
                "case": w.case}],
        });
        let mut result = result;
        // C20: a session that is in State::Sync, has not written Done and never will
        if let Some(sh) = w.run.as_ref() {
            if let Ok(sh) = sh.try_lock() {
                let p = w.polled;
                if sh.taken[p] >= 2 && !sh.sent[p].contains(&"Done") {
                    result["violations"].as_array_mut().unwrap().push(json!({
                        "property": "C20", "signature": "c20:done-never-sent",
                        "detail": format!("peer {} wrote {:?} and then loops forever without writing Done", PEERS[p], sh.sent[p]),
                        "case": w.case}));
                }
            }
        }
        // what the main thread had reported before it got stuck
        if let Some(earlier) = REPORTED.lock().unwrap().as_ref() {
            let vs = result["violations"].as_array_mut().unwrap();
            for v in earlier {
                vs.push(v.clone());
            }
            let n = vs.len();
            result["violations_total"] = json!(n);
        }
        std::fs::write(&w.result_path, serde_json::to_vec_pretty(&result).unwrap()).ok();
        if let Some(t) = &w.trace_path {
            std::fs::write(t, b"").ok();
        }
        eprintln!("watchdog: session poll never returned");
        std::process::exit(0);
    });
}

fn watchdog_case(case: &Value) {
    if let Some(w) = WATCH.lock().unwrap().as_mut() {
        w.case = case.clone();
    }
}

fn watchdog_poll(on: Option<usize>) {
    if let Some(w) = WATCH.lock().unwrap().as_mut() {
        w.in_poll_since = on.map(|_| std::time::Instant::now());
        if let Some(p) = on {
            w.polled = p;
        }
    }
}

fn watchdog_run(sh: &Shared) {
    if let Some(w) = WATCH.lock().unwrap().as_mut() {
        w.run = Some(sh.clone());
    }
}

fn peer_idx(p: &str) -> usize {
    if p == "A" { 0 } else { 1 }
}

// ------------------------------------------------------------------------------------------
// World: authors (sorted like the BTreeMaps of the protocol sort them) and their signed chains
// ------------------------------------------------------------------------------------------

struct World {
    vks: Vec<VerifyingKey>,
    ops: HashMap<OpId, (Op, Vec<u8>)>,
    ids: HashMap<Hash, OpId>,
    author_idx: HashMap<VerifyingKey, usize>,
}

impl World {
    fn new(n_authors: usize, n_logs: usize, max_seq: u32, rng: &mut Rng) -> World {
        let mut keys: Vec<SigningKey> = (0..n_authors)
            .map(|_| {
                let bytes: [u8; 32] = rng.bytes(32).try_into().unwrap();
                SigningKey::from_bytes(&bytes)
            })
            .collect();
        keys.sort_by_key(|k| k.verifying_key());
        let vks: Vec<VerifyingKey> = keys.iter().map(|k| k.verifying_key()).collect();
        let mut ops = HashMap::new();
        let mut ids = HashMap::new();
        for (ai, key) in keys.iter().enumerate() {
            for l in 1..=n_logs {
                let mut backlink = None;
                for s in 0..=max_seq {
                    // bodies of different sizes (header sizes differ with seq/backlink anyway)
                    let body = Body::new(format!("a{}l{}s{}{}", ai + 1, l, s, "x".repeat((s % 7) as usize)).as_bytes());
                    let (header, header_bytes) = create_operation(key, &body, s, backlink, l);
                    let hash = header.hash();
                    backlink = Some(hash);
                    let op = Operation { hash, header, body: Some(body) };
                    ids.insert(hash, (ai + 1, l, s));
                    ops.insert((ai + 1, l, s), (op, header_bytes));
                }
            }
        }
        let author_idx = vks.iter().enumerate().map(|(i, vk)| (*vk, i + 1)).collect();
        World { vks, ops, ids, author_idx }
    }

    fn vk(&self, a: usize) -> VerifyingKey {
        self.vks[a - 1]
    }

    fn op_of_header(&self, header_bytes: &[u8]) -> Option<OpId> {
        self.ids.get(&Hash::digest(header_bytes)).copied()
    }

    fn msg_json(&self, m: &Msg) -> Value {
        match m {
            LogSyncMessage::Have(h) => {
                let mut rows = Vec::new();
                for (vk, logs) in h {
                    let a = self.author_idx.get(vk).copied().unwrap_or(0);
                    for (l, s) in logs {
                        rows.push(json!([a, l, s]));
                    }
                }
                json!({"t": "Have", "h": rows})
            }
            LogSyncMessage::PreSync { total_operations, .. } => json!({"t": "PreSync", "n": total_operations}),
            LogSyncMessage::Operation(header, _) => match self.op_of_header(header) {
                Some((a, l, s)) => json!({"t": "Op", "a": a, "l": l, "s": s}),
                None => json!({"t": "Op", "a": 0, "l": 0, "s": 0}),
            },
            LogSyncMessage::Done => json!({"t": "Done"}),
        }
    }
}

type Content = BTreeMap<(usize, usize), Vec<u32>>;

/// `Outcome` keeps only the first 20 violations: report every failure class (property, signature)
/// once, so that the recorded deadlock class cannot crowd out anything else; count the rest.
static SEEN: Mutex<Option<std::collections::BTreeSet<(String, String)>>> = Mutex::new(None);
/// copy of the reported violations for the watchdog thread
static REPORTED: Mutex<Option<Vec<Value>>> = Mutex::new(None);

fn report(out: &mut Outcome, property: &str, signature: &str, detail: String, case: Value) {
    let mut g = SEEN.lock().unwrap();
    let seen = g.get_or_insert_with(Default::default);
    out.count(&format!("violation:{property}:{signature}"));
    if seen.insert((property.to_string(), signature.to_string())) {
        REPORTED.lock().unwrap().get_or_insert_with(Vec::new).push(
            json!({"property": property, "signature": signature, "detail": detail, "case": case}));
        out.violation(property, signature, detail, case);
    }
}

async fn store_rows(store: &SqliteStore, world: &World, a: usize, l: usize) -> Vec<u32> {
    let r = <SqliteStore as LogStore<Op, VerifyingKey, L, SeqNum, Hash>>::get_log_entries(store, &world.vk(a), &l, None, None)
        .await
        .expect("query log");
    r.map(|v| v.into_iter().map(|(op, _)| op.header.seq_num).collect()).unwrap_or_default()
}

async fn insert_op(store: &SqliteStore, world: &World, id: OpId) {
    let (op, _) = &world.ops[&id];
    let permit = store.begin().await.expect("begin");
    <SqliteStore as OperationStore<Op, Hash>>::insert_operation(store, &op.hash, op, &id.1)
        .await
        .expect("insert operation");
    store.commit(permit).await.expect("commit");
}

async fn fill_store(store: &SqliteStore, world: &World, content: &Content) {
    sqlx::query("DELETE FROM operations_v1").execute(store.pool()).await.expect("clear store");
    let permit = store.begin().await.expect("begin");
    for ((a, l), seqs) in content {
        for s in seqs {
            let (op, _) = &world.ops[&(*a, *l, *s)];
            <SqliteStore as OperationStore<Op, Hash>>::insert_operation(store, &op.hash, op, l)
                .await
                .expect("insert operation");
        }
    }
    store.commit(permit).await.expect("commit");
}

// ------------------------------------------------------------------------------------------
// Shared state of one run: transport, gates, event log
// ------------------------------------------------------------------------------------------

#[derive(Clone, Copy, PartialEq, Eq, Debug)]
enum Kind {
    Store,
    Send,
    Recv,
}

#[derive(Clone, Copy, PartialEq, Eq, Debug)]
enum Grant {
    Nothing,
    One(Kind),
    /// one event of any kind
    Any,
    /// one event, but the inbound message is withheld (still in flight)
    AnyButRecv,
    /// everything, not consumed
    Free,
}

struct Sh {
    world: Arc<World>,
    cap: Option<usize>,
    /// chan[p] is written by p and read by the other peer
    chan: [VecDeque<Msg>; 2],
    /// p's sink and stream are dropped (crash or `run` returned an error)
    gone: [bool; 2],
    grant: [Grant; 2],
    attempted: [Option<Kind>; 2],
    blocked_send: [bool; 2],
    blocked_recv: [bool; 2],
    eos_seen: [bool; 2],
    polls_after_eos: [u64; 2],
    spin: [bool; 2],
    last_put: [&'static str; 2],
    sent: [Vec<&'static str>; 2],
    delivered: [Vec<OpId>; 2],
    /// messages taken from the inbound stream (>= 2: the session is in State::Sync)
    taken: [usize; 2],
    log: Vec<Value>,
}

impl Sh {
    fn allowed(&mut self, p: usize, kind: Kind) -> bool {
        let ok = match self.grant[p] {
            Grant::Nothing => false,
            Grant::One(k) => k == kind,
            Grant::Any | Grant::Free => true,
            Grant::AnyButRecv => kind != Kind::Recv,
        };
        if !ok {
            self.attempted[p] = Some(kind);
        }
        ok
    }

    fn consume(&mut self, p: usize) {
        if self.grant[p] != Grant::Free {
            self.grant[p] = Grant::Nothing;
        }
        // p moved on: whatever it was found waiting for earlier in this poll is stale
        self.attempted[p] = None;
        self.blocked_send[p] = false;
        self.blocked_recv[p] = false;
    }

    fn flushed(&self, p: usize) -> bool {
        match self.cap {
            None => true,
            Some(c) => self.chan[p].len() <= c,
        }
    }
}

type Shared = Arc<Mutex<Sh>>;

struct Gate {
    sh: Shared,
    p: usize,
    kind: Kind,
}

impl Future for Gate {
    type Output = ();
    fn poll(self: Pin<&mut Self>, _cx: &mut Context<'_>) -> Poll<()> {
        let mut sh = self.sh.lock().unwrap();
        if sh.allowed(self.p, self.kind) {
            sh.consume(self.p);
            Poll::Ready(())
        } else {
            // the driver polls again when it grants; no waker needed
            Poll::Pending
        }
    }
}

fn opt(v: Option<SeqNum>) -> i64 {
    v.map(|x| x as i64).unwrap_or(-1)
}

/// `LogStore` that delegates every call to the real `SqliteStore` and records it.
#[derive(Clone)]
struct VStore {
    inner: SqliteStore,
    p: usize,
    sh: Shared,
}

impl VStore {
    async fn gate(&self) {
        Gate { sh: self.sh.clone(), p: self.p, kind: Kind::Store }.await
    }
}

impl LogStore<Op, VerifyingKey, L, SeqNum, Hash> for VStore {
    type Error = SqliteError;

    async fn get_latest_entry(&self, author: &VerifyingKey, log_id: &L) -> Result<Option<Op>, SqliteError> {
        <SqliteStore as LogStore<Op, VerifyingKey, L, SeqNum, Hash>>::get_latest_entry(&self.inner, author, log_id).await
    }

    async fn get_latest_entry_tx(&self, author: &VerifyingKey, log_id: &L) -> Result<Option<Op>, SqliteError> {
        <SqliteStore as LogStore<Op, VerifyingKey, L, SeqNum, Hash>>::get_latest_entry_tx(&self.inner, author, log_id).await
    }

    async fn get_log_heights(&self, author: &VerifyingKey, logs: &[L]) -> Result<Option<BTreeMap<L, SeqNum>>, SqliteError> {
        self.gate().await;
        let r = <SqliteStore as LogStore<Op, VerifyingKey, L, SeqNum, Hash>>::get_log_heights(&self.inner, author, logs).await?;
        let mut sh = self.sh.lock().unwrap();
        let a = sh.world.author_idx.get(author).copied().unwrap_or(0);
        let rows: Vec<Value> = r.iter().flatten().map(|(l, s)| json!([a, l, s])).collect();
        sh.log.push(json!({"ev": "ReadHeights", "p": PEERS[self.p], "a": a, "logs": logs, "h": rows}));
        Ok(r)
    }

    async fn get_log_size(
        &self,
        author: &VerifyingKey,
        log_id: &L,
        after: Option<SeqNum>,
        until: Option<SeqNum>,
    ) -> Result<Option<(u32, u32)>, SqliteError> {
        self.gate().await;
        let r = <SqliteStore as LogStore<Op, VerifyingKey, L, SeqNum, Hash>>::get_log_size(&self.inner, author, log_id, after, until).await?;
        let mut sh = self.sh.lock().unwrap();
        let a = sh.world.author_idx.get(author).copied().unwrap_or(0);
        let (n, bytes) = r.unwrap_or((0, 0));
        sh.log.push(json!({"ev": "ReadSize", "p": PEERS[self.p], "a": a, "l": log_id,
                           "after": opt(after), "until": opt(until), "n": n, "bytes": bytes}));
        Ok(r)
    }

    async fn get_log_entries(
        &self,
        author: &VerifyingKey,
        log_id: &L,
        after: Option<SeqNum>,
        until: Option<SeqNum>,
    ) -> Result<Option<Vec<(Op, Vec<u8>)>>, SqliteError> {
        self.gate().await;
        let r = <SqliteStore as LogStore<Op, VerifyingKey, L, SeqNum, Hash>>::get_log_entries(&self.inner, author, log_id, after, until).await?;
        let mut sh = self.sh.lock().unwrap();
        let a = sh.world.author_idx.get(author).copied().unwrap_or(0);
        let seqs: Vec<u32> = r.iter().flatten().map(|(op, _)| op.header.seq_num).collect();
        sh.log.push(json!({"ev": "ReadEntries", "p": PEERS[self.p], "a": a, "l": log_id,
                           "after": opt(after), "until": opt(until), "seqs": seqs}));
        Ok(r)
    }

    async fn prune_entries(&self, author: &VerifyingKey, log_id: &L, until: &SeqNum) -> Result<u64, SqliteError> {
        <SqliteStore as LogStore<Op, VerifyingKey, L, SeqNum, Hash>>::prune_entries(&self.inner, author, log_id, until).await
    }
}

struct VSink {
    p: usize,
    sh: Shared,
}

impl Sink<Msg> for VSink {
    type Error = String;

    fn poll_ready(self: Pin<&mut Self>, _cx: &mut Context<'_>) -> Poll<Result<(), String>> {
        let mut sh = self.sh.lock().unwrap();
        if sh.gone[1 - self.p] {
            return Poll::Ready(Err("receiver dropped".into()));
        }
        if !sh.flushed(self.p) {
            sh.blocked_send[self.p] = true;
            return Poll::Pending;
        }
        if !sh.allowed(self.p, Kind::Send) {
            return Poll::Pending;
        }
        Poll::Ready(Ok(()))
    }

    fn start_send(self: Pin<&mut Self>, item: Msg) -> Result<(), String> {
        let mut sh = self.sh.lock().unwrap();
        let p = self.p;
        if sh.gone[1 - p] {
            return Err("receiver dropped".into());
        }
        sh.consume(p);
        let t = match &item {
            LogSyncMessage::Have(_) => "Have",
            LogSyncMessage::PreSync { .. } => "PreSync",
            LogSyncMessage::Operation(..) => "Op",
            LogSyncMessage::Done => "Done",
        };
        sh.last_put[p] = t;
        sh.sent[p].push(t);
        let m = sh.world.msg_json(&item);
        sh.log.push(json!({"ev": "Send", "p": PEERS[p], "m": m}));
        sh.chan[p].push_back(item);
        Ok(())
    }

    fn poll_flush(self: Pin<&mut Self>, _cx: &mut Context<'_>) -> Poll<Result<(), String>> {
        let mut sh = self.sh.lock().unwrap();
        // a flush that is already complete succeeds even if the receiver has gone since
        // (specification: SinkFail needs ~Flushed or a new send)
        if sh.flushed(self.p) {
            return Poll::Ready(Ok(()));
        }
        if sh.gone[1 - self.p] {
            Poll::Ready(Err("receiver dropped".into()))
        } else {
            sh.blocked_send[self.p] = true;
            Poll::Pending
        }
    }

    fn poll_close(self: Pin<&mut Self>, _cx: &mut Context<'_>) -> Poll<Result<(), String>> {
        Poll::Ready(Ok(()))
    }
}

struct VStream {
    p: usize,
    sh: Shared,
}

impl Stream for VStream {
    type Item = Result<Msg, String>;

    fn poll_next(self: Pin<&mut Self>, _cx: &mut Context<'_>) -> Poll<Option<Self::Item>> {
        let mut sh = self.sh.lock().unwrap();
        let p = self.p;
        let q = 1 - p;
        if !sh.chan[q].is_empty() {
            if !sh.allowed(p, Kind::Recv) {
                return Poll::Pending;
            }
            sh.consume(p);
            let m = sh.chan[q].pop_front().unwrap();
            sh.taken[p] += 1;
            let mj = sh.world.msg_json(&m);
            sh.log.push(json!({"ev": "Recv", "p": PEERS[p], "m": mj}));
            return Poll::Ready(Some(Ok(m)));
        }
        if sh.gone[q] {
            if !sh.eos_seen[p] {
                if !sh.allowed(p, Kind::Recv) {
                    return Poll::Pending;
                }
                sh.consume(p);
                sh.eos_seen[p] = true;
                sh.log.push(json!({"ev": "Eos", "p": PEERS[p]}));
                return Poll::Ready(None);
            }
            sh.polls_after_eos[p] += 1;
            if sh.polls_after_eos[p] > SPIN_LIMIT {
                sh.spin[p] = true;
                return Poll::Ready(Some(Err(format!("verif: stream polled {SPIN_LIMIT} times after its end"))));
            }
            return Poll::Ready(None);
        }
        sh.blocked_recv[p] = true;
        Poll::Pending
    }
}

// ------------------------------------------------------------------------------------------
// One run: two sessions
// ------------------------------------------------------------------------------------------

#[derive(Clone, Debug, PartialEq)]
enum Fin {
    Ok,
    Err(String),
    Crashed,
}

type SessFut = Pin<Box<dyn Future<Output = Result<(), String>>>>;

struct Run {
    world: Arc<World>,
    sh: Shared,
    stores: [SqliteStore; 2],
    fut: [Option<SessFut>; 2],
    fin: [Option<Fin>; 2],
    event_rx: [broadcast::Receiver<LogSyncEvent<E>>; 2],
    n_events: [usize; 2],
}

#[derive(Debug, Default)]
struct StepEnd {
    new_events: usize,
    finished: bool,
    blocked: bool,
}

fn keys_to_logs(world: &World, keys: &[(usize, usize)]) -> Logs<L> {
    let mut logs: Logs<L> = BTreeMap::new();
    for (a, l) in keys {
        logs.entry(world.vk(*a)).or_default().push(*l);
    }
    logs
}

impl Run {
    fn new(world: Arc<World>, stores: &[SqliteStore; 2], cap: u64, slogs: [&[(usize, usize)]; 2]) -> Run {
        let sh = Arc::new(Mutex::new(Sh {
            world: world.clone(),
            cap: if cap >= UNBOUNDED { None } else { Some(cap as usize) },
            chan: [VecDeque::new(), VecDeque::new()],
            gone: [false; 2],
            grant: [Grant::Nothing; 2],
            attempted: [None; 2],
            blocked_send: [false; 2],
            blocked_recv: [false; 2],
            eos_seen: [false; 2],
            polls_after_eos: [0; 2],
            spin: [false; 2],
            last_put: ["", ""],
            sent: [Vec::new(), Vec::new()],
            delivered: [Vec::new(), Vec::new()],
            taken: [0; 2],
            log: Vec::new(),
        }));
        watchdog_run(&sh);
        let mut futs: Vec<Option<SessFut>> = Vec::new();
        let mut rxs = Vec::new();
        for p in 0..2 {
            let (event_tx, event_rx) = broadcast::channel::<LogSyncEvent<E>>(8192);
            let store = VStore { inner: stores[p].clone(), p, sh: sh.clone() };
            let session: LogSync<L, E, VStore, LogSyncEvent<E>> = LogSync::new(store, keys_to_logs(&world, slogs[p]), event_tx);
            let mut sink = VSink { p, sh: sh.clone() };
            let mut stream = VStream { p, sh: sh.clone() };
            let fut: SessFut = Box::pin(async move {
                session.run(&mut sink, &mut stream).await.map(|_| ()).map_err(|e| format!("{e}"))
            });
            futs.push(Some(fut));
            rxs.push(event_rx);
        }
        let rx1 = rxs.pop().unwrap();
        let rx0 = rxs.pop().unwrap();
        let f1 = futs.pop().unwrap();
        let f0 = futs.pop().unwrap();
        Run {
            world,
            sh,
            stores: [stores[0].clone(), stores[1].clone()],
            fut: [f0, f1],
            fin: [None, None],
            event_rx: [rx0, rx1],
            n_events: [0, 0],
        }
    }

    fn log_len(&self) -> usize {
        self.sh.lock().unwrap().log.len()
    }

    fn push(&self, v: Value) {
        self.sh.lock().unwrap().log.push(v);
    }

    fn grant(&self, p: usize, g: Grant) {
        self.sh.lock().unwrap().grant[p] = g;
    }

    /// Broadcast events of p -> log
    fn drain_events(&mut self, p: usize) {
        loop {
            match self.event_rx[p].try_recv() {
                Ok(LogSyncEvent::OperationReceived { operation, .. }) => {
                    let id = self.world.ids.get(&operation.hash).copied().unwrap_or((0, 0, 0));
                    self.n_events[p] += 1;
                    let mut sh = self.sh.lock().unwrap();
                    sh.delivered[p].push(id);
                    sh.log.push(json!({"ev": "Event", "p": PEERS[p], "op": [id.0, id.1, id.2], "idx": self.n_events[p]}));
                }
                Ok(LogSyncEvent::MetricsExchanged { metrics }) => {
                    self.push(json!({"ev": "Metrics", "p": PEERS[p], "out": metrics.outbound_operations,
                                     "inn": metrics.inbound_operations}));
                }
                Err(_) => break,
            }
        }
    }

    /// Polls session p until it has produced at least one event, has finished, or is blocked at
    /// a gate / the transport.  Waiting for SQLite is real waiting.
    async fn step(&mut self, p: usize) -> StepEnd {
        let before = self.log_len();
        let mut end = StepEnd::default();
        if self.fut[p].is_none() {
            end.finished = true;
            return end;
        }
        let sh = self.sh.clone();
        let fut = &mut self.fut[p];
        let fin = &mut self.fin[p];
        let r = poll_fn(|cx| {
            {
                let mut s = sh.lock().unwrap();
                s.attempted[p] = None;
                s.blocked_send[p] = false;
                s.blocked_recv[p] = false;
            }
            let f = fut.as_mut().unwrap();
            watchdog_poll(Some(p));
            let polled = f.as_mut().poll(cx);
            watchdog_poll(None);
            match polled {
                Poll::Ready(r) => {
                    *fut = None;
                    *fin = Some(match r {
                        Ok(()) => Fin::Ok,
                        Err(e) => Fin::Err(e),
                    });
                    Poll::Ready((true, false))
                }
                Poll::Pending => {
                    let s = sh.lock().unwrap();
                    if s.log.len() > before {
                        Poll::Ready((false, false))
                    } else if s.attempted[p].is_some() || s.blocked_send[p] || s.blocked_recv[p] {
                        Poll::Ready((false, true))
                    } else {
                        Poll::Pending
                    }
                }
            }
        })
        .await;
        end.finished = r.0;
        end.blocked = r.1;
        self.drain_events(p);
        if end.finished {
            let fin = self.fin[p].clone().unwrap();
            let mut s = self.sh.lock().unwrap();
            if fin != Fin::Ok {
                s.gone[p] = true;
            }
            let spin = s.spin[p];
            s.log.push(json!({"ev": "End", "p": PEERS[p], "ok": fin == Fin::Ok, "spin": spin,
                              "err": match &fin { Fin::Err(e) => e.clone(), _ => String::new() }}));
        }
        end.new_events = self.log_len() - before;
        end
    }

    fn crash(&mut self, p: usize) {
        self.fut[p] = None;
        self.fin[p] = Some(Fin::Crashed);
        let mut s = self.sh.lock().unwrap();
        s.gone[p] = true;
        s.log.push(json!({"ev": "Crash", "p": PEERS[p]}));
    }

    /// Concurrent store change on p's real store.  Returns the rows of the log afterwards.
    async fn mutate(&mut self, p: usize, kind: &str, a: usize, l: usize, arg: u32) -> Vec<u32> {
        let store = &self.stores[p];
        let vk = self.world.vk(a);
        match kind {
            "prune" => {
                <SqliteStore as LogStore<Op, VerifyingKey, L, SeqNum, Hash>>::prune_entries(store, &vk, &l, &arg)
                    .await
                    .expect("prune");
            }
            "delete" => {
                let hash = self.world.ops[&(a, l, arg)].0.hash;
                let permit = store.begin().await.expect("begin");
                <SqliteStore as OperationStore<Op, Hash>>::delete_operation(store, &hash).await.expect("delete");
                store.commit(permit).await.expect("commit");
            }
            "append" => insert_op(store, &self.world, (a, l, arg)).await,
            _ => panic!("unknown mutation {kind}"),
        }
        let now = store_rows(store, &self.world, a, l).await;
        self.push(json!({"ev": "Mutate", "p": PEERS[p], "kind": kind, "a": a, "l": l, "arg": arg, "now": now}));
        now
    }

    fn active(&self, p: usize) -> bool {
        self.fut[p].is_some()
    }

    /// Everything granted: run both sessions until neither moves.  Returns the number of events.
    async fn free_run(&mut self) -> usize {
        let before = self.log_len();
        loop {
            let mut progress = false;
            for p in 0..2 {
                if self.active(p) {
                    self.grant(p, Grant::Free);
                    let e = self.step(p).await;
                    if e.new_events > 0 || e.finished {
                        progress = true;
                    }
                }
            }
            if !progress {
                break;
            }
        }
        self.log_len() - before
    }

    /// Where a session that cannot move is waiting.
    fn blocked_where(&self, p: usize) -> &'static str {
        let s = self.sh.lock().unwrap();
        if s.blocked_send[p] {
            match s.last_put[p] {
                "Have" => "send:Have",
                "PreSync" => "send:PreSync",
                "Op" => "send:Op",
                "Done" => {
                    if s.sent[p].len() > 2 || s.sent[p].contains(&"PreSync") { "send:Done" } else { "send:EarlyDone" }
                }
                _ => "send:?",
            }
        } else if s.blocked_recv[p] {
            "recv"
        } else {
            "other"
        }
    }
}

/// Signature of a deadlock of the real sessions (both unfinished, none can move).
fn deadlock_signature(run: &Run) -> String {
    let cap = run.sh.lock().unwrap().cap;
    let w: Vec<&str> = (0..2)
        .map(|p| if run.active(p) { run.blocked_where(p) } else { "finished" })
        .collect();
    let in_burst = |x: &str| x == "send:Op" || x == "send:Done";
    if in_burst(w[0]) && in_burst(w[1]) && cap.map(|c| c >= 1).unwrap_or(false) {
        "deadlock:both-peers-in-SendBurst".to_string()
    } else if w[0] == "send:Have" && w[1] == "send:Have" && cap == Some(0) {
        "deadlock:cap0-both-peers-in-SendHave".to_string()
    } else {
        format!("deadlock:other:{}+{}", w[0], w[1])
    }
}

/// C20 on what a real session wrote: Have (Done | PreSync Op* Done), nothing after Done.
fn grammar_violation(sent: &[&'static str], finished_ok: bool) -> Option<&'static str> {
    let dones = sent.iter().filter(|t| **t == "Done").count();
    if dones > 1 {
        return Some("done-sent-twice");
    }
    if let Some(i) = sent.iter().position(|t| *t == "Done") {
        if i + 1 != sent.len() {
            return Some("message-after-done");
        }
    }
    if !sent.is_empty() && sent[0] != "Have" {
        return Some("grammar");
    }
    if sent.len() >= 2 && sent[1] != "PreSync" && sent[1] != "Done" {
        return Some("grammar");
    }
    if sent.len() >= 3 && (sent[1] != "PreSync" || sent[2..].iter().any(|t| *t != "Op" && *t != "Done")) {
        return Some("grammar");
    }
    if finished_ok && sent.last() != Some(&"Done") {
        return Some("ended-without-done");
    }
    None
}

// ------------------------------------------------------------------------------------------
// Configurations
// ------------------------------------------------------------------------------------------

#[derive(Clone, Debug)]
struct Config {
    cap: u64,
    content: [Content; 2],
    slogs: [Vec<(usize, usize)>; 2],
}

fn parse_store(v: &Value) -> Content {
    let mut c = Content::new();
    for row in v.as_array().map(|a| a.as_slice()).unwrap_or(&[]) {
        let a = row[0].as_u64().unwrap() as usize;
        let l = row[1].as_u64().unwrap() as usize;
        let seqs: Vec<u32> = row[2].as_array().map(|s| s.iter().map(|x| x.as_u64().unwrap() as u32).collect()).unwrap_or_default();
        if !seqs.is_empty() {
            c.insert((a, l), seqs);
        }
    }
    c
}

fn parse_keys(v: &Value) -> Vec<(usize, usize)> {
    v.as_array()
        .map(|a| a.iter().map(|k| (k[0].as_u64().unwrap() as usize, k[1].as_u64().unwrap() as usize)).collect())
        .unwrap_or_default()
}

fn store_json(c: &Content) -> Value {
    Value::Array(c.iter().map(|((a, l), s)| json!([a, l, s])).collect())
}

fn keys_json(k: &[(usize, usize)]) -> Value {
    Value::Array(k.iter().map(|(a, l)| json!([a, l])).collect())
}

/// C19 computed directly from the initial stores (the same definition as `Expected` in the spec).
fn expected_delivery(cfg: &Config, p: usize) -> BTreeMap<(usize, usize), Vec<u32>> {
    let q = 1 - p;
    let mut out = BTreeMap::new();
    for k in &cfg.slogs[q] {
        let announced: i64 = if cfg.slogs[p].contains(k) {
            cfg.content[p].get(k).and_then(|s| s.iter().max()).map(|m| *m as i64).unwrap_or(-1)
        } else {
            -1
        };
        let mut v: Vec<u32> = cfg.content[q].get(k).map(|s| s.iter().copied().filter(|s| *s as i64 > announced).collect()).unwrap_or_default();
        v.sort();
        if !v.is_empty() {
            out.insert(*k, v);
        }
    }
    out
}

fn delivered_by_log(d: &[OpId]) -> BTreeMap<(usize, usize), Vec<u32>> {
    let mut out: BTreeMap<(usize, usize), Vec<u32>> = BTreeMap::new();
    for (a, l, s) in d {
        out.entry((*a, *l)).or_default().push(*s);
    }
    out
}


/// The properties evaluated directly on what the two real sessions did (after they ran as far as
/// they can): C21 (deadlock class / spin), C20 (grammar, stray message), C19 (exact delivery).
fn direct_checks(run: &Run, cfg: &Config, mutated: bool, crashed: bool, out: &mut Outcome, case: &Value) {
    let stuck = (0..2).any(|p| run.active(p));
    if stuck {
        out.count("deadlocks");
        let sig = deadlock_signature(run);
        report(out, "C21", &sig, format!("sessions never complete: cap {} ; A waits in {}, B waits in {}",
            cfg.cap, run.blocked_where(0), run.blocked_where(1)), case.clone());
    }
    // C20: a session in State::Sync that waits for the remote although it has not written Done
    // (between send bursts the select! never waits: waiting means nothing is left to send)
    let waiting_in_recv: Vec<bool> = (0..2).map(|p| stuck && run.active(p) && run.blocked_where(p) == "recv").collect();
    let sh = run.sh.lock().unwrap();
    for p in 0..2 {
        if waiting_in_recv[p] && sh.taken[p] >= 2 && !sh.sent[p].contains(&"Done") {
            report(out, "C20", "c20:done-never-sent",
                format!("peer {} wrote {:?}, has nothing left to send and waits for the remote without having written Done", PEERS[p], sh.sent[p]), case.clone());
        }
    }
    for p in 0..2 {
        if sh.spin[p] {
            out.count("spins");
            report(out, "C21", "spin:sync-loop-after-stream-closure",
                format!("peer {}: the Sync loop polled the closed stream {SPIN_LIMIT} times without awaiting (busy spin, never returns)", PEERS[p]), case.clone());
        }
        if let Some(g) = grammar_violation(&sh.sent[p], run.fin[p] == Some(Fin::Ok)) {
            report(out, "C20", &format!("c20:{g}"), format!("peer {} wrote {:?}", PEERS[p], sh.sent[p]), case.clone());
        }
    }
    if run.fin[0] == Some(Fin::Ok) && run.fin[1] == Some(Fin::Ok) {
        out.count("completed");
        if sh.chan.iter().any(|c| !c.is_empty()) {
            report(out, "C20", "c20:stray-message-after-end",
                format!("messages left in the transport after both sessions ended: {} / {}", sh.chan[0].len(), sh.chan[1].len()), case.clone());
        }
        if !mutated && !crashed {
            for p in 0..2 {
                let want = expected_delivery(cfg, p);
                let got = delivered_by_log(&sh.delivered[p]);
                if want != got {
                    report(out, "C19", "c19:delivery-differs", format!("peer {} was given {got:?}, must be given {want:?}", PEERS[p]), case.clone());
                }
            }
        }
    }
}

// ------------------------------------------------------------------------------------------
// replay
// ------------------------------------------------------------------------------------------

fn first<'a>(v: &'a Value, key: &str) -> Option<&'a Value> {
    v.get(key).and_then(|x| x.as_array()).and_then(|a| a.first())
}

fn kind_of(act: &str) -> Option<Kind> {
    match act {
        "ReadHeights" | "ReadSize" | "SyncNextAuthor" | "BurstReadLog" => Some(Kind::Store),
        "PutHave" | "PutPreSync" | "BurstSendOp" | "SendDone" => Some(Kind::Send),
        "ReceiveHave" | "ReceivePreSyncOrDone" | "SyncRecv" | "SyncRecvClosed" => Some(Kind::Recv),
        _ => None,
    }
}

/// Compares the events a step produced with the observable TLC computed for it.
fn compare_step(step: &Value, evs: &[Value]) -> Result<(), String> {
    let act = step["act"].as_str().unwrap_or("");
    let find = |name: &str| evs.iter().find(|e| e["ev"] == name);
    if let Some(put) = first(step, "put") {
        let e = find("Send").ok_or_else(|| format!("{act}: expected to write {put}, nothing written; events {evs:?}"))?;
        if &e["m"] != put {
            return Err(format!("{act}: wrote {} where the specification writes {put}", e["m"]));
        }
    } else if let Some(e) = find("Send") {
        return Err(format!("{act}: wrote {} where the specification writes nothing", e["m"]));
    }
    if let Some(took) = first(step, "took") {
        let e = find("Recv").ok_or_else(|| format!("{act}: expected to take {took}, nothing taken; events {evs:?}"))?;
        if &e["m"] != took {
            return Err(format!("{act}: took {} where the specification takes {took}", e["m"]));
        }
    } else if let Some(e) = find("Recv") {
        return Err(format!("{act}: took {} where the specification takes nothing", e["m"]));
    }
    if let Some(ev) = first(step, "ev") {
        let e = find("Event").ok_or_else(|| format!("{act}: OperationReceived {ev} expected, none emitted"))?;
        if &e["op"] != ev {
            return Err(format!("{act}: emitted {} where the specification emits {ev}", e["op"]));
        }
    } else if let Some(e) = find("Event") {
        return Err(format!("{act}: emitted OperationReceived {} where the specification emits nothing", e["op"]));
    }
    if let Some(read) = first(step, "read") {
        match act {
            "ReadHeights" => {
                let e = find("ReadHeights").ok_or_else(|| format!("{act}: no get_log_heights call; events {evs:?}"))?;
                if e["a"] != read["a"] || e["h"] != read["h"] {
                    return Err(format!("get_log_heights: author {} -> {} where the specification has author {} -> {}", e["a"], e["h"], read["a"], read["h"]));
                }
            }
            "ReadSize" => {
                let e = find("ReadSize").ok_or_else(|| format!("{act}: no get_log_size call; events {evs:?}"))?;
                let r = &read["r"];
                if e["a"] != r["a"] || e["l"] != r["l"] || e["after"] != r["after"] || e["until"] != r["until"] || e["n"] != read["n"] {
                    return Err(format!("get_log_size: {e} where the specification has {read}"));
                }
                if (e["n"].as_u64() == Some(0)) != (e["bytes"].as_u64() == Some(0)) {
                    return Err(format!("get_log_size: count and bytes disagree about emptiness: {e}"));
                }
            }
            _ => {
                let e = find("ReadEntries").ok_or_else(|| format!("{act}: no get_log_entries call; events {evs:?}"))?;
                let r = &read["r"];
                if e["a"] != r["a"] || e["l"] != r["l"] || e["after"] != r["after"] || e["until"] != r["until"] || e["seqs"] != read["seqs"] {
                    return Err(format!("get_log_entries: {e} where the specification has {read}"));
                }
            }
        }
    }
    Ok(())
}

struct ReplayCtx {
    world: Arc<World>,
    stores: [SqliteStore; 2],
    prop: String,
}

enum ReplayEnd {
    Done,
    /// the real select! took the other ready branch: the behaviour cannot be forced
    AbandonedAtSelect,
}

async fn replay_one(ctx: &ReplayCtx, beh: &Value, out: &mut Outcome) -> ReplayEnd {
    let cfg = Config {
        cap: beh["cap"].as_u64().unwrap_or(UNBOUNDED),
        content: [parse_store(&beh["storeA"]), parse_store(&beh["storeB"])],
        slogs: [parse_keys(&beh["logsA"]), parse_keys(&beh["logsB"])],
    };
    for p in 0..2 {
        fill_store(&ctx.stores[p], &ctx.world, &cfg.content[p]).await;
    }
    let mut run = Run::new(ctx.world.clone(), &ctx.stores, cfg.cap, [&cfg.slogs[0], &cfg.slogs[1]]);
    let prop = ctx.prop.as_str();
    let mut mutated = false;
    let mut crashed = false;
    let mut early = [false; 2];
    let steps = beh["steps"].as_array().cloned().unwrap_or_default();
    macro_rules! mismatch {
        ($sig:expr, $detail:expr) => {{
            report(out, prop, $sig, $detail, beh.clone());
            // let the real sessions run on and evaluate the properties on what they did
            run.free_run().await;
            direct_checks(&run, &cfg, mutated, crashed, out, beh);
            return ReplayEnd::Done;
        }};
    }
    for (i, step) in steps.iter().enumerate() {
        let act = step["act"].as_str().unwrap_or("");
        let p = peer_idx(step["p"].as_str().unwrap_or("A"));
        let at = format!("step {} {}({})", i + 1, act, PEERS[p]);
        match act {
            "Start" => continue,
            "Mutate" => {
                mutated = true;
                let now = run
                    .mutate(p, step["kind"].as_str().unwrap(), step["a"].as_u64().unwrap() as usize,
                            step["l"].as_u64().unwrap() as usize, step["arg"].as_u64().unwrap() as u32)
                    .await;
                if json!(now) != step["now"] {
                    mismatch!("mismatch:Mutate", format!("{at}: store log is {now:?} after the mutation, specification has {}", step["now"]));
                }
                continue;
            }
            "Crash" => {
                crashed = true;
                run.crash(p);
                continue;
            }
            _ => {}
        }
        let before = run.log_len();
        let expect_pc = step["pc"].as_str().unwrap_or("");
        let finishing = matches!(expect_pc, "End" | "Failed" | "Spin");
        if kind_of(act).is_none() && early[p] {
            // the unobservable last step was taken right after the previous event of p
            let fin = run.fin[p].clone().unwrap();
            let spin = run.sh.lock().unwrap().spin[p];
            let ok = match expect_pc {
                "End" => fin == Fin::Ok,
                "Spin" => spin,
                _ => matches!(fin, Fin::Err(_)) && !spin,
            };
            if !ok {
                mismatch!(&format!("mismatch:{act}"), format!("{at}: specification reaches {expect_pc}, `run` returned {fin:?}"));
            }
            continue;
        }
        match kind_of(act) {
            Some(k) => run.grant(p, Grant::One(k)),
            // SyncElse / SinkFail: no observable but the return of `run`; a spin needs the end of
            // the stream to be readable
            None => run.grant(p, if expect_pc == "Spin" { Grant::One(Kind::Recv) } else { Grant::Nothing }),
        }
        let end = run.step(p).await;
        let evs: Vec<Value> = run.sh.lock().unwrap().log[before..].to_vec();
        let produced = evs.iter().any(|e| matches!(e["ev"].as_str(), Some("Send" | "Recv" | "Eos" | "ReadHeights" | "ReadSize" | "ReadEntries")));
        if kind_of(act).is_some() && !produced && !end.finished {
            let attempted = run.sh.lock().unwrap().attempted[p];
            if matches!(act, "SyncRecv" | "SyncRecvClosed") && matches!(attempted, Some(Kind::Store) | Some(Kind::Send)) {
                out.count("abandoned_at_select");
                return ReplayEnd::AbandonedAtSelect;
            }
            mismatch!(&format!("mismatch:{act}"),
                      format!("{at}: the session does not take this step (blocked at {:?}, waiting in {})", attempted, run.blocked_where(p)));
        }
        if let Err(e) = compare_step(step, &evs) {
            mismatch!(&format!("mismatch:{act}"), format!("{at}: {e}"));
        }
        // return value
        if finishing {
            if !end.finished {
                mismatch!(&format!("mismatch:{act}"), format!("{at}: specification reaches {expect_pc}, `run` has not returned (waiting in {})", run.blocked_where(p)));
            }
            let fin = run.fin[p].clone().unwrap();
            let spin = run.sh.lock().unwrap().spin[p];
            let ok = match expect_pc {
                "End" => fin == Fin::Ok,
                "Spin" => spin,
                _ => matches!(fin, Fin::Err(_)) && !spin,
            };
            if !ok {
                mismatch!(&format!("mismatch:{act}"), format!("{at}: specification reaches {expect_pc}, `run` returned {fin:?} (spin detected: {spin})"));
            }
        } else if end.finished {
            // `run` may return right after this event if the specification's next step of p is the
            // unobservable last one (SyncElse / SinkFail have no await of their own)
            let next = steps[i + 1..].iter().find(|s| s["p"] == step["p"] && s["act"] != "Mutate" && s["act"] != "Crash");
            let silent_end = next.map(|n| kind_of(n["act"].as_str().unwrap_or("")).is_none()
                && matches!(n["pc"].as_str(), Some("End" | "Failed"))).unwrap_or(false);
            if !silent_end {
                mismatch!(&format!("mismatch:{act}"), format!("{at}: `run` returned {:?} where the specification continues in {expect_pc}", run.fin[p]));
            }
            early[p] = true;
        }
    }
    // the behaviour ended where no peer can step
    let fin = &beh["final"];
    let moved = run.free_run().await;
    if moved > 0 {
        let evs: Vec<Value> = { let s = run.sh.lock().unwrap(); s.log[s.log.len() - moved..].to_vec() };
        mismatch!("mismatch:final", format!("specification is quiescent ({fin}) but the sessions still move: {evs:?}"));
    }
    for p in 0..2 {
        let want = fin[PEERS[p]].as_str().unwrap_or("");
        let got = match &run.fin[p] {
            None => "active",
            Some(Fin::Ok) => "End",
            Some(Fin::Err(_)) => if run.sh.lock().unwrap().spin[p] { "Spin" } else { "Failed" },
            Some(Fin::Crashed) => "Crashed",
        };
        let same = match want {
            "End" | "Failed" | "Crashed" | "Spin" => want == got,
            _ => got == "active",
        };
        if !same {
            mismatch!("mismatch:final", format!("peer {} ends in {want} in the specification, real session: {got}", PEERS[p]));
        }
    }
    let stuck = (0..2).any(|p| run.active(p));
    if stuck != fin["stuck"].as_bool().unwrap_or(false) {
        mismatch!("mismatch:final", format!("specification stuck={} real stuck={stuck}", fin["stuck"]));
    }
    if stuck {
        let sig = deadlock_signature(&run);
        let spec_sig = if fin["burst"] == true { "deadlock:both-peers-in-SendBurst" }
            else if fin["handshake"] == true { "deadlock:cap0-both-peers-in-SendHave" } else { "deadlock:other" };
        if !sig.starts_with(spec_sig) {
            mismatch!("mismatch:final", format!("deadlock class differs: specification {spec_sig}, real sessions {sig}"));
        }
    }
    direct_checks(&run, &cfg, mutated, crashed, out, beh);
    ReplayEnd::Done
}

fn world_bounds(behs: &[Value]) -> (usize, usize, u32) {
    let (mut na, mut nl, mut ms) = (1usize, 1usize, 0u32);
    for b in behs {
        for key in ["storeA", "storeB"] {
            for row in b[key].as_array().map(|a| a.as_slice()).unwrap_or(&[]) {
                na = na.max(row[0].as_u64().unwrap_or(1) as usize);
                nl = nl.max(row[1].as_u64().unwrap_or(1) as usize);
                for s in row[2].as_array().map(|a| a.as_slice()).unwrap_or(&[]) {
                    ms = ms.max(s.as_u64().unwrap_or(0) as u32);
                }
            }
        }
    }
    // room for ConcurrentAppend
    (na, nl, ms + 2)
}

fn replay(args: &Args) {
    let input = args.input.clone().expect("--in");
    let behs = read_ndjson(&input);
    let prop = args.extra.get("prop").cloned().unwrap_or_else(|| "C19".into());
    let mut out = Outcome::new(
        args,
        "one evaluation = one TLC behaviour executed step by step on two real LogSync sessions over real SqliteStores; \
         distinct = distinct (capacity, stores, mutation/crash steps, schedule) behaviours that ran to their last step",
    );
    let rt = tokio::runtime::Builder::new_current_thread().enable_all().build().expect("runtime");
    rt.block_on(async {
        let (na, nl, ms) = world_bounds(&behs);
        let mut rng = Rng::new(args.seed ^ 0x106);
        let world = Arc::new(World::new(na, nl, ms, &mut rng));
        let ctx = ReplayCtx { world, stores: [SqliteStore::temporary().await, SqliteStore::temporary().await], prop };
        for beh in &behs {
            out.eval();
            watchdog_case(beh);
            match replay_one(&ctx, beh, &mut out).await {
                ReplayEnd::Done => {
                    out.mark_distinct(beh.to_string());
                    out.count("followed_to_the_end");
                }
                ReplayEnd::AbandonedAtSelect => {}
            }
            if out.samples.is_empty() {
                out.sample(json!({"cap": beh["cap"], "storeA": beh["storeA"], "storeB": beh["storeB"],
                                  "steps": beh["steps"].as_array().map(|s| s.len()), "final": beh["final"]}));
            }
        }
    });
    out.write(args);
}

// ------------------------------------------------------------------------------------------
// record
// ------------------------------------------------------------------------------------------

fn random_log(rng: &mut Rng, max_h: u32) -> Vec<u32> {
    match rng.below(10) {
        0..=2 => vec![],
        3..=6 => (0..=rng.range(0, max_h as u64) as u32).collect(),
        _ => {
            let hi = rng.range(0, max_h as u64) as u32;
            let lo = rng.range(0, hi as u64) as u32;
            (lo..=hi).collect()
        }
    }
}

fn random_config(rng: &mut Rng, focus: &str, na: usize, nl: usize, max_h: u32) -> Config {
    let used_a = rng.range(1, na as u64) as usize;
    let used_l = rng.range(1, nl as u64) as usize;
    let mut content = [Content::new(), Content::new()];
    let empty_side = rng.chance(1, 8);
    let small = rng.chance(1, 2);
    let h = if small { 3.min(max_h) } else { max_h };
    for a in 1..=used_a {
        for l in 1..=used_l {
            // both replicas hold pieces of the same honest chain
            for p in 0..2 {
                if empty_side && p == 1 {
                    continue;
                }
                let v = random_log(rng, h);
                if !v.is_empty() {
                    content[p].insert((a, l), v);
                }
            }
            // sometimes identical logs (nothing to do for this log)
            if rng.chance(1, 6) {
                if let Some(v) = content[0].get(&(a, l)).cloned() {
                    content[1].insert((a, l), v);
                }
            }
        }
    }
    let all: Vec<(usize, usize)> = (1..=used_a).flat_map(|a| (1..=used_l).map(move |l| (a, l))).collect();
    let mut slogs = [all.clone(), all.clone()];
    // sometimes one session is configured without some log (it does not know the log belongs
    // to the topic yet)
    if rng.chance(1, 5) && all.len() > 1 {
        let p = rng.below(2) as usize;
        let drop = rng.below(all.len() as u64) as usize;
        slogs[p].remove(drop);
    }
    let cap = match focus {
        "c21" => *rng.pick(&[0u64, 1, 1, 2, 2, 3, 5, 8, UNBOUNDED]),
        _ => *rng.pick(&[UNBOUNDED, UNBOUNDED, 1000]),
    };
    Config { cap, content, slogs }
}

async fn record_one(
    world: &Arc<World>,
    stores: &[SqliteStore; 2],
    cfg: &Config,
    focus: &str,
    rng: &mut Rng,
    max_h: u32,
    out: &mut Outcome,
) -> Vec<Value> {
    for p in 0..2 {
        fill_store(&stores[p], world, &cfg.content[p]).await;
    }
    let mut run = Run::new(world.clone(), stores, cfg.cap, [&cfg.slogs[0], &cfg.slogs[1]]);
    run.push(json!({"ev": "Reset", "cap": cfg.cap, "storeA": store_json(&cfg.content[0]), "storeB": store_json(&cfg.content[1]),
                    "logsA": keys_json(&cfg.slogs[0]), "logsB": keys_json(&cfg.slogs[1])}));
    run.push(json!({"ev": "Start", "p": "A"}));
    run.push(json!({"ev": "Start", "p": "B"}));
    let mut muts_left = match focus {
        "c20" => rng.range(1, 3),
        "c21" => if rng.chance(2, 3) { rng.range(1, 2) } else { 0 },
        _ => 0,
    };
    let mut crash_left = focus == "c21" && rng.chance(1, 4);
    let mut mutated = false;
    let mut crashed = false;
    // current content of the stores (to choose effective mutations)
    let mut now = cfg.content.clone();
    let bias = rng.range(1, 9); // scheduling bias towards A, in tenths
    let withhold = rng.below(4); // in quarters: probability that an inbound message stays in flight
    let mut idle_rounds = 0;
    let mut stuck = false;
    loop {
        if !run.active(0) && !run.active(1) {
            break;
        }
        // concurrent store change
        let mp = rng.below(2) as usize;
        // the window between the Have message and the size queries is short: prefer it
        let early = run.sh.lock().unwrap().sent[mp].len() == 1;
        if muts_left > 0 && rng.chance(if early { 3 } else { 1 }, 6) {
            let p = mp;
            let mut keys: Vec<(usize, usize)> = cfg.slogs[p].clone();
            if early || focus == "c21" || rng.chance(1, 2) {
                // logs this replica has data of
                let with_rows: Vec<(usize, usize)> = keys.iter().copied().filter(|k| now[p].get(k).map(|r| !r.is_empty()).unwrap_or(false)).collect();
                if !with_rows.is_empty() {
                    keys = with_rows;
                }
            }
            if run.active(p) && !keys.is_empty() {
                let (a, l) = *rng.pick(&keys);
                let rows = now[p].get(&(a, l)).cloned().unwrap_or_default();
                let choice = rng.below(3);
                let m: Option<(&str, u32)> = if (choice == 0 || ((early || focus == "c21") && choice == 2)) && !rows.is_empty() {
                    // prune below a point, often the whole log
                    let top = *rows.iter().max().unwrap();
                    let low = *rows.iter().min().unwrap();
                    let n = if rng.chance(1, 2) { top + 1 } else { rng.range(low as u64 + 1, top as u64 + 1) as u32 };
                    Some(("prune", n))
                } else if choice == 1 && !rows.is_empty() {
                    Some(("delete", *rng.pick(&rows)))
                } else {
                    let next = rows.iter().max().map(|m| m + 1).unwrap_or(0);
                    if next <= max_h + 1 { Some(("append", next)) } else { None }
                };
                if let Some((kind, arg)) = m {
                    let after = run.mutate(p, kind, a, l, arg).await;
                    now[p].insert((a, l), after);
                    muts_left -= 1;
                    mutated = true;
                    out.count(&format!("mutate_{kind}"));
                }
            }
        }
        if crash_left && rng.chance(1, 25) {
            let p = rng.below(2) as usize;
            if run.active(p) {
                run.crash(p);
                crash_left = false;
                crashed = true;
                out.count("crashes");
                continue;
            }
        }
        let p = if rng.below(10) < bias { 0 } else { 1 };
        let p = if run.active(p) { p } else { 1 - p };
        let g = if rng.below(4) < withhold { Grant::AnyButRecv } else { Grant::Any };
        run.grant(p, g);
        let e = run.step(p).await;
        if e.new_events > 0 || e.finished {
            idle_rounds = 0;
            continue;
        }
        idle_rounds += 1;
        if idle_rounds >= 4 {
            // nothing moves under the random grants: decide with everything granted
            if run.free_run().await == 0 {
                stuck = run.active(0) || run.active(1);
                break;
            }
            idle_rounds = 0;
        }
    }
    if stuck {
        run.push(json!({"ev": "Stuck"}));
    }
    let case = json!({"cap": cfg.cap, "storeA": store_json(&cfg.content[0]), "storeB": store_json(&cfg.content[1]),
                      "logsA": keys_json(&cfg.slogs[0]), "logsB": keys_json(&cfg.slogs[1])});
    direct_checks(&run, cfg, mutated, crashed, out, &case);
    let sh = run.sh.lock().unwrap();
    let recv_during_burst = sh.log.iter().filter(|e| e["ev"] == "Recv").count();
    out.count_by("recv_events", recv_during_burst as u64);
    out.mark_distinct(format!("{}|{}|{}", cfg.cap, store_json(&cfg.content[0]), store_json(&cfg.content[1])));
    if out.samples.is_empty() {
        out.sample(case);
    }
    sh.log.clone()
}

fn record(args: &Args) {
    let focus = args.extra.get("focus").cloned().unwrap_or_else(|| "c19".into());
    let na = args.extra_usize("authors", 8);
    let nl = args.extra_usize("logs", 3);
    let max_h = args.extra_usize("maxh", 40) as u32;
    let mut out = Outcome::new(
        args,
        "one evaluation = one seeded random pair of replicas synced by two real LogSync sessions under a random schedule \
         (plus random concurrent prune/delete/append and crash where the property asks for them); distinct = distinct (capacity, stores) pairs",
    );
    let path = args.out.clone().expect("--out");
    let mut tw = TraceWriter::create(&path);
    let rt = tokio::runtime::Builder::new_current_thread().enable_all().build().expect("runtime");
    rt.block_on(async {
        let mut rng = Rng::new(args.seed ^ 0x5106);
        let world = Arc::new(World::new(na, nl, max_h + 2, &mut rng));
        let stores = [SqliteStore::temporary().await, SqliteStore::temporary().await];
        for _ in 0..args.n.max(1) {
            let cfg = random_config(&mut rng, &focus, na, nl, max_h);
            out.eval();
            watchdog_case(&json!({"cap": cfg.cap, "storeA": store_json(&cfg.content[0]), "storeB": store_json(&cfg.content[1])}));
            let log = record_one(&world, &stores, &cfg, &focus, &mut rng, max_h, &mut out).await;
            for e in log {
                tw.event(e);
            }
        }
    });
    let (events, runs) = tw.finish();
    out.set_trace(events, runs);
    out.write(args);
}

pub fn run(args: &Args) {
    watchdog_start(args);
    match args.mode.as_str() {
        "replay" => replay(args),
        "record" => record(args),
        _ => vh_common::unknown(args),
    }
}
