//! Conformance harness binary `vh-logsync`: one module per TLA+ specification (see /verif/spec).
mod logsync;

fn main() {
    let args = vh_common::Args::parse();
    vh_common::quiet_panics();
    match args.module.as_str() {
        "logsync" => logsync::run(&args),
        _ => vh_common::unknown(&args),
    }
}
