//! Conformance harness binary `vh-pipeline`: one module per TLA+ specification (see /verif/spec).
mod pipeline;

fn main() {
    let args = vh_common::Args::parse();
    vh_common::quiet_panics();
    match args.module.as_str() {
        "pipeline" => pipeline::run(&args),
        _ => vh_common::unknown(&args),
    }
}
