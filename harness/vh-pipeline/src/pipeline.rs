//! OpLog, node level (C04, and C01/C03/C05 seen through the node's pipeline): the real
//! `p2panda::processor::Pipeline` (Ingest -> LogPrune on its own thread, `TaskTracker`, events built
//! by `Event::new` exactly as `streams/stream.rs::process_operation` does) over a real `SqliteStore`,
//! with the node's `Extensions` / `LogId` / `Topic` types, against spec/OpLog.
//!
//! * `replay`: TLC-exported behaviours of MC_OpLog with one event in flight; every Submit is one
//!   `Pipeline::process` call; the returned event (ingest / log_prune status) and the stored set are
//!   compared with the spec's Ingest and Prune steps, and C01/C03/C04/C05 are evaluated on the
//!   implementation's own before/after store.
//! * `record`: seeded random histories through the same pipeline, partly with several callers in
//!   flight (only events of different logs are overlapped, so that the order of the recorded
//!   linearisation points is unambiguous); the order of the stages is taken from the cfg-guarded
//!   `verif::emit` hooks in pipeline.rs; validated by Trace_OpLog.tla.
//!
//! The world / forgery-class code is the same as in vh-oplog (other extension type).
use std::collections::{BTreeMap, BTreeSet, VecDeque};
use std::time::Duration;

use p2panda::operation::{Extensions, LogId};
use p2panda::processor::{Event, ProcessorStatus};
use p2panda::verif_api::{Pipeline, TaskTracker};
use p2panda_core::{Body, Hash, Header, Operation, Signature, SigningKey, Topic, VerifyingKey};
use p2panda_store::SqliteStore;
use p2panda_store::logs::LogStore;
use p2panda_store::operations::OperationStore;
use p2panda_stream::ingest::{IngestError, IngestResult};
use p2panda_stream::log_prune::LogPruneResult;
use vh_common::{Args, Outcome, Rng, TraceWriter, Value, catch, json, read_ndjson, unknown};

pub type Op = Operation<Extensions>;


/// Records a violation; further violations of the same (property, signature) are only counted
/// (one replayable case per failure class, and rare classes are not crowded out of the result).
fn viol(out: &mut Outcome, property: &str, signature: &str, detail: String, case: Value) {
    if out.violations.iter().any(|v| v.property == property && v.signature == signature) {
        out.violations_total += 1;
    } else {
        out.violation(property, signature, detail, case);
    }
}

/// Vacuity guard: `--require a,b` makes a run without a single occurrence of counter a or b a tool error.
fn require_counters(out: &Outcome, args: &Args) {
    if let Some(req) = args.extra.get("require") {
        for c in req.split(',').filter(|c| !c.is_empty()) {
            if out.counters.get(c).copied().unwrap_or(0) == 0 {
                eprintln!("vacuous run: counter `{c}` is zero");
                std::process::exit(2);
            }
        }
    }
}

pub fn run(args: &Args) {
    match args.mode.as_str() {
        "replay" => replay(args),
        "record" => record(args),
        _ => unknown(args),
    }
}

/// Log name of the spec -> topic (the node derives the log id from the topic).
fn topic_of(l: &str) -> Topic {
    Topic::from(Hash::digest(format!("vh-pipeline topic {l}").as_bytes()))
}

// ------------------------------------------------------------------------------------------
// The concrete world

/// `[a, l, seq, v]` id record of the spec -> flat key.
fn idkey(v: &Value) -> String {
    format!(
        "{}|{}|{}|{}",
        v["a"].as_str().unwrap_or("?"),
        v["l"].as_str().unwrap_or("?"),
        v["seq"].as_i64().unwrap_or(-9),
        v["v"].as_str().unwrap_or("?")
    )
}

fn mkid(a: &str, l: &str, seq: u32, v: &str) -> Value {
    json!({"a": a, "l": l, "seq": seq, "v": v})
}

/// What the harness knows about a concrete operation it built (the *intended* abstract fields).
#[derive(Clone, Debug)]
pub struct Info {
    pub key: String,
    pub a: String,
    /// the log the operation is delivered under (log id argument / arrival topic)
    pub l: String,
    /// the log its signed header names
    pub ol: String,
    pub seq: u32,
    pub prune: bool,
    pub bl: Option<String>,
    pub wf: bool,
}

pub struct World {
    salt: String,
    /// honest prune positions
    pub prune: BTreeSet<(String, String, u32)>,
    keys: BTreeMap<String, SigningKey>,
    names: BTreeMap<VerifyingKey, String>,
    honest: BTreeMap<(String, String, u32), Op>,
    /// operation hash -> info of the operation with that hash
    pub by_hash: BTreeMap<Hash, Info>,
}

impl World {
    pub fn new(salt: String) -> World {
        World {
            salt,
            prune: BTreeSet::new(),
            keys: BTreeMap::new(),
            names: BTreeMap::new(),
            honest: BTreeMap::new(),
            by_hash: BTreeMap::new(),
        }
    }

    pub fn key(&mut self, name: &str) -> SigningKey {
        if let Some(k) = self.keys.get(name) {
            return k.clone();
        }
        let seed = Hash::digest(format!("vh-pipeline/{}/{}", self.salt, name).as_bytes());
        let k = SigningKey::from_bytes(seed.as_bytes());
        self.keys.insert(name.to_string(), k.clone());
        self.names.insert(k.verifying_key(), name.to_string());
        k
    }

    pub fn vk(&mut self, name: &str) -> VerifyingKey {
        self.key(name).verifying_key()
    }

    pub fn author_names(&self) -> Vec<String> {
        self.keys.keys().cloned().collect()
    }

    pub fn name_of(&self, vk: &VerifyingKey) -> String {
        self.names.get(vk).cloned().unwrap_or_else(|| format!("key:{}", vk.to_hex()))
    }

    fn body_for(a: &str, l: &str, s: u32) -> (Option<Body>, bool) {
        // (payload the header commits to, is the body attached?)
        match s % 3 {
            0 => (Some(Body::new(format!("payload of {a}/{l}/{s}").as_bytes())), true),
            1 => (None, false),
            _ => (Some(Body::new(format!("withheld payload of {a}/{l}/{s}").as_bytes())), false),
        }
    }

    /// The one honest operation of author `a` in log `l` at `s` (non-equivocating world).
    pub fn honest(&mut self, a: &str, l: &str, s: u32) -> Op {
        let k = (a.to_string(), l.to_string(), s);
        if let Some(op) = self.honest.get(&k) {
            return op.clone();
        }
        let backlink = if s == 0 { None } else { Some(self.honest(a, l, s - 1).hash) };
        let sk = self.key(a);
        let (payload, attached) = Self::body_for(a, l, s);
        let prune = self.prune.contains(&k);
        let mut header = Header {
            version: 1,
            verifying_key: sk.verifying_key(),
            signature: None,
            payload_size: payload.as_ref().map(|b| b.size()).unwrap_or(0),
            payload_hash: payload.as_ref().map(|b| b.hash()),
            seq_num: s,
            backlink,
            extensions: Extensions::from_topic(topic_of(l)).set_prune_flag(prune),
        };
        header.sign(&sk);
        let op = Operation {
            hash: header.hash(),
            header,
            body: if attached { payload } else { None },
        };
        self.honest.insert(k, op.clone());
        self.by_hash.insert(
            op.hash,
            Info {
                key: format!("{a}|{l}|{s}|Honest"),
                a: a.to_string(),
                l: l.to_string(),
                ol: l.to_string(),
                seq: s,
                prune,
                bl: if s == 0 { None } else { Some(format!("{a}|{l}|{}|Honest", s - 1)) },
                wf: true,
            },
        );
        op
    }

    /// Realises a forgery class of the spec by actual mutation of the honest operation `base`.
    /// `param` is the class parameter (author name / sequence number), `tweak` varies the concrete
    /// bytes (which signature bit, ...) without leaving the class.
    pub fn concretise(&mut self, cls: &str, param: &str, base: &Op, tweak: u64) -> Op {
        let mut h = base.header.clone();
        let mut body = base.body.clone();
        let author = self.name_of(&h.verifying_key);
        match cls {
            "Honest" | "CrossLog" => {}
            "BadSig" => {
                let mut sig = h.signature.expect("signed").to_bytes();
                let bit = (tweak % 512) as usize;
                sig[bit / 8] ^= 1 << (bit % 8);
                h.signature = Some(Signature::from_bytes(&sig));
            }
            // signed by the claimed author, but malformed
            "BadVersion" => {
                h.version = if tweak % 2 == 0 { 2 } else { 0 };
                h.sign(&self.key(&author));
            }
            "PayloadInfoInconsistent" => {
                if h.payload_hash.is_some() {
                    h.payload_size = 0;
                } else {
                    h.payload_size = 5;
                }
                h.sign(&self.key(&author));
            }
            "BacklinkSeqInconsistent" => {
                if h.seq_num > 0 {
                    h.backlink = None;
                } else {
                    h.backlink = Some(Hash::digest(b"a backlink at seq 0"));
                }
                h.sign(&self.key(&author));
            }
            "BodyMismatch" => {
                body = Some(Body::new(b"this is not the body the header commits to"));
            }
            // header field changed, signature left as it was
            "ClaimOtherAuthor" => h.verifying_key = self.vk(param),
            "PruneFlipped" => h.extensions = h.extensions.clone().set_prune_flag(!h.extensions.prune_flag().is_set()),
            "SeqChanged" => h.seq_num = param.parse().expect("seq param"),
            "BacklinkChanged" => h.backlink = Some(Hash::digest(b"elsewhere")),
            "ForgedPrune" => {
                h.verifying_key = self.vk(param);
                h.extensions = h.extensions.clone().set_prune_flag(true);
                let mut rng = Rng::new(tweak ^ 0xF0F0);
                let mut sig = [0u8; 64];
                sig.copy_from_slice(&rng.bytes(64));
                h.signature = Some(Signature::from_bytes(&sig));
            }
            // verifying key replaced AND re-signed by the attacker: a valid operation of the attacker
            "Resigned" => {
                let sk = self.key(param);
                h.verifying_key = sk.verifying_key();
                h.sign(&sk);
            }
            other => {
                eprintln!("unknown forgery class {other}");
                std::process::exit(2);
            }
        }
        Operation { hash: h.hash(), header: h, body }
    }

    pub fn register(&mut self, op: &Op, info: Info) {
        // a copy with a foreign BODY has the header (and hash) of the honest operation: rows with
        // that hash are rows of the honest operation
        self.by_hash.entry(op.hash).or_insert(info);
    }
}

// ------------------------------------------------------------------------------------------
// The implementation side: the node's pipeline

#[derive(Clone, Debug, PartialEq, Eq, PartialOrd, Ord)]
pub struct Row {
    pub key: String,
    pub a: String,
    pub l: String,
    pub seq: u32,
    pub prune: bool,
    pub hash: Hash,
    pub backlink: Option<Hash>,
}

#[derive(Clone, Copy, Debug, PartialEq, Eq)]
pub enum Res {
    Inserted,
    AlreadyExists,
    Rejected,
}

impl Res {
    pub fn name(&self) -> &'static str {
        match self {
            Res::Inserted => "Inserted",
            Res::AlreadyExists => "AlreadyExists",
            Res::Rejected => "Rejected",
        }
    }
}

pub struct Processed {
    pub res: Res,
    /// Some(n): LogPrune ran `prune_entries` and deleted n rows; None: Noop
    pub pruned: Option<u64>,
    pub completed: bool,
    pub failed: bool,
}

pub struct Impl {
    pub store: SqliteStore,
    pipeline: Pipeline<LogId, Extensions, Topic>,
}

type Ev = Event<LogId, Extensions, Topic>;

impl Impl {
    pub async fn new() -> Impl {
        let store = SqliteStore::temporary().await;
        let pipeline = Pipeline::new(store.clone(), TaskTracker::new());
        Impl { store, pipeline }
    }

    pub async fn wipe(&self) -> Result<(), String> {
        self.store
            .execute(async |pool| {
                sqlx::query("DELETE FROM operations_v1").execute(pool).await?;
                sqlx::query("DELETE FROM topics_v1").execute(pool).await?;
                Ok(())
            })
            .await
            .map_err(|e| e.to_string())
    }

    /// Exactly what `process_operation` / `process_published_operation` (streams/stream.rs:331,428)
    /// do with an operation that arrived on `topic`.
    fn event(op: &Op, l: &str) -> Ev {
        let topic = topic_of(l);
        let log_id = LogId::from_topic(topic);
        let prune_flag = op.header.extensions.prune_flag();
        Event::verif_new(op.clone(), log_id, topic, prune_flag)
    }

    fn read(ev: &Ev) -> Result<Processed, String> {
        let res = match ev.verif_ingest() {
            ProcessorStatus::Completed(IngestResult::Inserted) => Res::Inserted,
            ProcessorStatus::Completed(IngestResult::AlreadyExists) => Res::AlreadyExists,
            ProcessorStatus::Failed(IngestError::InvalidOperation(_)) => Res::Rejected,
            ProcessorStatus::Failed(IngestError::StoreError(e)) => return Err(format!("ingest store error: {e}")),
            ProcessorStatus::Pending => return Err("event returned with ingest still pending".into()),
        };
        let pruned = match ev.verif_log_prune() {
            ProcessorStatus::Completed(LogPruneResult::Pruned { num_entries }) => Some(*num_entries),
            ProcessorStatus::Completed(LogPruneResult::Noop) => None,
            ProcessorStatus::Failed(e) => return Err(format!("log prune store error: {e}")),
            ProcessorStatus::Pending => return Err("event returned with log_prune still pending".into()),
        };
        Ok(Processed { res, pruned, completed: ev.is_completed(), failed: ev.is_failed() })
    }

    /// One operation through `Pipeline::process`.
    pub async fn process(&self, op: &Op, l: &str) -> Result<Processed, String> {
        let fut = self.pipeline.process(Self::event(op, l));
        // The pipeline runs on its own thread with its own runtime; if it died the task is never
        // marked done. 60 s for a sub-millisecond job can only expire on a dead pipeline.
        match tokio::time::timeout(Duration::from_secs(60), fut).await {
            Ok(ev) => Self::read(&ev),
            Err(_) => Err("Pipeline::process did not return (pipeline thread dead?)".into()),
        }
    }

    /// Several callers at once (all futures polled on this thread, the pipeline thread interleaves
    /// its two stages as it likes).
    pub async fn process_many(&self, ops: &[(Op, String)]) -> Result<Vec<Processed>, String> {
        let futs: Vec<_> = ops.iter().map(|(op, l)| self.pipeline.process(Self::event(op, l))).collect();
        match tokio::time::timeout(Duration::from_secs(60), futures_util::future::join_all(futs)).await {
            Ok(evs) => evs.iter().map(Self::read).collect(),
            Err(_) => Err("Pipeline::process did not return (pipeline thread dead?)".into()),
        }
    }

    pub async fn project(&self, world: &World, authors: &[(String, VerifyingKey)], logs: &[String]) -> Result<BTreeSet<Row>, String> {
        let mut rows = BTreeSet::new();
        for (name, vk) in authors {
            for l in logs {
                let log_id = LogId::from_topic(topic_of(l));
                let entries = <SqliteStore as LogStore<Op, VerifyingKey, LogId, u32, Hash>>::get_log_entries(
                    &self.store, vk, &log_id, None, None,
                )
                .await
                .map_err(|e| e.to_string())?;
                for (op, _) in entries.unwrap_or_default() {
                    let key = world
                        .by_hash
                        .get(&op.hash)
                        .map(|i| i.key.clone())
                        .unwrap_or_else(|| format!("unknown|{}", op.hash.to_hex()));
                    rows.insert(Row {
                        key,
                        a: name.clone(),
                        l: l.clone(),
                        seq: op.header.seq_num,
                        prune: op.header.extensions.prune_flag().is_set(),
                        hash: op.hash,
                        backlink: op.header.backlink,
                    });
                }
            }
        }
        Ok(rows)
    }

    pub async fn total_rows(&self) -> Result<i64, String> {
        self.store
            .execute(async |pool| {
                let n: (i64,) = sqlx::query_as("SELECT COUNT(*) FROM operations_v1").fetch_one(pool).await?;
                Ok(n.0)
            })
            .await
            .map_err(|e| e.to_string())
    }

    pub async fn has(&self, hash: &Hash) -> Result<bool, String> {
        <SqliteStore as OperationStore<Op, Hash>>::has_operation(&self.store, hash).await.map_err(|e| e.to_string())
    }
}

fn keys_of(rows: &BTreeSet<Row>) -> BTreeSet<String> {
    rows.iter().map(|r| r.key.clone()).collect()
}

fn height(rows: &BTreeSet<Row>, a: &str, l: &str) -> i64 {
    rows.iter().filter(|r| r.a == a && r.l == l).map(|r| r.seq as i64).max().unwrap_or(-1)
}

fn logs_of(rows: &BTreeSet<Row>) -> BTreeSet<(String, String)> {
    rows.iter().map(|r| (r.a.clone(), r.l.clone())).collect()
}

// ------------------------------------------------------------------------------------------
// The properties, evaluated on the implementation's own observables

/// A finding: (property, signature, detail).
pub type Finding = (&'static str, String, String);

#[derive(Default)]
pub struct Judge {
    /// prune points (author, log, seq) the implementation itself INSERTED (C05)
    ingested_prunes: BTreeSet<(String, String, u32)>,
    /// prune points whose LogPrune ran as the effect of an accepted valid operation (C05)
    applied: BTreeSet<(String, String, u32)>,
}

impl Judge {
    /// After `ingest_operation` returned `res` for the operation described by `info`.
    pub fn after_ingest(&mut self, info: &Info, cls: &str, op: &Op, res: Res, before: &BTreeSet<Row>, after: &BTreeSet<Row>, has_after: bool) -> Vec<Finding> {
        let mut f: Vec<Finding> = Vec::new();
        // C01
        if !info.wf && res != Res::Rejected {
            f.push(("C01", format!("invalid-operation-accepted:{cls}"), format!("{} ({cls}) must fail validation but ingest returned {}", info.key, res.name())));
        }
        if res == Res::Rejected && before != after {
            f.push(("C01", "rejected-operation-changed-store".into(), format!("{} was rejected but the store changed: {:?} -> {:?}", info.key, keys_of(before), keys_of(after))));
        }
        if res == Res::Rejected && has_after && !before.iter().any(|r| r.hash == op.hash) {
            f.push(("C01", "rejected-operation-is-stored".into(), format!("{} was rejected but has_operation is true", info.key)));
        }
        if res != Res::Rejected && !has_after {
            f.push(("C01", "accepted-operation-not-stored".into(), format!("{} was reported {} but has_operation is false", info.key, res.name())));
        }
        // C04: ingest never deletes
        if before.difference(after).next().is_some() {
            f.push(("C04", "ingest-deleted-entries".into(), format!("ingest of {} removed {:?}", info.key, before.difference(after).map(|r| r.key.clone()).collect::<Vec<_>>())));
        }
        // C03
        for (a, l) in logs_of(before) {
            if height(after, &a, &l) < height(before, &a, &l) {
                f.push(("C03", "height-decreased".into(), format!("height of {a}/{l} went from {} to {}", height(before, &a, &l), height(after, &a, &l))));
            }
        }
        if res == Res::Inserted {
            let log: Vec<&Row> = before.iter().filter(|r| r.a == info.a && r.l == info.l).collect();
            let h = log.iter().map(|r| r.seq as i64).max().unwrap_or(-1);
            let s = op.header.seq_num as i64;
            let flagged = op.header.extensions.prune_flag().is_set();
            let non_extending = if log.is_empty() {
                s > 0 && !flagged
            } else if !flagged {
                s != h + 1 || !log.iter().any(|r| r.seq as i64 == h && Some(r.hash) == op.header.backlink)
            } else {
                s <= h
            };
            if non_extending {
                f.push(("C03", "non-extending-operation-accepted".into(), format!("{} (seq {s}, prune flag {flagged}) was inserted into a log of height {h}", info.key)));
            }
            if after.iter().filter(|r| r.a == info.a && r.l == info.l && r.seq == op.header.seq_num).count() > 1 {
                f.push(("C03", "duplicate-seq".into(), format!("{}/{} holds two entries with seq {}", info.a, info.l, s)));
            }
            // C05
            if let Some(p) = self.ingested_prunes.iter().find(|p| p.0 == info.a && p.1 == info.l && op.header.seq_num < p.2) {
                f.push(("C05", "stored-below-prune-point".into(), format!("{} (seq {}) was stored although a prune-flagged operation at seq {} of the same log had been ingested before", info.key, s, p.2)));
            }
            if flagged {
                self.ingested_prunes.insert((info.a.clone(), info.l.clone(), op.header.seq_num));
            }
        }
        f.extend(self.chain_check(after));
        f
    }

    /// Every stored entry with seq > 0 and no prune flag backlinks to the stored entry before it.
    fn chain_check(&self, rows: &BTreeSet<Row>) -> Vec<Finding> {
        let mut f = Vec::new();
        for r in rows {
            if r.seq > 0 && !r.prune {
                let ok = rows.iter().any(|p| p.a == r.a && p.l == r.l && p.seq + 1 == r.seq && Some(p.hash) == r.backlink);
                if !ok {
                    f.push(("C03", "broken-chain".into(), format!("stored entry {} (seq {}, no prune flag) has no stored predecessor it backlinks to", r.key, r.seq)));
                }
            }
        }
        for p in &self.applied {
            if let Some(r) = rows.iter().find(|r| r.a == p.0 && r.l == p.1 && r.seq < p.2) {
                f.push(("C05", "entry-below-applied-prune-point".into(), format!("{} (seq {}) is stored below the applied prune point {}", r.key, r.seq, p.2)));
            }
        }
        f
    }

    /// After the LogPrune stage ran for the event of `info` whose ingest result was `res`.
    /// `ran` = the args were PruneEntriesUntil (harness-level knowledge; None if unknown).
    pub fn after_prune(&mut self, info: &Info, res: Res, before: &BTreeSet<Row>, after: &BTreeSet<Row>) -> Vec<Finding> {
        let mut f: Vec<Finding> = Vec::new();
        let deleted: Vec<&Row> = before.difference(after).collect();
        let justified = info.wf && info.prune && res != Res::Rejected;
        if !deleted.is_empty() {
            if !justified {
                let sig = if res == Res::Rejected { "prune-after-failed-ingest" } else { "prune-without-valid-prune-operation" };
                f.push(("C04", sig.into(), format!("{} (valid: {}, prune flag: {}, ingest: {}) deleted {:?}", info.key, info.wf, info.prune, res.name(), deleted.iter().map(|r| r.key.clone()).collect::<Vec<_>>())));
            } else if info.l != info.ol {
                f.push(("C04", "cross-log-prune".into(), format!("{} is an operation of log {}/{} that arrived on the topic of log {}: it deleted {:?} of {}/{}", info.key, info.a, info.ol, info.l, deleted.iter().map(|r| r.key.clone()).collect::<Vec<_>>(), info.a, info.l)));
            } else if deleted.iter().any(|r| r.a != info.a || r.l != info.l || r.seq >= info.seq) {
                f.push(("C04", "prune-outside-own-log-prefix".into(), format!("{} (prune point {}/{}/{}) deleted {:?}", info.key, info.a, info.l, info.seq, deleted.iter().map(|r| r.key.clone()).collect::<Vec<_>>())));
            }
        }
        if justified && info.l == info.ol {
            if let Some(r) = after.iter().find(|r| r.a == info.a && r.l == info.l && r.seq < info.seq) {
                f.push(("C04", "prune-incomplete".into(), format!("after the prune point {}/{}/{} was processed {} (seq {}) is still stored", info.a, info.l, info.seq, r.key, r.seq)));
            }
            self.applied.insert((info.a.clone(), info.l.clone(), info.seq));
        }
        if after.difference(before).next().is_some() {
            f.push(("C04", "prune-added-entries".into(), "LogPrune added rows".into()));
        }
        for (a, l) in logs_of(before) {
            if height(after, &a, &l) < height(before, &a, &l) {
                f.push(("C03", "height-decreased".into(), format!("height of {a}/{l} went from {} to {}", height(before, &a, &l), height(after, &a, &l))));
            }
        }
        f.extend(self.chain_check(after));
        f
    }
}

// ------------------------------------------------------------------------------------------
// replay: spec -> impl

fn expected_store(step: &Value) -> BTreeSet<String> {
    step["store"].as_array().map(|a| a.iter().map(idkey).collect()).unwrap_or_default()
}

fn replay(args: &Args) {
    let behaviours = read_ndjson(args.input.as_ref().expect("--in"));
    let mut out = Outcome::new(
        args,
        "every TLC-exported behaviour of MC_OpLog with one event in flight executed on the node's real Pipeline \
         (Event::new + Pipeline::process, Ingest and LogPrune stages on the pipeline thread, SqliteStore, node Extensions); \
         returned ingest / log_prune status and the stored set compared with the spec after every event, C01/C03/C04/C05 \
         evaluated on the implementation's before/after store; distinct = behaviours containing a rejected, deduplicated or \
         pruning event, keyed by world + step list",
    );
    let rt = tokio::runtime::Builder::new_current_thread().enable_all().build().expect("runtime");
    let mut imp: Option<Impl> = None;
    for (bi, b) in behaviours.iter().enumerate() {
        out.eval();
        if imp.is_none() {
            imp = Some(rt.block_on(Impl::new()));
        }
        let r = catch(|| {
            rt.block_on(async {
                let imp = imp.as_ref().unwrap();
                imp.wipe().await?;
                replay_one(imp, b, bi, &mut out).await
            })
        });
        match r {
            Ok(Ok(())) => {}
            Ok(Err(e)) => {
                viol(&mut out, "*", "pipeline-error", format!("pipeline / store error: {e}"), b.clone());
                imp = None;
            }
            Err(p) => {
                viol(&mut out, "*", "panic", format!("the code under test panicked: {p}"), b.clone());
                imp = None;
            }
        }
    }
    require_counters(&out, args);
    out.write(args);
}

fn item_info(item: &Value) -> Info {
    Info {
        key: idkey(&item["id"]),
        a: item["a"].as_str().unwrap().to_string(),
        l: item["l"].as_str().unwrap().to_string(),
        ol: item["ol"].as_str().unwrap().to_string(),
        seq: item["seq"].as_u64().unwrap() as u32,
        prune: item["prune"].as_bool().unwrap(),
        bl: if item["bl"]["seq"].as_i64() == Some(-1) { None } else { Some(idkey(&item["bl"])) },
        wf: item["wf"].as_bool().unwrap(),
    }
}

/// Judges one event that went through both stages: `mid` (the store between the stages) is
/// reconstructed as before + added rows, i.e. every deletion is attributed to the LogPrune stage.
#[allow(clippy::too_many_arguments)]
fn judge_event(judge: &mut Judge, info: &Info, cls: &str, op: &Op, r: &Processed, before: &BTreeSet<Row>, after: &BTreeSet<Row>, has: bool) -> (Vec<Finding>, BTreeSet<Row>) {
    let mut mid = before.clone();
    for row in after.difference(before) {
        mid.insert(row.clone());
    }
    let mut f = judge.after_ingest(info, cls, op, r.res, before, &mid, has || mid.iter().any(|x| x.hash == op.hash));
    f.extend(judge.after_prune(info, r.res, &mid, after));
    if !info.wf && (r.completed || !r.failed) {
        f.push(("C01", format!("invalid-operation-completed:{cls}"), format!("{} ({cls}) fails validation but the pipeline returned it as completed", info.key)));
    }
    (f, mid)
}

async fn replay_one(imp: &Impl, b: &Value, bi: usize, out: &mut Outcome) -> Result<(), String> {
    let mut world = World::new(format!("b{bi}"));
    for p in b["world"].as_array().cloned().unwrap_or_default() {
        world.prune.insert((p[0].as_str().expect("a").to_string(), p[1].as_str().expect("l").to_string(), p[2].as_u64().expect("s") as u32));
    }
    let steps = b["steps"].as_array().expect("steps");
    let mut logs: BTreeSet<String> = BTreeSet::new();
    for st in steps {
        if st["act"] == "Submit" {
            world.key(st["item"]["a"].as_str().expect("a"));
            world.key(st["base"]["a"].as_str().expect("base a"));
            logs.insert(st["item"]["l"].as_str().expect("l").to_string());
        }
    }
    let logs: Vec<String> = logs.into_iter().collect();
    let authors: Vec<(String, VerifyingKey)> = world.author_names().into_iter().map(|n| { let vk = world.vk(&n); (n, vk) }).collect();
    if steps.len() % 3 != 0 {
        eprintln!("vh-pipeline replays behaviours with ONE event in flight (Submit, Ingest, Prune triples)");
        std::process::exit(2);
    }
    let mut judge = Judge::default();
    let mut cur = imp.project(&world, &authors, &logs).await?;
    let mut nontrivial = false;
    for (ti, triple) in steps.chunks(3).enumerate() {
        let (sub, ing, pru) = (&triple[0], &triple[1], &triple[2]);
        if sub["act"] != "Submit" || ing["act"] != "Ingest" || pru["act"] != "Prune" {
            eprintln!("vh-pipeline replays behaviours with ONE event in flight (Submit, Ingest, Prune triples)");
            std::process::exit(2);
        }
        let si = ti * 3;
        let item = &sub["item"];
        let cls = sub["cls"].as_str().expect("cls").to_string();
        let base = &sub["base"];
        let base_op = world.honest(base["a"].as_str().unwrap(), base["l"].as_str().unwrap(), base["seq"].as_u64().unwrap() as u32);
        let tag = item["id"]["v"].as_str().unwrap_or("");
        let param = tag.split_once(':').map(|x| x.1).unwrap_or("");
        let op = world.concretise(&cls, param, &base_op, (bi * 31 + si) as u64);
        let info = item_info(item);
        let a_name = world.name_of(&op.header.verifying_key);
        if a_name != info.a || op.header.seq_num != info.seq || op.header.extensions.prune_flag().is_set() != info.prune {
            eprintln!("harness bug: concretisation of {cls} does not match the item: {item}");
            std::process::exit(2);
        }
        if cls != "Honest" {
            world.register(&op, info.clone());
        }
        out.count(&format!("class:{cls}"));
        let r = imp.process(&op, &info.l).await?;
        let after = imp.project(&world, &authors, &logs).await?;
        let has = imp.has(&op.hash).await?;
        out.count(&format!("ingest:{}", r.res.name()));
        let (mut findings, mid) = judge_event(&mut judge, &info, &cls, &op, &r, &cur, &after, has);
        let want = ing["res"].as_str().expect("res");
        if want != r.res.name() {
            findings.push(("*", "ingest-result-differs-from-spec".into(), format!("ingest of {} returned {}, the specification says {}", info.key, r.res.name(), want)));
        }
        if keys_of(&mid) != expected_store(ing) && keys_of(&after) == expected_store(pru) {
            // only reachable if a row was added and removed again inside one event
            findings.push(("*", "store-differs-from-spec".into(), format!("after ingest of {}: stored {:?}, the specification says {:?}", info.key, keys_of(&mid), expected_store(ing))));
        }
        let want_pruned = pru["pruned"].as_u64().expect("pruned");
        if r.pruned.unwrap_or(0) != want_pruned {
            findings.push(("*", "prune-result-differs-from-spec".into(), format!("LogPrune for {} reported {:?} deleted rows, the specification says {}", info.key, r.pruned, want_pruned)));
        }
        if keys_of(&after) != expected_store(pru) {
            findings.push(("*", "store-differs-from-spec".into(), format!("after {}: stored {:?}, the specification says {:?}", info.key, keys_of(&after), expected_store(pru))));
        }
        if after.len() as i64 != imp.total_rows().await? {
            findings.push(("C01", "stray-rows".into(), "operations_v1 holds rows that are not reachable through the logs of the known authors".into()));
        }
        if r.res != Res::Inserted || r.pruned.unwrap_or(0) > 0 {
            nontrivial = true;
        }
        if r.pruned.unwrap_or(0) > 0 {
            out.count("prune:deleted");
        }
        let bad = !findings.is_empty();
        for (prop, sig, detail) in findings {
            viol(out, prop, &sig, format!("event {ti} (step {si}): {detail}"), b.clone());
        }
        cur = after;
        if bad {
            return Ok(());
        }
    }
    if nontrivial {
        out.mark_distinct(format!("{}|{}", b["world"], steps.iter().map(|s| format!("{}{}", s["act"].as_str().unwrap_or(""), s["item"]["id"])).collect::<Vec<_>>().join(",")));
    }
    out.sample(json!({"kind": "oplog", "world": b["world"], "steps": steps.len(), "first": steps.first()}));
    Ok(())
}

// ------------------------------------------------------------------------------------------
// record: impl -> spec

fn info_json(i: &Info) -> Value {
    let id: Vec<&str> = i.key.split('|').collect();
    let bl = match &i.bl {
        Some(k) => {
            let p: Vec<&str> = k.split('|').collect();
            json!({"a": p[0], "l": p[1], "seq": p[2].parse::<i64>().unwrap_or(-1), "v": p[3]})
        }
        None => json!({"a": "", "l": "", "seq": -1, "v": ""}),
    };
    json!({
        "id": {"a": id[0], "l": id[1], "seq": id[2].parse::<i64>().unwrap_or(-1), "v": id[3]},
        "a": i.a, "l": i.l, "ol": i.ol, "seq": i.seq, "prune": i.prune, "bl": bl, "wf": i.wf,
    })
}

fn log_scalars(rows: &BTreeSet<Row>, a: &str, l: &str) -> Value {
    let seqs: Vec<u32> = rows.iter().filter(|r| r.a == a && r.l == l).map(|r| r.seq).collect();
    json!({
        "count": seqs.len(),
        "height": seqs.iter().max().map(|s| *s as i64).unwrap_or(-1),
        "low": seqs.iter().min().map(|s| *s as i64).unwrap_or(-1),
        "total": rows.len(),
    })
}

fn unobserved() -> Value {
    json!({"count": -1, "height": -1, "low": -1, "total": -1})
}

const FORGE_CLASSES: &[&str] = &[
    "BadSig", "BadVersion", "PayloadInfoInconsistent", "BacklinkSeqInconsistent", "BodyMismatch",
    "ClaimOtherAuthor", "PruneFlipped", "SeqChanged", "BacklinkChanged", "ForgedPrune", "Resigned",
];

fn record(args: &Args) {
    let mut rng = Rng::new(args.seed);
    let n = if args.n > 0 { args.n } else { 30 };
    let mut trace = TraceWriter::create(args.out.as_ref().expect("--out"));
    let mut out = Outcome::new(
        args,
        "seeded random histories (2-4 honest authors, 1-2 attacker keys, 1-2 topics, chains up to 12 with several prune points; \
         shuffled delivery, duplicates, drops, forged copies of every class incl. forged prune-flagged headers naming a victim, \
         late old prune-flagged operations; up to 3 callers in flight for events of different logs) through the node's real \
         Pipeline; stage order from the verif::emit hooks; one event per spec action",
    );
    let rt = tokio::runtime::Builder::new_current_thread().enable_all().build().expect("runtime");
    let mut imp: Option<Impl> = None;
    for run in 0..n {
        out.eval();
        let seed = rng.next_u64();
        if imp.is_none() {
            imp = Some(rt.block_on(Impl::new()));
        }
        let r = catch(|| {
            rt.block_on(async {
                let imp = imp.as_ref().unwrap();
                imp.wipe().await?;
                record_one(imp, run, seed, &mut trace, &mut out).await
            })
        });
        match r {
            Ok(Ok(())) => {}
            Ok(Err(e)) => {
                viol(&mut out, "*", "pipeline-error", format!("pipeline / store error: {e}"), json!({"run": run, "seed": seed.to_string()}));
                imp = None;
            }
            Err(p) => {
                viol(&mut out, "*", "panic", format!("the code under test panicked: {p}"), json!({"run": run, "seed": seed.to_string()}));
                imp = None;
            }
        }
    }
    let (events, runs) = trace.finish();
    out.set_trace(events, runs);
    require_counters(&out, args);
    out.write(args);
}

struct Planned {
    op: Op,
    info: Info,
    cls: String,
}

async fn record_one(imp: &Impl, run: usize, seed: u64, trace: &mut TraceWriter, out: &mut Outcome) -> Result<(), String> {
    let mut rng = Rng::new(seed);
    let mut world = World::new(format!("r{run}/{seed}"));
    let n_auth = rng.range(2, 4);
    let n_mal = rng.range(1, 2);
    let n_logs = rng.range(1, 2);
    let honest: Vec<String> = (1..=n_auth).map(|i| format!("a{i}")).collect();
    let mallory: Vec<String> = (1..=n_mal).map(|i| format!("mx{i}")).collect();
    let logs: Vec<String> = (1..=n_logs).map(|i| format!("l{i}")).collect();
    let mut chain_len: BTreeMap<(String, String), u32> = BTreeMap::new();
    for a in &honest {
        for l in &logs {
            let len = rng.range(1, 12) as u32;
            chain_len.insert((a.clone(), l.clone()), len);
            for s in 0..len {
                if rng.chance(1, 4) {
                    world.prune.insert((a.clone(), l.clone(), s));
                }
            }
        }
    }
    for n in honest.iter().chain(mallory.iter()) {
        world.key(n);
    }
    let authors: Vec<(String, VerifyingKey)> = world.author_names().into_iter().map(|n| { let vk = world.vk(&n); (n, vk) }).collect();

    let mut plan: Vec<(String, String, u32)> = Vec::new();
    for ((a, l), len) in &chain_len {
        for s in 0..*len {
            if rng.chance(1, 10) {
                continue;
            }
            plan.push((a.clone(), l.clone(), s));
            if rng.chance(1, 8) {
                plan.push((a.clone(), l.clone(), s));
            }
        }
    }
    let mut keyed: Vec<(i64, (String, String, u32))> = plan
        .into_iter()
        .map(|p| {
            let jitter = match rng.below(10) {
                0 => rng.below(40) as i64 - 20,
                1..=3 => rng.below(7) as i64 - 3,
                _ => 0,
            };
            (p.2 as i64 * 2 + jitter, p)
        })
        .collect();
    keyed.sort_by_key(|k| k.0);
    let mut plan: Vec<(String, String, u32)> = keyed.into_iter().map(|k| k.1).collect();
    let flagged: Vec<(String, String, u32)> = world.prune.iter().cloned().collect();
    for p in &flagged {
        if rng.chance(1, 2) {
            plan.push(p.clone());
        }
    }
    for _ in 0..rng.below(4) {
        let ((a, l), len) = chain_len.iter().nth(rng.below(chain_len.len() as u64) as usize).unwrap();
        plan.push((a.clone(), l.clone(), rng.below(*len as u64) as u32));
    }

    // concretise the plan: the honest operation or a forged copy
    let mut forged_n = 0usize;
    let mut items: VecDeque<Planned> = VecDeque::new();
    for (a, l, s) in plan {
        let base = world.honest(&a, &l, s);
        let base_info = world.by_hash.get(&base.hash).cloned().unwrap();
        if rng.chance(1, 4) {
            let cls = *rng.pick(FORGE_CLASSES);
            let mut info = base_info.clone();
            let mut param = String::new();
            match cls {
                "ClaimOtherAuthor" | "ForgedPrune" => {
                    let mut others: Vec<&String> = honest.iter().chain(mallory.iter()).filter(|x| **x != a).collect();
                    others.sort();
                    param = (*rng.pick(&others)).clone();
                    info.a = param.clone();
                    if cls == "ForgedPrune" {
                        info.prune = true;
                    }
                }
                "Resigned" => {
                    param = rng.pick(&mallory).clone();
                    info.a = param.clone();
                }
                "SeqChanged" => {
                    let len = chain_len[&(a.clone(), l.clone())] + 3;
                    let mut ns = rng.below(len as u64) as u32;
                    if ns == s {
                        ns += 1;
                    }
                    param = ns.to_string();
                    info.seq = ns;
                }
                "PruneFlipped" => info.prune = !info.prune,
                "BacklinkChanged" => info.bl = Some(format!("{a}|{l}|{s}|Elsewhere")),
                _ => {}
            }
            info.wf = cls == "Resigned";
            forged_n += 1;
            // a re-signed copy is deterministic (same key, same fields => same bytes and hash): one id
            info.key = if cls == "Resigned" { format!("{a}|{l}|{s}|Resigned:{param}") } else { format!("{a}|{l}|{s}|{cls}:{forged_n}") };
            let op = world.concretise(cls, &param, &base, rng.next_u64());
            world.register(&op, info.clone());
            items.push_back(Planned { op, info, cls: cls.to_string() });
        } else {
            items.push_back(Planned { op: base, info: base_info, cls: "Honest".to_string() });
        }
    }

    trace.event(json!({"ev": "Reset", "run": run, "seed": seed.to_string()}));
    let mut judge = Judge::default();
    let mut cur = imp.project(&world, &authors, &logs).await?;
    let case = json!({"run": run, "seed": seed.to_string()});

    while !items.is_empty() {
        // a batch of callers in flight: only events that touch pairwise different (claimed author, log)
        let mut batch: Vec<Planned> = vec![items.pop_front().unwrap()];
        if rng.chance(1, 2) {
            while batch.len() < 3 {
                let Some(next) = items.front() else { break };
                let clash = batch.iter().any(|p| (p.info.a == next.info.a && p.info.l == next.info.l) || p.op.hash == next.op.hash);
                if clash {
                    break;
                }
                batch.push(items.pop_front().unwrap());
            }
        }
        p2panda_core::verif::drain();
        let calls: Vec<(Op, String)> = batch.iter().map(|p| (p.op.clone(), p.info.l.clone())).collect();
        let results = imp.process_many(&calls).await?;
        let emits = p2panda_core::verif::drain();
        let after = imp.project(&world, &authors, &logs).await?;
        if batch.len() > 1 {
            out.count("batches_in_flight");
        }
        // order of the stages as the pipeline thread executed them
        let mut order: Vec<(bool, usize)> = Vec::new(); // (is_ingest, index in batch)
        for (_, line) in &emits {
            let mut parts = line.splitn(3, ' ');
            let kind = parts.next().unwrap_or("");
            let hash = parts.next().unwrap_or("");
            let Some(ix) = batch.iter().position(|p| p.op.hash.to_hex() == hash) else { continue };
            match kind {
                "pipeline.ingest" => order.push((true, ix)),
                "pipeline.log_prune" => order.push((false, ix)),
                _ => {}
            }
        }
        if order.len() != batch.len() * 2 {
            return Err(format!("expected {} stage events from the pipeline hooks, saw {}: {:?}", batch.len() * 2, order.len(), emits));
        }
        for (is_ingest, ix) in order.iter().filter(|o| o.0) {
            let _ = is_ingest;
            let p = &batch[*ix];
            out.count(&format!("class:{}", p.cls));
            trace.event(json!({"ev": "Submit", "cls": p.cls, "item": info_json(&p.info)}));
        }
        let single = batch.len() == 1;
        for (is_ingest, ix) in &order {
            let (p, r) = (&batch[*ix], &results[*ix]);
            if *is_ingest {
                out.count(&format!("ingest:{}", r.res.name()));
                trace.event(json!({"ev": "Ingest", "res": r.res.name(), "a": p.info.a, "l": p.info.l, "log": unobserved()}));
            } else {
                let log = if single { log_scalars(&after, &p.info.a, &p.info.l) } else { unobserved() };
                trace.event(json!({"ev": "Prune", "active": r.pruned.is_some(), "a": p.info.a, "l": p.info.l, "until": p.info.seq,
                                   "pruned": r.pruned.unwrap_or(0), "log": log}));
            }
        }
        // judge: events of one batch touch different logs, so each is judged on its own log's rows
        for (p, r) in batch.iter().zip(results.iter()) {
            let sel = |rows: &BTreeSet<Row>| -> BTreeSet<Row> {
                if single { rows.clone() } else { rows.iter().filter(|x| x.a == p.info.a && x.l == p.info.l).cloned().collect() }
            };
            let has = imp.has(&p.op.hash).await?;
            let (findings, _) = judge_event(&mut judge, &p.info, &p.cls, &p.op, r, &sel(&cur), &sel(&after), has);
            for (prop, sig, detail) in findings {
                viol(out, prop, &sig, detail, case.clone());
            }
            if r.res != Res::Inserted {
                out.mark_distinct(format!("{run}:{}:{}", p.info.key, r.res.name()));
            }
            if r.pruned.unwrap_or(0) > 0 {
                out.count("prune:deleted");
                out.mark_distinct(format!("{run}:{}:pruned", p.info.key));
            }
        }
        if !single {
            // rows outside the logs the batch touched must not move at all (C04: scoped to the own log)
            let touched: BTreeSet<(String, String)> = batch.iter().map(|p| (p.info.a.clone(), p.info.l.clone())).collect();
            let outside = |rows: &BTreeSet<Row>| -> BTreeSet<Row> { rows.iter().filter(|x| !touched.contains(&(x.a.clone(), x.l.clone()))).cloned().collect() };
            if outside(&cur) != outside(&after) {
                viol(out, "C04", "rows-of-untouched-log-changed", format!("a batch touching {touched:?} changed rows of other logs"), case.clone());
            }
            let ids: Vec<Value> = after.iter().map(row_id).collect();
            trace.event(json!({"ev": "Snapshot", "store": ids}));
        }
        if after.len() as i64 != imp.total_rows().await? {
            viol(out, "C01", "stray-rows", "operations_v1 holds rows that are not reachable through the known logs".into(), case.clone());
        }
        cur = after;
    }
    let ids: Vec<Value> = cur.iter().map(row_id).collect();
    trace.event(json!({"ev": "Snapshot", "store": ids}));
    out.sample(json!({"run": run, "seed": seed.to_string(), "stored": cur.len()}));
    Ok(())
}

fn row_id(r: &Row) -> Value {
    let p: Vec<&str> = r.key.split('|').collect();
    if p.len() == 4 { mkid(p[0], p[1], p[2].parse().unwrap_or(0), p[3]) } else { json!({"a": "?", "l": "?", "seq": -2, "v": r.key}) }
}
