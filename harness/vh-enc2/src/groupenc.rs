//! GroupEnc (C35): real `EncryptionGroup` instances ("data encryption" scheme) with the crate's
//! test_utils collaborators (`TestDgm`, `MessageOrderer`, `KeyRegistry`, `KeyManager`) against
//! spec/GroupEnc.
//!
//! * `replay`: every behaviour TLC exported (create / add / remove / update by any member, causal
//!   deliveries in any order) is executed on real group states.  Compared after every call: the
//!   verdict, `is_welcomed`, `members()`, the ids in the member's `SecretBundle` (`knows`), that
//!   `latest()` is one of the causally maximal secrets, the recipients of the direct messages and
//!   the causal ancestors the real message names.  Whenever everything sent has been delivered
//!   everywhere, every current member encrypts an application message with its latest secret (on a
//!   clone) and every other member tries to decrypt it: current members must get the plaintext
//!   (MembersAgree), a removed member must not if the secret was minted after its removal
//!   (RemovedCutOff).
//! * `record`: seeded random histories (4 members, up to 8 operations, several concurrent pairs)
//!   on the real code, one event per spec action.
use std::collections::{BTreeSet, HashMap};

use p2panda_encryption::Rng as CryptoRng;
use p2panda_encryption::data_scheme::{EncryptionGroup, GroupOutput, GroupSecretId};
use p2panda_encryption::test_utils::data_scheme::dgm::TestDgm;
use p2panda_encryption::test_utils::data_scheme::network::{TestGroupState, init_group_state};
use p2panda_encryption::test_utils::data_scheme::ordering::TestMessage;
use p2panda_encryption::test_utils::{MemberId, MessageId};
use p2panda_encryption::traits::GroupMessage;
use vh_common::{Args, Outcome, Rng, TraceWriter, Value, catch, json, read_ndjson, unknown};

type Msg = TestMessage<TestDgm<MemberId, MessageId>>;

pub fn run(args: &Args) {
    match args.mode.as_str() {
        "replay" => replay(args),
        "record" => record(args),
        _ => unknown(args),
    }
}

#[derive(Clone, Debug)]
struct MsgInfo {
    by: usize,
    op: String,
    arg: i64,
    /// global ids of all causal ancestors (closure of the real message's `previous`)
    anc: BTreeSet<usize>,
    /// recipients of the direct messages
    rcp: BTreeSet<usize>,
    mints: bool,
}

#[derive(Clone, Debug, PartialEq, Eq)]
struct Abs {
    w: bool,
    v: BTreeSet<usize>,
    k: BTreeSet<usize>,
}

impl Abs {
    fn to_json(&self) -> Value {
        json!({"w": self.w, "v": self.v.iter().collect::<Vec<_>>(), "k": self.k.iter().collect::<Vec<_>>()})
    }
}

fn set_of(v: &Value) -> BTreeSet<usize> {
    v.as_array().map(|a| a.iter().map(|x| x.as_u64().unwrap() as usize).collect()).unwrap_or_default()
}

struct Net {
    rng: CryptoRng,
    states: Vec<TestGroupState>,
    msgs: Vec<Msg>,
    info: Vec<MsgInfo>,
    /// (sender, seq) of a control message -> global id (1-based)
    ids: HashMap<(usize, usize), usize>,
    /// group secret id -> id of the message that minted it
    secrets: HashMap<GroupSecretId, usize>,
    /// control messages each member has processed (as far as the harness can tell: delivered while
    /// welcomed, or flushed at the welcome) -- only used by the recorder to mirror the spec guard
    dlv: Vec<BTreeSet<usize>>,
}

fn seed_bytes(seed: u64, k: u64) -> [u8; 32] {
    let mut rng = Rng::new(seed ^ k.wrapping_mul(0xC2B2_AE3D_27D4_EB4F));
    let mut out = [0u8; 32];
    for b in out.iter_mut() {
        *b = rng.next_u64() as u8;
    }
    out
}

impl Net {
    fn new(n: usize, seed: [u8; 32]) -> Net {
        let rng = CryptoRng::from_seed(seed);
        let states: Vec<TestGroupState> = match n {
            3 => init_group_state([0, 1, 2], &rng).into(),
            4 => init_group_state([0, 1, 2, 3], &rng).into(),
            _ => panic!("3 or 4 members"),
        };
        Net { rng, states, msgs: Vec::new(), info: Vec::new(), ids: HashMap::new(), secrets: HashMap::new(), dlv: vec![BTreeSet::new(); n] }
    }

    fn abs(&self, m: usize) -> Abs {
        let y = &self.states[m];
        Abs {
            w: y.is_welcomed,
            v: EncryptionGroup::members(y).map(|s| s.into_iter().collect()).unwrap_or_default(),
            k: y.secrets.ids().map(|id| self.secrets.get(id).copied().unwrap_or(0)).collect(),
        }
    }

    fn latest(&self, m: usize) -> Option<usize> {
        self.states[m].secrets.latest().map(|s| self.secrets.get(&s.id()).copied().unwrap_or(0))
    }

    /// Ancestors named by the real message (closure over `previous`), as global ids.
    fn ancestors(&self, message: &Msg) -> BTreeSet<usize> {
        let v = serde_json::to_value(message).unwrap_or(Value::Null);
        let mut out = BTreeSet::new();
        if let Some(prev) = v.get("previous").and_then(|p| p.as_array()) {
            for p in prev {
                let key = (p["sender"].as_u64().unwrap_or(99) as usize, p["seq"].as_u64().unwrap_or(0) as usize);
                if let Some(id) = self.ids.get(&key) {
                    out.insert(*id);
                    out.extend(self.info[*id - 1].anc.iter().copied());
                }
            }
        }
        out
    }

    /// A local group operation of m. On success the control message gets the next global id.
    fn op(&mut self, m: usize, op: &str, arg: i64, mem: &BTreeSet<usize>) -> Result<usize, String> {
        let y = self.states[m].clone();
        let before: BTreeSet<GroupSecretId> = y.secrets.ids().copied().collect();
        let res = catch(|| match op {
            "Create" => EncryptionGroup::create(y, mem.iter().copied().collect(), &self.rng),
            "Update" => EncryptionGroup::update(y, &self.rng),
            "Remove" => EncryptionGroup::remove(y, arg as usize, &self.rng),
            "Add" => EncryptionGroup::add(y, arg as usize, &self.rng),
            _ => panic!("unknown op"),
        });
        match res {
            Ok(Ok((y, message))) => {
                let id = self.msgs.len() + 1;
                let minted: Vec<GroupSecretId> = y.secrets.ids().filter(|s| !before.contains(*s)).copied().collect();
                for s in &minted {
                    self.secrets.insert(*s, id);
                }
                let anc = self.ancestors(&message);
                let rcp = message.direct_messages().iter().map(|dm| dm.recipient).collect();
                let mid = message.id();
                self.ids.insert((mid.sender, mid.seq), id);
                self.info.push(MsgInfo { by: m, op: op.to_string(), arg, anc, rcp, mints: !minted.is_empty() });
                self.msgs.push(message);
                self.states[m] = y;
                Ok(id)
            }
            Ok(Err(e)) => Err(e.to_string()),
            Err(p) => Err(format!("panic: {p}")),
        }
    }

    /// `EncryptionGroup::receive(state of m, control message id)`.
    fn deliver(&mut self, m: usize, id: usize) -> Result<(), String> {
        let y = self.states[m].clone();
        let message = self.msgs[id - 1].clone();
        match catch(|| EncryptionGroup::receive(y, &message)) {
            Ok(Ok((y, _outputs))) => {
                self.states[m] = y;
                self.dlv[m].insert(id);
                Ok(())
            }
            Ok(Err(e)) => Err(e.to_string()),
            Err(p) => Err(format!("panic: {p}")),
        }
    }

    fn before(&self, i: usize, j: usize) -> bool {
        self.info[j - 1].anc.contains(&i)
    }

    /// Current members as the history defines them (spec: `Current`).
    fn current(&self) -> BTreeSet<usize> {
        let n = self.states.len();
        (0..n)
            .filter(|m| {
                let joins: Vec<usize> = (1..=self.info.len())
                    .filter(|k| {
                        let i = &self.info[k - 1];
                        (i.op == "Create" && self.create_members(*k).contains(m)) || (i.op == "Add" && i.arg == *m as i64)
                    })
                    .collect();
                let removes: Vec<usize> =
                    (1..=self.info.len()).filter(|k| self.info[k - 1].op == "Remove" && self.info[k - 1].arg == *m as i64).collect();
                joins.iter().any(|j| removes.iter().all(|r| self.before(*r, *j)))
            })
            .collect()
    }

    fn create_members(&self, k: usize) -> BTreeSet<usize> {
        // creator + recipients of the initial secret
        let i = &self.info[k - 1];
        let mut s = i.rcp.clone();
        s.insert(i.by);
        s
    }

    /// Round trips at quiescence, on clones. Returns the first property-level failure.
    fn round_trips(&self, current: &BTreeSet<usize>, out: &mut Outcome) -> Option<(String, String)> {
        let n = self.states.len();
        for &m1 in current {
            let plaintext = format!("data of member {m1} after {} operations", self.msgs.len()).into_bytes();
            let y1 = self.states[m1].clone();
            let app = match catch(|| EncryptionGroup::send(y1, &plaintext, &self.rng)) {
                Ok(Ok((_, app))) => app,
                Ok(Err(e)) => {
                    return Some(("current-member-cannot-send".into(), format!("current member {m1} cannot encrypt: {e}")));
                }
                Err(p) => return Some(("send-panics".into(), format!("member {m1}: {p}"))),
            };
            let used = self.latest(m1).unwrap_or(0);
            for m2 in 0..n {
                if m2 == m1 {
                    continue;
                }
                let y2 = self.states[m2].clone();
                let got = match catch(|| EncryptionGroup::receive(y2, &app)) {
                    Ok(Ok((_, outputs))) => outputs.iter().find_map(|o| match o {
                        GroupOutput::Application { plaintext } => Some(plaintext.clone()),
                        _ => None,
                    }),
                    Ok(Err(_)) => None,
                    Err(p) => return Some(("receive-panics".into(), format!("member {m2}: {p}"))),
                };
                out.count("round-trips");
                if let Some(p) = &got {
                    if *p != plaintext {
                        return Some(("wrong-plaintext".into(), format!("member {m2} decrypted data of {m1} to different bytes")));
                    }
                }
                if current.contains(&m2) {
                    if got.is_none() {
                        // narrow class: the secret was minted concurrently with the add of m2 and
                        // was never addressed to m2
                        let concurrent_add = used != 0
                            && (1..=self.info.len()).any(|a| {
                                let i = &self.info[a - 1];
                                i.op == "Add" && i.arg == m2 as i64 && !self.before(a, used) && !self.before(used, a)
                            })
                            && !self.info[used - 1].rcp.contains(&m2);
                        let sig = if concurrent_add { "added-member-misses-concurrent-secret" } else { "current-member-cannot-decrypt" };
                        return Some((
                            sig.into(),
                            format!(
                                "all messages delivered; current member {m2} (welcomed={}) cannot decrypt data that current member {m1} encrypted with its latest secret #{used}",
                                self.states[m2].is_welcomed
                            ),
                        ));
                    }
                    out.count("round-trips-current-ok");
                } else {
                    // removed (or never a member): cut off from secrets minted by / after its removal
                    // (unless it was added again after that removal and processed that add: the
                    // welcome hands the whole bundle over)
                    let cut_off = used != 0
                        && (1..=self.info.len()).any(|r| {
                            let i = &self.info[r - 1];
                            i.op == "Remove"
                                && i.arg == m2 as i64
                                && (r == used || self.before(r, used))
                                && !(1..=self.info.len()).any(|a| {
                                    let j = &self.info[a - 1];
                                    j.op == "Add" && j.arg == m2 as i64 && self.before(r, a) && self.dlv[m2].contains(&a)
                                })
                        });
                    if cut_off {
                        out.count("round-trips-removed-probed");
                        if got.is_some() {
                            return Some((
                                "removed-member-decrypts".into(),
                                format!("member {m2} was removed before secret #{used} was minted but decrypts data encrypted with it"),
                            ));
                        }
                    }
                }
            }
        }
        None
    }
}

fn replay_one(b: &Value, seed: [u8; 32], out: &mut Outcome) -> Option<(String, String)> {
    let mut net = Net::new(3, seed);
    let mut state_diff: Option<(String, String)> = None;
    for (k, step) in b["steps"].as_array().expect("steps").iter().enumerate() {
        let m = step["m"].as_u64().unwrap() as usize;
        let msg = &step["msg"];
        let id = msg["id"].as_u64().unwrap() as usize;
        let action = step["a"].as_str().unwrap();
        match action {
            "Op" => {
                let op = msg["op"].as_str().unwrap();
                let arg = msg["arg"].as_i64().unwrap();
                match net.op(m, op, arg, &set_of(&msg["mem"])) {
                    Ok(got_id) => {
                        out.count(&format!("op-{}", op.to_lowercase()));
                        if got_id != id {
                            eprintln!("malformed behaviour (message ids): {b}");
                            std::process::exit(2);
                        }
                        let info = &net.info[id - 1];
                        if state_diff.is_none() && info.rcp != (if op == "Add" { [arg as usize].into() } else { set_of(&msg["rcp"]) }) {
                            state_diff = Some((
                                "recipients-differ-from-spec".into(),
                                format!("step {k}: {op} of {m} carries direct messages for {:?}, the specification says {}", info.rcp, msg["rcp"]),
                            ));
                        }
                        if state_diff.is_none() && info.anc != set_of(&msg["anc"]) {
                            state_diff = Some((
                                "ancestors-differ-from-spec".into(),
                                format!("step {k}: {op} of {m} depends on {:?}, the specification says {}", info.anc, msg["anc"]),
                            ));
                        }
                        if state_diff.is_none() && info.mints != (msg["sec"].as_u64().unwrap() != 0) {
                            state_diff = Some(("minting-differs-from-spec".into(), format!("step {k}: {op} of {m} minted={} ", info.mints)));
                        }
                    }
                    Err(e) => {
                        return Some(("operation-failed".into(), format!("step {k}: {op}({arg}) of member {m} failed with `{e}`")));
                    }
                }
            }
            "Deliver" => {
                if let Err(e) = net.deliver(m, id) {
                    return Some((
                        "receive-failed".into(),
                        format!("step {k}: member {m} failed to process control message #{id} ({}) delivered in causal order: `{e}`", net.info[id - 1].op),
                    ));
                }
                out.count("deliver");
            }
            _ => {
                eprintln!("unknown action {action}");
                std::process::exit(2);
            }
        }
        // abstract state of the acting member
        if state_diff.is_none() {
            let got = net.abs(m);
            let want = Abs { w: step["st"]["w"].as_bool().unwrap(), v: set_of(&step["st"]["v"]), k: set_of(&step["st"]["k"]) };
            if got != want {
                state_diff = Some((
                    "state-differs-from-spec".into(),
                    format!("after step {k} ({action} #{id} at member {m}): {} but the specification says {}", got.to_json(), want.to_json()),
                ));
            } else if let Some(l) = net.latest(m) {
                if !set_of(&step["st"]["max"]).contains(&l) {
                    state_diff = Some((
                        "latest-not-causally-maximal".into(),
                        format!("after step {k}: latest() of member {m} is secret #{l}, causally maximal are {}", step["st"]["max"]),
                    ));
                }
            }
        }
        // quiescent: real encrypt / decrypt round trips
        if step["qs"]["q"].as_bool() == Some(true) {
            let current = net.current();
            if state_diff.is_none() && current != set_of(&step["qs"]["cur"]) {
                state_diff = Some(("current-members-differ-from-spec".into(), format!("after step {k}: {current:?} vs {}", step["qs"]["cur"])));
            }
            out.count("quiescent-points");
            if let Some(v) = net.round_trips(&set_of(&step["qs"]["cur"]), out) {
                return Some(v);
            }
        }
    }
    state_diff
}

fn replay(args: &Args) {
    let behaviours = read_ndjson(args.input.as_ref().expect("--in"));
    let mut out = Outcome::new(
        args,
        "every TLC-exported history (create/add/remove/update by any of 3 members, every causal delivery order it was exported with) \
         executed on real EncryptionGroup states; non-trivial = at least one add or remove and at least 3 operations; \
         distinct by (operation sequence with authors and dependencies, per-member delivery order)",
    );
    let mut seen: BTreeSet<String> = BTreeSet::new();
    for (n, b) in behaviours.iter().enumerate() {
        out.eval();
        let res = replay_one(b, seed_bytes(args.seed, n as u64), &mut out);
        let steps = b["steps"].as_array().unwrap();
        let ops: Vec<&Value> = steps.iter().filter(|s| s["a"] == "Op").collect();
        if ops.len() >= 3 && ops.iter().any(|s| s["msg"]["op"] == "Add" || s["msg"]["op"] == "Remove") {
            // per-member processing order is what matters, not the global interleaving
            let mut key = String::new();
            for s in &ops {
                key.push_str(&format!("{}{}{}{};", s["m"], s["msg"]["op"].as_str().unwrap(), s["msg"]["arg"], s["msg"]["anc"]));
            }
            for m in 0..3 {
                key.push('|');
                for s in steps.iter().filter(|s| s["a"] == "Deliver" && s["m"] == m) {
                    key.push_str(&format!("{},", s["msg"]["id"]));
                }
            }
            out.mark_distinct(key);
        }
        match res {
            // one replayable case per failure class; the others are counted
            Some((sig, detail)) => {
                out.count(&format!("behaviours-with-{sig}"));
                if seen.insert(sig.clone()) {
                    out.violation("C35", &sig, detail, b.clone());
                }
            }
            None => out.sample(b.clone()),
        }
    }
    out.write(args);
}

/// Seeded random histories on the real code; one trace event per spec action. The driver only
/// issues operations the specification's guards allow (members act when welcomed and in their own
/// view; no add concurrent with a remove or a key rotation), mirroring `ConcOk`.
fn record(args: &Args) {
    let mut rng = Rng::new(args.seed);
    let n = if args.n > 0 { args.n } else { 30 };
    let mut trace = TraceWriter::create(args.out.as_ref().expect("--out"));
    let mut out = Outcome::new(
        args,
        "seeded random histories (4 members, up to 8 operations, up to 3 concurrent pairs, random causal delivery orders) on real \
         EncryptionGroup states; one trace event per call with the abstract state; round trips at every quiescent point",
    );
    for run in 0..n {
        record_one(run, seed_bytes(args.seed, 2_000_000 + run as u64), &mut rng, &mut trace, &mut out);
    }
    let (events, runs) = trace.finish();
    out.set_trace(events, runs);
    out.write(args);
}

const REC_MAX_CONC: usize = 3;

fn record_one(run: usize, seed: [u8; 32], rng: &mut Rng, trace: &mut TraceWriter, out: &mut Outcome) {
    let members = 4usize;
    let mut net = Net::new(members, seed);
    let max_ops = rng.range(3, 8) as usize;
    trace.event(json!({"ev": "Reset", "run": run}));
    let mut key = String::new();
    let mut stuck = 0;
    while stuck < 50 {
        stuck += 1;
        let quiescent = !net.msgs.is_empty() && (0..members).all(|m| (1..=net.msgs.len()).all(|k| net.info[k - 1].by == m || net.dlv[m].contains(&k)));
        if quiescent && net.msgs.len() >= max_ops {
            break;
        }
        let m = rng.below(members as u64) as usize;
        let do_op = net.msgs.is_empty() || (net.msgs.len() < max_ops && rng.chance(2, 5));
        if do_op {
            let abs = net.abs(m);
            // candidate operation
            let (op, arg, mem): (&str, i64, BTreeSet<usize>) = if net.msgs.is_empty() {
                let mut mem: BTreeSet<usize> = (0..members).filter(|_| rng.chance(1, 2)).collect();
                mem.insert(m);
                ("Create", -1, mem)
            } else {
                if !abs.w || !abs.v.contains(&m) {
                    continue;
                }
                match rng.below(4) {
                    0 | 1 => ("Update", -1, BTreeSet::new()),
                    2 => {
                        let cands: Vec<usize> = abs.v.iter().copied().filter(|x| *x != m).collect();
                        if cands.is_empty() {
                            continue;
                        }
                        ("Remove", *rng.pick(&cands) as i64, BTreeSet::new())
                    }
                    _ => {
                        let cands: Vec<usize> = (0..members).filter(|x| !abs.v.contains(x)).collect();
                        if cands.is_empty() {
                            continue;
                        }
                        ("Add", *rng.pick(&cands) as i64, BTreeSet::new())
                    }
                }
            };
            // mirror of the specification's ConcOk (with what the member has processed so far)
            if !net.msgs.is_empty() {
                let anc: BTreeSet<usize> = processed(&net, m);
                let others: Vec<usize> = (1..=net.msgs.len()).filter(|k| !anc.contains(k)).collect();
                let pairs = (1..=net.msgs.len())
                    .flat_map(|i| (i + 1..=net.msgs.len()).map(move |j| (i, j)))
                    .filter(|(i, j)| !net.before(*i, *j) && !net.before(*j, *i))
                    .count();
                if pairs + others.len() > REC_MAX_CONC {
                    continue;
                }
                // an add is only ever concurrent with another add of the same member
                let bad = others.iter().any(|k| {
                    let o = &net.info[k - 1];
                    (o.op == "Add" || op == "Add") && !(o.op == "Add" && op == "Add" && o.arg == arg)
                });
                if bad {
                    continue;
                }
            }
            out.eval();
            match net.op(m, op, arg, &mem) {
                Ok(id) => {
                    stuck = 0;
                    key.push_str(&format!("{m}{}{arg};", &op[..1]));
                    let info = net.info[id - 1].clone();
                    trace.event(json!({"ev": "Op", "m": m, "op": op, "arg": arg, "mem": mem.iter().collect::<Vec<_>>(), "id": id,
                        "mints": info.mints, "rcp": info.rcp.iter().collect::<Vec<_>>(), "anc": info.anc.iter().collect::<Vec<_>>(),
                        "st": net.abs(m).to_json()}));
                }
                Err(e) => {
                    out.violation("C35", "operation-failed", format!("run {run}: {op}({arg}) of member {m} failed with `{e}`"), json!({"run": run, "schedule": key}));
                    return;
                }
            }
        } else {
            // a causal delivery: some message whose ancestors (other than m's own) m already received
            let cands: Vec<usize> = (1..=net.msgs.len())
                .filter(|k| net.info[k - 1].by != m && !net.dlv[m].contains(k))
                .filter(|k| net.info[k - 1].anc.iter().all(|a| net.info[a - 1].by == m || net.dlv[m].contains(a)))
                .collect();
            if cands.is_empty() {
                continue;
            }
            let id = *rng.pick(&cands);
            out.eval();
            match net.deliver(m, id) {
                Ok(()) => {
                    stuck = 0;
                    key.push_str(&format!("d{m}.{id};"));
                    trace.event(json!({"ev": "Deliver", "m": m, "id": id, "st": net.abs(m).to_json()}));
                }
                Err(e) => {
                    out.violation("C35", "receive-failed", format!("run {run}: member {m} failed to process control message #{id}: `{e}`"), json!({"run": run, "schedule": key}));
                    return;
                }
            }
        }
        let quiescent = (0..members).all(|m| (1..=net.msgs.len()).all(|k| net.info[k - 1].by == m || net.dlv[m].contains(&k)));
        if quiescent {
            let current = net.current();
            if let Some((sig, detail)) = net.round_trips(&current, out) {
                out.violation("C35", &sig, format!("run {run}: {detail}"), json!({"run": run, "schedule": key}));
                return;
            }
        }
    }
    if net.msgs.len() >= 3 {
        out.mark_distinct(key.clone());
    }
    if run < 2 {
        out.sample(json!({"run": run, "schedule": key}));
    }
}

/// What the next message of m causally depends on, read from the implementation: the closure of
/// the `previous` the orderer of m would put into its next message is not observable without
/// publishing, so the recorder mirrors it: everything m processed plus its own messages. A message
/// delivered while m is not welcomed is only processed at the welcome; `held` messages are those
/// delivered but not yet reflected in any message m published since... the mirror is validated by
/// the trace specification, which recomputes the ancestors and compares them with the real
/// message's (`anc` of the Op event).
fn processed(net: &Net, m: usize) -> BTreeSet<usize> {
    let y = &net.states[m];
    let mut s: BTreeSet<usize> = (1..=net.msgs.len()).filter(|k| net.info[k - 1].by == m).collect();
    // the orderer's heads (serde form, CBOR value because some maps have struct keys):
    // previous: {member: {sender, seq}}
    if let Ok(v) = ciborium::Value::serialized(&y.orderer) {
        let field = |v: &ciborium::Value, name: &str| -> Option<ciborium::Value> {
            v.as_map()?.iter().find(|(k, _)| k.as_text() == Some(name)).map(|(_, x)| x.clone())
        };
        let int = |v: &ciborium::Value| -> Option<usize> { v.as_integer().and_then(|i| usize::try_from(i).ok()) };
        if let Some(prev) = field(&v, "previous") {
            if let Some(entries) = prev.as_map() {
                for (_, p) in entries {
                    let key = (field(p, "sender").as_ref().and_then(int).unwrap_or(99), field(p, "seq").as_ref().and_then(int).unwrap_or(0));
                    if let Some(id) = net.ids.get(&key) {
                        s.insert(*id);
                        s.extend(net.info[*id - 1].anc.iter().copied());
                    }
                }
                return s;
            }
        }
    }
    // fallback: everything delivered
    s.extend(net.dlv[m].iter().copied());
    s
}
