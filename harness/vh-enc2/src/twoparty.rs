//! twoparty: not built yet.
pub fn run(args: &vh_common::Args) {
    vh_common::unknown(args)
}
