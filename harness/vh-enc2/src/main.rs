//! Conformance harness binary `vh-enc2`: one module per TLA+ specification (see /verif/spec).
mod groupenc;
mod twoparty;

fn main() {
    let args = vh_common::Args::parse();
    vh_common::quiet_panics();
    match args.module.as_str() {
        "groupenc" => groupenc::run(&args),
        "twoparty" => twoparty::run(&args),
        _ => vh_common::unknown(&args),
    }
}
