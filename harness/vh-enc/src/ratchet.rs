//! Ratchet (C34): `p2panda_encryption::message_scheme::ratchet::DecryptionRatchet` against
//! spec/Ratchet. The sender side is the real `RatchetSecret::ratchet_forward`; "the key of
//! generation n" is the key material (key, nonce) that chain returned for generation n, compared
//! byte-wise with what the decryption ratchet hands out.
use std::collections::BTreeSet;

use p2panda_encryption::crypto::Secret;
use p2panda_encryption::message_scheme::ratchet::{
    DecryptionRatchet, DecryptionRatchetState, MESSAGE_KEY_SIZE, RatchetKeyMaterial, RatchetSecret,
};
use vh_common::{Args, Outcome, Rng, TraceWriter, Value, catch, json, read_ndjson, unknown};

pub fn run(args: &Args) {
    match args.mode.as_str() {
        "replay" => replay(args),
        "record" => record(args),
        _ => unknown(args),
    }
}

/// `Secret::from_bytes` is crate-private: go through its serde form (CBOR byte string).
fn secret(bytes: [u8; MESSAGE_KEY_SIZE]) -> Secret<MESSAGE_KEY_SIZE> {
    let mut cbor = vec![0x58, MESSAGE_KEY_SIZE as u8];
    cbor.extend_from_slice(&bytes);
    ciborium::de::from_reader(&cbor[..]).expect("decode secret")
}

/// Key material the real sender chain produces for generations 0..n.
fn sender_keys(seed: [u8; MESSAGE_KEY_SIZE], n: usize) -> Vec<RatchetKeyMaterial> {
    let mut y = RatchetSecret::init(secret(seed));
    let mut out = Vec::with_capacity(n);
    for k in 0..n {
        let (y_i, generation, material) = RatchetSecret::ratchet_forward(y).expect("sender ratchet_forward");
        assert_eq!(generation as usize, k, "sender generation numbering");
        y = y_i;
        out.push(material);
    }
    out
}

/// One request on the real ratchet. The function consumes the state and returns none on error:
/// like the group code, the caller keeps the state it had.
fn request(
    y: &mut DecryptionRatchetState,
    g: u32,
    fwd: u32,
    ooo: u32,
) -> Result<Option<RatchetKeyMaterial>, String> {
    let before = y.clone();
    match catch(move || DecryptionRatchet::secret_for_decryption(before, g, fwd, ooo)) {
        Ok(Ok((next, material))) => {
            *y = next;
            Ok(Some(material))
        }
        Ok(Err(_)) => Ok(None),
        Err(p) => Err(p),
    }
}

/// Index of the sender generation whose material equals `m` byte-wise (-1: none).
fn index_of(keys: &[RatchetKeyMaterial], m: &RatchetKeyMaterial) -> i64 {
    keys.iter().position(|k| k.0 == m.0 && k.1 == m.1).map(|p| p as i64).unwrap_or(-1)
}

fn replay(args: &Args) {
    let behaviours = read_ndjson(args.input.as_ref().expect("--in"));
    let mut out = Outcome::new(
        args,
        "every TLC-exported request sequence executed on the real DecryptionRatchet against the real sender chain; per request: \
         key handed out or not as the spec says, key material byte-equal to the sender's of that generation, no generation twice; \
         non-trivial = a sequence with an out-of-order hit, a reuse or an out-of-window request; distinct by behaviour",
    );
    let seed: [u8; 32] = Rng::new(args.seed).bytes(32).try_into().unwrap();
    let keys = sender_keys(seed, 64);
    for b in &behaviours {
        out.eval();
        let mut y = DecryptionRatchet::init(secret(seed));
        let mut handed: BTreeSet<u32> = BTreeSet::new();
        let mut nontrivial = false;
        let mut failed = false;
        for (k, step) in b["steps"].as_array().expect("steps").iter().enumerate() {
            let g = step["g"].as_u64().unwrap() as u32;
            let fwd = step["fwd"].as_u64().unwrap() as u32;
            let ooo = step["ooo"].as_u64().unwrap() as u32;
            let kind = step["kind"].as_str().unwrap();
            if step["branch"].as_str().unwrap() != "Forward" {
                nontrivial = true;
            }
            let head_before_hit = kind == "Key";
            match request(&mut y, g, fwd, ooo) {
                Err(p) => {
                    out.violation("C34", "ratchet-panics", format!("request {k} (g={g}, fwd={fwd}, ooo={ooo}) panicked: {p}"), b.clone());
                    failed = true;
                }
                Ok(None) => {
                    out.count(&format!("spec_{kind}"));
                    if head_before_hit {
                        // inside the windows and not handed out yet, says the spec
                        out.violation(
                            "C34",
                            "key-refused-inside-window",
                            format!("request {k}: generation {g} (fwd={fwd}, ooo={ooo}) was refused, the spec derives its key"),
                            b.clone(),
                        );
                        failed = true;
                    }
                }
                Ok(Some(m)) => {
                    let idx = index_of(&keys, &m);
                    if idx != g as i64 {
                        out.violation(
                            "C34",
                            "wrong-key-for-generation",
                            format!("request {k}: generation {g} got the sender's key material of generation {idx} (-1: of none)"),
                            b.clone(),
                        );
                        failed = true;
                    } else if !handed.insert(g) {
                        out.violation(
                            "C34",
                            "key-handed-out-twice",
                            format!("request {k}: the key of generation {g} was handed out a second time"),
                            b.clone(),
                        );
                        failed = true;
                    } else if kind != "Key" {
                        out.violation(
                            "C34",
                            "key-outside-window",
                            format!("request {k}: generation {g} (fwd={fwd}, ooo={ooo}) got a key, the spec rejects it ({kind})"),
                            b.clone(),
                        );
                        failed = true;
                    } else {
                        out.count("spec_Key");
                    }
                }
            }
            if failed {
                break;
            }
        }
        if !failed {
            if nontrivial {
                out.mark_distinct(b["steps"].to_string());
            }
            out.sample(b.clone());
        }
    }
    out.write(args);
}

/// Random delivery orders of a sender's messages: local shuffles, losses, duplicates, far jumps;
/// large generations and windows.
fn record(args: &Args) {
    let mut rng = Rng::new(args.seed);
    let n = if args.n > 0 { args.n } else { 100 };
    let mut trace = TraceWriter::create(args.out.as_ref().expect("--out"));
    let mut out = Outcome::new(
        args,
        "seeded random delivery orders (shuffled within a random radius, with losses, duplicates and far jumps) of up to 300 \
         generations through the real DecryptionRatchet with windows 0..40, fixed per run or varying per call; the returned material is \
         identified byte-wise in the real sender chain; one event per request; distinct by (run, request)",
    );
    for run in 0..n {
        let seed: [u8; 32] = rng.bytes(32).try_into().unwrap();
        let gens = rng.range(5, 300) as usize;
        let keys = sender_keys(seed, gens + 130);
        let mut y = DecryptionRatchet::init(secret(seed));
        let vary = rng.chance(1, 4);
        let windows: [u32; 8] = [0, 1, 2, 3, 5, 8, 20, 40];
        let mut fwd0 = *rng.pick(&windows);
        let mut ooo0 = *rng.pick(&windows);
        trace.event(json!({"ev": "Reset", "run": run, "vary": vary}));
        // delivery order
        let mut order: Vec<u32> = (0..gens as u32).collect();
        let radius = rng.range(0, 12) as usize;
        if rng.chance(1, 2) {
            // windows that fit the disorder: most requests are served
            fwd0 = radius as u32 + rng.below(3) as u32;
            ooo0 = radius as u32 + rng.below(3) as u32;
        }
        if radius > 0 {
            for i in 0..order.len() {
                let j = (i + rng.below(radius as u64 + 1) as usize).min(order.len() - 1);
                order.swap(i, j);
            }
        }
        let mut seq: Vec<u32> = Vec::new();
        for g in order {
            if rng.chance(1, 12) {
                continue; // lost
            }
            seq.push(g);
            if rng.chance(1, 10) {
                seq.push(g); // duplicate right away
            }
            if rng.chance(1, 15) && !seq.is_empty() {
                let old = *rng.pick(&seq); // replay of something old
                seq.push(old);
            }
            if rng.chance(1, 40) {
                seq.push(g + rng.range(1, 60) as u32); // far jump
            }
        }
        let mut handed: BTreeSet<u32> = BTreeSet::new();
        for (k, g) in seq.into_iter().enumerate() {
            let (fwd, ooo) = if vary { (*rng.pick(&windows), *rng.pick(&windows)) } else { (fwd0, ooo0) };
            out.eval();
            out.mark_distinct(format!("{run}:{k}"));
            match request(&mut y, g, fwd, ooo) {
                Err(p) => {
                    out.violation("C34", "ratchet-panics", format!("request (g={g}, fwd={fwd}, ooo={ooo}) panicked: {p}"), json!({"run": run, "request": k}));
                    break;
                }
                Ok(None) => {
                    trace.event(json!({"ev": "Request", "g": g, "fwd": fwd, "ooo": ooo, "ok": false, "key": -1}));
                    out.count("refused");
                }
                Ok(Some(m)) => {
                    let idx = index_of(&keys, &m);
                    if !handed.insert(g) {
                        out.count("handed_twice_seen_by_recorder");
                    }
                    out.count("key");
                    let ev: Value = json!({"ev": "Request", "g": g, "fwd": fwd, "ooo": ooo, "ok": true, "key": idx});
                    out.sample(ev.clone());
                    trace.event(ev);
                }
            }
        }
    }
    let (events, runs) = trace.finish();
    out.set_trace(events, runs);
    out.write(args);
}
