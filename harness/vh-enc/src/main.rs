//! Conformance harness binary `vh-enc`: one module per TLA+ specification (see /verif/spec).
mod ratchet;
mod secretbundle;
mod keyregistry;

fn main() {
    let args = vh_common::Args::parse();
    vh_common::quiet_panics();
    match args.module.as_str() {
        "ratchet" => ratchet::run(&args),
        "secretbundle" => secretbundle::run(&args),
        "keyregistry" => keyregistry::run(&args),
        _ => vh_common::unknown(&args),
    }
}
