//! SecretBundle (C36): `p2panda_encryption::data_scheme::group_secret::SecretBundle`
//! (`insert`, `remove`, `extend`, `from_secrets`, `generate`) against spec/SecretBundle.
//!
//! Spec ids are small integers ordered like the real 32-byte SHA-256 ids; the harness owns a pool
//! of real secrets whose ids are sorted accordingly (rank r <-> pool secret r). A secret returned
//! by the real `generate` gets the spec id the behaviour prescribes by choosing the RNG seed such
//! that its real id falls between the real ids of the neighbouring spec ids.
//!
//! Spec timestamps are mapped by a shift: mode "now" maps the spec's wall clock reading to the
//! real `SystemTime::now()` second (the behaviour is re-run if the second changes while it runs),
//! mode "top" maps the spec's TopT to `u64::MAX`.
use std::collections::{BTreeMap, BTreeSet};
use std::time::{SystemTime, UNIX_EPOCH};

use p2panda_encryption::Rng as CryptoRng;
use p2panda_encryption::data_scheme::group_secret::{
    GroupSecret, GroupSecretId, SecretBundle, SecretBundleState,
};
use vh_common::{Args, Outcome, Rng, TraceWriter, Value, catch, json, read_ndjson, unknown};

pub fn run(args: &Args) {
    match args.mode.as_str() {
        "replay" => replay(args),
        "record" => record(args),
        _ => unknown(args),
    }
}

fn now_secs() -> u64 {
    SystemTime::now().duration_since(UNIX_EPOCH).expect("clock before epoch").as_secs()
}

const POOL: usize = 8;
const SEEDS: u64 = 4096;

fn seed32(s: u64) -> [u8; 32] {
    let mut out = [7u8; 32];
    out[..8].copy_from_slice(&s.to_le_bytes());
    out
}

struct World {
    /// pool[r-1]: secret bytes whose id has rank r among the pool.
    pool: Vec<[u8; 32]>,
    pool_ids: Vec<GroupSecretId>,
    /// (id of the secret `generate` returns with `Rng::from_seed(seed32(s))`, s), sorted by id.
    gen_ids: Vec<(GroupSecretId, u64)>,
}

impl World {
    fn new() -> World {
        // Pool secrets: first id byte = r * 256/(POOL+1), so the gaps between them are wide.
        let mut pool = Vec::new();
        let mut pool_ids = Vec::new();
        let mut counter: u64 = 0;
        for r in 1..=POOL {
            let want = (r * 256 / (POOL + 1)) as u8;
            loop {
                counter += 1;
                let mut bytes = [0u8; 32];
                bytes[..8].copy_from_slice(&counter.to_le_bytes());
                let id = GroupSecret::new(bytes, 0).id();
                if id[0] == want {
                    pool.push(bytes);
                    pool_ids.push(id);
                    break;
                }
            }
        }
        let empty = SecretBundle::init();
        let mut gen_ids: Vec<(GroupSecretId, u64)> = (0..SEEDS)
            .map(|s| {
                let g = SecretBundle::generate(&empty, &CryptoRng::from_seed(seed32(s)))
                    .expect("generate on empty bundle");
                (g.id(), s)
            })
            .collect();
        gen_ids.sort();
        World { pool, pool_ids, gen_ids }
    }
}

/// Per-behaviour binding of spec ids / timestamps to real ones.
struct Binding<'w> {
    w: &'w World,
    /// spec id -> generated real secret
    generated: BTreeMap<u64, GroupSecret>,
    used_seeds: BTreeSet<u64>,
    /// real = spec + shift (as i128)
    shift: i128,
    /// after a conflicting hand-in the spec's timestamps of generated secrets are not binding
    lenient: bool,
}

impl<'w> Binding<'w> {
    fn real_ts(&self, spec: u64) -> Option<u64> {
        let v = spec as i128 + self.shift;
        if v < 0 || v > u64::MAX as i128 { None } else { Some(v as u64) }
    }
    fn spec_ts(&self, real: u64) -> i128 {
        real as i128 - self.shift
    }
    fn real_id(&self, spec: u64) -> GroupSecretId {
        match self.generated.get(&spec) {
            Some(g) => g.id(),
            None => self.w.pool_ids[spec as usize - 1],
        }
    }
    fn spec_id(&self, real: &GroupSecretId) -> i64 {
        for (k, g) in &self.generated {
            if &g.id() == real {
                return *k as i64;
            }
        }
        for (r, id) in self.w.pool_ids.iter().enumerate() {
            if id == real {
                return r as i64 + 1;
            }
        }
        -1
    }
    fn secret(&self, spec_id: u64, spec_ts: u64) -> GroupSecret {
        let ts = self.real_ts(spec_ts).expect("spec timestamp not representable");
        match self.generated.get(&spec_id) {
            Some(g) => {
                if g.timestamp() != ts && !self.lenient {
                    eprintln!("harness: behaviour hands in generated secret {spec_id} under another timestamp");
                    std::process::exit(2);
                }
                g.clone()
            }
            None => GroupSecret::new(self.w.pool[spec_id as usize - 1], ts),
        }
    }
    /// RNG seed whose generated secret has an id strictly between the real ids of the
    /// neighbouring spec ids (pool ids of ids that are not generated, generated ids otherwise).
    fn seed_for(&mut self, spec_id: u64) -> u64 {
        let mut lo: Option<GroupSecretId> = None;
        let mut hi: Option<GroupSecretId> = None;
        for r in 1..=POOL as u64 {
            if r == spec_id {
                continue;
            }
            let id = self.real_id(r);
            if r < spec_id {
                lo = Some(lo.map_or(id, |l| l.max(id)));
            } else {
                hi = Some(hi.map_or(id, |h| h.min(id)));
            }
        }
        for (id, s) in &self.w.gen_ids {
            if lo.is_some_and(|l| *id <= l) || hi.is_some_and(|h| *id >= h) || self.used_seeds.contains(s) {
                continue;
            }
            self.used_seeds.insert(*s);
            return *s;
        }
        eprintln!("harness: no RNG seed yields an id of rank {spec_id}");
        std::process::exit(2);
    }
}

fn content(b: &Binding, y: &SecretBundleState) -> BTreeSet<(i64, i128)> {
    y.iter().map(|(id, s)| (b.spec_id(id), b.spec_ts(s.timestamp()))).collect()
}

fn content_from_spec(v: &Value) -> BTreeSet<(i64, i128)> {
    v.as_array()
        .expect("bundle array")
        .iter()
        .map(|e| (e["id"].as_i64().unwrap(), e["ts"].as_i64().unwrap() as i128))
        .collect()
}

/// The property's own definition on the real state: latest = max by (timestamp, id).
fn real_max(y: &SecretBundleState) -> Option<GroupSecretId> {
    y.iter().map(|(id, s)| (s.timestamp(), *id)).max().map(|(_, id)| id)
}

enum Verdict {
    Ok,
    ClockMoved,
    Violation(&'static str, String),
}

fn replay_one(w: &World, b: &Value, out: &mut Outcome) -> Verdict {
    let mode = b["base"].as_str().expect("base");
    let top = b["top"].as_u64().expect("top");
    let wall = b["wall"].as_u64().expect("wall");
    let now0 = now_secs();
    let shift = match mode {
        "now" => now0 as i128 - wall as i128,
        "top" => u64::MAX as i128 - top as i128,
        _ => {
            eprintln!("unknown base {mode}");
            std::process::exit(2);
        }
    };
    let mut bind = Binding { w, generated: BTreeMap::new(), used_seeds: BTreeSet::new(), shift, lenient: false };
    let mut y = SecretBundle::init();
    // Which timestamp survives when the SAME secret is handed in under two timestamps is not part
    // of C36: from such a step on only the property itself is checked on the real state (latest is
    // the maximum of what the bundle holds, generated is newer), not equality with the spec's choice.
    let mut conflict = false;
    for (k, step) in b["steps"].as_array().expect("steps").iter().enumerate() {
        let op = step["op"].as_str().expect("op");
        {
            let handed: Vec<(u64, u64)> = match op {
                "insert" => vec![(step["id"].as_u64().unwrap(), step["ts"].as_u64().unwrap())],
                "extend" => step["other"].as_array().unwrap().iter().map(|e| (e["id"].as_u64().unwrap(), e["ts"].as_u64().unwrap())).collect(),
                "from_secrets" => step["list"].as_array().unwrap().iter().map(|e| (e["id"].as_u64().unwrap(), e["ts"].as_u64().unwrap())).collect(),
                _ => vec![],
            };
            for (n, (id, ts)) in handed.iter().enumerate() {
                if handed[..n].iter().any(|(i2, t2)| i2 == id && t2 != ts) {
                    conflict = true;
                }
                if op != "from_secrets"
                    && y.get(&bind.real_id(*id)).is_some_and(|s| Some(s.timestamp()) != bind.real_ts(*ts))
                {
                    conflict = true;
                }
            }
            bind.lenient = conflict;
        }
        match op {
            "insert" => {
                let s = bind.secret(step["id"].as_u64().unwrap(), step["ts"].as_u64().unwrap());
                match catch(move || SecretBundle::insert(y, s)) {
                    Ok(n) => y = n,
                    Err(p) => return Verdict::Violation("bundle-panics", format!("step {k} insert: {p}")),
                }
            }
            "remove" => {
                let id = bind.real_id(step["id"].as_u64().unwrap());
                match catch(move || SecretBundle::remove(y, &id)) {
                    Ok((n, removed)) => {
                        y = n;
                        if removed.is_some() != step["present"].as_bool().unwrap() {
                            return Verdict::Violation(
                                "bundle-differs-from-spec",
                                format!("step {k} remove returned {:?}", removed.map(|s| s.timestamp())),
                            );
                        }
                    }
                    Err(p) => return Verdict::Violation("bundle-panics", format!("step {k} remove: {p}")),
                }
            }
            "extend" => {
                let secrets: Vec<GroupSecret> = step["other"]
                    .as_array()
                    .unwrap()
                    .iter()
                    .map(|e| bind.secret(e["id"].as_u64().unwrap(), e["ts"].as_u64().unwrap()))
                    .collect();
                match catch(move || SecretBundle::extend(y, SecretBundle::from_secrets(secrets))) {
                    Ok(n) => y = n,
                    Err(p) => return Verdict::Violation("bundle-panics", format!("step {k} extend: {p}")),
                }
            }
            "from_secrets" => {
                let secrets: Vec<GroupSecret> = step["list"]
                    .as_array()
                    .unwrap()
                    .iter()
                    .map(|e| bind.secret(e["id"].as_u64().unwrap(), e["ts"].as_u64().unwrap()))
                    .collect();
                match catch(move || SecretBundle::from_secrets(secrets)) {
                    Ok(n) => y = n,
                    Err(p) => return Verdict::Violation("bundle-panics", format!("step {k} from_secrets: {p}")),
                }
            }
            "reload" => {
                // the serde form of the state (a list of secrets) and back
                match catch(move || {
                    let bytes = p2panda_core::cbor::encode_cbor(&y).expect("encode bundle");
                    p2panda_core::cbor::decode_cbor::<SecretBundleState, _>(&bytes[..]).expect("decode bundle")
                }) {
                    Ok(n) => y = n,
                    Err(p) => return Verdict::Violation("bundle-panics", format!("step {k} serde round trip: {p}")),
                }
            }
            "generate" => {
                let spec_err = step["err"].as_bool().unwrap();
                let spec_overflow = step["overflow"].as_bool().unwrap();
                // the id the spec chose for the fresh secret (on error none is produced: any seed)
                let want_id = step["id"].as_u64().unwrap();
                let seed = if want_id == 0 { 0 } else { bind.seed_for(want_id) };
                let rng = CryptoRng::from_seed(seed32(seed));
                let latest = y.latest().map(|l| (l.timestamp(), l.id()));
                let res = catch(|| SecretBundle::generate(&y, &rng));
                if mode == "now" && now_secs() != now0 {
                    return Verdict::ClockMoved;
                }
                match res {
                    Err(p) => {
                        let sig = if latest.is_some_and(|(t, _)| t == u64::MAX) {
                            "generate-overflow-at-max-timestamp"
                        } else {
                            "bundle-panics"
                        };
                        return Verdict::Violation(sig, format!("step {k} generate with latest {latest:?} panicked: {p}"));
                    }
                    Ok(Err(e)) => {
                        if !spec_err && !conflict {
                            return Verdict::Violation(
                                "generate-differs-from-spec",
                                format!("step {k} generate returned Err({e}), spec says a secret with ts {}", step["ts"]),
                            );
                        }
                        out.count("generate_err");
                    }
                    Ok(Ok(g)) => {
                        // C36 on the real result, independent of the spec's number
                        if let Some((lt, lid)) = latest {
                            if (g.timestamp(), g.id()) <= (lt, lid) {
                                let sig = if lt == u64::MAX {
                                    "generate-overflow-at-max-timestamp"
                                } else {
                                    "generated-not-newer"
                                };
                                return Verdict::Violation(
                                    sig,
                                    format!(
                                        "step {k} generate returned timestamp {} while the latest secret has {lt}",
                                        g.timestamp()
                                    ),
                                );
                            }
                        }
                        if conflict {
                            // keep going with the id the spec chose; the timestamp is the code's
                        } else if spec_err || spec_overflow {
                            return Verdict::Violation(
                                "generate-differs-from-spec",
                                format!("step {k} generate returned ts {}, spec says err={spec_err} overflow={spec_overflow}", g.timestamp()),
                            );
                        }
                        if !conflict && bind.spec_ts(g.timestamp()) != step["ts"].as_i64().unwrap() as i128 {
                            return Verdict::Violation(
                                "generate-differs-from-spec",
                                format!(
                                    "step {k} generate returned spec-time {} (real {}), spec says {}",
                                    bind.spec_ts(g.timestamp()),
                                    g.timestamp(),
                                    step["ts"]
                                ),
                            );
                        }
                        if lt_gt(latest, &g) {
                            out.count("generate_bumped");
                        } else {
                            out.count("generate_wall");
                        }
                        bind.generated.insert(want_id, g);
                    }
                }
            }
            _ => {
                eprintln!("unknown op {op}");
                std::process::exit(2);
            }
        }
        // observable after the step: SecretBundleState::latest and the content
        let got_latest = y.latest().map(|s| s.id());
        if got_latest != real_max(&y) {
            return Verdict::Violation(
                "latest-not-max",
                format!(
                    "after step {k} ({op}): latest is {:?}, the maximum by (timestamp, id) is {:?}",
                    got_latest.map(|i| bind.spec_id(&i)),
                    real_max(&y).map(|i| bind.spec_id(&i))
                ),
            );
        }
        if conflict {
            continue;
        }
        let got_latest_spec = got_latest.map(|i| bind.spec_id(&i)).unwrap_or(0);
        if got_latest_spec != step["latest"].as_i64().unwrap() {
            return Verdict::Violation(
                "latest-differs-from-spec",
                format!("after step {k} ({op}): latest is {got_latest_spec}, spec says {}", step["latest"]),
            );
        }
        let got = content(&bind, &y);
        let want = content_from_spec(&step["bundle"]);
        if got != want {
            return Verdict::Violation(
                "bundle-differs-from-spec",
                format!("after step {k} ({op}): bundle is {got:?}, spec says {want:?}"),
            );
        }
    }
    if conflict {
        out.count("behaviours_with_conflicting_timestamps_property_only");
    }
    Verdict::Ok
}

/// true if the generated timestamp was bumped over the latest one (clock not ahead).
fn lt_gt(latest: Option<(u64, GroupSecretId)>, g: &GroupSecret) -> bool {
    latest.is_some_and(|(t, _)| g.timestamp() == t.wrapping_add(1))
}

fn nontrivial(b: &Value) -> bool {
    // a tie on the timestamp among the bundle's secrets after some step, or a generate call
    b["steps"].as_array().unwrap().iter().any(|s| {
        if s["op"] == "generate" {
            return true;
        }
        let mut seen = BTreeSet::new();
        s["bundle"].as_array().unwrap().iter().any(|e| !seen.insert(e["ts"].as_i64().unwrap()))
    })
}

fn replay(args: &Args) {
    let behaviours = read_ndjson(args.input.as_ref().expect("--in"));
    let w = World::new();
    let mut out = Outcome::new(
        args,
        "every TLC-exported call sequence executed on the real SecretBundle (real SHA-256 ids, real clock, seeded RNG); \
         latest / content / generate result compared after every call; non-trivial = some state with two secrets of \
         equal timestamp or a generate call; distinct by behaviour",
    );
    for b in &behaviours {
        out.eval();
        let mut verdict = Verdict::ClockMoved;
        for _ in 0..20 {
            verdict = replay_one(&w, b, &mut out);
            if !matches!(verdict, Verdict::ClockMoved) {
                break;
            }
            out.count("rerun_second_boundary");
        }
        match verdict {
            Verdict::Ok => {
                if nontrivial(b) {
                    out.mark_distinct(b.to_string());
                }
                out.sample(b.clone());
            }
            Verdict::ClockMoved => {
                eprintln!("system clock changed second in 20 consecutive runs of one behaviour");
                std::process::exit(2);
            }
            Verdict::Violation(sig, detail) => out.violation("C36", sig, detail, b.clone()),
        }
    }
    out.write(args);
}

// ------------------------------------------------------------------------------------------
// record

/// TLC integers are 32 bit: recorded timestamps are real timestamps minus `shift`.
const TLC_MAX: u64 = i32::MAX as u64;

struct Recorded {
    ev: Value,
    /// real ids mentioned by the event, replaced by ranks once the run is complete
    ids: Vec<GroupSecretId>,
}

fn record(args: &Args) {
    let mut rng = Rng::new(args.seed);
    let n = if args.n > 0 { args.n } else { 100 };
    let mut trace = TraceWriter::create(args.out.as_ref().expect("--out"));
    let mut out = Outcome::new(
        args,
        "seeded random call sequences on the real SecretBundle with random 32-byte secrets (ids by SHA-256), timestamps \
         0 / colliding / around the real clock / far future / around u64::MAX, the real clock and OS-independent seeded RNG; \
         one trace event per call; distinct by (run, call)",
    );
    let crng = CryptoRng::from_seed(seed32(args.seed ^ 0xABCD));
    for run in 0..n {
        // "top" runs live just below u64::MAX (recorded shifted so that u64::MAX is TLC's TopT)
        let top_run = rng.chance(1, 5);
        let shift: u64 = if top_run { u64::MAX - TLC_MAX } else { 0 };
        let now = now_secs();
        let mut ts_choices: Vec<u64> = if top_run {
            vec![u64::MAX, u64::MAX - 1, u64::MAX - 2, u64::MAX - 5, u64::MAX - 1000]
        } else {
            vec![0, 1, 5, 5, now - 1, now, now + 1, now + 2, now + 1000, TLC_MAX - 101, TLC_MAX - 100, TLC_MAX - 100]
        };
        if !top_run {
            ts_choices.push(rng.below(now));
        }
        // every pool secret has ONE timestamp per run (the same secret under two timestamps is outside C36);
        // different secrets collide on timestamps often
        let pool: Vec<([u8; 32], u64)> =
            (0..rng.range(2, 7)).map(|_| (rng.bytes(32).try_into().unwrap(), *rng.pick(&ts_choices))).collect();
        let mut generated: Vec<GroupSecret> = Vec::new();
        let mut events: Vec<Recorded> = Vec::new();
        let mut all_ids: BTreeSet<GroupSecretId> = BTreeSet::new();
        let mut y = SecretBundle::init();
        let pick = |rng: &mut Rng, generated: &Vec<GroupSecret>| -> GroupSecret {
            if !generated.is_empty() && rng.chance(1, 3) {
                rng.pick(generated).clone()
            } else {
                let (bytes, ts) = *rng.pick(&pool);
                GroupSecret::new(bytes, ts)
            }
        };
        let calls = rng.range(3, 14);
        let mut failed = false;
        for call in 0..calls {
            out.eval();
            out.mark_distinct(format!("{run}:{call}"));
            let mut ids = Vec::new();
            let mut ev;
            let mut op = if call == 0 && rng.chance(1, 2) {
                4
            } else if rng.chance(1, 8) {
                5
            } else {
                rng.below(4)
            };
            if op == 3 && top_run && y.is_empty() {
                op = 0; // real `now` is not representable in a shifted run
            }
            let res = match op {
                0 => {
                    let s = pick(&mut rng, &generated);
                    ids.push(s.id());
                    ev = json!({"ev": "Insert", "ts": s.timestamp() - shift});
                    catch(move || SecretBundle::insert(y, s))
                }
                1 => {
                    let id = if generated.is_empty() || rng.chance(2, 3) {
                        GroupSecret::new(rng.pick(&pool).0, 0).id()
                    } else {
                        rng.pick(&generated).id()
                    };
                    ids.push(id);
                    ev = json!({"ev": "Remove"});
                    let had = y.contains(&id);
                    catch(move || {
                        let (n, removed) = SecretBundle::remove(y, &id);
                        assert_eq!(removed.is_some(), had, "remove result vs contains");
                        n
                    })
                }
                5 => {
                    ev = json!({"ev": "Reload"});
                    catch(move || {
                        let bytes = p2panda_core::cbor::encode_cbor(&y).expect("encode bundle");
                        p2panda_core::cbor::decode_cbor::<SecretBundleState, _>(&bytes[..]).expect("decode bundle")
                    })
                }
                2 | 4 => {
                    let mut list = Vec::new();
                    let mut tss = Vec::new();
                    for _ in 0..rng.below(4) {
                        let s = pick(&mut rng, &generated);
                        ids.push(s.id());
                        tss.push(s.timestamp() - shift);
                        list.push(s);
                    }
                    if op == 2 {
                        // `extend` takes a bundle: ids unique in it (built by the real from_secrets)
                        ev = json!({"ev": "Extend", "tss": tss});
                        catch(move || SecretBundle::extend(y, SecretBundle::from_secrets(list)))
                    } else {
                        ev = json!({"ev": "FromSecrets", "tss": tss});
                        catch(move || {
                            drop(y);
                            SecretBundle::from_secrets(list)
                        })
                    }
                }
                _ => {
                    let t0 = now_secs();
                    let r = catch(|| SecretBundle::generate(&y, &crng));
                    let t1 = now_secs();
                    let (wlo, whi) = if top_run { (0, 0) } else { (t0.min(t1), t0.max(t1)) };
                    match r {
                        Ok(Ok(g)) => {
                            ids.push(g.id());
                            ev = json!({"ev": "Generate", "err": false, "ts": g.timestamp().wrapping_sub(shift).min(TLC_MAX),
                                        "wlo": wlo, "whi": whi});
                            if g.timestamp() < shift {
                                // not representable in this shifted run: judge it here
                                let lt = y.latest().map(|l| l.timestamp());
                                let sig = if lt == Some(u64::MAX) {
                                    "generate-overflow-at-max-timestamp"
                                } else if lt.is_some_and(|l| g.timestamp() <= l) {
                                    "generated-not-newer"
                                } else {
                                    "generate-differs-from-spec"
                                };
                                out.violation(
                                    "C36",
                                    sig,
                                    format!("generate returned timestamp {} while the latest secret has {lt:?}", g.timestamp()),
                                    json!({"run": run, "call": call}),
                                );
                                failed = true;
                            }
                            generated.push(g);
                            Ok(y)
                        }
                        Ok(Err(_)) => {
                            ev = json!({"ev": "Generate", "err": true, "ts": 0, "wlo": wlo, "whi": whi});
                            Ok(y)
                        }
                        Err(p) => {
                            ev = json!({"ev": "Generate"});
                            Err(p)
                        }
                    }
                }
            };
            match res {
                Ok(n) => y = n,
                Err(p) => {
                    let latest_max = events.last().is_some_and(|e: &Recorded| e.ev["latest_ts"] == json!(TLC_MAX)) && top_run;
                    let sig = if ev["ev"] == "Generate" && latest_max {
                        "generate-overflow-at-max-timestamp"
                    } else {
                        "bundle-panics"
                    };
                    out.violation("C36", sig, format!("{} panicked: {p}", ev["ev"]), json!({"run": run, "call": call, "ev": ev}));
                    failed = true;
                    break;
                }
            }
            if failed {
                break;
            }
            // observable
            let latest = y.latest();
            ev["latest_ts"] = json!(latest.map(|l| l.timestamp() - shift).unwrap_or(0));
            ev["len"] = json!(y.len());
            if let Some(l) = latest {
                ids.push(l.id()); // last id = latest
                ev["has_latest"] = json!(true);
            } else {
                ev["has_latest"] = json!(false);
            }
            all_ids.extend(ids.iter().cloned());
            events.push(Recorded { ev, ids });
        }
        // ranks of the real ids (1-based, byte-wise order = the order the code compares ids in)
        let rank: BTreeMap<GroupSecretId, usize> = all_ids.iter().enumerate().map(|(k, id)| (*id, k + 1)).collect();
        trace.event(json!({"ev": "Reset", "run": run, "top": top_run}));
        for Recorded { mut ev, mut ids } in events {
            let has_latest = ev["has_latest"].as_bool().unwrap();
            ev["latest"] = json!(if has_latest { rank[&ids.pop().unwrap()] } else { 0 });
            ev.as_object_mut().unwrap().remove("has_latest");
            let kind = ev["ev"].as_str().unwrap().to_string();
            match kind.as_str() {
                "Insert" | "Remove" => ev["id"] = json!(rank[&ids[0]]),
                "Generate" => ev["id"] = json!(ids.first().map(|i| rank[i]).unwrap_or(0)),
                "Reload" => {}
                _ => {
                    let tss: Vec<u64> = ev["tss"].as_array().unwrap().iter().map(|t| t.as_u64().unwrap()).collect();
                    let list: Vec<Value> = ids.iter().zip(tss).map(|(i, t)| json!([rank[i], t])).collect();
                    ev["list"] = json!(list);
                    ev.as_object_mut().unwrap().remove("tss");
                }
            }
            out.sample(ev.clone());
            trace.event(ev);
        }
    }
    let (events, runs) = trace.finish();
    out.set_trace(events, runs);
    out.write(args);
}
