//! KeyRegistry (C38): `p2panda_encryption::key_registry::KeyRegistry` against spec/KeyRegistry.
//!
//! The registry reads `SystemTime` itself, so spec time is mapped onto the real clock:
//! spec time `s` is the real second `base + (s - start) * H` (H = 3 s). The spec's clock only takes
//! even values and lifetime bounds only odd ones, so every call of a phase (spec clock = 2k) may
//! happen anywhere inside the real interval `[real(2k), real(2k+1))` without changing any
//! comparison; after each behaviour's calls of a phase the clock is read again and the behaviour is
//! discarded and re-run in a later round if it left that interval (no wall-clock judgement enters
//! a verdict). All behaviours share one schedule: a spec tick costs one real sleep for all of them.
use std::collections::BTreeMap;
use std::time::{Duration, SystemTime, UNIX_EPOCH};

use p2panda_encryption::Rng as CryptoRng;
use p2panda_encryption::crypto::x25519::{PublicKey, SecretKey};
use p2panda_encryption::crypto::xeddsa::XSignature;
use p2panda_encryption::key_bundle::{
    Lifetime, LongTermKeyBundle, OneTimeKeyBundle, OneTimePreKey, PreKey,
};
use p2panda_encryption::key_registry::{KeyRegistry, KeyRegistryState};
use p2panda_encryption::traits::{KeyBundle, PreKeyRegistry};
use vh_common::{Args, Outcome, Rng, TraceWriter, Value, catch, json, read_ndjson, unknown};

pub fn run(args: &Args) {
    match args.mode.as_str() {
        "replay" => replay(args),
        "record" => record(args),
        _ => unknown(args),
    }
}

/// Real seconds per spec time unit.
const H: u64 = 3;
const THREADS: usize = 8;
const ROUNDS: usize = 6;
/// Behaviours with a one-second window that share one schedule (the rest waits for the next round).
const TIGHT_PER_ROUND: usize = 900;

fn now_secs() -> u64 {
    SystemTime::now().duration_since(UNIX_EPOCH).expect("clock before epoch").as_secs()
}

type Reg = KeyRegistry<usize>;
type State = KeyRegistryState<usize>;

#[derive(Clone, Copy, Debug, PartialEq, Eq)]
struct Desc {
    nb: i64,
    na: i64,
    sig: bool,
}

impl Desc {
    fn from_json(v: &Value) -> Desc {
        Desc { nb: v["nb"].as_i64().unwrap(), na: v["na"].as_i64().unwrap(), sig: v["sig"].as_bool().unwrap() }
    }
    fn json(&self) -> Value {
        json!({"nb": self.nb, "na": self.na, "sig": self.sig})
    }
    fn valid(&self, now: i64) -> bool {
        self.sig && self.nb < now && now < self.na
    }
}

const NOB: Desc = Desc { nb: 0, na: 0, sig: false };

/// Pre-signed pre-keys of one member (the pre-key signature does not cover the lifetime).
struct Signed {
    prekey: PublicKey,
    good: XSignature,
    bad: XSignature,
    onetime: PublicKey,
}

struct Keys {
    identity: Vec<PublicKey>,
    signed: Vec<Vec<Signed>>, // per member
}

fn make_keys(seed: u64, members: usize, per_member: usize) -> Keys {
    let rng = CryptoRng::from_seed({
        let mut s = [3u8; 32];
        s[..8].copy_from_slice(&seed.to_le_bytes());
        s
    });
    let mut identity = Vec::new();
    let mut signed = Vec::new();
    for _ in 0..members {
        let id_secret = SecretKey::from_bytes(rng.random_array().unwrap());
        let other_secret = SecretKey::from_bytes(rng.random_array().unwrap());
        identity.push(id_secret.verifying_key().unwrap());
        let mut v = Vec::new();
        for k in 0..per_member {
            let pk_secret = SecretKey::from_bytes(rng.random_array().unwrap());
            let prekey = pk_secret.verifying_key().unwrap();
            let probe = PreKey::new(prekey, Lifetime::from_range(0, 1));
            let good = probe.sign(&id_secret, &rng).unwrap();
            // three ways for a signature not to verify
            let bad = match k % 3 {
                0 => {
                    let mut b = good.to_bytes();
                    b[(k / 3) % 64] ^= 1 << (k % 8);
                    XSignature::from_bytes(b)
                }
                1 => probe.sign(&other_secret, &rng).unwrap(), // signed by somebody else
                _ => {
                    // a valid signature of the same identity over another pre-key
                    let o = SecretKey::from_bytes(rng.random_array().unwrap()).verifying_key().unwrap();
                    PreKey::new(o, Lifetime::from_range(0, 1)).sign(&id_secret, &rng).unwrap()
                }
            };
            let onetime = SecretKey::from_bytes(rng.random_array().unwrap()).verifying_key().unwrap();
            v.push(Signed { prekey, good, bad, onetime });
        }
        signed.push(v);
    }
    Keys { identity, signed }
}

/// Mapping between spec time and the real clock.
#[derive(Clone, Copy)]
struct Clock {
    base: u64,
    start: i64,
}

impl Clock {
    fn real(&self, s: i64) -> u64 {
        let v = self.base as i128 + (s - self.start) as i128 * H as i128;
        v.clamp(0, u64::MAX as i128) as u64
    }
}

#[derive(Clone, Debug)]
enum Op {
    AddOneTime(usize, Desc),
    AddLongTerm(usize, Desc),
    GetOneTime(usize),
    GetLongTerm(usize),
    RemoveExpired,
    Tick(i64),
}

/// What a call did, in spec terms.
#[derive(Clone, Debug, PartialEq)]
struct Seen {
    ok: bool,
    b: Desc,
    /// `verify()` of the returned bundle right after the call (true when none was returned)
    returned_verifies: bool,
    ot_len: usize,
    lt_len: usize,
}

struct Runner<'k> {
    keys: &'k Keys,
    clock: Clock,
    y: State,
    next_key: Vec<usize>,
    /// pre-key -> descriptor of the bundle built around it
    built: BTreeMap<[u8; 32], Desc>,
}

impl<'k> Runner<'k> {
    fn new(keys: &'k Keys, clock: Clock) -> Self {
        Runner { keys, clock, y: Reg::init(), next_key: vec![0; keys.identity.len()], built: BTreeMap::new() }
    }

    fn material(&mut self, m: usize, d: Desc) -> (PublicKey, PreKey, XSignature, OneTimePreKey) {
        let k = self.next_key[m];
        self.next_key[m] += 1;
        let s = &self.keys.signed[m][k];
        let prekey = PreKey::new(s.prekey, Lifetime::from_range(self.clock.real(d.nb), self.clock.real(d.na)));
        self.built.insert(s.prekey.to_bytes(), d);
        (self.keys.identity[m], prekey, if d.sig { s.good } else { s.bad }, OneTimePreKey::new(s.onetime, k as u64))
    }

    fn lens(&self, m: usize) -> (usize, usize) {
        let v = serde_json::to_value(&self.y).expect("state to json");
        let len = |field: &str| v[field][m.to_string()].as_array().map(|a| a.len()).unwrap_or(0);
        (len("onetime_bundles"), len("longterm_bundles"))
    }

    /// Executes one call on the real registry. Err = panic message.
    fn call(&mut self, op: &Op) -> Result<Seen, String> {
        let y = self.y.clone();
        let (seen, m) = match op {
            Op::AddOneTime(m, d) => {
                let (id, prekey, sig, otk) = self.material(*m, *d);
                let bundle = OneTimeKeyBundle::new(id, prekey, sig, Some(otk));
                let r = catch(move || Reg::add_onetime_bundle(y, *m, bundle))?;
                let ok = r.is_ok();
                if let Ok(n) = r {
                    self.y = n;
                }
                (Seen { ok, b: *d, returned_verifies: true, ot_len: 0, lt_len: 0 }, *m)
            }
            Op::AddLongTerm(m, d) => {
                let (id, prekey, sig, _) = self.material(*m, *d);
                let bundle = LongTermKeyBundle::new(id, prekey, sig);
                let r = catch(move || Reg::add_longterm_bundle(y, *m, bundle))?;
                let ok = r.is_ok();
                if let Ok(n) = r {
                    self.y = n;
                }
                (Seen { ok, b: *d, returned_verifies: true, ot_len: 0, lt_len: 0 }, *m)
            }
            Op::GetOneTime(m) => {
                let mm = *m;
                let r = catch(move || <Reg as PreKeyRegistry<usize, OneTimeKeyBundle>>::key_bundle(y, &mm))?;
                let (n, b) = r.expect("infallible");
                self.y = n;
                let verifies = b.as_ref().map(|b| b.verify().is_ok()).unwrap_or(true);
                let d = b.map(|b| self.built[&b.signed_prekey().to_bytes()]).unwrap_or(NOB);
                (Seen { ok: true, b: d, returned_verifies: verifies, ot_len: 0, lt_len: 0 }, *m)
            }
            Op::GetLongTerm(m) => {
                let mm = *m;
                let r = catch(move || <Reg as PreKeyRegistry<usize, LongTermKeyBundle>>::key_bundle(y, &mm))?;
                match r {
                    Ok((n, b)) => {
                        self.y = n;
                        let verifies = b.as_ref().map(|b| b.verify().is_ok()).unwrap_or(true);
                        let d = b.map(|b| self.built[&b.signed_prekey().to_bytes()]).unwrap_or(NOB);
                        (Seen { ok: true, b: d, returned_verifies: verifies, ot_len: 0, lt_len: 0 }, *m)
                    }
                    Err(_) => (Seen { ok: false, b: NOB, returned_verifies: true, ot_len: 0, lt_len: 0 }, *m),
                }
            }
            Op::RemoveExpired => {
                self.y = catch(move || Reg::remove_expired(y))?;
                (Seen { ok: true, b: NOB, returned_verifies: true, ot_len: 0, lt_len: 0 }, 0)
            }
            Op::Tick(_) => unreachable!("ticks are the schedule"),
        };
        let (ot_len, lt_len) = self.lens(m);
        Ok(Seen { ot_len, lt_len, ..seen })
    }
}

/// A behaviour split into phases (calls between two ticks).
struct Plan {
    phases: Vec<Vec<Op>>,
    /// spec clock of each phase
    nows: Vec<i64>,
    /// some lifetime bound equals some clock reading of the behaviour: the calls of a phase must
    /// then happen inside the one real second that IS that reading (strict comparisons are exact)
    tight: bool,
}

fn plan(ops: &[Op], start: i64) -> Plan {
    let mut phases = vec![Vec::new()];
    let mut nows = vec![start];
    for op in ops {
        if let Op::Tick(d) = op {
            phases.push(Vec::new());
            nows.push(nows.last().unwrap() + d);
        } else {
            phases.last_mut().unwrap().push(op.clone());
        }
    }
    let tight = ops.iter().any(|op| match op {
        Op::AddOneTime(_, d) | Op::AddLongTerm(_, d) => nows.contains(&d.nb) || nows.contains(&d.na),
        _ => false,
    });
    Plan { phases, nows, tight }
}

/// Runs all plans on one shared real-time schedule. `results[i]` = per phase the calls' outcomes
/// (Err = panic), or None if the behaviour left its time window in every round.
fn run_schedule(keys: &Keys, plans: &[Plan], start: i64, out: &mut Outcome) -> Vec<Option<Vec<Vec<Result<Seen, String>>>>> {
    let mut results: Vec<Option<Vec<Vec<Result<Seen, String>>>>> = (0..plans.len()).map(|_| None).collect();
    let mut todo: Vec<usize> = (0..plans.len()).collect();
    for round in 0..ROUNDS {
        if todo.is_empty() {
            break;
        }
        if round > 0 {
            out.count_by("behaviours_rerun_left_time_window", todo.len() as u64);
        }
        // base: the start of a fresh real second, one second ahead
        let t = now_secs();
        while now_secs() == t {
            std::thread::sleep(Duration::from_millis(2));
        }
        let clock = Clock { base: now_secs(), start };
        // tight behaviours first (their window is the first second of a phase), a bounded number per round
        let mut now_round: Vec<usize> = todo.iter().cloned().filter(|i| plans[*i].tight).take(TIGHT_PER_ROUND).collect();
        let postponed: Vec<usize> = todo.iter().cloned().filter(|i| plans[*i].tight).skip(TIGHT_PER_ROUND).collect();
        now_round.extend(todo.iter().cloned().filter(|i| !plans[*i].tight));
        let max_phases = now_round.iter().map(|i| plans[*i].phases.len()).max().unwrap();
        let chunks: Vec<Vec<usize>> = (0..THREADS).map(|t| now_round.iter().cloned().skip(t).step_by(THREADS).collect()).collect();
        let done: Vec<Vec<(usize, Option<Vec<Vec<Result<Seen, String>>>>)>> = std::thread::scope(|scope| {
            let handles: Vec<_> = chunks
                .iter()
                .map(|chunk| {
                    scope.spawn(move || {
                        let mut runners: Vec<(usize, Runner, Vec<Vec<Result<Seen, String>>>, bool)> =
                            chunk.iter().map(|i| (*i, Runner::new(keys, clock), Vec::new(), true)).collect();
                        for phase in 0..max_phases {
                            for (i, runner, log, in_window) in runners.iter_mut() {
                                let p = &plans[*i];
                                if phase >= p.phases.len() || !*in_window {
                                    continue;
                                }
                                let lo = clock.real(p.nows[phase]);
                                let hi = if p.tight { lo + 1 } else { clock.real(p.nows[phase] + 1) }; // exclusive
                                while now_secs() < lo {
                                    std::thread::sleep(Duration::from_millis(5));
                                }
                                let mut calls = Vec::new();
                                for op in &p.phases[phase] {
                                    calls.push(runner.call(op));
                                }
                                let t = now_secs();
                                if t < lo || t >= hi {
                                    *in_window = false;
                                }
                                log.push(calls);
                            }
                        }
                        runners.into_iter().map(|(i, _, log, ok)| (i, if ok { Some(log) } else { None })).collect::<Vec<_>>()
                    })
                })
                .collect();
            handles.into_iter().map(|h| h.join().expect("schedule thread")).collect()
        });
        todo = postponed;
        for (i, r) in done.into_iter().flatten() {
            match r {
                Some(log) => results[i] = Some(log),
                None => todo.push(i),
            }
        }
    }
    results
}

fn member_index(v: &Value) -> usize {
    v.as_str().and_then(|s| s.trim_start_matches('m').parse::<usize>().ok()).map(|k| k - 1).unwrap_or(0)
}

fn replay(args: &Args) {
    let mut behaviours = read_ndjson(args.input.as_ref().expect("--in"));
    let max = args.extra_usize("max", usize::MAX);
    if behaviours.len() > max {
        // keep a seeded sample (every behaviour costs CPU inside a real-time window)
        let mut rng = Rng::new(args.seed);
        rng.shuffle(&mut behaviours);
        behaviours.truncate(max);
    }
    let mut out = Outcome::new(
        args,
        "TLC-exported call sequences (add / get / remove_expired / clock ticks) executed on the real KeyRegistry with real \
         XEdDSA-signed bundles (three kinds of bad signatures) and lifetimes laid around the real system clock (a spec tick is a real \
         sleep of 6 s shared by all behaviours); per call: accepted / refused and the bundle handed out as in the spec, and the \
         returned bundle's own verify(); non-trivial = a behaviour with a tick between an accepted add and a later get; distinct by behaviour",
    );
    if behaviours.is_empty() {
        out.write(args);
        return;
    }
    let start = behaviours[0]["start"].as_i64().expect("start");
    let mut all_ops: Vec<Vec<Op>> = Vec::new();
    let mut max_adds = 0;
    for b in &behaviours {
        assert_eq!(b["start"].as_i64(), Some(start), "one start per export");
        let mut ops = Vec::new();
        let mut adds = 0;
        for s in b["steps"].as_array().expect("steps") {
            let m = member_index(&s["m"]);
            ops.push(match s["op"].as_str().unwrap() {
                "add_onetime" => {
                    adds += 1;
                    Op::AddOneTime(m, Desc::from_json(&s["arg"]))
                }
                "add_longterm" => {
                    adds += 1;
                    Op::AddLongTerm(m, Desc::from_json(&s["arg"]))
                }
                "get_onetime" => Op::GetOneTime(m),
                "get_longterm" => Op::GetLongTerm(m),
                "remove_expired" => Op::RemoveExpired,
                "tick" => Op::Tick(b["tick"].as_i64().expect("tick")),
                o => {
                    eprintln!("unknown op {o}");
                    std::process::exit(2);
                }
            });
        }
        max_adds = max_adds.max(adds);
        all_ops.push(ops);
    }
    let keys = make_keys(args.seed, 2, max_adds.max(1));
    let plans: Vec<Plan> = all_ops.iter().map(|o| plan(o, start)).collect();
    let results = run_schedule(&keys, &plans, start, &mut out);
    for ((b, p), r) in behaviours.iter().zip(&plans).zip(results) {
        let Some(log) = r else {
            eprintln!("a behaviour left its real-time window in {ROUNDS} rounds: machine too slow for the schedule");
            std::process::exit(2);
        };
        out.eval();
        judge(b, p, &log, &mut out);
    }
    out.write(args);
}

/// Compares one behaviour's outcomes with the spec's and with the property itself.
fn judge(b: &Value, p: &Plan, log: &[Vec<Result<Seen, String>>], out: &mut Outcome) {
    let steps: Vec<&Value> = b["steps"].as_array().unwrap().iter().filter(|s| s["op"] != "tick").collect();
    let mut k = 0;
    let mut accepted_before_tick = false;
    let mut nontrivial = false;
    for (phase, calls) in log.iter().enumerate() {
        let now = p.nows[phase];
        if phase > 0 && accepted_before_tick {
            nontrivial = nontrivial || p.phases[phase].iter().any(|o| matches!(o, Op::GetOneTime(_) | Op::GetLongTerm(_)));
        }
        for (op, seen) in p.phases[phase].iter().zip(calls) {
            let step = steps[k];
            k += 1;
            let seen = match seen {
                Ok(s) => s,
                Err(panic) => {
                    out.violation("C38", "registry-panics", format!("{op:?} at spec time {now} panicked: {panic}"), b.clone());
                    return;
                }
            };
            let spec_ok = step["ok"].as_bool().unwrap();
            let spec_b = Desc::from_json(&step["b"]);
            match op {
                Op::AddOneTime(_, d) | Op::AddLongTerm(_, d) => {
                    if seen.ok && !d.valid(now) {
                        let sig = if !d.sig { "accepted-bad-signature" } else { "accepted-invalid-lifetime" };
                        out.violation("C38", sig, format!("{op:?} was accepted at spec time {now}"), b.clone());
                        return;
                    }
                    if seen.ok != spec_ok {
                        out.violation("C38", "refused-valid-bundle", format!("{op:?} was refused at spec time {now}, the spec accepts it"), b.clone());
                        return;
                    }
                    if seen.ok {
                        accepted_before_tick = true;
                        out.count("add_accepted");
                    } else {
                        out.count("add_refused");
                    }
                }
                Op::GetOneTime(_) | Op::GetLongTerm(_) => {
                    let onetime = matches!(op, Op::GetOneTime(_));
                    // the property, on the real result: what is handed out is valid now
                    if seen.b != NOB && (!seen.b.valid(now) || !seen.returned_verifies) {
                        let sig = if onetime && seen.b.sig && seen.b.na <= now {
                            "onetime-bundle-returned-after-expiry"
                        } else if !onetime && seen.b.sig && seen.b.na <= now {
                            "longterm-bundle-returned-after-expiry"
                        } else {
                            "returned-invalid-bundle"
                        };
                        out.violation(
                            "C38",
                            sig,
                            format!(
                                "{op:?} at spec time {now} handed out bundle {:?} (its own verify() {})",
                                seen.b,
                                if seen.returned_verifies { "passes" } else { "fails" }
                            ),
                            b.clone(),
                        );
                        return;
                    }
                    if seen.ok != spec_ok || seen.b != spec_b {
                        out.violation(
                            "C38",
                            "get-differs-from-spec",
                            format!("{op:?} at spec time {now}: ok={} bundle {:?}, spec says ok={spec_ok} bundle {spec_b:?}", seen.ok, seen.b),
                            b.clone(),
                        );
                        return;
                    }
                    out.count(if seen.b == NOB { "get_none" } else { "get_some" });
                }
                _ => {}
            }
        }
    }
    if nontrivial {
        out.mark_distinct(b["steps"].to_string());
    }
    out.sample(b.clone());
}

// ------------------------------------------------------------------------------------------

const REC_START: i64 = 10;

fn record(args: &Args) {
    let mut rng = Rng::new(args.seed);
    let n = if args.n > 0 { args.n } else { 100 };
    let mut trace = TraceWriter::create(args.out.as_ref().expect("--out"));
    let mut out = Outcome::new(
        args,
        "seeded random call sequences (2 members, <= 8 adds, gets, remove_expired, <= 2 (thorough 3) clock ticks = real sleeps) on the real KeyRegistry with \
         real signed bundles whose lifetimes start / end before, between and after the ticks; one event per call with the bundle handed out; \
         distinct by (run, call)",
    );
    // odd bounds around the even clock values 10, 12, 14, 16
    let bounds: Vec<i64> = vec![1, 7, 9, 9, 11, 11, 13, 13, 15, 17, 19, 1001];
    let max_ticks = if args.thorough() { 3 } else { 2 };
    let mut all_ops = Vec::new();
    let mut max_adds = 0;
    for _ in 0..n {
        let mut ops = Vec::new();
        let mut ticks = 0;
        let mut adds = 0;
        for _ in 0..rng.range(4, 16) {
            let m = rng.below(2) as usize;
            let d = Desc { nb: *rng.pick(&bounds[..9]), na: *rng.pick(&bounds[2..]), sig: !rng.chance(1, 6) };
            let d = if rng.chance(2, 3) { Desc { nb: 9, ..d } } else { d };
            // now and then a bound that IS a clock reading of the run (10, 12, 14): strictness of the comparisons
            let d = match rng.below(24) {
                0 => Desc { nb: 10, ..d },
                1 => Desc { na: 12, ..d },
                2 => Desc { nb: 9, na: 14, ..d },
                3 => Desc { nb: 12, na: 17, ..d },
                _ => d,
            };
            match rng.below(10) {
                0..=2 if adds < 8 => {
                    adds += 1;
                    ops.push(Op::AddOneTime(m, d));
                }
                3..=4 if adds < 8 => {
                    adds += 1;
                    ops.push(Op::AddLongTerm(m, d));
                }
                5 | 6 => ops.push(Op::GetOneTime(m)),
                7 => ops.push(Op::GetLongTerm(m)),
                8 => ops.push(Op::RemoveExpired),
                _ if ticks < max_ticks => {
                    ticks += 1;
                    ops.push(Op::Tick(2));
                }
                _ => ops.push(Op::GetOneTime(m)),
            }
        }
        max_adds = max_adds.max(adds);
        all_ops.push(ops);
    }
    let keys = make_keys(args.seed ^ 0x5151, 2, max_adds.max(1));
    let plans: Vec<Plan> = all_ops.iter().map(|o| plan(o, REC_START)).collect();
    let results = run_schedule(&keys, &plans, REC_START, &mut out);
    for (run, (p, r)) in plans.iter().zip(results).enumerate() {
        let Some(log) = r else {
            eprintln!("a run left its real-time window in {ROUNDS} rounds: machine too slow for the schedule");
            std::process::exit(2);
        };
        trace.event(json!({"ev": "Reset", "run": run}));
        let mut call = 0;
        'run: for (phase, calls) in log.iter().enumerate() {
            if phase > 0 {
                trace.event(json!({"ev": "Tick", "d": p.nows[phase] - p.nows[phase - 1]}));
            }
            for (op, seen) in p.phases[phase].iter().zip(calls) {
                out.eval();
                out.mark_distinct(format!("{run}:{call}"));
                call += 1;
                let seen = match seen {
                    Ok(s) => s,
                    Err(panic) => {
                        out.violation("C38", "registry-panics", format!("{op:?} panicked: {panic}"), json!({"run": run, "call": call}));
                        break 'run;
                    }
                };
                let ev = match op {
                    Op::AddOneTime(m, d) => json!({"ev": "AddOneTime", "m": format!("m{}", m + 1), "b": d.json(), "ok": seen.ok,
                                                   "ot_len": seen.ot_len, "lt_len": seen.lt_len}),
                    Op::AddLongTerm(m, d) => json!({"ev": "AddLongTerm", "m": format!("m{}", m + 1), "b": d.json(), "ok": seen.ok,
                                                    "ot_len": seen.ot_len, "lt_len": seen.lt_len}),
                    Op::GetOneTime(m) => json!({"ev": "GetOneTime", "m": format!("m{}", m + 1), "b": seen.b.json(), "ok": seen.ok,
                                                "verifies": seen.returned_verifies, "ot_len": seen.ot_len, "lt_len": seen.lt_len}),
                    Op::GetLongTerm(m) => json!({"ev": "GetLongTerm", "m": format!("m{}", m + 1), "b": seen.b.json(), "ok": seen.ok,
                                                 "verifies": seen.returned_verifies, "ot_len": seen.ot_len, "lt_len": seen.lt_len}),
                    Op::RemoveExpired => json!({"ev": "RemoveExpired"}),
                    Op::Tick(_) => unreachable!(),
                };
                out.sample(ev.clone());
                trace.event(ev);
            }
        }
    }
    let (events, runs) = trace.finish();
    out.set_trace(events, runs);
    out.write(args);
}
