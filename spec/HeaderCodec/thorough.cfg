SPECIFICATION MCSpec
CONSTANTS
  MaxFailed = 1
  MaxPrev = 4
  MaxDecodes = 2
  Canonical = TRUE
INVARIANTS
  RoundTrip
  Deterministic
  StillVerifies
  StableId
  SignedVerifies
  InconsistentNeverDecodes
  UnsignedNeverDecodes
VIEW NoHistView
CHECK_DEADLOCK TRUE
