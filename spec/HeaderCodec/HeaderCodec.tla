--------------------------- MODULE HeaderCodec ---------------------------
(***************************************************************************)
(* CBOR codec of p2panda operation headers (C02).                          *)
(*                                                                         *)
(*   Enc(inst)        transcribes `impl Serialize for Header<E>`           *)
(*                    p2panda-core/src/serde.rs:137-170 and, for the Node   *)
(*                    API extensions, `impl Serialize for Extensions`       *)
(*                    p2panda/src/operation.rs:488-518                      *)
(*   Parse(E, fs)     transcribes `HeaderVisitor::visit_seq`                *)
(*                    p2panda-core/src/serde.rs:193-262 (field presence is  *)
(*                    derived from payload_size / seq_num, the extensions   *)
(*                    field from the *type* E) and `ExtensionsVisitor`      *)
(*                    p2panda/src/operation.rs:536-596                      *)
(*   Sign / Verify / Id   transcribe Header::sign / verify / hash           *)
(*                    p2panda-core/src/operation.rs:266-305 (all three      *)
(*                    re-encode the header)                                 *)
(*                                                                         *)
(* TLA+ cannot speak about bytes.  An encoding is a sequence of abstract    *)
(* CBOR items ("fields": unsigned int with a zero/non-zero class, 32-byte   *)
(* string, 64-byte string, array, map); a header VALUE is a *shape*         *)
(* (payload size zero/non-zero, payload hash present, seq_num zero/non-zero,*)
(* backlink present, kind of extensions).  A signature is modelled by the   *)
(* field sequence it was computed over, the operation id (BLAKE3 of the     *)
(* bytes) by the field sequence itself (hash and signature are assumed      *)
(* injective / unforgeable).  The conformance harness concretises every     *)
(* shape with many real headers and compares real bytes.                    *)
(*                                                                         *)
(* The one place where encoding is not obviously a function of the value:   *)
(* `CausalExtensions.previous` is a `HashSet<Hash>`.  A HashSet INSTANCE    *)
(* has an iteration order of its own (per-instance RandomState), fixed at   *)
(* the time the instance is created (built or decoded) and kept by clone(). *)
(* An instance therefore carries a hidden permutation `ord` that `==` does  *)
(* not see.  The elements of `previous` are named 1..n by their position in *)
(* the very first encoding of a run.                                        *)
(*   Canonical = TRUE : serialisation emits the set in an order that is a   *)
(*                      function of the set (repaired code: sorted).        *)
(*   Canonical = FALSE: serialisation emits the instance's iteration order  *)
(*                      (the code before the repair; kept to document the    *)
(*                      counterexample, see NOTES.md).                      *)
(***************************************************************************)
EXTENDS Integers, Sequences, FiniteSets

CONSTANTS MaxFailed,    \* how many failed encodings of unrelated values are interleaved
          MaxPrev,      \* largest |previous| explored
          MaxDecodes,   \* how often the same bytes are decoded
          Canonical     \* BOOLEAN, see above

---------------------------------------------------------------------------
(* Header values (shapes)                                                  *)

ExtKinds == {"zst", "custom", "basic", "causal"}

\* uniform record so that TLC never compares values of different types
ExtVal(kind, prune, n) == [kind |-> kind, prune |-> prune, n |-> n]

ExtVals == {ExtVal("zst", FALSE, 0), ExtVal("custom", FALSE, 0)}
           \cup {ExtVal("basic", p, 0) : p \in BOOLEAN}
           \cup {ExtVal("causal", FALSE, n) : n \in 0..MaxPrev}

\* size / seq: 0 = zero, 1 = any non-zero value
Shapes == [size : 0..1, hash : BOOLEAN, seq : 0..1, back : BOOLEAN, ext : ExtVals]

\* validate_header, p2panda-core/src/operation.rs:516-548 (version is always 1 here)
Consistent(v) == ((v.size > 0) <=> v.hash) /\ ((v.seq > 0) <=> v.back)

\* The Rust type parameter E of Header<E>: decides statically whether an extensions
\* field exists (size_of::<E>() > 0) and how it is parsed.
ExtType(kind) == IF kind \in {"basic", "causal"} THEN "node" ELSE kind

Identity(n) == [i \in 1..n |-> i]
Perms(n) == {p \in [1..n -> 1..n] : \A i, j \in 1..n : p[i] = p[j] => i = j}

---------------------------------------------------------------------------
(* Abstract CBOR items.  One uniform record type:                          *)
(*   t       "uint" | "b32" | "b64" | "arr" | "map"                        *)
(*   n       uint: 0 / 1 (zero / non-zero class)                           *)
(*   over    b64 (signature): the field sequence that was signed            *)
(*   variant, prune, prev    arr (Node extensions): variant code, prune     *)
(*           flag, the `previous` hashes in the order they were written     *)

Item(t, n, over, variant, prune, prev) ==
    [t |-> t, n |-> n, over |-> over, variant |-> variant, prune |-> prune, prev |-> prev]
UInt(n)      == Item("uint", n, <<>>, 0, FALSE, <<>>)
B32          == Item("b32", 0, <<>>, 0, FALSE, <<>>)
Sig(over)    == Item("b64", 0, over, 0, FALSE, <<>>)
CustomMap    == Item("map", 0, <<>>, 0, FALSE, <<>>)
NodeArr(variant, prune, prev) == Item("arr", 0, <<>>, variant, prune, prev)

\* An instance: a value plus what `==` does not see (the iteration order of the set)
\* plus the signature it carries (`over` = <<>> and signed = FALSE when unsigned).
Inst(v, signed, over, ord) == [v |-> v, signed |-> signed, over |-> over, ord |-> ord]

\* Order in which `previous` is written: operation.rs:510 `serialize_element(&extensions.previous)`
EncPrev(inst) == IF Canonical THEN Identity(inst.v.ext.n) ELSE inst.ord

\* impl Serialize for Extensions (operation.rs:488-518); derive(Serialize) struct -> map; ZST -> nothing
ExtField(inst) ==
    LET e == inst.v.ext IN
    CASE e.kind = "zst"    -> <<>>
      [] e.kind = "custom" -> <<CustomMap>>
      [] e.kind = "basic"  -> <<NodeArr(0, e.prune, <<>>)>>
      [] e.kind = "causal" -> <<NodeArr(1, FALSE, EncPrev(inst))>>

\* impl Serialize for Header<E> (serde.rs:137-170): a field is written iff it is `Some`
Enc(inst) ==
    <<UInt(1), B32>>                                            \* version, verifying_key
    \o (IF inst.signed THEN <<Sig(inst.over)>> ELSE <<>>)       \* signature
    \o <<UInt(inst.v.size)>>                                    \* payload_size
    \o (IF inst.v.hash THEN <<B32>> ELSE <<>>)                  \* payload_hash
    \o <<UInt(inst.v.seq)>>                                     \* seq_num
    \o (IF inst.v.back THEN <<B32>> ELSE <<>>)                  \* backlink
    \o ExtField(inst)                                           \* extensions (non-ZST only)

Unsigned(inst) == Inst(inst.v, FALSE, <<>>, inst.ord)          \* clone + signature = None

\* Header::sign (operation.rs:276-282)
Signed(inst) == Inst(inst.v, TRUE, Enc(Unsigned(inst)), inst.ord)

\* Header::verify (operation.rs:286-297): re-encode the unsigned clone, compare with what was signed
Verify(inst) == inst.signed /\ Enc(Unsigned(inst)) = inst.over

\* Header::hash (operation.rs:302-304)
Id(inst) == Enc(inst)

\* validate_header
Validates(inst) == Verify(inst) /\ Consistent(inst.v)

---------------------------------------------------------------------------
(* Decoder: HeaderVisitor::visit_seq (serde.rs:193-262)                    *)

ParseErr == [err |-> TRUE, v |-> [size |-> 0, hash |-> FALSE, seq |-> 0, back |-> FALSE, ext |-> ExtVal("zst", FALSE, 0)],
             over |-> <<>>]
ParseOk(v, over) == [err |-> FALSE, v |-> v, over |-> over]

Has(fs, i, t) == i <= Len(fs) /\ fs[i].t = t

\* ExtensionsVisitor (operation.rs:536-596) applied to one item
ParseNodeExt(f) ==
    IF f.variant = 0 THEN ExtVal("basic", f.prune, 0)
    ELSE ExtVal("causal", FALSE, Len(f.prev))       \* collected into a fresh HashSet

Parse(E, fs) ==
    IF ~(Has(fs, 1, "uint") /\ Has(fs, 2, "b32") /\ Has(fs, 3, "b64") /\ Has(fs, 4, "uint"))
    THEN ParseErr                                                \* version, key, signature, size
    ELSE
    LET size  == fs[4].n
        iSeq  == IF size = 0 THEN 5 ELSE 6                       \* hash expected iff size # 0
    IN
    IF size # 0 /\ ~Has(fs, 5, "b32") THEN ParseErr              \* "payload hash missing" / wrong type
    ELSE IF ~Has(fs, iSeq, "uint") THEN ParseErr                 \* "sequence number missing"
    ELSE
    LET seq   == fs[iSeq].n
        iExt  == IF seq = 0 THEN iSeq + 1 ELSE iSeq + 2          \* backlink expected iff seq # 0
    IN
    IF seq # 0 /\ ~Has(fs, iSeq + 1, "b32") THEN ParseErr        \* "backlink missing"
    ELSE
    LET extT  == CASE E = "zst" -> "none" [] E = "custom" -> "map" [] E = "node" -> "arr"
        iEnd  == IF E = "zst" THEN iExt - 1 ELSE iExt
    IN
    IF E # "zst" /\ ~Has(fs, iExt, extT) THEN ParseErr           \* "extensions missing" / wrong type
    ELSE IF Len(fs) > iEnd THEN ParseErr                         \* "unexpected excessive field(s)"
    ELSE
    LET ext == CASE E = "zst"    -> ExtVal("zst", FALSE, 0)
                 [] E = "custom" -> ExtVal("custom", FALSE, 0)
                 [] E = "node"   -> ParseNodeExt(fs[iExt])
    IN ParseOk([size |-> size, hash |-> size # 0, seq |-> seq, back |-> seq # 0, ext |-> ext],
               fs[3].over)

\* The decoded instance: value and signature come from the bytes, the iteration order `o` of
\* a freshly collected HashSet does not.
Decoded(E, fs, o) ==
    LET r == Parse(E, fs) IN
    IF r.err THEN [err |-> TRUE, inst |-> Inst(ParseErr.v, FALSE, <<>>, <<>>)]
    ELSE [err |-> FALSE, inst |-> Inst(r.v, TRUE, r.over, o)]

---------------------------------------------------------------------------
(* The life of one header: built, signed, encoded, the bytes decoded       *)
(* MaxDecodes times; an equal value is built a second time by another      *)
(* route ("twin": e.g. decoded from CBOR listing `previous` in another     *)
(* order) and signed with the same key.                                    *)

VARIABLES pc,     \* "built" | "signed" | "encoded" | "twinned" | "done"
          h,      \* the original instance
          wire,   \* Enc(h) after signing
          dec,    \* sequence of decode results
          twin,   \* the second instance (meaningful from pc = "twinned")
          fe      \* failed encodings so far (see FailedEncode)

vars == <<pc, h, wire, dec, twin, fe>>

Init ==
    /\ pc = "built"
    /\ \E v \in Shapes : h = Inst(v, FALSE, <<>>, Identity(v.ext.n))
    /\ wire = <<>> /\ dec = <<>>
    /\ twin = h
    /\ fe = 0

\* `encode_cbor` (p2panda-core/src/cbor.rs) of some unrelated value FAILS half-way (a Serialize impl
\* that returns an error after it has written some items), at any time, on the same thread.
\* Encoding is a function of the value alone - there is no encoder state - so this step changes
\* nothing that any later step observes.
FailedEncode ==
    /\ fe < MaxFailed /\ pc # "done"
    /\ fe' = fe + 1
    /\ UNCHANGED <<pc, h, wire, dec, twin>>

Sign ==
    /\ pc = "built"
    /\ h' = Signed(h)
    /\ pc' = "signed"
    /\ UNCHANGED <<wire, dec, twin, fe>>

Encode ==
    /\ pc = "signed"
    /\ wire' = Enc(h)
    /\ pc' = "encoded"
    /\ UNCHANGED <<h, dec, twin, fe>>

DecodeWith(o) ==
    /\ pc = "encoded" /\ Len(dec) < MaxDecodes
    /\ dec' = Append(dec, Decoded(ExtType(h.v.ext.kind), wire, o))
    /\ UNCHANGED <<pc, h, wire, twin, fe>>

Decode == \E o \in Perms(h.v.ext.n) : DecodeWith(o)

BuildTwinWith(o) ==
    /\ pc = "encoded"
    /\ twin' = Signed(Inst(h.v, FALSE, <<>>, o))
    /\ pc' = "twinned"
    /\ UNCHANGED <<h, wire, dec, fe>>

BuildTwin == \E o \in Perms(h.v.ext.n) : BuildTwinWith(o)

Finish ==
    /\ pc = "twinned"
    /\ pc' = "done"
    /\ UNCHANGED <<h, wire, dec, twin, fe>>

Terminated == pc = "done" /\ UNCHANGED vars

Next == Sign \/ Encode \/ Decode \/ BuildTwin \/ Finish \/ FailedEncode \/ Terminated
Spec == Init /\ [][Next]_vars

---------------------------------------------------------------------------
(* C02                                                                     *)

Encoded == pc \in {"encoded", "twinned", "done"}
Twinned == pc \in {"twinned", "done"}
Decs == 1..Len(dec)

\* a header that passes validation decodes, to an equal value that carries the signature
RoundTrip ==
    Encoded /\ Consistent(h.v) =>
        \A i \in Decs : ~dec[i].err /\ dec[i].inst.v = h.v /\ dec[i].inst.over = h.over

\* equal values encode identically, however and whenever they were obtained
Deterministic ==
    Encoded =>
        /\ \A i \in Decs : ~dec[i].err /\ dec[i].inst.v = h.v => Enc(dec[i].inst) = wire
        /\ Twinned => Enc(Unsigned(twin)) = Enc(Unsigned(h))

\* ... so the decoded header still verifies and validates
StillVerifies ==
    Encoded /\ Consistent(h.v) =>
        \A i \in Decs : ~dec[i].err => Verify(dec[i].inst) /\ Validates(dec[i].inst)

\* ... and the operation id does not depend on how / when the value was obtained
StableId ==
    Encoded =>
        /\ \A i \in Decs : ~dec[i].err /\ dec[i].inst.v = h.v => Id(dec[i].inst) = Id(h)
        /\ Twinned => Id(twin) = Id(h)

\* a freshly signed header verifies (sign and verify encode the same instance)
SignedVerifies == pc # "built" => Verify(h)

\* Model-level facts beyond C02: the decoder accepts exactly the encodings of consistent
\* headers (an inconsistent one shifts the positional fields), and never an unsigned one.
InconsistentNeverDecodes ==
    Encoded /\ ~Consistent(h.v) => \A i \in Decs : dec[i].err
UnsignedNeverDecodes ==
    Parse(ExtType(h.v.ext.kind), Enc(Unsigned(h))).err
===========================================================================
