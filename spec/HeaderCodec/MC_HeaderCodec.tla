------------------------- MODULE MC_HeaderCodec -------------------------
(* Bounded instance of HeaderCodec for TLC + JSON export of one behaviour  *)
(* per header shape with the observables the real code must show.          *)
EXTENDS HeaderCodec, TLC, Json

VARIABLE hist   \* exported steps (history; hidden by VIEW in the exhaustive configs)

mcvars == <<pc, h, wire, dec, twin, fe, hist>>

\* type tokens of an encoding, as the harness reads them off real CBOR bytes
Tok(f) == CASE f.t = "uint" -> (IF f.n = 0 THEN "u0" ELSE "u+")
            [] f.t = "b32"  -> "b32"
            [] f.t = "b64"  -> "b64"
            [] f.t = "arr"  -> "arr"
            [] f.t = "map"  -> "map"
Layout(fs) == [i \in 1..Len(fs) |-> Tok(fs[i])]

\* order of `previous` inside an encoding (<<>> when there is no causal extension)
PrevOf(fs) == IF Len(fs) > 0 /\ fs[Len(fs)].t = "arr" THEN fs[Len(fs)].prev ELSE <<>>

DecObs(d) ==
    [a |-> "Decode",
     ok |-> ~d.err,
     eq |-> ~d.err /\ d.inst.v = h.v,                          \* decoded == original
     same_bytes |-> ~d.err /\ Enc(d.inst) = wire,              \* to_bytes() again
     verifies |-> ~d.err /\ Verify(d.inst),
     validates |-> ~d.err /\ Validates(d.inst),
     same_id |-> ~d.err /\ Id(d.inst) = Id(h)]

MCInit == Init /\ hist = <<>>
MCFailedEncode == FailedEncode /\ UNCHANGED hist

MCSign == Sign /\ hist' = Append(hist, [a |-> "Sign", layout |-> Layout(h'.over), verifies |-> Verify(h')])
MCEncode == Encode /\ hist' = Append(hist, [a |-> "Encode", layout |-> Layout(wire'), prev |-> PrevOf(wire')])
MCDecode == Decode /\ hist' = Append(hist, DecObs(dec'[Len(dec')]))
MCBuildTwin == Len(dec) = MaxDecodes /\ BuildTwin /\ hist' = Append(hist, [a |-> "Twin",
                                                  same_bytes |-> Enc(twin') = wire,
                                                  same_id |-> Id(twin') = Id(h),
                                                  verifies |-> Verify(twin')])
MCFinish == Finish /\ UNCHANGED hist
MCTerminated == Terminated /\ UNCHANGED hist

MCNext == MCSign \/ MCEncode \/ MCDecode \/ MCBuildTwin \/ MCFinish \/ MCFailedEncode \/ MCTerminated

MCSpec == MCInit /\ [][MCNext]_mcvars

\* Export run: failed encodings are unobservable in the specification (MCSpec checks the invariants with
\* them interleaved everywhere), so they are not exported: the replayer inserts them at seeded random
\* points of every behaviour. The hidden iteration order is not an observable, and with Canonical = TRUE the
\* exhaustive run (MCSpec) shows that no observable depends on it; one representative order per
\* decode / twin is therefore enough to export every distinct behaviour (bin/check drops duplicates).
GenDecode == DecodeWith(Identity(h.v.ext.n)) /\ hist' = Append(hist, DecObs(dec'[Len(dec')]))
GenBuildTwin == Len(dec) = MaxDecodes /\ BuildTwinWith(Identity(h.v.ext.n))
                /\ hist' = Append(hist, [a |-> "Twin",
                                         same_bytes |-> Enc(twin') = wire,
                                         same_id |-> Id(twin') = Id(h),
                                         verifies |-> Verify(twin')])
GenNext == MCSign \/ MCEncode \/ GenDecode \/ GenBuildTwin \/ MCFinish \/ MCTerminated
GenSpec == MCInit /\ [][GenNext]_mcvars

NoHistView == <<pc, h, wire, dec, twin, fe>>

ShapeJson(v) == [size |-> v.size, hash |-> v.hash, seq |-> v.seq, back |-> v.back,
                 kind |-> v.ext.kind, prune |-> v.ext.prune, n |-> v.ext.n]

Export ==
    pc = "done" =>
        PrintT(<<"REPLAY", ToJson([kind |-> "codec", shape |-> ShapeJson(h.v),
                                   consistent |-> Consistent(h.v),
                                   unsigned_decodes |-> ~UnsignedNeverDecodes,
                                   steps |-> hist])>>)

\* vacuity guards (must be *violated* = reachable; checked by hand, see NOTES.md) are not needed:
\* every shape is an initial state and every action is taken for every shape.
===========================================================================
