\* NOT a registered step. Model of the code BEFORE the repair (set serialised in the
\* instance's iteration order): TLC must report Deterministic violated. See NOTES.md.
SPECIFICATION MCSpec
CONSTANTS
  MaxFailed = 1
  MaxPrev = 3
  MaxDecodes = 2
  Canonical = FALSE
INVARIANTS
  RoundTrip
  Deterministic
  StillVerifies
  StableId
VIEW NoHistView
CHECK_DEADLOCK TRUE
