SPECIFICATION MCSpec
CONSTANTS
  MaxFailed = 1
  MaxPrev = 3
  MaxDecodes = 3
  Canonical = TRUE
INVARIANTS
  RoundTrip
  Deterministic
  StillVerifies
  StableId
  SignedVerifies
  InconsistentNeverDecodes
  UnsignedNeverDecodes
VIEW NoHistView
CHECK_DEADLOCK TRUE
