------------------------ MODULE Trace_HeaderCodec ------------------------
(* Trace validation: events recorded from the real Header<E> codec         *)
(* (harness `vh-codec headercodec record`) must be behaviours of           *)
(* HeaderCodec, with the C02 predicates evaluated at every step.           *)
(*                                                                         *)
(* One run = one concrete header:                                          *)
(*   Reset{shape}  Sign{layout,verifies}  Encode{layout,prev}              *)
(*   Decode{ok,eq,ord,same_bytes,verifies,validates,same_id}*  Twin{..}    *)
(* `layout` are the CBOR type tokens read off the real bytes, `prev`/`ord` *)
(* the order in which the `previous` hashes appear in real bytes (named by *)
(* their position in the run's first encoding).  The hidden iteration      *)
(* order of a decoded instance is bound to the order observed when that    *)
(* instance is encoded again (with Canonical = TRUE the specification      *)
(* ignores it and demands 1..n).                                           *)
EXTENDS HeaderCodec, TLC, Json, IOUtils

Rec == ndJsonDeserialize(IOEnv.TRACE)

VARIABLE i
tvars == <<pc, h, wire, dec, twin, fe, i>>

Ev == Rec[i]

Tok(f) == CASE f.t = "uint" -> (IF f.n = 0 THEN "u0" ELSE "u+")
            [] f.t = "b32"  -> "b32"
            [] f.t = "b64"  -> "b64"
            [] f.t = "arr"  -> "arr"
            [] f.t = "map"  -> "map"
Layout(fs) == [k \in 1..Len(fs) |-> Tok(fs[k])]
PrevOf(fs) == IF Len(fs) > 0 /\ fs[Len(fs)].t = "arr" THEN fs[Len(fs)].prev ELSE <<>>

\* JSON arrays arrive as sequences; compare element-wise (an empty array is the empty function)
SameSeq(a, b) == Len(a) = Len(b) /\ \A k \in 1..Len(a) : a[k] = b[k]
IsPerm(o, n) == Len(o) = n /\ \A k \in 1..n : \E j \in 1..n : o[j] = k

ShapeOf(s) == [size |-> s.size, hash |-> s.hash, seq |-> s.seq, back |-> s.back,
               ext |-> ExtVal(s.kind, s.prune, s.n)]

StepReset ==
    /\ Ev.ev = "Reset"
    /\ Ev.shape.kind \in ExtKinds /\ Ev.shape.size \in 0..1 /\ Ev.shape.seq \in 0..1
    /\ h' = Inst(ShapeOf(Ev.shape), FALSE, <<>>, Identity(Ev.shape.n))
    /\ twin' = h'
    /\ pc' = "built" /\ wire' = <<>> /\ dec' = <<>> /\ fe' = 0

\* the harness made encode_cbor fail on an unrelated value right before the next event's calls
StepFailedEncode ==
    /\ Ev.ev = "FailedEncode"
    /\ FailedEncode

StepSign ==
    /\ Ev.ev = "Sign"
    /\ Sign
    /\ SameSeq(Layout(h'.over), Ev.layout)
    /\ Verify(h') = Ev.verifies

StepEncode ==
    /\ Ev.ev = "Encode"
    /\ Encode
    /\ SameSeq(Layout(wire'), Ev.layout)
    /\ SameSeq(PrevOf(wire'), Ev.prev)

StepDecode ==
    /\ Ev.ev = "Decode"
    /\ LET n == h.v.ext.n
           o == IF Ev.ok /\ IsPerm(Ev.ord, n) THEN [k \in 1..n |-> Ev.ord[k]] ELSE Identity(n)
       IN /\ Ev.ok => IsPerm(Ev.ord, n)          \* the decoded set has exactly the signed elements
          /\ DecodeWith(o)
    /\ LET d == dec'[Len(dec')] IN
          /\ Ev.ok = ~d.err
          /\ Ev.eq = (~d.err /\ d.inst.v = h.v)
          /\ Ev.same_bytes = (~d.err /\ Enc(d.inst) = wire)
          /\ Ev.verifies = (~d.err /\ Verify(d.inst))
          /\ Ev.validates = (~d.err /\ Validates(d.inst))
          /\ Ev.same_id = (~d.err /\ Id(d.inst) = Id(h))

StepTwin ==
    /\ Ev.ev = "Twin"
    /\ LET n == h.v.ext.n IN
          /\ IsPerm(Ev.ord, n)
          /\ BuildTwinWith([k \in 1..n |-> Ev.ord[k]])
    /\ Ev.same_bytes = (Enc(twin') = wire)
    /\ Ev.same_id = (Id(twin') = Id(h))
    /\ Ev.verifies = Verify(twin')

TraceInit ==
    /\ i = 1
    /\ pc = "built" /\ wire = <<>> /\ dec = <<>>
    /\ h = Inst([size |-> 0, hash |-> FALSE, seq |-> 0, back |-> FALSE, ext |-> ExtVal("zst", FALSE, 0)], FALSE, <<>>, <<>>)
    /\ twin = h /\ fe = 0

TraceNext ==
    /\ i <= Len(Rec)
    /\ i' = i + 1
    /\ (StepReset \/ StepFailedEncode \/ StepSign \/ StepEncode \/ StepDecode \/ StepTwin)
TraceSpec == TraceInit /\ [][TraceNext]_tvars

TraceAccepted ==
    LET d == TLCGet("stats").diameter IN
    IF d - 1 = Len(Rec) THEN TRUE
    ELSE Print(<<"TRACE_REJECTED", d - 1, Len(Rec), ToJson(Rec[d])>>, FALSE)
===========================================================================
