SPECIFICATION GenSpec
CONSTANTS
  MaxPrev = 3
  MaxDecodes = 3
  Canonical = TRUE
INVARIANTS
  Export
CHECK_DEADLOCK FALSE
