SPECIFICATION GenSpec
CONSTANTS
  MaxFailed = 1
  MaxPrev = 3
  MaxDecodes = 3
  Canonical = TRUE
INVARIANTS
  Export
CHECK_DEADLOCK FALSE
