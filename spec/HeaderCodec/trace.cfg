SPECIFICATION TraceSpec
CONSTANTS
  MaxFailed = 1000000
  MaxPrev = 0
  MaxDecodes = 1000000
  Canonical = TRUE
INVARIANTS
  RoundTrip
  Deterministic
  StillVerifies
  StableId
  SignedVerifies
POSTCONDITION TraceAccepted
CHECK_DEADLOCK FALSE
