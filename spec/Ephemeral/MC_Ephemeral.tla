--------------------------- MODULE MC_Ephemeral ---------------------------
(* Bounded instances of Ephemeral for TLC + JSON export of behaviours.     *)
EXTENDS Ephemeral, TLC, Json

CONSTANTS
    KeepHist,       \* TRUE in the export configs only (the history multiplies states)
    FloodLens,      \* machine 4: lengths of runs of skipped items in front of one valid message
    FloodCap,       \* machine 4: capacity of the channel (a power of two, as tokio rounds up)
    AtomicPolls     \* TRUE in the export configs: the network does not act between two inner polls of
                    \* one poll_next call, so that a behaviour maps 1:1 onto calls of the real poll_next
                    \* (the exhaustive configs explore those interleavings too); likewise nothing
                    \* happens between the steps one poll of a `publish` future performs

VARIABLES hist,
          fcls    \* machine 2 only: the class handed to from_bytes
mcvars == <<cap, chan, sent, closed, registered, task, skips, yielded, dropped, skipped,
            pts, gcap, ppc, held, waitq, gq, drawn, published, hist, fcls>>

Log(h) == hist' = (IF KeepHist THEN Append(hist, h) ELSE hist) /\ UNCHANGED fcls
NetMayAct == AtomicPolls => task # "polling"

MCInit == Init /\ hist = <<>> /\ fcls = "intact"

---------------------------------------------------------------------------
(* Machine 1: subscription                                                  *)

MCSend ==
    /\ NetMayAct
    /\ \E c \in Classes :
        /\ Send(c)
        /\ Log([ev |-> "Send", cls |-> c, id |-> sent + 1, woke |-> registered])
    /\ UNCHANGED pubvars

MCClose ==
    /\ NetMayAct
    /\ Close /\ Log([ev |-> "Close", woke |-> registered]) /\ UNCHANGED pubvars

PollLog(res, id) == Log([ev |-> "Poll", start |-> (task = "runnable"), res |-> res, id |-> id])

MCPollEmpty  == PollEmpty  /\ PollLog("empty", 0)           /\ UNCHANGED pubvars
MCPollClosed == PollClosed /\ PollLog("closed", 0)          /\ UNCHANGED pubvars
MCPollValid  == PollValid  /\ PollLog("yield", chan[1].id)  /\ UNCHANGED pubvars
MCPollReject == PollReject /\ PollLog("reject", chan[1].id) /\ UNCHANGED pubvars
MCPollLagged == PollLagged /\ PollLog("lagged", 0)          /\ UNCHANGED pubvars
MCPoll == MCPollEmpty \/ MCPollClosed \/ MCPollValid \/ MCPollReject \/ MCPollLagged

MCTerminated == Terminated /\ UNCHANGED <<hist, fcls>>

SubMCNext == MCSend \/ MCClose \/ MCPoll \/ MCTerminated
SubMCSpec == MCInit /\ [][SubMCNext]_mcvars /\ WF_mcvars(MCPoll)

C17_EventuallyYielded == EventuallyYielded
C17_NoLostWakeup == NoLostWakeup
C17_ParkedOnlyWhenDrained == ParkedOnlyWhenDrained
C16_YieldedAreAuthentic == YieldedAreAuthentic
C16_TamperedNeverYielded == TamperedNeverYielded
C16_YieldedInOrder == YieldedInOrder
Conserved == Conservation

\* branch-reached guards (negations are violated = the branch is reachable; run once by hand, see NOTES)
NeverLaggedThenValid == ~(\E k \in DOMAIN yielded : \E d \in dropped : d < yielded[k].id)

Quiescent == task \in {"parked", "done"} /\ (closed \/ sent = MaxSend)

Ids(s) == [k \in DOMAIN s |-> s[k].id]
ExportSub ==
    Quiescent => PrintT(<<"REPLAY", ToJson([kind |-> "sub", cap |-> cap, steps |-> hist,
                                            yielded |-> Ids(yielded), dropped |-> dropped,
                                            done |-> (task = "done")])>>)

---------------------------------------------------------------------------
(* Machine 2: every class as one case (function-style): verdict of from_bytes *)

ClassInit == Init /\ hist = <<>> /\ fcls \in AllClasses
ClassNext == FALSE /\ UNCHANGED mcvars
ClassSpec == ClassInit /\ [][ClassNext]_mcvars

C16_AcceptIffAuthentic == Accept(fcls) <=> Authentic(fcls)
C16_TamperedRejected == Tampered(fcls) => ~Accept(fcls)
ExportClass ==
    PrintT(<<"REPLAY", ToJson([kind |-> "class", cls |-> fcls, accept |-> Accept(fcls)])>>)

---------------------------------------------------------------------------
(* Machine 4: floods - a long run of items the subscription skips, all already queued when the  *)
(* task is polled, with ONE valid message behind them (deterministic: only the executor acts).   *)
(* With n = FloodCap - 1 also the overflow case: three more items were delivered before and       *)
(* overwritten, the receiver sees Lagged first.                                                  *)

RejectClasses == {c \in AllClasses : ~Accept(c)}

FloodChan(c, n, over) ==
    [k \in 1..n |-> [cls |-> c, id |-> over + k]] \o <<[cls |-> "intact", id |-> over + n + 1]>>

FloodInit ==
    /\ \E c \in RejectClasses, n \in FloodLens, lag \in BOOLEAN :
          /\ lag => n = FloodCap - 1
          /\ LET over == IF lag THEN 3 ELSE 0
             IN /\ chan = (IF lag THEN <<Lag>> ELSE <<>>) \o FloodChan(c, n, over)
                /\ sent = over + n + 1
                /\ dropped = 1..over
          /\ fcls = c
    /\ cap = FloodCap /\ closed = FALSE /\ registered = FALSE /\ task = "runnable" /\ skips = 0
    /\ yielded = <<>> /\ skipped = {}
    /\ PubInit /\ hist = <<>>

FloodNext == MCPoll
FloodSpec == FloodInit /\ [][FloodNext]_mcvars /\ WF_mcvars(MCPoll)

\* C17 on a flood: the valid message behind the run is yielded, whatever the length of the run
C17_FloodEventuallyYielded == <>(yielded # <<>>)

FloodDone == task = "parked" /\ chan = <<>>
ExportFlood ==
    FloodDone => PrintT(<<"REPLAY", ToJson([kind |-> "flood", cls |-> fcls, cap |-> cap,
                                            n |-> Cardinality(skipped), over |-> Cardinality(dropped),
                                            yielded |-> Ids(yielded)])>>)

---------------------------------------------------------------------------
(* Machine 3: publisher handles over the bounded channel to gossip          *)

\* some handle is inside a poll of its publish future (between two steps one poll performs)
MidPoll == \E h \in Handles : ppc[h] \in {"drawn", "signed", "sent"}
MayStartPoll == AtomicPolls => ~MidPoll

MCCreateStream ==
    /\ pts = NoTs
    /\ \E w \in Wall : CreateStream(w) /\ Log([ev |-> "CreateStream", w |-> w])
    /\ UNCHANGED subvars

MCDrawTs ==
    /\ pts # NoTs /\ MayStartPoll
    /\ \E h \in Handles, w \in Wall :
          DrawTs(h, w) /\ Log([ev |-> "DrawTs", h |-> h, w |-> w, ts |-> Increment(pts, w)])
    /\ UNCHANGED subvars

MCSignEncode ==
    /\ pts # NoTs
    /\ \E h \in Handles : SignEncode(h) /\ Log([ev |-> "SignEncode", h |-> h])
    /\ UNCHANGED subvars

MCSendTry ==
    /\ pts # NoTs
    /\ \E h \in Handles : SendTry(h) /\ Log([ev |-> "SendTry", h |-> h, waits |-> ~Room])
    /\ UNCHANGED subvars

MCDrain ==
    /\ MayStartPoll
    /\ Drain /\ Log([ev |-> "Drain", ts |-> gq[1].ts, h |-> gq[1].h, woke |-> (waitq # <<>>)])
    /\ UNCHANGED subvars

MCSendResume ==
    /\ MayStartPoll
    /\ \E h \in Handles : SendResume(h) /\ Log([ev |-> "SendResume", h |-> h])
    /\ UNCHANGED subvars

MCReturn ==
    /\ pts # NoTs
    /\ \E h \in Handles : Return(h) /\ Log([ev |-> "Return", h |-> h])
    /\ UNCHANGED subvars

PubMCNext == MCCreateStream \/ MCDrawTs \/ MCSignEncode \/ MCSendTry \/ MCDrain \/ MCSendResume \/ MCReturn
PubMCSpec == MCInit /\ [][PubMCNext]_mcvars

C16_TimestampsStrictlyIncrease == TimestampsStrictlyIncrease
C16_PublishedDistinct == PublishedDistinct
C16_PerHandleInOrder == PerHandleInOrder
C16_ClockIsLastDrawn == ClockIsLastDrawn
C16_ClockNeverRegresses == [][pts # NoTs => ~TLess(pts', pts)]_mcvars

\* branch reached (negation used as invariant by hand, see NOTES): two publishes overlapped at the await
NeverTwoInFlight == Cardinality({h \in Handles : ppc[h] # "idle"}) < 2

PubDone == Len(drawn) = MaxPublish /\ gq = <<>> /\ \A h \in Handles : ppc[h] = "idle"
ExportPub ==
    PubDone => PrintT(<<"REPLAY", ToJson([kind |-> "pub", gcap |-> gcap, steps |-> hist])>>)
===========================================================================
