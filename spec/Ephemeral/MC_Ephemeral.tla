--------------------------- MODULE MC_Ephemeral ---------------------------
(* Bounded instances of Ephemeral for TLC + JSON export of behaviours.     *)
EXTENDS Ephemeral, TLC, Json

CONSTANTS
    KeepHist,       \* TRUE in the export configs only (the history multiplies states)
    AtomicPolls     \* TRUE in the export configs: the network does not act between two inner polls of
                    \* one poll_next call, so that a behaviour maps 1:1 onto calls of the real poll_next
                    \* (the exhaustive configs explore those interleavings too)

VARIABLES hist,
          fcls    \* machine 2 only: the class handed to from_bytes
mcvars == <<cap, chan, sent, closed, registered, task, yielded, dropped, skipped, pts, published, hist, fcls>>

Log(h) == hist' = (IF KeepHist THEN Append(hist, h) ELSE hist) /\ UNCHANGED fcls
NetMayAct == AtomicPolls => task # "polling"

MCInit == Init /\ hist = <<>> /\ fcls = "intact"

---------------------------------------------------------------------------
(* Machine 1: subscription                                                  *)

MCSend ==
    /\ NetMayAct
    /\ \E c \in Classes :
        /\ Send(c)
        /\ Log([ev |-> "Send", cls |-> c, id |-> sent + 1, woke |-> registered])
    /\ UNCHANGED pubvars

MCClose ==
    /\ NetMayAct
    /\ Close /\ Log([ev |-> "Close", woke |-> registered]) /\ UNCHANGED pubvars

PollLog(res, id) == Log([ev |-> "Poll", start |-> (task = "runnable"), res |-> res, id |-> id])

MCPollEmpty  == PollEmpty  /\ PollLog("empty", 0)           /\ UNCHANGED pubvars
MCPollClosed == PollClosed /\ PollLog("closed", 0)          /\ UNCHANGED pubvars
MCPollValid  == PollValid  /\ PollLog("yield", chan[1].id)  /\ UNCHANGED pubvars
MCPollReject == PollReject /\ PollLog("reject", chan[1].id) /\ UNCHANGED pubvars
MCPollLagged == PollLagged /\ PollLog("lagged", 0)          /\ UNCHANGED pubvars
MCPoll == MCPollEmpty \/ MCPollClosed \/ MCPollValid \/ MCPollReject \/ MCPollLagged

MCTerminated == Terminated /\ UNCHANGED <<hist, fcls>>

SubMCNext == MCSend \/ MCClose \/ MCPoll \/ MCTerminated
SubMCSpec == MCInit /\ [][SubMCNext]_mcvars /\ WF_mcvars(MCPoll)

C17_EventuallyYielded == EventuallyYielded
C17_NoLostWakeup == NoLostWakeup
C17_ParkedOnlyWhenDrained == ParkedOnlyWhenDrained
C16_YieldedAreAuthentic == YieldedAreAuthentic
C16_TamperedNeverYielded == TamperedNeverYielded
C16_YieldedInOrder == YieldedInOrder
Conserved == Conservation

\* branch-reached guards (negations are violated = the branch is reachable; run once by hand, see NOTES)
NeverLaggedThenValid == ~(\E k \in DOMAIN yielded : \E d \in dropped : d < yielded[k].id)

Quiescent == task \in {"parked", "done"} /\ (closed \/ sent = MaxSend)

Ids(s) == [k \in DOMAIN s |-> s[k].id]
ExportSub ==
    Quiescent => PrintT(<<"REPLAY", ToJson([kind |-> "sub", cap |-> cap, steps |-> hist,
                                            yielded |-> Ids(yielded), dropped |-> dropped,
                                            done |-> (task = "done")])>>)

---------------------------------------------------------------------------
(* Machine 2: every class as one case (function-style): verdict of from_bytes *)

ClassInit == Init /\ hist = <<>> /\ fcls \in AllClasses
ClassNext == FALSE /\ UNCHANGED mcvars
ClassSpec == ClassInit /\ [][ClassNext]_mcvars

C16_AcceptIffAuthentic == Accept(fcls) <=> Authentic(fcls)
C16_TamperedRejected == Tampered(fcls) => ~Accept(fcls)
ExportClass ==
    PrintT(<<"REPLAY", ToJson([kind |-> "class", cls |-> fcls, accept |-> Accept(fcls)])>>)

---------------------------------------------------------------------------
(* Machine 3: publisher                                                     *)

MCCreateStream ==
    /\ pts = NoTs
    /\ \E w \in Wall : CreateStream(w) /\ Log([ev |-> "CreateStream", w |-> w, ts |-> <<w, 0>>])
    /\ UNCHANGED subvars

MCPublish ==
    /\ pts # NoTs
    /\ \E w \in Wall : Publish(w) /\ Log([ev |-> "Publish", w |-> w, ts |-> Increment(pts, w)])
    /\ UNCHANGED subvars

PubMCNext == MCCreateStream \/ MCPublish
PubMCSpec == MCInit /\ [][PubMCNext]_mcvars

C16_TimestampsStrictlyIncrease == TimestampsStrictlyIncrease
C16_PublishedDistinct == PublishedDistinct

ExportPub ==
    Len(published) = MaxPublish => PrintT(<<"REPLAY", ToJson([kind |-> "pub", steps |-> hist])>>)
===========================================================================
