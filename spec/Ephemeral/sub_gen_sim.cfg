SPECIFICATION SubMCSpec
CONSTANTS
  Caps = {1, 2, 4}
  Classes = {"intact", "foreign_intact", "trailing_bytes", "flip_version", "version2_signed", "swap_key", "flip_sig", "flip_ts", "flip_logical", "flip_body", "foreign_sig_keep_author", "truncated", "garbage", "wrong_body_type", "bitflip_any"}
  MaxSend = 10
  Wall = {}
  MaxPublish = 0
  Handles = {}
  GCaps = {1}
  SplitCommit = FALSE
  PendingWithoutWake = FALSE
  SkipBudget = 0
  BudgetSelfWake = FALSE
  ClockAsCoded = FALSE
  FloodLens = {}
  FloodCap = 1
  KeepHist = TRUE
  AtomicPolls = TRUE
INVARIANTS
  ExportSub
CHECK_DEADLOCK FALSE
