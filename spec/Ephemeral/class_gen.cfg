SPECIFICATION ClassSpec
CONSTANTS
  Caps = {1}
  Classes = {}
  MaxSend = 0
  Wall = {}
  MaxPublish = 0
  PendingWithoutWake = FALSE
  ClockAsCoded = FALSE
  KeepHist = FALSE
  AtomicPolls = FALSE
INVARIANTS
  ExportClass
CHECK_DEADLOCK FALSE
