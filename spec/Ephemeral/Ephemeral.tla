------------------------------ MODULE Ephemeral ------------------------------
(***************************************************************************)
(* Ephemeral streams of p2panda (p2panda/src/streams/ephemeral_stream.rs)   *)
(* over a gossip subscription (p2panda-net/src/gossip/api.rs:354-389, a     *)
(* tokio `broadcast` receiver wrapped in a `BroadcastStream`).              *)
(*                                                                          *)
(* Two independent machines (the two halves returned by `ephemeral_stream`  *)
(* share nothing but the gossip handle):                                    *)
(*                                                                          *)
(*  Subscription  Send / Close            the network side of the broadcast *)
(*                                        channel (`from_gossip_tx`)        *)
(*                PollEmpty / PollClosed / PollValid / PollReject /         *)
(*                PollLagged              one inner `poll_next` (= one      *)
(*                                        `recv` on the channel) inside     *)
(*                                        `EphemeralStreamSubscription::    *)
(*                                        poll_next`, lines 368-398         *)
(*                The consumer is a task `while let Some(m) = rx.next()     *)
(*                .await {..}` on an executor: a task that returned Pending *)
(*                is polled again ONLY after its waker was woken.           *)
(*                                                                          *)
(*  Publisher     CreateStream            `ephemeral_stream` (line 216)     *)
(*                DrawTs / SignEncode / SendTry / SendResume / Return /     *)
(*                Drain                   the steps of `publish` (lines     *)
(*                                        291-330) for every handle (clones *)
(*                                        share the clock behind one mutex) *)
(*                                        over the bounded mpsc channel to  *)
(*                                        the gossip actor; publishes of    *)
(*                                        different handles may overlap at  *)
(*                                        the send await                    *)
(*                                                                          *)
(* Bytes, CBOR and Ed25519 are abstracted: an item on the channel is a      *)
(* CLASS (what was done to a message a publisher produced); the three       *)
(* checks of `WrappedMessage::from_bytes` (decode, version, signature) are  *)
(* predicates on classes.  The harness concretises every class with real    *)
(* bytes taken from the real publisher.                                     *)
(***************************************************************************)
EXTENDS Integers, Sequences, FiniteSets

CONSTANTS
    Caps,               \* capacities of the broadcast channel (tokio rounds up to a power of two)
    Classes,            \* item classes the network may deliver (subset of AllClasses)
    MaxSend,            \* items delivered in total            (bounded by construction, no CONSTRAINT)
    Wall,               \* values a wall-clock reading may return
    MaxPublish,         \* publishes (timestamp draws) in total
    Handles,            \* publisher handles (`EphemeralStreamPublisher` and its clones; they share the clock)
    GCaps,              \* capacities of the mpsc channel publisher -> gossip actor (`to_topic_tx`)
    SplitCommit,        \* FALSE: the clock is advanced AND stored in one critical section (the code, line 301-308)
                        \* TRUE:  model-level mutant "store the drawn timestamp only after the send returned"
    PendingWithoutWake, \* TRUE: poll_next as it was before commit "fix: ephemeral subscription ..."
                        \*       (returns Poll::Pending after an invalid / lagged item, no waker registered)
    ClockAsCoded,       \* TRUE: HybridTimestamp::increment as it was before its repair (see spec/HybridClock)
    SkipBudget,         \* 0: one poll_next call skips as many invalid / lagged items in a row as there are (the
                        \*     code: `loop`); k > 0: an implementation that returns Pending after k skips in one call
    BudgetSelfWake      \* only with a budget: TRUE = it calls `cx.waker().wake_by_ref()` before that Pending (fine),
                        \* FALSE = it does not (model-level mutant: nothing was registered, the task is lost)

---------------------------------------------------------------------------
(* Item classes and the verdict of WrappedMessage::from_bytes (lines 71-102) *)

AllClasses == {
    "intact",                  \* bytes exactly as the publisher produced them
    "foreign_intact",          \* a complete message produced by another key holder (re-signed, own author field)
    "flip_version",            \* version field changed, signature kept
    "version2_signed",         \* version 2, correctly signed over version 2 by its author
    "swap_key",                \* verifying key replaced by another key, signature kept
    "flip_sig",                \* signature changed
    "flip_ts",                 \* wall-clock part of the timestamp changed
    "flip_logical",            \* logical part of the timestamp changed
    "flip_body",               \* body changed
    "foreign_sig_keep_author", \* re-signed by a foreign key over the same fields, author field kept
    "truncated", "garbage", "wrong_body_type",  \* not decodable as the message tuple
    "bitflip_any",             \* one bit of the encoded bytes flipped, anywhere: either the framing breaks
                               \* (not decodable) or a signed field / the key / the signature changes
    "trailing_bytes"           \* bytes appended AFTER the encoded tuple: `ciborium::from_reader` reads one
                               \* value and stops, they are not part of the message (version, key, signature,
                               \* timestamp, body are untouched and are what is yielded)
}

Decodable(c)   == c \notin {"truncated", "garbage", "wrong_body_type"}      \* line 73-80
VersionOk(c)   == c \notin {"flip_version", "version2_signed"}              \* line 85-87
SigVerifies(c) == c \in {"intact", "foreign_intact", "version2_signed", "trailing_bytes"}     \* line 98 (Ed25519 assumed unforgeable)
Accept(c)      == Decodable(c) /\ VersionOk(c) /\ SigVerifies(c)

\* what C16 calls authentic: the reported author signed exactly the reported version-1 fields
Authentic(c) == c \in {"intact", "foreign_intact", "trailing_bytes"}
Tampered(c)  == c \in AllClasses \ {"intact", "foreign_intact", "trailing_bytes"}

Lag == [cls |-> "lagged", id |-> 0]

---------------------------------------------------------------------------
VARIABLES
    cap,        \* capacity of the broadcast channel of this run
    chan,       \* what the receiver will see next, oldest first; a Lag marker can only be the head
    sent,       \* number of items delivered so far (ids are 1, 2, ..)
    closed,     \* all senders dropped
    registered, \* the task's waker is registered with the channel (a `recv` found it empty)
    task,       \* "runnable" (scheduled; a poll_next call starts), "polling" (inside poll_next,
                \*  between two inner polls), "parked" (returned Pending), "done" (saw None)
    skips,      \* items skipped in a row by the running poll_next call
    yielded,    \* items yielded by the subscription, in order
    dropped,    \* ids overwritten in the channel before the receiver saw them
    skipped,    \* ids consumed and rejected
    pts,        \* publisher: the HybridTimestamp behind the mutex (<<-1,-1>> before the stream exists)
    gcap,       \* publisher: capacity of the channel to the gossip actor of this run
    ppc,        \* publisher: per handle, where its publish call is: "idle", "drawn", "signed",
                \*            "waiting" (parked in the send await), "granted" (woken, permit assigned), "sent"
    held,       \* publisher: per handle, the timestamp its running call drew (what it signs)
    waitq,      \* publisher: handles parked in `send().await`, in arrival order (tokio's mpsc is FIFO-fair)
    gq,         \* publisher: messages [ts, h] in the channel, not yet taken by the gossip actor
    drawn,      \* publisher: every timestamp drawn, in draw order
    published   \* publisher: every message handed to the channel, in channel order

subvars == <<cap, chan, sent, closed, registered, task, skips, yielded, dropped, skipped>>
pubvars == <<pts, gcap, ppc, held, waitq, gq, drawn, published>>
vars == <<cap, chan, sent, closed, registered, task, skips, yielded, dropped, skipped,
          pts, gcap, ppc, held, waitq, gq, drawn, published>>

Body(ch) == IF ch # <<>> /\ ch[1] = Lag THEN Tail(ch) ELSE ch
Range(s) == {s[k] : k \in DOMAIN s}

SubInit ==
    /\ cap \in Caps /\ chan = <<>> /\ sent = 0 /\ closed = FALSE
    /\ registered = FALSE /\ task = "runnable" /\ skips = 0
    /\ yielded = <<>> /\ dropped = {} /\ skipped = {}

\* tokio broadcast: `send` wakes every waiting receiver
Wake == IF registered THEN task' = "runnable" /\ registered' = FALSE
                      ELSE UNCHANGED <<task, registered>>

\* the gossip actor forwards a message from the network: from_gossip_tx.send(bytes)
Send(c) ==
    /\ sent < MaxSend /\ ~closed
    /\ LET item == [cls |-> c, id |-> sent + 1]
           body == Body(chan)
       IN IF Len(body) < cap
          THEN chan' = Append(chan, item) /\ dropped' = dropped
          ELSE \* the oldest retained value is overwritten: the receiver has lagged
               /\ chan' = <<Lag>> \o Tail(body) \o <<item>>
               /\ dropped' = dropped \cup {body[1].id}
    /\ sent' = sent + 1
    /\ Wake
    /\ UNCHANGED <<cap, closed, skips, yielded, skipped>>

\* every sender is dropped (gossip shut down, handles dropped)
Close ==
    /\ ~closed /\ closed' = TRUE
    /\ Wake
    /\ UNCHANGED <<cap, chan, sent, skips, yielded, dropped, skipped>>

Running == task \in {"runnable", "polling"}

\* inner stream Pending: `ready!` returns Pending, the waker has been registered by `recv`
PollEmpty ==
    /\ Running /\ chan = <<>> /\ ~closed
    /\ registered' = TRUE /\ task' = "parked" /\ skips' = 0
    /\ UNCHANGED <<cap, chan, sent, closed, yielded, dropped, skipped>>

\* inner stream ended: Ready(None)
PollClosed ==
    /\ Running /\ chan = <<>> /\ closed
    /\ task' = "done" /\ skips' = 0
    /\ UNCHANGED <<cap, chan, sent, closed, registered, yielded, dropped, skipped>>

\* Some(Ok(bytes)) and from_bytes is Ok: Ready(Some(message)); the consumer loop polls again
PollValid ==
    /\ Running /\ chan # <<>> /\ chan[1] # Lag /\ Accept(chan[1].cls)
    /\ yielded' = Append(yielded, chan[1])
    /\ chan' = Tail(chan)
    /\ task' = "runnable" /\ skips' = 0
    /\ UNCHANGED <<cap, sent, closed, registered, dropped, skipped>>

\* after an item that is not handed to the user
AfterSkip ==
    IF PendingWithoutWake
    THEN task' = "parked" /\ skips' = 0      \* `Poll::Pending` (before the repair): nobody registered a waker
    ELSE IF SkipBudget # 0 /\ skips + 1 >= SkipBudget
         THEN \* (not the code) a per-call budget is used up: Pending; either the call woke its own waker -
              \* the executor polls again - or the task is parked with nothing registered
              /\ skips' = 0
              /\ task' = IF BudgetSelfWake THEN "runnable" ELSE "parked"
         ELSE task' = "polling" /\ skips' = skips + 1     \* the code: loop, poll the inner stream again

\* Some(Ok(bytes)) and from_bytes is Err
PollReject ==
    /\ Running /\ chan # <<>> /\ chan[1] # Lag /\ ~Accept(chan[1].cls)
    /\ skipped' = skipped \cup {chan[1].id}
    /\ chan' = Tail(chan)
    /\ AfterSkip
    /\ UNCHANGED <<cap, sent, closed, registered, yielded, dropped>>

\* Some(Err(Lagged(n)))
PollLagged ==
    /\ Running /\ chan # <<>> /\ chan[1] = Lag
    /\ chan' = Tail(chan)
    /\ AfterSkip
    /\ UNCHANGED <<cap, sent, closed, registered, yielded, dropped, skipped>>

Poll == PollEmpty \/ PollClosed \/ PollValid \/ PollReject \/ PollLagged

\* nothing left to do: explicit stuttering, so that TLC's deadlock check stays on
Terminated ==
    /\ task \in {"parked", "done"} /\ (closed \/ sent = MaxSend)
    /\ UNCHANGED vars

SubNext ==
    \/ (\E c \in Classes : Send(c)) /\ UNCHANGED pubvars
    \/ Close /\ UNCHANGED pubvars
    \/ Poll /\ UNCHANGED pubvars
    \/ Terminated

---------------------------------------------------------------------------
(* Publisher                                                               *)

TLess(a, b) == a[1] < b[1] \/ (a[1] = b[1] /\ a[2] < b[2])
Increment(ts, wall) ==                   \* p2panda-core/src/timestamp.rs:136-147, see spec/HybridClock
    IF ClockAsCoded
    THEN (IF wall = ts[1] THEN <<wall, ts[2] + 1>> ELSE <<wall, 0>>)
    ELSE (IF wall > ts[1] THEN <<wall, 0>> ELSE <<ts[1], ts[2] + 1>>)

NoTs == <<-1, -1>>
PubInit ==
    /\ pts = NoTs /\ gcap \in GCaps
    /\ ppc = [h \in Handles |-> "idle"] /\ held = [h \in Handles |-> NoTs]
    /\ waitq = <<>> /\ gq = <<>> /\ drawn = <<>> /\ published = <<>>

\* ephemeral_stream (line 216): timestamp: HybridTimestamp::now()
CreateStream(w) ==
    /\ pts = NoTs
    /\ pts' = <<w, 0>>
    /\ UNCHANGED <<gcap, ppc, held, waitq, gq, drawn, published>>

\* publish, lines 301-308: lock; *timestamp = timestamp.increment(); copy; unlock - ONE critical section
DrawTs(h, w) ==
    /\ pts # NoTs /\ ppc[h] = "idle" /\ Len(drawn) < MaxPublish
    /\ LET ts == Increment(pts, w)
       IN /\ pts' = IF SplitCommit THEN pts ELSE ts
          /\ held' = [held EXCEPT ![h] = ts]
          /\ drawn' = Append(drawn, ts)
    /\ ppc' = [ppc EXCEPT ![h] = "drawn"]
    /\ UNCHANGED <<gcap, waitq, gq, published>>

\* lines 310-313: WrappedMessage::new(message, timestamp, key) and to_bytes: a function of held[h]
SignEncode(h) ==
    /\ ppc[h] = "drawn"
    /\ ppc' = [ppc EXCEPT ![h] = "signed"]
    /\ UNCHANGED <<pts, gcap, held, waitq, gq, drawn, published>>

Msg(h) == [ts |-> held[h], h |-> h]
Granted == {h \in Handles : ppc[h] = "granted"}
\* tokio bounded mpsc: a permit per queued message; freed permits go to parked senders first
Room == waitq = <<>> /\ Len(gq) + Cardinality(Granted) < gcap

\* lines 315-318: self.inner.publish(bytes).await, first poll: enqueue, or park in the await
SendTry(h) ==
    /\ ppc[h] = "signed"
    /\ IF Room
       THEN /\ gq' = Append(gq, Msg(h)) /\ published' = Append(published, Msg(h))
            /\ ppc' = [ppc EXCEPT ![h] = "sent"]
            /\ UNCHANGED waitq
       ELSE /\ waitq' = Append(waitq, h)
            /\ ppc' = [ppc EXCEPT ![h] = "waiting"]
            /\ UNCHANGED <<gq, published>>
    /\ UNCHANGED <<pts, gcap, held, drawn>>

\* the gossip actor takes a message out of the channel; the freed permit wakes the first parked sender
Drain ==
    /\ gq # <<>>
    /\ gq' = Tail(gq)
    /\ IF waitq # <<>>
       THEN ppc' = [ppc EXCEPT ![Head(waitq)] = "granted"] /\ waitq' = Tail(waitq)
       ELSE UNCHANGED <<ppc, waitq>>
    /\ UNCHANGED <<pts, gcap, held, drawn, published>>

\* the woken sender is polled again: the send completes
SendResume(h) ==
    /\ ppc[h] = "granted"
    /\ gq' = Append(gq, Msg(h)) /\ published' = Append(published, Msg(h))
    /\ ppc' = [ppc EXCEPT ![h] = "sent"]
    /\ UNCHANGED <<pts, gcap, held, waitq, drawn>>

\* Ok(()) (line 320ff)
Return(h) ==
    /\ ppc[h] = "sent"
    /\ ppc' = [ppc EXCEPT ![h] = "idle"]
    /\ pts' = IF SplitCommit THEN held[h] ELSE pts
    /\ UNCHANGED <<gcap, held, waitq, gq, drawn, published>>

PubNext ==
    /\ \/ \E w \in Wall : CreateStream(w)
       \/ \E h \in Handles, w \in Wall : DrawTs(h, w)
       \/ \E h \in Handles : SignEncode(h) \/ SendTry(h) \/ SendResume(h) \/ Return(h)
       \/ Drain
    /\ UNCHANGED subvars

Init == SubInit /\ PubInit
Next == SubNext \/ PubNext

\* the executor eventually polls a runnable task; the network is not obliged to do anything
Fairness == WF_vars(Poll /\ UNCHANGED pubvars)
Spec == Init /\ [][Next]_vars /\ Fairness

---------------------------------------------------------------------------
(* C17                                                                     *)

ValidAvailable(n) == \E k \in DOMAIN chan : chan[k].id = n /\ chan[k] # Lag /\ Accept(chan[k].cls)
Yielded(n) == \E k \in DOMAIN yielded : yielded[k].id = n

\* a valid message available on the gossip subscription is eventually yielded (unless the
\* channel itself overwrites it first)
EventuallyYielded ==
    \A n \in 1..MaxSend : ValidAvailable(n) ~> (Yielded(n) \/ n \in dropped)

\* safety core of the same thing: a parked task always has a wake-up registered ..
NoLostWakeup == task = "parked" => registered
\* .. and parks only on an empty channel
ParkedOnlyWhenDrained == task = "parked" => (registered => chan = <<>>)

(* C16, subscription side                                                   *)
YieldedAreAuthentic == \A k \in DOMAIN yielded : Authentic(yielded[k].cls)
TamperedNeverYielded == \A k \in DOMAIN yielded : ~Tampered(yielded[k].cls)
\* each delivered item is yielded at most once, in channel order
YieldedInOrder == \A j, k \in DOMAIN yielded : j < k => yielded[j].id < yielded[k].id
\* bookkeeping: every delivered id is in exactly one place
Conservation ==
    \A n \in 1..sent :
        Cardinality({x \in {"chan", "yielded", "dropped", "skipped"} :
            \/ x = "chan" /\ \E k \in DOMAIN chan : chan[k].id = n
            \/ x = "yielded" /\ Yielded(n)
            \/ x = "dropped" /\ n \in dropped
            \/ x = "skipped" /\ n \in skipped}) = 1

(* C16, publisher side                                                      *)
\* timestamps strictly increase in the order in which publishes draw them (= the order of the
\* publishes for sequential use; overlapping publishes of clones are ordered by the mutex) ..
TimestampsStrictlyIncrease ==
    \A j, k \in DOMAIN drawn : j < k => TLess(drawn[j], drawn[k])
\* .. so no two published messages are byte-identical (same author, possibly the same body: the
\* timestamp pair is the only field that can differ)
PublishedDistinct ==
    \A j, k \in DOMAIN published : j # k => published[j].ts # published[k].ts
\* the messages of one handle reach the channel in the order of their timestamps
PerHandleInOrder ==
    \A j, k \in DOMAIN published :
        j < k /\ published[j].h = published[k].h => TLess(published[j].ts, published[k].ts)
\* the stored clock is the last timestamp drawn, and never goes back
ClockIsLastDrawn == drawn # <<>> => pts = drawn[Len(drawn)]
ClockNeverRegresses == [][pts # NoTs => ~TLess(pts', pts)]_vars
===========================================================================
