------------------------------ MODULE Ephemeral ------------------------------
(***************************************************************************)
(* Ephemeral streams of p2panda (p2panda/src/streams/ephemeral_stream.rs)   *)
(* over a gossip subscription (p2panda-net/src/gossip/api.rs:354-389, a     *)
(* tokio `broadcast` receiver wrapped in a `BroadcastStream`).              *)
(*                                                                          *)
(* Two independent machines (the two halves returned by `ephemeral_stream`  *)
(* share nothing but the gossip handle):                                    *)
(*                                                                          *)
(*  Subscription  Send / Close            the network side of the broadcast *)
(*                                        channel (`from_gossip_tx`)        *)
(*                PollEmpty / PollClosed / PollValid / PollReject /         *)
(*                PollLagged              one inner `poll_next` (= one      *)
(*                                        `recv` on the channel) inside     *)
(*                                        `EphemeralStreamSubscription::    *)
(*                                        poll_next`, lines 368-398         *)
(*                The consumer is a task `while let Some(m) = rx.next()     *)
(*                .await {..}` on an executor: a task that returned Pending *)
(*                is polled again ONLY after its waker was woken.           *)
(*                                                                          *)
(*  Publisher     CreateStream / Publish  `ephemeral_stream` (line 216) and *)
(*                                        `publish` (lines 284-306)         *)
(*                                                                          *)
(* Bytes, CBOR and Ed25519 are abstracted: an item on the channel is a      *)
(* CLASS (what was done to a message a publisher produced); the three       *)
(* checks of `WrappedMessage::from_bytes` (decode, version, signature) are  *)
(* predicates on classes.  The harness concretises every class with real    *)
(* bytes taken from the real publisher.                                     *)
(***************************************************************************)
EXTENDS Integers, Sequences, FiniteSets

CONSTANTS
    Caps,               \* capacities of the broadcast channel (tokio rounds up to a power of two)
    Classes,            \* item classes the network may deliver (subset of AllClasses)
    MaxSend,            \* items delivered in total            (bounded by construction, no CONSTRAINT)
    Wall,               \* values a wall-clock reading may return
    MaxPublish,         \* publishes in total
    PendingWithoutWake, \* TRUE: poll_next as it was before commit "fix: ephemeral subscription ..."
                        \*       (returns Poll::Pending after an invalid / lagged item, no waker registered)
    ClockAsCoded        \* TRUE: HybridTimestamp::increment as it was before its repair (see spec/HybridClock)

---------------------------------------------------------------------------
(* Item classes and the verdict of WrappedMessage::from_bytes (lines 71-102) *)

AllClasses == {
    "intact",                  \* bytes exactly as the publisher produced them
    "foreign_intact",          \* a complete message produced by another key holder (re-signed, own author field)
    "flip_version",            \* version field changed, signature kept
    "version2_signed",         \* version 2, correctly signed over version 2 by its author
    "swap_key",                \* verifying key replaced by another key, signature kept
    "flip_sig",                \* signature changed
    "flip_ts",                 \* wall-clock part of the timestamp changed
    "flip_logical",            \* logical part of the timestamp changed
    "flip_body",               \* body changed
    "foreign_sig_keep_author", \* re-signed by a foreign key over the same fields, author field kept
    "truncated", "garbage", "wrong_body_type",  \* not decodable as the message tuple
    "bitflip_any",             \* one bit of the encoded bytes flipped, anywhere: either the framing breaks
                               \* (not decodable) or a signed field / the key / the signature changes
    "trailing_bytes"           \* bytes appended AFTER the encoded tuple: `ciborium::from_reader` reads one
                               \* value and stops, they are not part of the message (version, key, signature,
                               \* timestamp, body are untouched and are what is yielded)
}

Decodable(c)   == c \notin {"truncated", "garbage", "wrong_body_type"}      \* line 73-80
VersionOk(c)   == c \notin {"flip_version", "version2_signed"}              \* line 85-87
SigVerifies(c) == c \in {"intact", "foreign_intact", "version2_signed", "trailing_bytes"}     \* line 98 (Ed25519 assumed unforgeable)
Accept(c)      == Decodable(c) /\ VersionOk(c) /\ SigVerifies(c)

\* what C16 calls authentic: the reported author signed exactly the reported version-1 fields
Authentic(c) == c \in {"intact", "foreign_intact", "trailing_bytes"}
Tampered(c)  == c \in AllClasses \ {"intact", "foreign_intact", "trailing_bytes"}

Lag == [cls |-> "lagged", id |-> 0]

---------------------------------------------------------------------------
VARIABLES
    cap,        \* capacity of the broadcast channel of this run
    chan,       \* what the receiver will see next, oldest first; a Lag marker can only be the head
    sent,       \* number of items delivered so far (ids are 1, 2, ..)
    closed,     \* all senders dropped
    registered, \* the task's waker is registered with the channel (a `recv` found it empty)
    task,       \* "runnable" (scheduled; a poll_next call starts), "polling" (inside poll_next,
                \*  between two inner polls), "parked" (returned Pending), "done" (saw None)
    yielded,    \* items yielded by the subscription, in order
    dropped,    \* ids overwritten in the channel before the receiver saw them
    skipped,    \* ids consumed and rejected
    pts,        \* publisher: the HybridTimestamp behind the mutex (<<-1,-1>> before the stream exists)
    published   \* publisher: timestamps of the messages handed to gossip, in order

subvars == <<cap, chan, sent, closed, registered, task, yielded, dropped, skipped>>
pubvars == <<pts, published>>
vars == <<cap, chan, sent, closed, registered, task, yielded, dropped, skipped, pts, published>>

Body(ch) == IF ch # <<>> /\ ch[1] = Lag THEN Tail(ch) ELSE ch
Range(s) == {s[k] : k \in DOMAIN s}

SubInit ==
    /\ cap \in Caps /\ chan = <<>> /\ sent = 0 /\ closed = FALSE
    /\ registered = FALSE /\ task = "runnable"
    /\ yielded = <<>> /\ dropped = {} /\ skipped = {}

\* tokio broadcast: `send` wakes every waiting receiver
Wake == IF registered THEN task' = "runnable" /\ registered' = FALSE
                      ELSE UNCHANGED <<task, registered>>

\* the gossip actor forwards a message from the network: from_gossip_tx.send(bytes)
Send(c) ==
    /\ sent < MaxSend /\ ~closed
    /\ LET item == [cls |-> c, id |-> sent + 1]
           body == Body(chan)
       IN IF Len(body) < cap
          THEN chan' = Append(chan, item) /\ dropped' = dropped
          ELSE \* the oldest retained value is overwritten: the receiver has lagged
               /\ chan' = <<Lag>> \o Tail(body) \o <<item>>
               /\ dropped' = dropped \cup {body[1].id}
    /\ sent' = sent + 1
    /\ Wake
    /\ UNCHANGED <<cap, closed, yielded, skipped>>

\* every sender is dropped (gossip shut down, handles dropped)
Close ==
    /\ ~closed /\ closed' = TRUE
    /\ Wake
    /\ UNCHANGED <<cap, chan, sent, yielded, dropped, skipped>>

Running == task \in {"runnable", "polling"}

\* inner stream Pending: `ready!` returns Pending, the waker has been registered by `recv`
PollEmpty ==
    /\ Running /\ chan = <<>> /\ ~closed
    /\ registered' = TRUE /\ task' = "parked"
    /\ UNCHANGED <<cap, chan, sent, closed, yielded, dropped, skipped>>

\* inner stream ended: Ready(None)
PollClosed ==
    /\ Running /\ chan = <<>> /\ closed
    /\ task' = "done"
    /\ UNCHANGED <<cap, chan, sent, closed, registered, yielded, dropped, skipped>>

\* Some(Ok(bytes)) and from_bytes is Ok: Ready(Some(message)); the consumer loop polls again
PollValid ==
    /\ Running /\ chan # <<>> /\ chan[1] # Lag /\ Accept(chan[1].cls)
    /\ yielded' = Append(yielded, chan[1])
    /\ chan' = Tail(chan)
    /\ task' = "runnable"
    /\ UNCHANGED <<cap, sent, closed, registered, dropped, skipped>>

\* after an item that is not handed to the user
AfterSkip ==
    IF PendingWithoutWake
    THEN task' = "parked"       \* `Poll::Pending` (lines 386, 393): nobody registered a waker
    ELSE task' = "polling"      \* repaired: loop, poll the inner stream again

\* Some(Ok(bytes)) and from_bytes is Err
PollReject ==
    /\ Running /\ chan # <<>> /\ chan[1] # Lag /\ ~Accept(chan[1].cls)
    /\ skipped' = skipped \cup {chan[1].id}
    /\ chan' = Tail(chan)
    /\ AfterSkip
    /\ UNCHANGED <<cap, sent, closed, registered, yielded, dropped>>

\* Some(Err(Lagged(n)))
PollLagged ==
    /\ Running /\ chan # <<>> /\ chan[1] = Lag
    /\ chan' = Tail(chan)
    /\ AfterSkip
    /\ UNCHANGED <<cap, sent, closed, registered, yielded, dropped, skipped>>

Poll == PollEmpty \/ PollClosed \/ PollValid \/ PollReject \/ PollLagged

\* nothing left to do: explicit stuttering, so that TLC's deadlock check stays on
Terminated ==
    /\ task \in {"parked", "done"} /\ (closed \/ sent = MaxSend)
    /\ UNCHANGED vars

SubNext ==
    \/ (\E c \in Classes : Send(c)) /\ UNCHANGED pubvars
    \/ Close /\ UNCHANGED pubvars
    \/ Poll /\ UNCHANGED pubvars
    \/ Terminated

---------------------------------------------------------------------------
(* Publisher                                                               *)

TLess(a, b) == a[1] < b[1] \/ (a[1] = b[1] /\ a[2] < b[2])
Increment(ts, wall) ==                   \* p2panda-core/src/timestamp.rs:136-147, see spec/HybridClock
    IF ClockAsCoded
    THEN (IF wall = ts[1] THEN <<wall, ts[2] + 1>> ELSE <<wall, 0>>)
    ELSE (IF wall > ts[1] THEN <<wall, 0>> ELSE <<ts[1], ts[2] + 1>>)

NoTs == <<-1, -1>>
PubInit == pts = NoTs /\ published = <<>>

\* ephemeral_stream (line 221): timestamp: HybridTimestamp::now()
CreateStream(w) ==
    /\ pts = NoTs
    /\ pts' = <<w, 0>>
    /\ UNCHANGED published

\* publish (lines 291-305): under the mutex *timestamp = timestamp.increment(); sign; gossip publish
Publish(w) ==
    /\ pts # NoTs /\ Len(published) < MaxPublish
    /\ pts' = Increment(pts, w)
    /\ published' = Append(published, Increment(pts, w))

PubNext ==
    /\ \E w \in Wall : CreateStream(w) \/ Publish(w)
    /\ UNCHANGED subvars

Init == SubInit /\ PubInit
Next == SubNext \/ PubNext

\* the executor eventually polls a runnable task; the network is not obliged to do anything
Fairness == WF_vars(Poll /\ UNCHANGED pubvars)
Spec == Init /\ [][Next]_vars /\ Fairness

---------------------------------------------------------------------------
(* C17                                                                     *)

ValidAvailable(n) == \E k \in DOMAIN chan : chan[k].id = n /\ chan[k] # Lag /\ Accept(chan[k].cls)
Yielded(n) == \E k \in DOMAIN yielded : yielded[k].id = n

\* a valid message available on the gossip subscription is eventually yielded (unless the
\* channel itself overwrites it first)
EventuallyYielded ==
    \A n \in 1..MaxSend : ValidAvailable(n) ~> (Yielded(n) \/ n \in dropped)

\* safety core of the same thing: a parked task always has a wake-up registered ..
NoLostWakeup == task = "parked" => registered
\* .. and parks only on an empty channel
ParkedOnlyWhenDrained == task = "parked" => (registered => chan = <<>>)

(* C16, subscription side                                                   *)
YieldedAreAuthentic == \A k \in DOMAIN yielded : Authentic(yielded[k].cls)
TamperedNeverYielded == \A k \in DOMAIN yielded : ~Tampered(yielded[k].cls)
\* each delivered item is yielded at most once, in channel order
YieldedInOrder == \A j, k \in DOMAIN yielded : j < k => yielded[j].id < yielded[k].id
\* bookkeeping: every delivered id is in exactly one place
Conservation ==
    \A n \in 1..sent :
        Cardinality({x \in {"chan", "yielded", "dropped", "skipped"} :
            \/ x = "chan" /\ \E k \in DOMAIN chan : chan[k].id = n
            \/ x = "yielded" /\ Yielded(n)
            \/ x = "dropped" /\ n \in dropped
            \/ x = "skipped" /\ n \in skipped}) = 1

(* C16, publisher side                                                      *)
\* successive publishes carry strictly increasing timestamps ..
TimestampsStrictlyIncrease ==
    \A j, k \in DOMAIN published : j < k => TLess(published[j], published[k])
\* .. so no two published messages are byte-identical (same author, possibly the same body: the
\* timestamp pair is the only field that can differ)
PublishedDistinct ==
    \A j, k \in DOMAIN published : j # k => published[j] # published[k]
===========================================================================
