SPECIFICATION SubMCSpec
CONSTANTS
  Caps = {1}
  Classes = {"intact", "flip_body"}
  MaxSend = 2
  Wall = {}
  MaxPublish = 0
  PendingWithoutWake = TRUE
  ClockAsCoded = FALSE
  KeepHist = FALSE
  AtomicPolls = FALSE
PROPERTIES
  C17_EventuallyYielded
CHECK_DEADLOCK TRUE
