SPECIFICATION SubMCSpec
CONSTANTS
  Caps = {1}
  Classes = {"intact", "flip_body"}
  MaxSend = 2
  Wall = {}
  MaxPublish = 0
  Handles = {}
  GCaps = {1}
  SplitCommit = FALSE
  PendingWithoutWake = TRUE
  SkipBudget = 0
  BudgetSelfWake = FALSE
  ClockAsCoded = FALSE
  FloodLens = {}
  FloodCap = 1
  KeepHist = FALSE
  AtomicPolls = FALSE
PROPERTIES
  C17_EventuallyYielded
CHECK_DEADLOCK TRUE
