-------------------------- MODULE Trace_Ephemeral --------------------------
(* Trace validation: events recorded from the real EphemeralStreamSubscription        *)
(* (harness `vh-ephemeral ephemeral record`) and the real EphemeralStreamPublisher    *)
(* under the mock clock (harness `vh-mock ephemeralclock record`) must be behaviours  *)
(* of Ephemeral, with the C16 / C17 state predicates evaluated at every step.         *)
(*                                                                                    *)
(* Subscription events                                                                *)
(*   Reset{cap}                       new run                                         *)
(*   Send{cls,id,woke} Close{woke}    network side; `woke` = the counting waker fired *)
(*   InnerSkip                        an inner poll that was not the last one of its  *)
(*                                    poll_next call (hook ephemeral.sub.inner_poll)  *)
(*   InnerLast{ret,id}                the last inner poll of a call and what the call *)
(*                                    returned: "yield" id / "none" / "pending"       *)
(*   Return{parked,done}              what the executor knows after the call:         *)
(*                                    parked = Pending and the waker was not woken    *)
(* Publisher events                                                                   *)
(*   PubReset, CreateStream{w}, Publish{w,ts}   ts = the pair inside the published bytes *)
EXTENDS Ephemeral, TLC, Json, IOUtils

Rec == ndJsonDeserialize(IOEnv.TRACE)

VARIABLE i
tvars == <<cap, chan, sent, closed, registered, task, yielded, dropped, skipped, pts, published, i>>

Ev == Rec[i]

StepReset ==
    /\ Ev.ev = "Reset"
    /\ cap' = Ev.cap /\ chan' = <<>> /\ sent' = 0 /\ closed' = FALSE
    /\ registered' = FALSE /\ task' = "runnable"
    /\ yielded' = <<>> /\ dropped' = {} /\ skipped' = {}
    /\ UNCHANGED pubvars

StepSend ==
    /\ Ev.ev = "Send"
    /\ Ev.id = sent + 1
    /\ Ev.woke = registered            \* the delivery woke the task iff a wake-up was registered
    /\ Send(Ev.cls)
    /\ UNCHANGED pubvars

StepClose ==
    /\ Ev.ev = "Close"
    /\ Ev.woke = registered
    /\ Close
    /\ UNCHANGED pubvars

StepInnerSkip ==
    /\ Ev.ev = "InnerSkip"
    /\ (PollReject \/ PollLagged)
    /\ UNCHANGED pubvars

StepInnerLast ==
    /\ Ev.ev = "InnerLast"
    /\ \/ Ev.ret = "yield" /\ PollValid /\ chan[1].id = Ev.id
       \/ Ev.ret = "none" /\ PollClosed
       \/ Ev.ret = "pending" /\ (PollEmpty \/ PollReject \/ PollLagged)
    /\ UNCHANGED pubvars

\* no step of the specification: the executor's view after poll_next returned must agree
StepReturn ==
    /\ Ev.ev = "Return"
    /\ Ev.parked = (task = "parked")
    /\ Ev.done = (task = "done")
    /\ UNCHANGED <<subvars, pubvars>>

StepPubReset ==
    /\ Ev.ev = "PubReset"
    /\ pts' = NoTs /\ published' = <<>>
    /\ UNCHANGED subvars

StepCreateStream ==
    /\ Ev.ev = "CreateStream"
    /\ CreateStream(Ev.w)
    /\ UNCHANGED subvars

StepPublish ==
    /\ Ev.ev = "Publish"
    /\ pts # NoTs
    /\ pts' = Increment(pts, Ev.w)
    /\ published' = Append(published, pts')
    /\ pts' = Ev.ts                     \* the timestamp pair inside the bytes the publisher produced
    /\ UNCHANGED subvars

TraceInit == Init /\ i = 1
TraceNext ==
    /\ i <= Len(Rec)
    /\ i' = i + 1
    /\ \/ StepReset \/ StepSend \/ StepClose \/ StepInnerSkip \/ StepInnerLast \/ StepReturn
       \/ StepPubReset \/ StepCreateStream \/ StepPublish
TraceSpec == TraceInit /\ [][TraceNext]_tvars

C17_NoLostWakeup == NoLostWakeup
C17_ParkedOnlyWhenDrained == ParkedOnlyWhenDrained
C16_YieldedAreAuthentic == YieldedAreAuthentic
C16_TamperedNeverYielded == TamperedNeverYielded
C16_YieldedInOrder == YieldedInOrder
C16_TimestampsStrictlyIncrease == TimestampsStrictlyIncrease
C16_PublishedDistinct == PublishedDistinct

TraceAccepted ==
    LET d == TLCGet("stats").diameter IN
    IF d - 1 = Len(Rec) THEN TRUE
    ELSE Print(<<"TRACE_REJECTED", d - 1, Len(Rec), ToJson(Rec[d])>>, FALSE)
===========================================================================
