-------------------------- MODULE Trace_Ephemeral --------------------------
(* Trace validation: events recorded from the real EphemeralStreamSubscription        *)
(* (harness `vh-ephemeral ephemeral record`) and the real EphemeralStreamPublisher    *)
(* under the mock clock (harness `vh-mock ephemeralclock record`) must be behaviours  *)
(* of Ephemeral, with the C16 / C17 state predicates evaluated at every step.         *)
(*                                                                                    *)
(* Subscription events                                                                *)
(*   Reset{cap}                       new run                                         *)
(*   Send{cls,id,woke} Close{woke}    network side; `woke` = the counting waker fired *)
(*   InnerSkip                        an inner poll that was not the last one of its  *)
(*                                    poll_next call (hook ephemeral.sub.inner_poll)  *)
(*   InnerLast{ret,id}                the last inner poll of a call and what the call *)
(*                                    returned: "yield" id / "none" / "pending"       *)
(*   Return{parked,done}              what the executor knows after the call:         *)
(*                                    parked = Pending and the waker was not woken    *)
(* Publisher events (one per specification action; one poll of a `publish` future is  *)
(* DrawTs, SignEncode, SendTry [, Return] resp. SendResume, Return)                   *)
(*   PubReset{gcap}, CreateStream{w}, DrawTs{h,w}, SignEncode{h}, SendTry{h,waits},   *)
(*   SendResume{h}, PubReturn{h}                                                      *)
(*   Drain{ts,woke}   ts = the pair inside the bytes taken from the gossip channel,   *)
(*                    woke = the waker of a parked publish fired                      *)
EXTENDS Ephemeral, TLC, Json, IOUtils

Rec == ndJsonDeserialize(IOEnv.TRACE)

VARIABLE i
tvars == <<cap, chan, sent, closed, registered, task, skips, yielded, dropped, skipped,
           pts, gcap, ppc, held, waitq, gq, drawn, published, i>>

Ev == Rec[i]

StepReset ==
    /\ Ev.ev = "Reset"
    /\ cap' = Ev.cap /\ chan' = <<>> /\ sent' = 0 /\ closed' = FALSE
    /\ registered' = FALSE /\ task' = "runnable" /\ skips' = 0
    /\ yielded' = <<>> /\ dropped' = {} /\ skipped' = {}
    /\ UNCHANGED pubvars

StepSend ==
    /\ Ev.ev = "Send"
    /\ Ev.id = sent + 1
    /\ Ev.woke = registered            \* the delivery woke the task iff a wake-up was registered
    /\ Send(Ev.cls)
    /\ UNCHANGED pubvars

StepClose ==
    /\ Ev.ev = "Close"
    /\ Ev.woke = registered
    /\ Close
    /\ UNCHANGED pubvars

StepInnerSkip ==
    /\ Ev.ev = "InnerSkip"
    /\ (PollReject \/ PollLagged)
    /\ UNCHANGED pubvars

StepInnerLast ==
    /\ Ev.ev = "InnerLast"
    /\ \/ Ev.ret = "yield" /\ PollValid /\ chan[1].id = Ev.id
       \/ Ev.ret = "none" /\ PollClosed
       \/ Ev.ret = "pending" /\ (PollEmpty \/ PollReject \/ PollLagged)
    /\ UNCHANGED pubvars

\* no step of the specification: the executor's view after poll_next returned must agree
StepReturn ==
    /\ Ev.ev = "Return"
    /\ Ev.parked = (task = "parked")
    /\ Ev.done = (task = "done")
    /\ UNCHANGED <<subvars, pubvars>>

StepPubReset ==
    /\ Ev.ev = "PubReset"
    /\ pts' = NoTs /\ gcap' = Ev.gcap
    /\ ppc' = [h \in Handles |-> "idle"] /\ held' = [h \in Handles |-> NoTs]
    /\ waitq' = <<>> /\ gq' = <<>> /\ drawn' = <<>> /\ published' = <<>>
    /\ UNCHANGED subvars

StepCreateStream == Ev.ev = "CreateStream" /\ CreateStream(Ev.w) /\ UNCHANGED subvars
StepDrawTs       == Ev.ev = "DrawTs" /\ DrawTs(Ev.h, Ev.w) /\ UNCHANGED subvars
StepSignEncode   == Ev.ev = "SignEncode" /\ SignEncode(Ev.h) /\ UNCHANGED subvars
StepSendTry      == Ev.ev = "SendTry" /\ SendTry(Ev.h) /\ Ev.waits = ~Room /\ UNCHANGED subvars
StepSendResume   == Ev.ev = "SendResume" /\ SendResume(Ev.h) /\ UNCHANGED subvars
StepReturn2      == Ev.ev = "PubReturn" /\ Return(Ev.h) /\ UNCHANGED subvars
StepDrain ==
    /\ Ev.ev = "Drain"
    /\ Drain
    /\ gq[1].ts = Ev.ts               \* the timestamp pair inside the bytes the publisher produced
    /\ Ev.woke = (waitq # <<>>)
    /\ UNCHANGED subvars

TraceInit == Init /\ i = 1
TraceNext ==
    /\ i <= Len(Rec)
    /\ i' = i + 1
    /\ \/ StepReset \/ StepSend \/ StepClose \/ StepInnerSkip \/ StepInnerLast \/ StepReturn
       \/ StepPubReset \/ StepCreateStream \/ StepDrawTs \/ StepSignEncode \/ StepSendTry
       \/ StepSendResume \/ StepReturn2 \/ StepDrain
TraceSpec == TraceInit /\ [][TraceNext]_tvars

C17_NoLostWakeup == NoLostWakeup
C17_ParkedOnlyWhenDrained == ParkedOnlyWhenDrained
C16_YieldedAreAuthentic == YieldedAreAuthentic
C16_TamperedNeverYielded == TamperedNeverYielded
C16_YieldedInOrder == YieldedInOrder
C16_TimestampsStrictlyIncrease == TimestampsStrictlyIncrease
C16_PublishedDistinct == PublishedDistinct
C16_PerHandleInOrder == PerHandleInOrder
C16_ClockIsLastDrawn == ClockIsLastDrawn
C16_ClockNeverRegresses == [][pts # NoTs /\ pts' # NoTs => ~TLess(pts', pts)]_tvars

TraceAccepted ==
    LET d == TLCGet("stats").diameter IN
    IF d - 1 = Len(Rec) THEN TRUE
    ELSE Print(<<"TRACE_REJECTED", d - 1, Len(Rec), ToJson(Rec[d])>>, FALSE)
===========================================================================
