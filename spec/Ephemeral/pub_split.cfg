SPECIFICATION PubMCSpec
CONSTANTS
  Caps = {1}
  Classes = {}
  MaxSend = 0
  Wall = {0, 1, 2}
  MaxPublish = 4
  Handles = {"p1", "p2"}
  GCaps = {1, 2}
  SplitCommit = TRUE
  PendingWithoutWake = FALSE
  SkipBudget = 0
  BudgetSelfWake = FALSE
  ClockAsCoded = FALSE
  FloodLens = {}
  FloodCap = 1
  KeepHist = FALSE
  AtomicPolls = FALSE
INVARIANTS
  C16_PublishedDistinct
CHECK_DEADLOCK FALSE
