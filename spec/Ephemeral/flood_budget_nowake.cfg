SPECIFICATION FloodSpec
CONSTANTS
  Caps = {1}
  Classes = {}
  MaxSend = 1000
  Wall = {}
  MaxPublish = 0
  Handles = {}
  GCaps = {1}
  SplitCommit = FALSE
  PendingWithoutWake = FALSE
  SkipBudget = 32
  BudgetSelfWake = FALSE
  ClockAsCoded = FALSE
  FloodLens = {1, 31, 32, 33, 100, 127}
  FloodCap = 128
  KeepHist = FALSE
  AtomicPolls = FALSE
INVARIANTS
  C17_NoLostWakeup
  C17_ParkedOnlyWhenDrained
  C16_YieldedAreAuthentic
  Conserved
PROPERTIES
  C17_FloodEventuallyYielded
CHECK_DEADLOCK FALSE
