SPECIFICATION PubMCSpec
CONSTANTS
  Caps = {1}
  Classes = {}
  MaxSend = 0
  Wall = {0, 1, 2, 3}
  MaxPublish = 5
  PendingWithoutWake = FALSE
  ClockAsCoded = TRUE
  KeepHist = FALSE
  AtomicPolls = FALSE
INVARIANTS
  C16_TimestampsStrictlyIncrease
  C16_PublishedDistinct
CHECK_DEADLOCK FALSE
