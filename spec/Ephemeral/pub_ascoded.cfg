SPECIFICATION PubMCSpec
CONSTANTS
  Caps = {1}
  Classes = {}
  MaxSend = 0
  Wall = {0, 1, 2}
  MaxPublish = 4
  Handles = {"p1", "p2"}
  GCaps = {1, 2}
  SplitCommit = FALSE
  PendingWithoutWake = FALSE
  SkipBudget = 0
  BudgetSelfWake = FALSE
  ClockAsCoded = TRUE
  FloodLens = {}
  FloodCap = 1
  KeepHist = FALSE
  AtomicPolls = FALSE
INVARIANTS
  C16_TimestampsStrictlyIncrease
  C16_PublishedDistinct
  C16_PerHandleInOrder
  C16_ClockIsLastDrawn
PROPERTIES
  C16_ClockNeverRegresses
CHECK_DEADLOCK FALSE
