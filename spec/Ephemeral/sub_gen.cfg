SPECIFICATION SubMCSpec
CONSTANTS
  Caps = {1, 2}
  Classes = {"intact", "foreign_sig_keep_author", "truncated"}
  MaxSend = 3
  Wall = {}
  MaxPublish = 0
  Handles = {}
  GCaps = {1}
  SplitCommit = FALSE
  PendingWithoutWake = FALSE
  SkipBudget = 0
  BudgetSelfWake = FALSE
  ClockAsCoded = FALSE
  FloodLens = {}
  FloodCap = 1
  KeepHist = TRUE
  AtomicPolls = TRUE
INVARIANTS
  ExportSub
CHECK_DEADLOCK FALSE
