SPECIFICATION PubMCSpec
CONSTANTS
  Caps = {1}
  Classes = {}
  MaxSend = 0
  Wall = {0, 1, 2, 3, 4}
  MaxPublish = 8
  Handles = {"p1", "p2", "p3"}
  GCaps = {1, 2}
  SplitCommit = FALSE
  PendingWithoutWake = FALSE
  SkipBudget = 0
  BudgetSelfWake = FALSE
  ClockAsCoded = FALSE
  FloodLens = {}
  FloodCap = 1
  KeepHist = TRUE
  AtomicPolls = TRUE
INVARIANTS
  ExportPub
CHECK_DEADLOCK FALSE
