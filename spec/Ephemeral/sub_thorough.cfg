SPECIFICATION SubMCSpec
CONSTANTS
  Caps = {1, 2, 4}
  Classes = {"intact", "flip_body", "garbage", "foreign_intact"}
  MaxSend = 5
  Wall = {}
  MaxPublish = 0
  PendingWithoutWake = FALSE
  ClockAsCoded = FALSE
  KeepHist = FALSE
  AtomicPolls = FALSE
INVARIANTS
  C17_NoLostWakeup
  C17_ParkedOnlyWhenDrained
  C16_YieldedAreAuthentic
  C16_TamperedNeverYielded
  C16_YieldedInOrder
  Conserved
PROPERTIES
  C17_EventuallyYielded
CHECK_DEADLOCK TRUE
