SPECIFICATION PubMCSpec
CONSTANTS
  Caps = {1}
  Classes = {}
  MaxSend = 0
  Wall = {0, 1, 2, 3, 4, 5}
  MaxPublish = 7
  PendingWithoutWake = FALSE
  ClockAsCoded = FALSE
  KeepHist = FALSE
  AtomicPolls = FALSE
INVARIANTS
  C16_TimestampsStrictlyIncrease
  C16_PublishedDistinct
CHECK_DEADLOCK FALSE
