SPECIFICATION PubMCSpec
CONSTANTS
  Caps = {1}
  Classes = {}
  MaxSend = 0
  Wall = {0, 1, 2}
  MaxPublish = 4
  PendingWithoutWake = FALSE
  ClockAsCoded = FALSE
  KeepHist = TRUE
  AtomicPolls = FALSE
INVARIANTS
  ExportPub
CHECK_DEADLOCK FALSE
