SPECIFICATION ClassSpec
CONSTANTS
  Caps = {1}
  Classes = {}
  MaxSend = 0
  Wall = {}
  MaxPublish = 0
  PendingWithoutWake = FALSE
  ClockAsCoded = FALSE
  KeepHist = FALSE
  AtomicPolls = FALSE
INVARIANTS
  C16_AcceptIffAuthentic
  C16_TamperedRejected
CHECK_DEADLOCK FALSE
