SPECIFICATION ClassSpec
CONSTANTS
  Caps = {1}
  Classes = {}
  MaxSend = 0
  Wall = {}
  MaxPublish = 0
  Handles = {}
  GCaps = {1}
  SplitCommit = FALSE
  PendingWithoutWake = FALSE
  SkipBudget = 0
  BudgetSelfWake = FALSE
  ClockAsCoded = FALSE
  FloodLens = {}
  FloodCap = 1
  KeepHist = FALSE
  AtomicPolls = FALSE
INVARIANTS
  C16_AcceptIffAuthentic
  C16_TamperedRejected
CHECK_DEADLOCK FALSE
