SPECIFICATION SubMCSpec
CONSTANTS
  Caps = {1, 2}
  Classes = {"intact", "flip_body", "garbage", "foreign_intact"}
  MaxSend = 4
  Wall = {}
  MaxPublish = 0
  Handles = {}
  GCaps = {1}
  SplitCommit = FALSE
  PendingWithoutWake = FALSE
  SkipBudget = 0
  BudgetSelfWake = FALSE
  ClockAsCoded = FALSE
  FloodLens = {}
  FloodCap = 1
  KeepHist = FALSE
  AtomicPolls = FALSE
INVARIANTS
  C17_NoLostWakeup
  C17_ParkedOnlyWhenDrained
  C16_YieldedAreAuthentic
  C16_TamperedNeverYielded
  C16_YieldedInOrder
  Conserved
PROPERTIES
  C17_EventuallyYielded
CHECK_DEADLOCK TRUE
