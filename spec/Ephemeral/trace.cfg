SPECIFICATION TraceSpec
CONSTANTS
  Caps = {1}
  Classes = {}
  MaxSend = 1000000
  Wall = {}
  MaxPublish = 1000000
  Handles = {"p1", "p2", "p3"}
  GCaps = {1}
  SplitCommit = FALSE
  PendingWithoutWake = FALSE
  SkipBudget = 0
  BudgetSelfWake = FALSE
  ClockAsCoded = FALSE
INVARIANTS
  C17_NoLostWakeup
  C17_ParkedOnlyWhenDrained
  C16_YieldedAreAuthentic
  C16_TamperedNeverYielded
  C16_YieldedInOrder
  C16_TimestampsStrictlyIncrease
  C16_PublishedDistinct
  C16_PerHandleInOrder
  C16_ClockIsLastDrawn
PROPERTIES
  C16_ClockNeverRegresses
POSTCONDITION TraceAccepted
CHECK_DEADLOCK FALSE
