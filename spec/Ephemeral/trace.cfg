SPECIFICATION TraceSpec
CONSTANTS
  Caps = {1}
  Classes = {}
  MaxSend = 1000000
  Wall = {}
  MaxPublish = 1000000
  PendingWithoutWake = FALSE
  ClockAsCoded = FALSE
INVARIANTS
  C17_NoLostWakeup
  C17_ParkedOnlyWhenDrained
  C16_YieldedAreAuthentic
  C16_TamperedNeverYielded
  C16_YieldedInOrder
  C16_TimestampsStrictlyIncrease
  C16_PublishedDistinct
POSTCONDITION TraceAccepted
CHECK_DEADLOCK FALSE
