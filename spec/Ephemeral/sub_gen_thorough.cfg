SPECIFICATION SubMCSpec
CONSTANTS
  Caps = {1, 2, 4}
  Classes = {"intact", "foreign_sig_keep_author", "truncated"}
  MaxSend = 4
  Wall = {}
  MaxPublish = 0
  PendingWithoutWake = FALSE
  ClockAsCoded = FALSE
  KeepHist = TRUE
  AtomicPolls = TRUE
INVARIANTS
  ExportSub
CHECK_DEADLOCK FALSE
