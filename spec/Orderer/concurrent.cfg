\* Observation (not a registered step): `process` and `next` as two independent tasks.
\* Expected: "Deadlock reached" - `next` parks on the Notify holding the mutex guard and the
\* transaction permit, `process` waits in `begin` for ever.
SPECIFICATION MCSpec
CONSTANTS
  Item = {"a", "b"}
  Missing = {}
  ItemSeq <- Seq2
  MissSeq <- Miss0
  MaxDepLen = 1
  SchedLen = 2
  MaxPer = 1
  RepeatDeps = FALSE
  CycleItems = FALSE
  Defect_ReadyLen = FALSE
  Defect_CommitFirst = FALSE
  Concurrent = TRUE
  InputPoints = {}
  MaxCancel = 0
INVARIANTS
  TypeOK
VIEW NoHistView
