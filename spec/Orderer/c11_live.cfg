SPECIFICATION MCLiveSpec
CONSTANTS
  Item = {"a", "b", "c"}
  Missing = {}
  ItemSeq <- Seq3
  MissSeq <- Miss0
  MaxDepLen = 2
  SchedLen = 3
  MaxPer = 1
  RepeatDeps = TRUE
  CycleItems = FALSE
  Defect_ReadyLen = FALSE
  Defect_CommitFirst = FALSE
  Concurrent = FALSE
  InputPoints = {"idle", "new", "notified"}
  MaxCancel = 0
PROPERTIES
  C11_Live
