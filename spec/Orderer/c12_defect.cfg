* Faithful model of the code BEFORE the C12 fix (documentation; not a registered step)
SPECIFICATION MCSpec
CONSTANTS
  Item = {"a", "b"}
  Missing = {}
  ItemSeq <- Seq2
  MissSeq <- Miss0
  MaxDepLen = 1
  SchedLen = 2
  MaxPer = 2
  RepeatDeps = FALSE
  CycleItems = FALSE
  Defect_ReadyLen = FALSE
  Defect_CommitFirst = TRUE
  Concurrent = FALSE
  InputPoints = {"idle", "new", "begin", "take", "get", "commit", "ret", "notified"}
  MaxCancel = 0
INVARIANTS
  TypeOK
  C12_NoLoss
  C12_NothingOwedAtQuiescence
  C11_DepsFirst
  C11_DepsTakenFirst
  C11_ReadyIsClosure
  C11_AllReleasedAtQuiescence
VIEW NoHistView
