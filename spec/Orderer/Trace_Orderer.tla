--------------------------- MODULE Trace_Orderer ---------------------------
(* Trace validation: events recorded from the real Orderer over SqliteStore  *)
(* (harness `vh-orderer orderer record`) must be a behaviour of Orderer.     *)
(* The recorder works at call granularity, so one event is the composition   *)
(* of the spec's steps of that call:                                         *)
(*   Reset   new run, carries the dependency graph                           *)
(*   Proc    process(x) ran to completion (BufInput..ProcCommit)             *)
(*   Ret     a fresh `next` future ran to completion and returned `id`       *)
(*   Park    a fresh `next` future ran until it parked on the Notify         *)
(*   Cancel  the `next` future was dropped: either the parked one, or a      *)
(*           fresh one after an unknown number of real suspensions (TLC      *)
(*           looks for an await point that explains the observed tables)     *)
(* Every event carries the committed ready set, the in-queue count and the   *)
(* number of distinct pending ids as observed through the store API.         *)
EXTENDS Orderer, TLC, Json, IOUtils

Rec == ndJsonDeserialize(IOEnv.TRACE)

VARIABLE i
tvars == <<vars, i>>
Ev == Rec[i]

Settle(C) == IF C.permit = "rollback" THEN OpRollback(C) ELSE C

\* one step of the in-flight `next` (the spawned rollback finishes before `begin` gets the permit)
StepOf(C) ==
    CASE C.nx.pc \in {"new", "lock"} -> OpLock(C)
      [] C.nx.pc = "begin"  -> OpBegin(Settle(C))
      [] C.nx.pc = "take"   -> OpTake(C)
      [] C.nx.pc = "get"    -> OpGet(C)
      [] C.nx.pc = "commit" -> OpCommit(C)
      [] C.nx.pc = "ret"    -> OpRet(C)
      [] OTHER              -> C

RECURSIVE Run(_), RunN(_, _)
Run(C) == IF C.nx.pc \in {"idle", "notified"} THEN C ELSE Run(StepOf(C))
RunN(C, n) == IF n = 0 THEN C ELSE RunN(StepOf(C), n - 1)

Fresh == [Core EXCEPT !.nx = [pc |-> "new", id |-> None]]

ObsOK(C) ==
    /\ DOMAIN C.ready = Range(Ev.ready)
    /\ Cardinality(InQ(C.ready)) = Ev.inq
    /\ Cardinality({w.id : w \in C.pending}) = Ev.pend

Keep == UNCHANGED <<deps, todo, pr, cancels>>

StepReset ==
    /\ Ev.ev = "Reset"
    /\ deps' = Ev.deps
    /\ todo' = <<>> /\ ready' = EmptyFn /\ pending' = {} /\ tx' = NoTx
    /\ permit' = "free" /\ lock' = "free" /\ notif' = FALSE
    /\ nx' = Idle /\ pr' = PrIdle /\ parked' = None
    /\ released' = <<>> /\ taken' = <<>> /\ delivered' = {} /\ cancels' = 0

StepProc ==
    /\ Ev.ev = "Proc"
    /\ nx.pc = "idle"
    /\ \E s \in ProcessResults([r |-> ready, p |-> pending], Ev.x) :
          LET C == [Settle(Core) EXCEPT !.ready = s.r, !.pending = s.p, !.notif = TRUE]
          IN ObsOK(C) /\ SetCore(C)
    /\ delivered' = delivered \cup {Ev.x}
    /\ Keep

StepRet ==
    /\ Ev.ev = "Ret"
    /\ nx.pc = "idle"
    /\ LET C == Run(Fresh)
       IN /\ C.nx.pc = "idle"
          /\ Len(C.released) = Len(released) + 1
          /\ C.released[Len(C.released)] = Ev.id
          /\ ObsOK(C) /\ SetCore(C)
    /\ UNCHANGED delivered /\ Keep

StepPark ==
    /\ Ev.ev = "Park"
    /\ nx.pc = "idle"
    /\ LET C == Run(Fresh) IN C.nx.pc = "notified" /\ SetCore(C)
    /\ UNCHANGED delivered /\ Keep

StepCancel ==
    /\ Ev.ev = "Cancel"
    /\ IF nx.pc = "notified"
       THEN /\ Ev.polls = -1
            /\ LET C == Settle(OpCancel(Core)) IN ObsOK(C) /\ SetCore(C)
       ELSE /\ nx.pc = "idle" /\ Ev.polls >= 0
            /\ \E n \in 0..14 :
                  LET C0 == RunN(Fresh, n)
                      C  == Settle(OpCancel(C0))
                  IN /\ C0.nx.pc # "idle"
                     /\ (Ev.polls = 0 => n = 0)
                     /\ ObsOK(C) /\ SetCore(C)
    /\ Len(released') = Ev.nrel
    /\ UNCHANGED delivered /\ Keep

TraceInit == deps = EmptyFn /\ todo = <<>> /\ InitRest /\ i = 1
TraceNext ==
    /\ i <= Len(Rec)
    /\ i' = i + 1
    /\ (StepReset \/ StepProc \/ StepRet \/ StepPark \/ StepCancel)
TraceSpec == TraceInit /\ [][TraceNext]_tvars

TraceAccepted ==
    LET d == TLCGet("stats").diameter IN
    IF d - 1 = Len(Rec) THEN TRUE
    ELSE Print(<<"TRACE_REJECTED", d - 1, Len(Rec), ToJson(Rec[d])>>, FALSE)
=============================================================================
