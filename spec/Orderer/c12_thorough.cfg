SPECIFICATION MCSpec
CONSTANTS
  Item = {"a", "b", "c"}
  Missing = {}
  ItemSeq <- Seq3
  MissSeq <- Miss0
  MaxDepLen = 1
  SchedLen = 4
  MaxPer = 2
  RepeatDeps = FALSE
  CycleItems = FALSE
  Defect_ReadyLen = FALSE
  Defect_CommitFirst = FALSE
  Concurrent = FALSE
  InputPoints = {"idle", "new", "begin", "take", "get", "commit", "ret", "notified"}
  MaxCancel = 1
INVARIANTS
  TypeOK
  C12_NoLoss
  C12_NothingOwedAtQuiescence
  C11_DepsFirst
  C11_DepsTakenFirst
  C11_ReadyIsClosure
  C11_AllReleasedAtQuiescence
VIEW NoHistView
