SPECIFICATION TraceSpec
CONSTANTS
  Item = {}
  Missing = {}
  Defect_ReadyLen = FALSE
  Defect_CommitFirst = FALSE
  Concurrent = FALSE
  InputPoints = {}
  MaxCancel = 0
INVARIANTS
  C11_DepsFirst
  C11_DepsTakenFirst
  C11_ReadyIsClosure
  C11_QueueComplete
  C12_NoLoss
POSTCONDITION TraceAccepted
CHECK_DEADLOCK FALSE
