------------------------------ MODULE Orderer ------------------------------
(***************************************************************************)
(* Causal orderer of p2panda-stream, implementation-shaped.                *)
(*                                                                         *)
(*   store side   p2panda-store/src/orderer/sqlite.rs                      *)
(*                  ready            330-351   IsReady                     *)
(*                  mark_ready        22-115   MarkReady                   *)
(*                  mark_pending     117-198   MarkPending                 *)
(*                  get_next_pending 200-264   Dependents                  *)
(*                  remove_pending   311-328   RemovePending               *)
(*                  take_next_ready  266-309   OpTake                      *)
(*   algorithm    p2panda-stream/src/orderer/orderer.rs                    *)
(*                  process           94-109   ProcessResults              *)
(*                  process_pending  112-136   PP / Loop                   *)
(*   processor    p2panda-stream/src/orderer/processor.rs                  *)
(*                  Orderer::process  49-68    ProcBegin ProcLock ProcRun  *)
(*                                             ProcCommit                  *)
(*                  Orderer::next     70-...   one action per await point: *)
(*                                             LockInner BeginTx Take Get  *)
(*                                             CommitTx Ret Wake ; Cancel  *)
(*   caller       p2panda-stream/src/processors/buffered.rs:28-52          *)
(*                  select! { input => process(input).await,               *)
(*                            out = next() => send(out) }                  *)
(*                  BufInput (drops the pending `next` future), NextCall   *)
(*                                                                         *)
(* The two tables are modelled as they are: `ready` maps an id to its      *)
(* queue index and in_queue flag, `pending` is the set of                  *)
(* (id, child_id, parent_id) rows.  The set_digest column is a function of *)
(* (child, dependency list); as every id has exactly one dependency list   *)
(* (it is part of the hashed header) the digest is determined by child_id  *)
(* and is left out.  All orderer queries run inside the single open        *)
(* transaction (`tx`), which is a working copy that CommitTx publishes and *)
(* a dropped permit discards (sqlite.rs TransactionPermit::drop: rollback  *)
(* in a spawned task, semaphore released afterwards = RollbackTask).       *)
(***************************************************************************)
EXTENDS Integers, Sequences, FiniteSets

CONSTANTS
    Item,                \* ids that can be delivered
    Missing,             \* ids that are referenced but never delivered
    Defect_ReadyLen,     \* TRUE = `ready` compares COUNT(..) with dependencies.len() (code before the C11 fix)
    Defect_CommitFirst,  \* TRUE = `next` commits the take and then awaits get_operation (code before the C12 fix)
    Concurrent,          \* FALSE = process/next are driven the way Buffer does (never both in flight)
    InputPoints,         \* pcs of `next` at which the Buffer's input branch may win the select!
    MaxCancel            \* number of stand-alone drops of a `next` future (e.g. ComposedProcessors' select!)

VARIABLES
    deps,        \* [Item -> Seq(Id)]   dependency list of every item (may repeat entries / name Missing ids)
    todo,        \* Seq(Item)           deliveries still to come (duplicates allowed)
    ready,       \* committed orderer_ready_v1:   id :> [idx, inq]
    pending,     \* committed orderer_pending_v1: set of [id, child, parent]
    tx,          \* [open, ready, pending]  working copy of the open transaction
    permit,      \* "free" | "next" | "proc" | "rollback"   (transaction semaphore)
    lock,        \* "free" | "next" | "proc"                (Orderer.inner mutex)
    notif,       \* Notify holds a stored permit
    nx,          \* [pc, id]  the in-flight `next` future, parked *before* the step named by pc
    pr,          \* [pc, x]   the in-flight `process` future
    parked,      \* item parked in the processor by a `next` call (repaired code only)
    released,    \* sequence of items returned by completed `next` calls
    taken,       \* history: sequence of ids whose take was committed
    delivered,   \* history: set of items whose `process` committed
    cancels      \* stand-alone Cancel steps so far

env  == <<deps, todo, delivered, cancels>>
core == <<ready, pending, tx, permit, lock, notif, nx, parked, released, taken>>
vars == <<deps, todo, ready, pending, tx, permit, lock, notif, nx, pr, parked, released, taken, delivered, cancels>>

Id   == Item \cup Missing
None == "-"
Range(s) == {s[i] : i \in DOMAIN s}
Count(s, e) == Cardinality({i \in DOMAIN s : s[i] = e})
DepSet(x) == Range(deps[x])

EmptyFn == [k \in {} |-> 0]
NoTx    == [open |-> FALSE, ready |-> EmptyFn, pending |-> {}]
Idle    == [pc |-> "idle", id |-> None]
PrIdle  == [pc |-> "idle", x |-> None]

----------------------------------------------------------------------------
(* Store operations (pure functions of the two tables)                      *)

\* A dependency list as `ready` sees it: the set of ids and the number of entries.
DL(x) == [set |-> DepSet(x), len |-> Len(deps[x])]

\* sqlite.rs:330-351.  SELECT COUNT(id) .. WHERE id IN (..) counts each ready id once.
IsReady(r, dl) ==
    LET n == Cardinality(dl.set \cap DOMAIN r)
    IN IF Defect_ReadyLen THEN n = dl.len ELSE n = Cardinality(dl.set)

MaxIdx(r) ==
    IF DOMAIN r = {} THEN 0
    ELSE CHOOSE m \in {r[k].idx : k \in DOMAIN r} : \A k \in DOMAIN r : r[k].idx <= m

\* sqlite.rs:22-115: insert at the end of the queue; an item that was taken already is re-queued.
MarkReady(r, id) ==
    IF id \notin DOMAIN r
    THEN [k \in DOMAIN r \cup {id} |-> IF k = id THEN [idx |-> MaxIdx(r) + 1, inq |-> TRUE] ELSE r[k]]
    ELSE IF r[id].inq THEN r
    ELSE [r EXCEPT ![id] = [idx |-> MaxIdx(r) + 1, inq |-> TRUE]]

\* sqlite.rs:117-198: for every dependency that is not ready, one row per dependency.
MarkPending(p, r, x) ==
    p \cup {[id |-> i, child |-> x, parent |-> q] : i \in (DepSet(x) \ DOMAIN r), q \in DepSet(x)}

\* sqlite.rs:200-264: children waiting for `key`, each with the parent_id column of ALL rows of
\* that child (the second query does not filter by id and is not DISTINCT, so a parent is listed
\* once per not-yet-removed id group).
RowsOf(p, c) == {w \in p : w.child = c}
Dependents(p, key) ==
    {[child |-> c,
      dl    |-> [set |-> {w.parent : w \in RowsOf(p, c)}, len |-> Cardinality(RowsOf(p, c))]] :
        c \in {w.child : w \in {v \in p : v.id = key}}}

RemovePending(p, key) == {w \in p : w.id # key}

\* orderer.rs:112-136.  `dependents` is a HashSet: iteration order is arbitrary, so the result
\* is a SET of possible table states.  The dependents (and their lists) are a snapshot taken at
\* entry; readiness is evaluated against the current tables.
RECURSIVE PP(_, _), Loop(_, _)
PP(s, key) ==
    LET ds == Dependents(s.p, key)
    IN IF ds = {} THEN {s}
       ELSE {[r |-> t.r, p |-> RemovePending(t.p, key)] : t \in Loop(s, ds)}
Loop(s, rem) ==
    IF rem = {} THEN {s}
    ELSE UNION {IF ~IsReady(s.r, e.dl)
                THEN Loop(s, rem \ {e})
                ELSE UNION {Loop(t, rem \ {e}) :
                              t \in PP([r |-> MarkReady(s.r, e.child), p |-> s.p], e.child)}
                : e \in rem}

\* orderer.rs:94-109
ProcessResults(s, x) ==
    IF ~IsReady(s.r, DL(x))
    THEN {[r |-> s.r, p |-> MarkPending(s.p, s.r, x)]}
    ELSE PP([r |-> MarkReady(s.r, x), p |-> s.p], x)

InQ(r) == {k \in DOMAIN r : r[k].inq}
HeadOf(r) == CHOOSE k \in InQ(r) : \A j \in InQ(r) : r[k].idx <= r[j].idx

----------------------------------------------------------------------------
(* Orderer::next as operators on the core record, one per await point       *)

Core == [ready |-> ready, pending |-> pending, tx |-> tx, permit |-> permit, lock |-> lock,
         notif |-> notif, nx |-> nx, parked |-> parked, released |-> released, taken |-> taken]

SetCore(C) ==
    /\ ready' = C.ready /\ pending' = C.pending /\ tx' = C.tx /\ permit' = C.permit
    /\ lock' = C.lock /\ notif' = C.notif /\ nx' = C.nx /\ parked' = C.parked
    /\ released' = C.released /\ taken' = C.taken

\* `self.inner.lock().await`; the repaired code then hands out an item a cancelled call left behind
OpLock(C) ==
    IF ~Defect_CommitFirst /\ C.parked # None
    THEN [C EXCEPT !.released = Append(@, C.parked), !.parked = None, !.nx = Idle]
    ELSE [C EXCEPT !.lock = "next", !.nx = [pc |-> "begin", id |-> None]]

\* `self.store.begin().await`
OpBegin(C) ==
    [C EXCEPT !.permit = "next",
              !.tx = [open |-> TRUE, ready |-> C.ready, pending |-> C.pending],
              !.nx = [pc |-> "take", id |-> None]]

\* `inner.next().await` = take_next_ready: head of the queue, in_queue := FALSE (uncommitted).
\* Empty queue: `self.notify.notified().await` - with a stored permit it completes at once (no
\* suspension): the loop body ends (permit and guard dropped) and the loop starts over.
OpTake(C) ==
    IF InQ(C.tx.ready) = {}
    THEN IF C.notif
         THEN [C EXCEPT !.notif = FALSE, !.permit = "rollback", !.lock = "free",
                        !.nx = [pc |-> "lock", id |-> None]]
         ELSE [C EXCEPT !.nx = [pc |-> "notified", id |-> None]]
    ELSE LET h == HeadOf(C.tx.ready)
         IN [C EXCEPT !.tx.ready[h].inq = FALSE,
                      !.nx = [pc |-> IF Defect_CommitFirst THEN "commit" ELSE "get", id |-> h]]

\* before the fix: `get_operation(&id).await` AFTER the commit; the id lives only in the future.
\* repaired: `get_operation_tx(&id).await` inside the transaction, then the operation is parked
\* in the processor before the commit is awaited.
OpGet(C) ==
    IF Defect_CommitFirst
    THEN [C EXCEPT !.nx.pc = "ret"]
    ELSE [C EXCEPT !.parked = C.nx.id, !.nx.pc = "commit"]

\* `self.store.commit(permit).await` (the effect; the future may still be dropped before it resumes)
OpCommit(C) ==
    [C EXCEPT !.ready = C.tx.ready, !.pending = C.tx.pending, !.tx = NoTx, !.permit = "free",
              !.taken = Append(@, C.nx.id),
              !.nx.pc = IF Defect_CommitFirst THEN "get" ELSE "ret"]

\* the future resumes after its last await and returns the operation
OpRet(C) ==
    [C EXCEPT !.released = Append(@, C.nx.id), !.parked = None, !.lock = "free", !.nx = Idle]

\* a parked `self.notify.notified().await` is woken (only possible when `process` runs
\* concurrently); end of the loop body drops permit and guard
OpWake(C) ==
    [C EXCEPT !.notif = FALSE, !.permit = "rollback", !.lock = "free",
              !.nx = [pc |-> "lock", id |-> None]]

\* the future is dropped where it is parked: locals (guard, permit, id) are gone
OpCancel(C) ==
    [C EXCEPT !.lock = IF @ = "next" THEN "free" ELSE @,
              !.permit = IF @ = "next" THEN "rollback" ELSE @,
              !.nx = Idle]

\* spawned rollback of a dropped permit
OpRollback(C) == [C EXCEPT !.tx = NoTx, !.permit = "free"]

NextFree == Concurrent \/ pr.pc = "idle"

NextCall ==
    /\ nx.pc = "idle" /\ NextFree
    /\ nx' = [pc |-> "new", id |-> None]
    /\ UNCHANGED <<ready, pending, tx, permit, lock, notif, parked, released, taken, pr>> /\ UNCHANGED env

\* pc "new": the future exists and was never polled; pc "lock": the loop starts over (not a
\* suspension point while the mutex is uncontended, so nobody can drop the future there)
LockInner == nx.pc \in {"new", "lock"} /\ lock = "free"   /\ NextFree /\ SetCore(OpLock(Core))   /\ UNCHANGED pr /\ UNCHANGED env
BeginTx   == nx.pc = "begin"    /\ permit = "free" /\ NextFree /\ SetCore(OpBegin(Core))  /\ UNCHANGED pr /\ UNCHANGED env
Take      == nx.pc = "take"                        /\ NextFree /\ SetCore(OpTake(Core))   /\ UNCHANGED pr /\ UNCHANGED env
Get       == nx.pc = "get"                         /\ NextFree /\ SetCore(OpGet(Core))    /\ UNCHANGED pr /\ UNCHANGED env
CommitTx  == nx.pc = "commit"                      /\ NextFree /\ SetCore(OpCommit(Core)) /\ UNCHANGED pr /\ UNCHANGED env
Ret       == nx.pc = "ret"                         /\ NextFree /\ SetCore(OpRet(Core))    /\ UNCHANGED pr /\ UNCHANGED env
Wake      == nx.pc = "notified" /\ notif           /\ NextFree /\ SetCore(OpWake(Core))   /\ UNCHANGED pr /\ UNCHANGED env

RollbackTask == permit = "rollback" /\ SetCore(OpRollback(Core)) /\ UNCHANGED pr /\ UNCHANGED env

\* a caller other than the Buffer's input branch drops the future
Cancel ==
    /\ nx.pc \notin {"idle", "lock"} /\ NextFree /\ cancels < MaxCancel
    /\ SetCore(OpCancel(Core))
    /\ cancels' = cancels + 1
    /\ UNCHANGED <<pr, deps, todo, delivered>>

----------------------------------------------------------------------------
(* Buffer: input wins the select! -> pending `next` future dropped, process(input).await *)

BufInput ==
    /\ todo # <<>> /\ pr.pc = "idle"
    /\ Concurrent \/ nx.pc \in InputPoints
    /\ IF Concurrent \/ nx.pc = "idle"
       THEN UNCHANGED core
       ELSE SetCore(OpCancel(Core))
    /\ pr' = [pc |-> "begin", x |-> Head(todo)]
    /\ todo' = Tail(todo)
    /\ UNCHANGED <<deps, delivered, cancels>>

\* processor.rs:50  `self.store.begin().await`
ProcBegin ==
    /\ pr.pc = "begin" /\ permit = "free"
    /\ permit' = "proc"
    /\ tx' = [open |-> TRUE, ready |-> ready, pending |-> pending]
    /\ pr' = [pr EXCEPT !.pc = "lock"]
    /\ UNCHANGED <<ready, pending, lock, notif, nx, parked, released, taken>> /\ UNCHANGED env

\* processor.rs:55  `self.inner.lock().await`  (note: permit first, then lock; `next` takes them the other way round)
ProcLock ==
    /\ pr.pc = "lock" /\ lock = "free"
    /\ lock' = "proc"
    /\ pr' = [pr EXCEPT !.pc = "run"]
    /\ UNCHANGED <<ready, pending, tx, permit, notif, nx, parked, released, taken>> /\ UNCHANGED env

\* processor.rs:56  `inner.process(hash, deps).await`  (all store calls inside the open transaction)
ProcRun ==
    /\ pr.pc = "run"
    /\ \E s \in ProcessResults([r |-> tx.ready, p |-> tx.pending], pr.x) :
          tx' = [open |-> TRUE, ready |-> s.r, pending |-> s.p]
    /\ pr' = [pr EXCEPT !.pc = "commit"]
    /\ UNCHANGED <<ready, pending, permit, lock, notif, nx, parked, released, taken>> /\ UNCHANGED env

\* processor.rs:60-67  commit, notify_one, return (guard dropped)
ProcCommit ==
    /\ pr.pc = "commit"
    /\ ready' = tx.ready /\ pending' = tx.pending /\ tx' = NoTx /\ permit' = "free"
    /\ notif' = TRUE /\ lock' = "free"
    /\ delivered' = delivered \cup {pr.x}
    /\ pr' = PrIdle
    /\ UNCHANGED <<nx, parked, released, taken, deps, todo, cancels>>

\* quiescence: nothing left to deliver, `next` parked on the Notify with no stored permit
Terminated ==
    /\ todo = <<>> /\ pr.pc = "idle" /\ nx.pc = "notified" /\ ~notif
Stutter == Terminated /\ UNCHANGED vars

Sys == NextCall \/ LockInner \/ BeginTx \/ Take \/ Get \/ CommitTx \/ Ret \/ Wake \/ RollbackTask
       \/ ProcBegin \/ ProcLock \/ ProcRun \/ ProcCommit
Next == Sys \/ BufInput \/ Cancel \/ Stutter

InitRest ==
    /\ ready = EmptyFn /\ pending = {} /\ tx = NoTx
    /\ permit = "free" /\ lock = "free" /\ notif = FALSE
    /\ nx = Idle /\ pr = PrIdle /\ parked = None
    /\ released = <<>> /\ taken = <<>> /\ delivered = {} /\ cancels = 0

----------------------------------------------------------------------------
(* Properties                                                               *)

\* the declarative meaning of "all dependencies processed": least set closed under the rule
RECURSIVE Clo(_, _)
Clo(D, acc) ==
    LET new == {x \in D \ acc : DepSet(x) \subseteq acc}
    IN IF new = {} THEN acc ELSE Clo(D, acc \cup new)
Closure(D) == Clo(D, {})

DepsFirst(s) == \A i \in DOMAIN s : \A d \in DepSet(s[i]) : \E j \in 1..(i - 1) : s[j] = d

\* C11 (safety): an item is released only after every dependency was released
C11_DepsFirst == DepsFirst(released)
\* ... and leaves the queue only after every dependency left it
C11_DepsTakenFirst == DepsFirst(taken)
\* C11 (functional): the ready table is exactly the closure of the delivered items, with
\* dependency lists read as SETS (hence repeated entries and the order of a list cannot matter)
C11_ReadyIsClosure == DOMAIN ready = Closure(delivered)
\* every ready item is in the queue or was handed to `next`
C11_QueueComplete == \A x \in DOMAIN ready : ready[x].inq \/ Count(taken, x) >= 1
\* C11 (liveness at quiescence): everything whose dependencies were all processed has been released
C11_AllReleasedAtQuiescence == Terminated => Closure(delivered) \subseteq Range(released)
\* C11 (liveness): ... is eventually released
C11_Live == \A x \in Item : [](x \in Closure(delivered) => <>(x \in Range(released)))

\* C12: every committed take is covered by a return, by the parking slot, or by the live future
Covered(x) ==
    Count(taken, x) <= Count(released, x)
                       + (IF parked = x THEN 1 ELSE 0)
                       + (IF Defect_CommitFirst /\ nx.pc \in {"get", "ret"} /\ nx.id = x THEN 1 ELSE 0)
C12_NoLoss == \A x \in DOMAIN deps : Covered(x)
C12_NothingOwedAtQuiescence == Terminated => \A x \in DOMAIN deps : Count(taken, x) <= Count(released, x)

\* structural sanity
TypeOK ==
    /\ permit \in {"free", "next", "proc", "rollback"} /\ lock \in {"free", "next", "proc"}
    /\ nx.pc \in {"idle", "new", "lock", "begin", "take", "get", "commit", "ret", "notified"}
    /\ nx.pc = "notified" => ~notif \/ Concurrent
    /\ pr.pc \in {"idle", "begin", "lock", "run", "commit"}
    /\ permit = "free" => ~tx.open
    /\ permit \in {"next", "proc"} => tx.open
    /\ \A a, b \in DOMAIN ready : a # b => ready[a].idx # ready[b].idx      \* queue_index UNIQUE

Fairness == WF_vars(Sys)
=============================================================================
