---------------------------- MODULE MC_Orderer ----------------------------
(* Bounded instance of Orderer for TLC: every dependency graph (DAG over    *)
(* ItemSeq, lists with repeated entries and missing ids), every delivery    *)
(* schedule of a fixed length (with redeliveries), every interleaving of    *)
(* the Buffer's input branch with the await points of `next`; history       *)
(* variable + JSON export of every complete behaviour for the replayer.     *)
EXTENDS Orderer, TLC, Json

CONSTANTS
    ItemSeq,      \* the items in topological order: ItemSeq[k] may depend on ItemSeq[1..k-1] and on Missing
    MissSeq,      \* the Missing ids as a sequence (fixes their rank)
    MaxDepLen,    \* longest dependency list
    SchedLen,     \* number of deliveries
    MaxPer,       \* ... of the same item (2 = redeliveries)
    RepeatDeps,   \* TRUE = lists may repeat an entry
    CycleItems    \* TRUE = additionally allow a list to name LATER items (cycles, self-dependency)

\* values for the sequence-valued constants (cfg files cannot write tuples)
Seq2 == <<"a", "b">>
Seq3 == <<"a", "b", "c">>
Seq4 == <<"a", "b", "c", "d">>
Miss0 == <<>>
Miss1 == <<"m">>

VARIABLE hist
mcvars == <<vars, hist>>

ASSUME Item = {ItemSeq[k] : k \in DOMAIN ItemSeq} /\ Missing = {MissSeq[k] : k \in DOMAIN MissSeq}

IdSeq == ItemSeq \o MissSeq
Rank(id) == CHOOSE k \in DOMAIN IdSeq : IdSeq[k] = id
Last(s) == s[Len(s)]

\* dependency lists of the k-th item: rank-sorted sequences (the store sorts / uses IN, so the
\* order of a list is immaterial; the replayer shuffles it)
AllowedAt(k) == (IF CycleItems THEN Item ELSE {ItemSeq[j] : j \in 1..(k - 1)}) \cup Missing
SortedSeqs(S, n) ==
    {s \in [1..n -> S] : \A i \in 1..(n - 1) :
        IF RepeatDeps THEN Rank(s[i]) <= Rank(s[i + 1]) ELSE Rank(s[i]) < Rank(s[i + 1])}
DepListsAt(k) == UNION {SortedSeqs(AllowedAt(k), n) : n \in 0..MaxDepLen}

RECURSIVE GraphsUpTo(_)
GraphsUpTo(k) == IF k = 0 THEN {<<>>}
                 ELSE {Append(g, l) : g \in GraphsUpTo(k - 1), l \in DepListsAt(k)}
Graphs == {[x \in Item |-> g[Rank(x)]] : g \in GraphsUpTo(Len(ItemSeq))}

Schedules == {s \in [1..SchedLen -> Item] : \A x \in Item : Count(s, x) <= MaxPer}

----------------------------------------------------------------------------
(* observable the replayer compares (committed tables; only taken when the permit is free or
   about to be freed by the rollback task) *)
Obs(r, p, rel) ==
    [ready    |-> DOMAIN r,
     inq      |-> Cardinality(InQ(r)),
     pend     |-> Cardinality({w.id : w \in p}),
     released |-> rel]

\* a `next` step is visible to the replayer when the future parks: at a store call, or on the
\* Notify when no permit is stored
Parks(C) == C.nx.pc \in {"begin", "take", "get", "commit", "ret", "notified"}

StepHist(C) ==
    IF C.nx.pc = "idle"
    THEN Append(hist, [a |-> "Ret", id |-> Last(C.released), obs |-> Obs(C.ready, C.pending, C.released)])
    ELSE IF Parks(C) THEN Append(hist, [a |-> "Step", to |-> C.nx.pc])
    ELSE hist

MCInit ==
    /\ deps \in Graphs /\ todo \in Schedules
    /\ InitRest /\ hist = <<>>

MC_NextCall  == NextCall  /\ hist' = Append(hist, [a |-> "NextCall"])
MC_LockInner == LockInner /\ hist' = StepHist(OpLock(Core))
MC_BeginTx   == BeginTx   /\ hist' = StepHist(OpBegin(Core))
MC_Take      == Take      /\ hist' = StepHist(OpTake(Core))
MC_Get       == Get       /\ hist' = StepHist(OpGet(Core))
MC_CommitTx  == CommitTx  /\ hist' = StepHist(OpCommit(Core))
MC_Ret       == Ret       /\ hist' = StepHist(OpRet(Core))
MC_Wake      == Wake      /\ hist' = hist
MC_RollbackTask == RollbackTask /\ hist' = hist
MC_Cancel    == Cancel    /\ hist' = Append(hist, [a |-> "Cancel", at |-> nx.pc, obs |-> Obs(ready, pending, released)])
MC_BufInput  == BufInput  /\ hist' = Append(hist, [a |-> "Input", x |-> Head(todo), at |-> nx.pc])
MC_ProcBegin == ProcBegin /\ hist' = hist
MC_ProcLock  == ProcLock  /\ hist' = hist
MC_ProcRun   == ProcRun   /\ hist' = hist
MC_ProcCommit == ProcCommit /\ hist' = Append(hist, [a |-> "ProcDone", x |-> pr.x, obs |-> Obs(tx.ready, tx.pending, released)])
MC_Stutter   == Stutter   /\ hist' = hist

MCNext ==
    \/ MC_NextCall \/ MC_LockInner \/ MC_BeginTx \/ MC_Take \/ MC_Get \/ MC_CommitTx \/ MC_Ret
    \/ MC_Wake \/ MC_RollbackTask \/ MC_Cancel \/ MC_BufInput
    \/ MC_ProcBegin \/ MC_ProcLock \/ MC_ProcRun \/ MC_ProcCommit \/ MC_Stutter

MCSpec     == MCInit /\ [][MCNext]_mcvars
\* liveness: no history (it would only multiply states), weak fairness on the system's own steps
\* (not on the environment's BufInput / Cancel); no state constraint - bounded by construction
MCLiveNext == Next /\ UNCHANGED hist
MCLiveSpec == MCInit /\ [][MCLiveNext]_mcvars /\ WF_mcvars(Sys /\ UNCHANGED hist)

NoHistView == vars

Export ==
    Terminated => PrintT(<<"REPLAY", ToJson([kind |-> "orderer", deps |-> deps, steps |-> hist])>>)

\* vacuity guards (must be VIOLATED when checked as invariants = the branch is reachable);
\* used by the *_reach.cfg only
NeverRequeued == \A x \in DOMAIN ready : Count(taken, x) <= 1
NeverPendingRows == pending = {}
=============================================================================
