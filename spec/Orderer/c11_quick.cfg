SPECIFICATION MCSpec
CONSTANTS
  Item = {"a", "b", "c"}
  Missing = {"m"}
  ItemSeq <- Seq3
  MissSeq <- Miss1
  MaxDepLen = 2
  SchedLen = 3
  MaxPer = 1
  RepeatDeps = TRUE
  CycleItems = FALSE
  Defect_ReadyLen = FALSE
  Defect_CommitFirst = FALSE
  Concurrent = FALSE
  InputPoints = {"idle", "notified"}
  MaxCancel = 0
INVARIANTS
  TypeOK
  C11_DepsFirst
  C11_DepsTakenFirst
  C11_ReadyIsClosure
  C11_QueueComplete
  C11_AllReleasedAtQuiescence
  C12_NoLoss
VIEW NoHistView
