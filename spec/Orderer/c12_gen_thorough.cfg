SPECIFICATION MCSpec
CONSTANTS
  Item = {"a", "b"}
  Missing = {}
  ItemSeq <- Seq2
  MissSeq <- Miss0
  MaxDepLen = 1
  SchedLen = 3
  MaxPer = 2
  RepeatDeps = FALSE
  CycleItems = FALSE
  Defect_ReadyLen = FALSE
  Defect_CommitFirst = FALSE
  Concurrent = FALSE
  InputPoints = {"idle", "new", "begin", "take", "get", "commit", "ret", "notified"}
  MaxCancel = 0
INVARIANTS
  Export
