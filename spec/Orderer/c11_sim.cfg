SPECIFICATION MCSpec
CONSTANTS
  Item = {"a", "b", "c", "d"}
  Missing = {"m"}
  ItemSeq <- Seq4
  MissSeq <- Miss1
  MaxDepLen = 3
  SchedLen = 5
  MaxPer = 2
  RepeatDeps = TRUE
  CycleItems = FALSE
  Defect_ReadyLen = FALSE
  Defect_CommitFirst = FALSE
  Concurrent = FALSE
  InputPoints = {"idle", "new", "begin", "take", "get", "commit", "ret", "notified"}
  MaxCancel = 2
INVARIANTS
  TypeOK
  C11_DepsFirst
  C11_DepsTakenFirst
  C11_ReadyIsClosure
  C11_QueueComplete
  C11_AllReleasedAtQuiescence
  C12_NoLoss
