--------------------------- MODULE MC_PsiHash ---------------------------
(* Bounded instances of PsiHash for TLC + JSON export of behaviours.       *)
EXTENDS PsiHash, TLC, Json

\* menus of address book entries (cfg: EntryMenu <- MenuQuick)
MenuQuick == {<<{"t1"}, "ok">>, <<{"t2", "t3"}, "ok">>, <<{"t1", "t2"}, "stale">>,
              <<{"t1", "t3"}, "notransport">>}
MenuThorough == {<<{}, "ok">>, <<{"t1"}, "ok">>, <<{"t2"}, "ok">>, <<{"t2", "t3"}, "ok">>,
                 <<{"t1", "t2", "t3"}, "ok">>, <<{"t1"}, "stale">>, <<{"t2", "t3"}, "stale">>,
                 <<{"t1"}, "notransport">>}
MenuFull == (SUBSET Topic) \X {"ok", "notransport", "stale"}

---------------------------------------------------------------------------
(* Exhaustive machine: PsiHash!Spec as it is (books chosen inside the      *)
(* Nodes actions).                                                         *)

C30_BothGetIntersection == BothGetIntersection
C30_NoRawTopicOnWire == NoRawTopicOnWire
C30_RestrictedSharing == RestrictedSharing
X_ReceivedIsSent == ReceivedIsSent
X_SentAreUsable == SentAreUsable
NotReachNonTrivialIntersection == ~ReachNonTrivialIntersection
NotReachRestrictedFilters == ~ReachRestrictedFilters

---------------------------------------------------------------------------
(* Export machine (simulation): the two address books are picked entry by  *)
(* entry in separate steps so that a random walk does not have to          *)
(* enumerate all books; the protocol actions are the ones of PsiHash.      *)

VARIABLES bookA, bookB, picked     \* picked: number of entries fixed so far (0..2*|Node|)

genvars == <<vars, bookA, bookB, picked>>

NodeSeq == CHOOSE s \in [1..Cardinality(Node) -> Node] : \A i, j \in DOMAIN s : i # j => s[i] # s[j]

GenInit == Init /\ bookA = NoBook /\ bookB = NoBook /\ picked = 0

PickEntry ==
    /\ picked < 2 * Cardinality(Node)
    /\ \E e \in Entries :
          IF picked < Cardinality(Node)
          THEN /\ bookA' = [bookA EXCEPT ![NodeSeq[picked + 1]] = e] /\ UNCHANGED bookB
          ELSE /\ bookB' = [bookB EXCEPT ![NodeSeq[picked - Cardinality(Node) + 1]] = e] /\ UNCHANGED bookA
    /\ picked' = picked + 1
    /\ UNCHANGED vars

GenNext ==
    \/ PickEntry
    \/ /\ picked = 2 * Cardinality(Node)
       /\ UNCHANGED <<bookA, bookB, picked>>
       /\ \/ AliceSendSaltHalf \/ BobSendSaltAndHashes \/ AliceSendHashes
          \/ BobSendNodes(bookB) \/ AliceReceiveNodes \/ AliceSendNodes(bookA)
          \/ BobReceiveNodes

GenSpec == GenInit /\ [][GenNext]_genvars

\* exhaustive machine with the export variables held constant; one named wrapper per action
\* (TLC reports coverage per name)
Keep == UNCHANGED <<bookA, bookB, picked>>
DoAliceSendSaltHalf == AliceSendSaltHalf /\ Keep
DoBobSendSaltAndHashes == BobSendSaltAndHashes /\ Keep
DoAliceSendHashes == AliceSendHashes /\ Keep
DoBobSendNodes == (\E book \in Books : BobSendNodes(book)) /\ Keep
DoAliceReceiveNodes == AliceReceiveNodes /\ Keep
DoAliceSendNodes == (\E book \in Books : AliceSendNodes(book)) /\ Keep
DoBobReceiveNodes == BobReceiveNodes /\ Keep
MCNext ==
    \/ DoAliceSendSaltHalf \/ DoBobSendSaltAndHashes \/ DoAliceSendHashes \/ DoBobSendNodes
    \/ DoAliceReceiveNodes \/ DoAliceSendNodes \/ DoBobReceiveNodes
MCSpec == GenInit /\ [][MCNext]_genvars

BookJson(book) ==
    {[n |-> n, topics |-> book[n].topics, tr |-> book[n].tr, stale |-> book[n].stale] :
        n \in {x \in Node : book[x].present}}

WireJson == [i \in 1..Len(wire) |->
                [type |-> wire[i].type, from |-> wire[i].from,
                 hashes |-> {[t |-> h.t, d |-> h.d] : h \in wire[i].hashes},
                 nodes |-> wire[i].nodes]]

Export ==
    step = 6 =>
        PrintT(<<"REPLAY", ToJson([kind |-> "psihash", alice |-> Alice, bob |-> Bob,
                                   topicsA |-> topicsA, topicsB |-> topicsB,
                                   restrictA |-> restrictA, restrictB |-> restrictB,
                                   bookA |-> BookJson(bookA), bookB |-> BookJson(bookB),
                                   wire |-> WireJson,
                                   commonA |-> commonA, commonB |-> commonB,
                                   infosA |-> infosA, infosB |-> infosB])>>)
===========================================================================
