SPECIFICATION GenSpec
CONSTANTS
  Topic = {"t1", "t2", "t3"}
  Node = {"n1", "n2", "n3"}
  Alice = "n1"
  Bob = "n2"
  EntryMenu <- MenuFull
INVARIANTS
  Export
CHECK_DEADLOCK FALSE
