-------------------------- MODULE Trace_PsiHash --------------------------
(* Trace validation: runs of the real protocol (both roles, real wire      *)
(* codec, real SQLite address books; harness `vh-gossip psihash record`)   *)
(* must be behaviours of PsiHash, with the C30 predicates evaluated at     *)
(* every step.  The harness has translated the 32-byte values on the wire  *)
(* into the abstract H(topic, direction) by recomputing the salted BLAKE3  *)
(* hash of every topic of the run; a value it could not translate is       *)
(* logged as topic "unknown" and matches no specification step.            *)
EXTENDS PsiHash, TLC, Json, IOUtils

Rec == ndJsonDeserialize(IOEnv.TRACE)

VARIABLE i
tvars == <<vars, i>>

Ev == Rec[i]

ToSet(seq) == {seq[j] : j \in DOMAIN seq}

\* {"n1": {"present":..,"topics":[..],"tr":..,"stale":..}, ..} -> address book
BookOf(b) ==
    [n \in Node |-> IF n \in DOMAIN b
                    THEN [present |-> b[n].present, topics |-> ToSet(b[n].topics),
                          tr |-> b[n].tr, stale |-> b[n].stale]
                    ELSE AbsentEntry]

\* [{"t":..,"d":..}, ..] -> set of abstract hash values of this session
HashesOf(hs) == {H(hs[j].t, "ra", "rb", hs[j].d) : j \in DOMAIN hs}

StepReset ==
    /\ Ev.ev = "Reset"
    /\ topicsA' = ToSet(Ev.topicsA) /\ topicsB' = ToSet(Ev.topicsB)
    /\ restrictA' = Ev.restrictA /\ restrictB' = Ev.restrictB
    /\ step' = 0 /\ wire' = <<>>
    /\ commonA' = Unset /\ commonB' = Unset /\ infosA' = Unset /\ infosB' = Unset
    /\ gather' = NoGather

StepAliceSendSaltHalf ==
    /\ Ev.ev = "AliceSendSaltHalf"
    /\ AliceSendSaltHalf
    /\ Ev.from = Alice

StepBobSendSaltAndHashes ==
    /\ Ev.ev = "BobSendSaltAndHashes"
    /\ BobSendSaltAndHashes
    /\ Ev.from = Bob
    /\ wire'[2].hashes = HashesOf(Ev.hashes)

StepAliceSendHashes ==
    /\ Ev.ev = "AliceSendHashes"
    /\ AliceSendHashes
    /\ Ev.from = Alice
    /\ wire'[3].hashes = HashesOf(Ev.hashes)

StepBobSendNodes ==
    /\ Ev.ev = "BobSendNodes"
    /\ BobSendNodes(BookOf(Ev.book))
    /\ Ev.from = Bob
    /\ wire'[4].nodes = ToSet(Ev.nodes)

StepAliceReceiveNodes ==
    /\ Ev.ev = "AliceReceiveNodes"
    /\ AliceReceiveNodes
    /\ infosA' = ToSet(Ev.infosA)

StepAliceSendNodes ==
    /\ Ev.ev = "AliceSendNodes"
    /\ AliceSendNodes(BookOf(Ev.book))
    /\ Ev.from = Alice
    /\ wire'[5].nodes = ToSet(Ev.nodes)
    /\ commonA = ToSet(Ev.commonA)

StepBobReceiveNodes ==
    /\ Ev.ev = "BobReceiveNodes"
    /\ BobReceiveNodes
    /\ infosB' = ToSet(Ev.infosB)
    /\ commonB = ToSet(Ev.commonB)

TraceInit ==
    /\ topicsA = {} /\ topicsB = {} /\ restrictA = FALSE /\ restrictB = FALSE
    /\ step = 0 /\ wire = <<>>
    /\ commonA = Unset /\ commonB = Unset /\ infosA = Unset /\ infosB = Unset
    /\ gather = NoGather
    /\ i = 1

TraceNext ==
    /\ i <= Len(Rec)
    /\ i' = i + 1
    /\ \/ StepReset
       \/ StepAliceSendSaltHalf \/ StepBobSendSaltAndHashes \/ StepAliceSendHashes
       \/ StepBobSendNodes \/ StepAliceReceiveNodes \/ StepAliceSendNodes \/ StepBobReceiveNodes

TraceSpec == TraceInit /\ [][TraceNext]_tvars

C30_BothGetIntersection == BothGetIntersection
C30_NoRawTopicOnWire == NoRawTopicOnWire
C30_RestrictedSharing == RestrictedSharing
X_ReceivedIsSent == ReceivedIsSent
X_SentAreUsable == SentAreUsable

TraceAccepted ==
    LET d == TLCGet("stats").diameter IN
    IF d - 1 = Len(Rec) THEN TRUE
    ELSE Print(<<"TRACE_REJECTED", d - 1, Len(Rec), ToJson(Rec[d])>>, FALSE)
===========================================================================
