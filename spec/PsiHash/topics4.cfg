SPECIFICATION MCSpec
CONSTANTS
  Topic = {"t1", "t2", "t3", "t4"}
  Node = {"n1", "n2", "n3"}
  Alice = "n1"
  Bob = "n2"
  EntryMenu <- MenuQuick
INVARIANTS
  C30_BothGetIntersection
  C30_NoRawTopicOnWire
  C30_RestrictedSharing
  X_ReceivedIsSent
  X_SentAreUsable
CHECK_DEADLOCK FALSE
