------------------------------ MODULE PsiHash ------------------------------
(***************************************************************************)
(* Confidential topic discovery of p2panda-discovery                       *)
(* (p2panda-discovery/src/psi_hash.rs): the five-message private set        *)
(* intersection protocol between Alice (initiator, `alice()`,               *)
(* psi_hash.rs:168-241) and Bob (acceptor, `bob()`, psi_hash.rs:243-310),   *)
(* and `gather_transport_infos` (psi_hash.rs:108-153).                      *)
(*                                                                         *)
(* The hash is abstract: H(t, a, b, d) stands for                          *)
(* BLAKE3(topic || alice_salt_half || bob_salt_half || direction byte)      *)
(* (psi_hash.rs:342-369) and is a record, hence injective and never equal  *)
(* to a raw topic.  That the real function has these two qualities on the  *)
(* inputs used, and that no serialised message contains the 32 bytes of a  *)
(* raw topic, is checked by the conformance harness on the real bytes.     *)
(*                                                                         *)
(* One action per message sent; each action contains the processing of     *)
(* the message received before (the protocol functions are sequential and  *)
(* the two parties only interact through the messages).                    *)
(*                                                                         *)
(* The address book (`AddressBookStore`) is an external collaborator that  *)
(* is read exactly once per party, when the `Nodes` message is assembled;  *)
(* its content at that moment is an unconstrained input of the action      *)
(* (parameter `book`).                                                     *)
(***************************************************************************)
EXTENDS Integers, Sequences, FiniteSets

CONSTANTS Topic,            \* raw topics (strings)
          Node,             \* node ids (strings)
          Alice, Bob,       \* the two parties, distinct members of Node
          EntryMenu         \* kinds of address book entries: pairs <<topic set, flag>> with
                            \* flag \in {"ok", "notransport", "stale"}

ASSUME Alice \in Node /\ Bob \in Node /\ Alice # Bob

AliceByte == 0              \* ALICE_SALT_BYTE psi_hash.rs:17
BobByte == 1                \* BOB_SALT_BYTE   psi_hash.rs:18

\* value of a hashed-topic set element on the wire
H(t, a, b, d) == [k |-> "h", t |-> t, a |-> a, b |-> b, d |-> d]

\* address book entries: absent, or present with topics / transports / stale flag
AbsentEntry == [present |-> FALSE, topics |-> {}, tr |-> FALSE, stale |-> FALSE]
PresentEntries ==
    {[present |-> TRUE, topics |-> e[1], tr |-> (e[2] # "notransport"), stale |-> (e[2] = "stale")] :
        e \in EntryMenu}
Entries == {AbsentEntry} \cup PresentEntries
Books == [Node -> Entries]
NoBook == [n \in Node |-> AbsentEntry]

VARIABLES
    topicsA, topicsB,     \* LocalTopics of the two parties
    restrictA, restrictB, \* Config::share_nodes_with_common_topics
    step,                 \* number of messages sent so far, 6 = Bob has received the last one
    wire,                 \* all messages sent so far, in order
    commonA, commonB,     \* intersection computed by each party ("unset" before)
    infosA, infosB,       \* node ids whose transport infos each party received
    gather                \* the evaluation of gather_transport_infos behind the message sent
                          \* last (NoGather once the peer has taken that message)

vars == <<topicsA, topicsB, restrictA, restrictB, step, wire, commonA, commonB, infosA, infosB, gather>>

Unset == {"unset"}          \* not a set of topics/nodes
NoGather == [by |-> "none", book |-> NoBook, common |-> {}, restricted |-> FALSE, sent |-> {}]

Init ==
    /\ topicsA \in SUBSET Topic /\ topicsB \in SUBSET Topic
    /\ restrictA \in BOOLEAN /\ restrictB \in BOOLEAN
    /\ step = 0 /\ wire = <<>>
    /\ commonA = Unset /\ commonB = Unset
    /\ infosA = Unset /\ infosB = Unset
    /\ gather = NoGather

---------------------------------------------------------------------------
(* gather_transport_infos, psi_hash.rs:108-153                             *)

\* AddressBookStore::node_infos_by_topics (address_book/sqlite.rs): entries that are not stale
\* and share at least one of the given topics
ByTopics(book, ts) ==
    {n \in Node : book[n].present /\ ~book[n].stale /\ book[n].topics \cap ts # {}}

\* AddressBookStore::all_node_infos: entries that are not stale
AllInfos(book) == {n \in Node : book[n].present /\ ~book[n].stale}

Selected(book, me, common, restricted) ==
    IF restricted
    THEN LET r == ByTopics(book, common) IN
         \* "always include our own transport info": node_info(my_node_id), any stale flag
         IF me \notin r /\ book[me].present THEN r \cup {me} ELSE r
    ELSE AllInfos(book)

\* only entries with transport information end up in the message
Gathered(book, me, common, restricted) ==
    {n \in Selected(book, me, common, restricted) : book[n].tr}

---------------------------------------------------------------------------
(* the five messages                                                       *)

\* psi_hash.rs:173-176
AliceSendSaltHalf ==
    /\ step = 0
    /\ wire' = Append(wire, [type |-> "AliceSaltHalf", from |-> Alice, salt |-> "ra", hashes |-> {}, nodes |-> {}])
    /\ step' = 1
    /\ UNCHANGED <<topicsA, topicsB, restrictA, restrictB, commonA, commonB, infosA, infosB, gather>>

\* psi_hash.rs:248-276: Bob hashes his topics with the combined salt and *his* direction byte
BobSendSaltAndHashes ==
    /\ step = 1
    /\ LET m1 == wire[1] IN
       wire' = Append(wire, [type |-> "BobSaltHalfAndHashedData", from |-> Bob, salt |-> "rb",
                             hashes |-> {H(t, m1.salt, "rb", BobByte) : t \in topicsB}, nodes |-> {}])
    /\ step' = 2
    /\ UNCHANGED <<topicsA, topicsB, restrictA, restrictB, commonA, commonB, infosA, infosB, gather>>

\* psi_hash.rs:178-215: Alice intersects by re-hashing her topics with Bob's salt, then sends
\* her topics hashed with *her* direction byte
AliceSendHashes ==
    /\ step = 2
    /\ LET m2 == wire[2] IN
       /\ commonA' = {t \in topicsA : H(t, "ra", m2.salt, BobByte) \in m2.hashes}
       /\ wire' = Append(wire, [type |-> "AliceHashedData", from |-> Alice, salt |-> "",
                                hashes |-> {H(t, "ra", m2.salt, AliceByte) : t \in topicsA}, nodes |-> {}])
    /\ step' = 3
    /\ UNCHANGED <<topicsA, topicsB, restrictA, restrictB, commonB, infosA, infosB, gather>>

\* psi_hash.rs:278-295
BobSendNodes(book) ==
    /\ step = 3
    /\ LET m1 == wire[1]
           m3 == wire[3]
           common == {t \in topicsB : H(t, m1.salt, "rb", AliceByte) \in m3.hashes}
           sent == Gathered(book, Bob, common, restrictB) IN
       /\ commonB' = common
       /\ gather' = [by |-> Bob, book |-> book, common |-> common, restricted |-> restrictB, sent |-> sent]
       /\ wire' = Append(wire, [type |-> "Nodes", from |-> Bob, salt |-> "", hashes |-> {}, nodes |-> sent])
    /\ step' = 4
    /\ UNCHANGED <<topicsA, topicsB, restrictA, restrictB, commonA, infosA, infosB>>

\* psi_hash.rs:217-226
AliceReceiveNodes ==
    /\ step = 4 /\ infosA = Unset
    /\ infosA' = wire[4].nodes
    /\ gather' = NoGather
    /\ UNCHANGED <<topicsA, topicsB, restrictA, restrictB, step, wire, commonA, commonB, infosB>>

\* psi_hash.rs:228-240
AliceSendNodes(book) ==
    /\ step = 4 /\ infosA # Unset
    /\ LET sent == Gathered(book, Alice, commonA, restrictA) IN
       /\ gather' = [by |-> Alice, book |-> book, common |-> commonA, restricted |-> restrictA, sent |-> sent]
       /\ wire' = Append(wire, [type |-> "Nodes", from |-> Alice, salt |-> "", hashes |-> {}, nodes |-> sent])
    /\ step' = 5
    /\ UNCHANGED <<topicsA, topicsB, restrictA, restrictB, commonA, commonB, infosA, infosB>>

\* psi_hash.rs:297-309
BobReceiveNodes ==
    /\ step = 5
    /\ infosB' = wire[5].nodes
    /\ gather' = NoGather
    /\ step' = 6
    /\ UNCHANGED <<topicsA, topicsB, restrictA, restrictB, wire, commonA, commonB, infosA>>

Next ==
    \/ AliceSendSaltHalf \/ BobSendSaltAndHashes \/ AliceSendHashes
    \/ \E book \in Books : BobSendNodes(book)
    \/ AliceReceiveNodes
    \/ \E book \in Books : AliceSendNodes(book)
    \/ BobReceiveNodes

Spec == Init /\ [][Next]_vars

---------------------------------------------------------------------------
(* C30                                                                     *)

\* both DiscoveryResults carry exactly the common topics
BothGetIntersection ==
    /\ commonA # Unset => commonA = topicsA \cap topicsB
    /\ commonB # Unset => commonB = topicsA \cap topicsB
    /\ step = 6 => commonA # Unset /\ commonB # Unset

\* no element of a message is a raw topic: every element of a topic-set field is a hash value,
\* made with both salt halves of this session and the direction byte of its sender
NoRawTopicOnWire ==
    \A i \in 1..Len(wire) :
        \A h \in wire[i].hashes :
            /\ h.k = "h"
            /\ h.a = "ra" /\ h.b = "rb"
            /\ h.d = (IF wire[i].from = Alice THEN AliceByte ELSE BobByte)

\* with share_nodes_with_common_topics the node infos sent are those of nodes associated (in the
\* sender's address book) with a topic both parties have, plus the sender itself
RestrictedSharing ==
    gather.restricted =>
        gather.sent \subseteq
            ({n \in Node : gather.book[n].topics \cap (topicsA \cap topicsB) # {}} \cup {gather.by})

\* what arrives is what was sent
ReceivedIsSent ==
    /\ infosA # Unset => infosA = wire[4].nodes
    /\ infosB # Unset => infosB = wire[5].nodes

\* beyond the listed statement: node infos marked stale are not shared, except the sender's own
\* with restricted sharing (node_info() does not filter), and only infos with transports are sent
SentAreUsable ==
    \A n \in gather.sent :
        /\ gather.book[n].present /\ gather.book[n].tr
        /\ gather.book[n].stale => (n = gather.by /\ gather.restricted)

\* vacuity guards (negations are used as invariants in the reach config)
ReachNonTrivialIntersection ==
    step = 6 /\ commonA # {} /\ commonA # topicsA /\ commonA # topicsB
ReachRestrictedFilters ==
    gather.restricted /\ gather.sent # {n \in Node : gather.book[n].present /\ gather.book[n].tr /\ ~gather.book[n].stale}
===========================================================================
