SPECIFICATION TraceSpec
CONSTANTS
  Topic = {"t1", "t2", "t3", "t4", "t5", "t6", "t7", "t8", "t9", "t10", "t11", "t12"}
  Node = {"n1", "n2", "n3", "n4", "n5", "n6"}
  Alice = "n1"
  Bob = "n2"
  EntryMenu = {}
INVARIANTS
  C30_BothGetIntersection
  C30_NoRawTopicOnWire
  C30_RestrictedSharing
  X_ReceivedIsSent
  X_SentAreUsable
POSTCONDITION TraceAccepted
CHECK_DEADLOCK FALSE
