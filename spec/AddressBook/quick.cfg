SPECIFICATION MCSpec
CONSTANTS
  Node <- NodesSmall
  Pool <- PoolSmall
  AllowOverwrite = FALSE
  MaxCalls = 8
  OncePerRecord = TRUE
INVARIANTS
  TypeOK
  ForgedNeverStored
  StoredIsNewestAuthentic
  StoredIsTheNewestRecord
  ReplyMatches
PROPERTIES
  MCReplacedOnlyByNewer
  MCArrivalsKeepLocalData
VIEW NoHistView
CHECK_DEADLOCK FALSE
