SPECIFICATION MCSpec
CONSTANTS
  Node <- NodesOne
  Pool <- PoolN1
  AllowOverwrite = FALSE
  MaxCalls = 6
  OncePerRecord = TRUE
INVARIANTS
  Export
CHECK_DEADLOCK FALSE
