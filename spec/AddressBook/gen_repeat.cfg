SPECIFICATION MCSpec
CONSTANTS
  Node <- NodesSmall
  Pool <- PoolWide
  AllowOverwrite = FALSE
  MaxCalls = 10
  OncePerRecord = FALSE
INVARIANTS
  Export
CHECK_DEADLOCK FALSE
