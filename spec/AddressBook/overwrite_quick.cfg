SPECIFICATION MCSpec
CONSTANTS
  Node <- NodesOne
  Pool <- PoolOverwrite
  AllowOverwrite = TRUE
  MaxCalls = 4
  OncePerRecord = FALSE
INVARIANTS
  TypeOK
  ForgedNeverStored
  StoredIsNewestAuthentic
  ReplyMatches
PROPERTIES
  MCReplacedOnlyByNewer
  MCArrivalsKeepLocalData
VIEW NoHistView
CHECK_DEADLOCK FALSE
