------------------------- MODULE Trace_AddressBook -------------------------
(* Trace validation: calls recorded from the real address-book actor        *)
(* (harness `vh-net addressbook record`: real keys, signatures, hybrid      *)
(* timestamps) must be behaviours of AddressBook, with the C27 invariants   *)
(* evaluated at every step.                                                 *)
(*                                                                          *)
(*   Reset{nodes}                                   a new address book      *)
(*   InsertTransportInfo{rec, reply, stored, boot}  one arrival             *)
(*   InsertNodeInfo{rec, flag, reply, stored, boot} one local overwrite     *)
(* `stored` / `boot`: per node the id of the stored transport record and    *)
(* the bootstrap flag, read back through AddressBook::node_info.            *)
EXTENDS AddressBook, TLC, Json, IOUtils

Rec == ndJsonDeserialize(IOEnv.TRACE)

VARIABLE i
tvars == <<vars, i>>

Ev == Rec[i]

Norm(r) == [id |-> r.id, node |-> r.node, ts |-> r.ts, kind |-> r.kind, addrs |-> r.addrs, forge |-> r.forge]

NodesOf(seq) == {seq[k] : k \in 1..Len(seq)}

StepReset ==
    /\ Ev.ev = "Reset"
    /\ book' = [n \in NodesOf(Ev.nodes) |-> None]
    /\ boot' = [n \in NodesOf(Ev.nodes) |-> FALSE]
    /\ arrived' = {} /\ written' = {}
    /\ last' = [call |-> "none", rec |-> None, reply |-> "none"]

Observed ==
    /\ \A n \in DOMAIN book' : book'[n].id = Ev.stored[n] /\ boot'[n] = Ev.boot[n]
    /\ last'.reply = Ev.reply

StepInsertTransportInfo ==
    /\ Ev.ev = "InsertTransportInfo"
    /\ WellFormed(Norm(Ev.rec))
    /\ InsertTransportInfo(Norm(Ev.rec))
    /\ Observed

StepInsertNodeInfo ==
    /\ Ev.ev = "InsertNodeInfo"
    /\ WellFormed(Norm(Ev.rec))
    /\ InsertNodeInfo(Norm(Ev.rec), Ev.flag)
    /\ Observed

TraceInit == Init /\ i = 1

TraceNext ==
    /\ i <= Len(Rec)
    /\ i' = i + 1
    /\ (StepReset \/ StepInsertTransportInfo \/ StepInsertNodeInfo)

TraceSpec == TraceInit /\ [][TraceNext]_tvars

\* the invariants, ranging over the nodes present in the data
TrForgedNeverStored ==
    \A n \in DOMAIN book : book[n] # None =>
        /\ Authentic(book[n]) /\ book[n].node = n
        /\ book[n] \in arrived \cup written

TrStoredIsNewestAuthentic ==
    written = {} =>
        \A n \in DOMAIN book :
            LET A == AuthenticFor(n, arrived) IN
            IF A = {} THEN book[n] = None
            ELSE book[n] \in A /\ book[n].ts = Newest(A).ts

TrReplacedOnlyByNewer ==
    [][\A n \in DOMAIN book \cap DOMAIN book' :
          (book'[n] # book[n] /\ last'.call = "InsertTransportInfo") =>
              /\ Authentic(book'[n])
              /\ book[n] # None => book'[n].ts > book[n].ts]_tvars

TrArrivalsKeepLocalData ==
    [][(last'.call = "InsertTransportInfo" /\ DOMAIN boot' = DOMAIN boot) => boot' = boot]_tvars

TraceAccepted ==
    LET d == TLCGet("stats").diameter IN
    IF d - 1 = Len(Rec) THEN TRUE
    ELSE Print(<<"TRACE_REJECTED", d - 1, Len(Rec), ToJson(Rec[d])>>, FALSE)
===========================================================================
