SPECIFICATION MCSpec
CONSTANTS
  Node <- NodesSmall
  Pool <- PoolSmall
  AllowOverwrite = TRUE
  MaxCalls = 5
  OncePerRecord = FALSE
INVARIANTS
  TypeOK
  ForgedNeverStored
  StoredIsNewestAuthentic
  ReplyMatches
PROPERTIES
  MCReplacedOnlyByNewer
  MCArrivalsKeepLocalData
VIEW NoHistView
CHECK_DEADLOCK FALSE
