SPECIFICATION MCSpec
CONSTANTS
  Node <- NodesOne
  Pool <- PoolOverwrite
  AllowOverwrite = TRUE
  MaxCalls = 3
  OncePerRecord = TRUE
INVARIANTS
  Export
CHECK_DEADLOCK FALSE
