------------------------- MODULE MC_AddressBook -------------------------
(* Bounded instance of AddressBook for TLC + JSON export of every order. *)
EXTENDS AddressBook, TLC, Json

CONSTANTS MaxCalls,     \* number of calls in a behaviour
          OncePerRecord \* TRUE: every record arrives at most once (permutations of subsets)

VARIABLE hist

mcvars == <<vars, hist>>

R(id, n, ts, kind, k, forge) == [id |-> id, node |-> n, ts |-> ts, kind |-> kind, addrs |-> k, forge |-> forge]

\* 4 genuine records for n1 with distinct timestamps (both kinds, one of them the "not reachable"
\* announcement without addresses) + forged ones with the HIGHEST timestamps (so a book that
\* skipped a check would prefer them), one of them WITHOUT addresses + 2 records for a second node
PoolSmall == {
    R("a1", "n1", 1, "auth", 1, "none"),
    R("t2", "n1", 2, "trusted", 1, "none"),
    R("a3", "n1", 3, "auth", 0, "none"),
    R("a4", "n1", 4, "auth", 1, "none"),
    R("f5", "n1", 5, "auth", 0, "wrong_signer"),
    R("f6", "n1", 6, "trusted", 1, "id_mismatch"),
    R("b1", "n2", 1, "auth", 1, "none"),
    R("b2", "n2", 2, "auth", 0, "tampered_ts") }

\* every forgery class with 0 and with 1 address (where the class allows it), equal timestamps,
\* genuine trusted info without addresses
PoolWide == PoolSmall \cup {
    R("f7", "n1", 7, "auth", 1, "addr_changed"),
    R("f8", "n1", 8, "auth", 0, "addr_removed"),
    R("f9", "n1", 9, "auth", 1, "addr_added"),
    R("g5", "n1", 5, "auth", 1, "wrong_signer"),
    R("g6", "n1", 6, "auth", 0, "bad_sig"),
    R("g7", "n1", 7, "auth", 1, "bad_sig"),
    R("f3", "n1", 3, "auth", 1, "tampered_ts"),
    R("a3x", "n1", 3, "trusted", 0, "none"),
    R("b3", "n2", 3, "trusted", 1, "none"),
    R("b4", "n2", 4, "auth", 0, "bad_sig") }

NodesSmall == {"n1", "n2"}

\* export pools
PoolGen == PoolSmall \ {R("b2", "n2", 2, "auth", 0, "tampered_ts")}      \* 7 records: 5040 orders
PoolOverwrite == {
    R("a1", "n1", 1, "auth", 1, "none"),
    R("t2", "n1", 2, "trusted", 0, "none"),
    R("a3", "n1", 3, "auth", 0, "none"),
    R("f5", "n1", 5, "auth", 0, "wrong_signer"),
    R("f6", "n1", 6, "trusted", 1, "id_mismatch") }
NodesOne == {"n1"}
PoolN1 == {r \in PoolSmall : r.node = "n1"}                          \* 6 records: 720 orders

Fresh(r) == OncePerRecord => (r \notin arrived /\ r \notin written)

StoredId(n) == book'[n].id

MCInsertTransportInfo ==
    /\ Len(hist) < MaxCalls
    /\ \E r \in Pool :
        /\ Fresh(r)
        /\ InsertTransportInfo(r)
        /\ hist' = Append(hist, [call |-> "InsertTransportInfo", rec |-> r, reply |-> last'.reply,
                                 stored |-> [n \in Node |-> book'[n].id], boot |-> boot'])

MCInsertNodeInfo ==
    /\ Len(hist) < MaxCalls
    /\ \E r \in Pool, b \in BOOLEAN :
        /\ Fresh(r)
        /\ InsertNodeInfo(r, b)
        /\ hist' = Append(hist, [call |-> "InsertNodeInfo", rec |-> r, flag |-> b, reply |-> last'.reply,
                                 stored |-> [n \in Node |-> book'[n].id], boot |-> boot'])

MCNext == MCInsertTransportInfo \/ MCInsertNodeInfo
MCInit == Init /\ hist = <<>>
MCSpec == MCInit /\ [][MCNext]_mcvars

NoHistView == <<vars, Len(hist)>>

MCReplacedOnlyByNewer == [][ReplacedOnlyByNewerStep]_mcvars
MCArrivalsKeepLocalData == [][ArrivalsKeepLocalDataStep]_mcvars

\* a behaviour is complete when no further call is possible
Complete == Len(hist) = MaxCalls \/ (OncePerRecord /\ \A r \in Pool : r \in arrived \cup written)
Export ==
    Complete => PrintT(<<"REPLAY", ToJson([kind |-> "addressbook", steps |-> hist])>>)
===========================================================================
