SPECIFICATION MCSpec
CONSTANTS
  Node <- NodesSmall
  Pool <- PoolWide
  AllowOverwrite = FALSE
  MaxCalls = 7
  OncePerRecord = FALSE
INVARIANTS
  TypeOK
  ForgedNeverStored
  StoredIsNewestAuthentic
  StoredIsTheNewestRecord
  ReplyMatches
PROPERTIES
  MCReplacedOnlyByNewer
  MCArrivalsKeepLocalData
VIEW NoHistView
CHECK_DEADLOCK FALSE
