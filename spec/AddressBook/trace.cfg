SPECIFICATION TraceSpec
CONSTANTS
  Node = {}
  Pool = {}
  AllowOverwrite = TRUE
INVARIANTS
  TrForgedNeverStored
  TrStoredIsNewestAuthentic
  ReplyMatches
PROPERTIES
  TrReplacedOnlyByNewer
  TrArrivalsKeepLocalData
POSTCONDITION TraceAccepted
CHECK_DEADLOCK FALSE
