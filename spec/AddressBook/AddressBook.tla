---------------------------- MODULE AddressBook ----------------------------
(***************************************************************************)
(* Address book of p2panda-net: last-write-wins transport info (C27).      *)
(*                                                                         *)
(*   InsertTransportInfo(r)  transcribes the actor's handler               *)
(*        address_book/actor.rs:212-252  (verify; load or default;         *)
(*        NodeInfo::update_transports addrs.rs:84-106; store; reply)       *)
(*   InsertNodeInfo(r, b)    transcribes  actor.rs:193-211  (verify;       *)
(*        overwrite): the documented LOCAL overwrite API                   *)
(*        (`AddressBook::insert_node_info`: "adding node information from  *)
(*        a local configuration or trusted, external source ... Previous   *)
(*        entries are simply overwritten").  Not an arrival path of C27;   *)
(*        switched by AllowOverwrite.                                      *)
(*                                                                         *)
(* The actor handles one message at a time, so each handler is one atomic  *)
(* action; concurrent callers only decide the ORDER of arrivals.           *)
(*                                                                         *)
(* A transport record is a record of CLASSES (the bytes are the harness's):*)
(*   id     name of the record                                             *)
(*   node   the node id it is inserted for                                 *)
(*   ts     its (claimed) timestamp                                        *)
(*   kind   "auth"    AuthenticatedTransportInfo (signed)                  *)
(*          "trusted" TrustedTransportInfo (unsigned, local side channel)  *)
(*   addrs  number of transport addresses it carries: 0 ("I am not         *)
(*          reachable", a legitimate announcement) or 1                    *)
(*   forge  "none"          genuine                                        *)
(*          "bad_sig"       auth: signature bytes damaged                  *)
(*          "wrong_signer"  auth: signed by another node's key             *)
(*          "tampered_ts"   auth: timestamp changed after signing          *)
(*          "addr_removed"  auth: signed with an address, list emptied     *)
(*          "addr_added"    auth: signed without, an address appended      *)
(*          "addr_changed"  auth: the address replaced after signing       *)
(*          "id_mismatch"   trusted: an address names another node         *)
(* Which (kind, forge, addrs) combinations exist: WellFormed.              *)
(***************************************************************************)
EXTENDS Integers, FiniteSets, Sequences

CONSTANTS Node,             \* node ids
          Pool,             \* the records that may arrive (any number of times, any order)
          AllowOverwrite    \* BOOLEAN: include the local overwrite API

None == [id |-> "none", node |-> "none", ts |-> -1, kind |-> "none", addrs |-> -1, forge |-> "none"]

AuthForges == {"none", "bad_sig", "wrong_signer", "tampered_ts", "addr_removed", "addr_added", "addr_changed"}
WellFormed(r) ==
    /\ r.addrs \in {0, 1}
    /\ \/ r.kind = "auth" /\ r.forge \in AuthForges
       \/ r.kind = "trusted" /\ r.forge \in {"none", "id_mismatch"}
    /\ r.forge = "addr_removed" => r.addrs = 0
    /\ r.forge \in {"addr_added", "addr_changed", "id_mismatch"} => r.addrs = 1

\* AuthenticatedTransportInfo::verify addrs.rs:344-352 (signature over timestamp + addresses
\* under the node id - whatever the number of addresses) / TrustedTransportInfo::verify
\* addrs.rs:560-566 (every address names the node; vacuous for an empty list)
Authentic(r) == r.forge = "none"

VARIABLES
    book,       \* node -> stored transport record (None: no entry or no transports)
    boot,       \* node -> local "bootstrap" flag of the entry (local data, must survive arrivals)
    arrived,    \* set of records handed to InsertTransportInfo so far
    written,    \* set of records handed to InsertNodeInfo so far
    last        \* last call: [call, rec, reply]   reply: "newer" | "older" | "error" | "inserted" | "updated"

vars == <<book, boot, arrived, written, last>>

Init ==
    /\ book = [n \in Node |-> None]
    /\ boot = [n \in Node |-> FALSE]
    /\ arrived = {} /\ written = {}
    /\ last = [call |-> "none", rec |-> None, reply |-> "none"]

\* NodeInfo::update_transports: replace iff nothing stored or strictly newer
Replaces(r) == book[r.node] = None \/ r.ts > book[r.node].ts

InsertTransportInfo(r) ==
    /\ arrived' = arrived \cup {r}
    /\ IF ~Authentic(r)                                      \* actor.rs:214 verify fails -> Err, nothing stored
       THEN /\ UNCHANGED <<book, boot>>
            /\ last' = [call |-> "InsertTransportInfo", rec |-> r, reply |-> "error"]
       ELSE /\ book' = IF Replaces(r) THEN [book EXCEPT ![r.node] = r] ELSE book
            /\ UNCHANGED boot                                \* local data stays untouched
            /\ last' = [call |-> "InsertTransportInfo", rec |-> r,
                        reply |-> IF Replaces(r) THEN "newer" ELSE "older"]
    /\ UNCHANGED written

\* local overwrite: whole NodeInfo (bootstrap flag b, transports r) replaces the entry
InsertNodeInfo(r, b) ==
    /\ AllowOverwrite
    /\ written' = written \cup {r}
    /\ IF ~Authentic(r)                                      \* actor.rs:195 NodeInfo::verify fails
       THEN /\ UNCHANGED <<book, boot>>
            /\ last' = [call |-> "InsertNodeInfo", rec |-> r, reply |-> "error"]
       ELSE /\ book' = [book EXCEPT ![r.node] = r]
            /\ boot' = [boot EXCEPT ![r.node] = b]
            /\ last' = [call |-> "InsertNodeInfo", rec |-> r, reply |-> "ok"]
    /\ UNCHANGED arrived

Next ==
    \/ \E r \in Pool : InsertTransportInfo(r)
    \/ \E r \in Pool, b \in BOOLEAN : InsertNodeInfo(r, b)

Spec == Init /\ [][Next]_vars

---------------------------------------------------------------------------
(* C27                                                                     *)

AuthenticFor(n, S) == {r \in S : r.node = n /\ Authentic(r)}

Newest(S) == CHOOSE r \in S : \A q \in S : q.ts <= r.ts

\* forged or mismatched records never enter the book
ForgedNeverStored ==
    \A n \in Node : book[n] # None =>
        /\ Authentic(book[n]) /\ book[n].node = n
        /\ book[n] \in arrived \cup written

\* the stored record is the newest authentic one that arrived, whatever the order
\* (arrival paths only: stated for behaviours without local overwrites)
StoredIsNewestAuthentic ==
    written = {} =>
        \A n \in Node :
            LET A == AuthenticFor(n, arrived) IN
            IF A = {} THEN book[n] = None
            ELSE /\ book[n] \in A
                 /\ book[n].ts = Newest(A).ts

\* with distinct timestamps per node the stored record itself is determined
DistinctTs(S) == \A p, q \in S : (p.node = q.node /\ p.ts = q.ts) => p = q
StoredIsTheNewestRecord ==
    (written = {} /\ DistinctTs(Pool)) =>
        \A n \in Node : AuthenticFor(n, arrived) # {} => book[n] = Newest(AuthenticFor(n, arrived))

\* a stored record is replaced only by a strictly newer authentic one (arrival path)
ReplacedOnlyByNewerStep ==
    \A n \in Node :
        (book'[n] # book[n] /\ last'.call = "InsertTransportInfo") =>
            /\ Authentic(book'[n]) /\ book'[n].node = n
            /\ book[n] # None => book'[n].ts > book[n].ts
            /\ last'.reply = "newer" /\ last'.rec = book'[n]
ReplacedOnlyByNewer == [][ReplacedOnlyByNewerStep]_vars

\* the reply tells the truth
ReplyMatches ==
    last.call = "InsertTransportInfo" =>
        /\ last.reply = "error" <=> ~Authentic(last.rec)
        /\ last.reply = "newer" => book[last.rec.node] = last.rec

\* arrivals never touch local data of the entry
ArrivalsKeepLocalDataStep == (last'.call = "InsertTransportInfo") => boot' = boot
ArrivalsKeepLocalData == [][ArrivalsKeepLocalDataStep]_vars

TypeOK ==
    /\ book \in [Node -> Pool \cup {None}]
    /\ boot \in [Node -> BOOLEAN]
    /\ arrived \subseteq Pool /\ written \subseteq Pool
    /\ \A r \in Pool : WellFormed(r)
===========================================================================
