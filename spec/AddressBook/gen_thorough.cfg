SPECIFICATION MCSpec
CONSTANTS
  Node <- NodesSmall
  Pool <- PoolGen
  AllowOverwrite = FALSE
  MaxCalls = 7
  OncePerRecord = TRUE
INVARIANTS
  Export
CHECK_DEADLOCK FALSE
