SPECIFICATION MCSpec
CONSTANTS
  Sub = {"s1", "s2", "s3"}
  Id = {"i1", "i2"}
  Calls <- Calls_3same
  ChanCap = 2
  MaxTasks = 3
  Cancellable = {}
  RegisterFirst = TRUE
INVARIANTS
  ExportPrefix
VIEW NoHistView
CHECK_DEADLOCK FALSE
