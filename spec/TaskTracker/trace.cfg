SPECIFICATION TraceSpec
CONSTANTS
  Sub <- TraceSub
  Id <- TraceId
  Calls <- TraceCalls
  ChanCap <- TraceCap
  RegisterFirst <- TraceRF
  Cancellable = {}
  MaxTasks <- TraceMaxTasks
INVARIANTS
  TypeOK
  MutexOK
  OwnResult
  NoPanic
  NoLostWakeup
POSTCONDITION TraceAccepted
CHECK_DEADLOCK FALSE
