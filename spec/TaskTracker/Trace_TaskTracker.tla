------------------------ MODULE Trace_TaskTracker ------------------------
(* Trace validation: schedules executed on the real TaskTracker / Task      *)
(* (harness `vh-node tasktracker record`, one event per poll of an actor)   *)
(* must be behaviours of TaskTracker, with the C14 state predicates          *)
(* evaluated at every step.  The configuration of a trace file (call table, *)
(* channel capacity, order inside Task::ready as probed from the code) is   *)
(* taken from its first event.                                              *)
EXTENDS TaskTracker, TLC, Json, IOUtils

Rec == ndJsonDeserialize(IOEnv.TRACE)

TraceCalls == Rec[1].calls
TraceSub == DOMAIN TraceCalls
TraceId == UNION {{TraceCalls[s][k] : k \in 1..Len(TraceCalls[s])} : s \in TraceSub}
TraceCap == Rec[1].cap
TraceRF == Rec[1].registerFirst
TraceMaxTasks == 40

VARIABLE i
tvars == <<vars, i>>

Ev == Rec[i]

StepReset ==
    /\ Ev.ev = "Reset"
    /\ Ev.calls = TraceCalls /\ Ev.cap = TraceCap /\ Ev.registerFirst = TraceRF
    /\ tracker' = [x \in Id |-> NoTask]
    /\ tlock' = "free"
    /\ ntasks' = 0
    /\ result' = [t \in 1..MaxTasks |-> None]
    /\ waiters' = [t \in 1..MaxTasks |-> {}]
    /\ woken' = {}
    /\ rlock' = [t \in 1..MaxTasks |-> "free"]
    /\ rq' = [t \in 1..MaxTasks |-> <<>>]
    /\ chan' = <<>>
    /\ pc' = [s \in Sub |-> IF Len(Calls[s]) = 0 THEN "finished" ELSE "track"]
    /\ call' = [s \in Sub |-> 1]
    /\ held' = [s \in Sub |-> NoTask]
    /\ ret' = [s \in Sub |-> <<>>]
    /\ ppc' = "idle" /\ pcur' = NoEvent /\ ptask' = NoTask /\ runs' = 0

\* one poll of a submitter: the spec action is determined by the state; location, task
\* instance, number of finished calls and the last returned result are bound to the log.  The
\* first check has no schedule point inside: one poll runs the whole critical section
\* (CheckAtomic / GrantedCheckAtomic).
StepSub ==
    /\ Ev.ev = "Sub" /\ Ev.pc # "blocked_after_check"
    /\ (SubNext(Ev.s) \/ CheckAtomic(Ev.s) \/ GrantedCheckAtomic(Ev.s))
    /\ pc'[Ev.s] = Ev.pc
    /\ held'[Ev.s] = Ev.held
    /\ Len(ret'[Ev.s]) = Ev.nret
    /\ Ev.nret > 0 => ret'[Ev.s][Ev.nret] = [id |-> Ev.last.id, run |-> Ev.last.run]

\* a poll after the check that ended pending: either the submitter was notified and now queues
\* on the busy result mutex (WakeWait), or nothing happened (not notified yet / still queued)
StepSubBlocked ==
    /\ Ev.ev = "Sub" /\ Ev.pc = "blocked_after_check"
    /\ \/ WakeWait(Ev.s)
       \/ /\ \/ (pc[Ev.s] = "await" /\ Ev.s \notin woken)
              \/ (pc[Ev.s] = "t_wait" /\ rlock[held[Ev.s]] # Ev.s)
          /\ UNCHANGED vars

\* one poll of the pipeline loop (the writer's lock, set, unlock is one poll: PSetAtomic)
StepPipe ==
    /\ Ev.ev = "Pipe"
    /\ (PipeNext \/ PSetAtomic)
    /\ ppc' = Ev.pc
    /\ runs' = Ev.runs

TraceInit == Init /\ i = 1
TraceNext ==
    /\ i <= Len(Rec)
    /\ i' = i + 1
    /\ (StepReset \/ StepSub \/ StepSubBlocked \/ StepPipe)
TraceSpec == TraceInit /\ [][TraceNext]_tvars

TraceAccepted ==
    LET d == TLCGet("stats").diameter IN
    IF d - 1 = Len(Rec) THEN TRUE
    ELSE Print(<<"TRACE_REJECTED", d - 1, Len(Rec), ToJson(Rec[d])>>, FALSE)
===========================================================================
