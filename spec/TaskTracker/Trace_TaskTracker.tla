------------------------ MODULE Trace_TaskTracker ------------------------
(* Trace validation: schedules executed on the real TaskTracker / Task      *)
(* (harness `vh-node tasktracker record`, one event per poll of an actor)   *)
(* must be behaviours of TaskTracker, with the C14 state predicates          *)
(* evaluated at every step.  The configuration of a trace file (call table, *)
(* channel capacity, order inside Task::ready as probed from the code) is   *)
(* taken from its first event.                                              *)
EXTENDS TaskTracker, TLC, Json, IOUtils

Rec == ndJsonDeserialize(IOEnv.TRACE)

TraceCalls == Rec[1].calls
TraceSub == DOMAIN TraceCalls
TraceId == UNION {{TraceCalls[s][k] : k \in 1..Len(TraceCalls[s])} : s \in TraceSub}
TraceCap == Rec[1].cap
TraceRF == Rec[1].registerFirst
TraceMaxTasks == 40

VARIABLE i
tvars == <<vars, i>>

Ev == Rec[i]

StepReset ==
    /\ Ev.ev = "Reset"
    /\ Ev.calls = TraceCalls /\ Ev.cap = TraceCap /\ Ev.registerFirst = TraceRF
    /\ tracker' = [x \in Id |-> NoTask]
    /\ tlock' = "free"
    /\ ntasks' = 0
    /\ result' = [t \in 1..MaxTasks |-> None]
    /\ waiters' = [t \in 1..MaxTasks |-> {}]
    /\ woken' = {}
    /\ chan' = <<>>
    /\ pc' = [s \in Sub |-> IF Len(Calls[s]) = 0 THEN "finished" ELSE "track"]
    /\ call' = [s \in Sub |-> 1]
    /\ held' = [s \in Sub |-> NoTask]
    /\ ret' = [s \in Sub |-> <<>>]
    /\ ppc' = "idle" /\ pcur' = NoEvent /\ ptask' = NoTask /\ runs' = 0

\* one poll of a submitter: the spec action is determined by the state; location, task
\* instance, number of finished calls and the last returned result are bound to the log
StepSub ==
    /\ Ev.ev = "Sub"
    /\ SubNext(Ev.s)
    /\ pc'[Ev.s] = Ev.pc
    /\ held'[Ev.s] = Ev.held
    /\ Len(ret'[Ev.s]) = Ev.nret
    /\ Ev.nret > 0 => ret'[Ev.s][Ev.nret] = [id |-> Ev.last.id, run |-> Ev.last.run]

\* one poll of the pipeline loop
StepPipe ==
    /\ Ev.ev = "Pipe"
    /\ PipeNext
    /\ ppc' = Ev.pc
    /\ runs' = Ev.runs

TraceInit == Init /\ i = 1
TraceNext ==
    /\ i <= Len(Rec)
    /\ i' = i + 1
    /\ (StepReset \/ StepSub \/ StepPipe)
TraceSpec == TraceInit /\ [][TraceNext]_tvars

TraceAccepted ==
    LET d == TLCGet("stats").diameter IN
    IF d - 1 = Len(Rec) THEN TRUE
    ELSE Print(<<"TRACE_REJECTED", d - 1, Len(Rec), ToJson(Rec[d])>>, FALSE)
===========================================================================
