-------------------------- MODULE MC_TaskTracker --------------------------
(* Bounded instances of TaskTracker for TLC, history variable and JSON     *)
(* export of behaviours for the conformance harness (vh-node tasktracker). *)
EXTENDS TaskTracker, TLC, Json

VARIABLE hist      \* sequence of steps taken: actor, action, expected observable after the step

mcvars == <<vars, hist>>

\* what the harness can observe of a submitter after its step
SubObs(s) == [pc |-> pc[s], held |-> held[s], nret |-> Len(ret[s]),
              last |-> IF Len(ret[s]) = 0 THEN None ELSE ret[s][Len(ret[s])]]

\* hp: a step that starts waiting for the result mutex can be forced on the real code only when
\* the holder is parked at a schedule point (the reader at task.ready.holding_result)
HolderParked(s) == rlock[held[s]] \in Sub /\ pc[rlock[held[s]]] = "t_locked"
SubStep(s, name) ==
    hist' = Append(hist, [actor |-> s, act |-> name, pc |-> pc'[s], held |-> held'[s],
                          hp |-> (name \in {"WaitResult", "WakeWait"}) => HolderParked(s),
                          nret |-> Len(ret'[s]),
                          last |-> IF Len(ret'[s]) = 0 THEN None ELSE ret'[s][Len(ret'[s])]])

PipeStep(name) ==
    hist' = Append(hist, [actor |-> "pipe", act |-> name, pc |-> ppc', held |-> ptask', hp |-> TRUE,
                          nret |-> runs', last |-> None])

MCInit == Init /\ hist = <<>>

\* one named action per spec action (TLC reports coverage per name; checks.json requires each)
DoTrack(s) == Track(s) /\ SubStep(s, "Track")
DoSend(s) == Send(s) /\ SubStep(s, "Send")
DoCreateNotified(s) == CreateNotified(s) /\ SubStep(s, "CreateNotified")
DoLockResult(s) == LockResult(s) /\ SubStep(s, "LockResult")
DoWaitResult(s) == WaitResult(s) /\ SubStep(s, "WaitResult")
DoGranted(s) == Granted(s) /\ SubStep(s, "Granted")
DoReadSome(s) == ReadSome(s) /\ SubStep(s, "ReadSome")
DoReadNone(s) == ReadNone(s) /\ SubStep(s, "ReadNone")
DoUnlockReturn(s) == UnlockReturn(s) /\ SubStep(s, "UnlockReturn")
DoUnlock(s) == Unlock(s) /\ SubStep(s, "Unlock")
DoWakeLock(s) == WakeLock(s) /\ SubStep(s, "WakeLock")
DoWakeWait(s) == WakeWait(s) /\ SubStep(s, "WakeWait")
DoGrantedTail(s) == GrantedTail(s) /\ SubStep(s, "GrantedTail")
DoReadReturn(s) == ReadReturn(s) /\ SubStep(s, "ReadReturn")
DoCancel(s) == Cancel(s) /\ SubStep(s, "Cancel")
DoPRecv == PRecv /\ PipeStep("PRecv")
DoPRemove == PRemove /\ PipeStep("PRemove")
DoPRemoveMissing == PRemoveMissing /\ PipeStep("PRemoveMissing")
DoPLockResult == PLockResult /\ PipeStep("PLockResult")
DoPWrite == PWrite /\ PipeStep("PWrite")
DoPUnlockResult == PUnlockResult /\ PipeStep("PUnlockResult")
DoPNotify == PNotify /\ PipeStep("PNotify")
DoPUnlock == PUnlock /\ PipeStep("PUnlock")
DoTerminated == Terminated /\ UNCHANGED hist

MCNext ==
    \/ \E s \in Sub : \/ DoTrack(s) \/ DoSend(s) \/ DoCreateNotified(s)
                       \/ DoLockResult(s) \/ DoWaitResult(s) \/ DoGranted(s) \/ DoReadSome(s) \/ DoReadNone(s)
                       \/ DoUnlockReturn(s) \/ DoUnlock(s) \/ DoWakeLock(s) \/ DoWakeWait(s)
                       \/ DoGrantedTail(s) \/ DoReadReturn(s) \/ DoCancel(s)
    \/ DoPRecv \/ DoPRemove \/ DoPRemoveMissing \/ DoPLockResult \/ DoPWrite \/ DoPUnlockResult \/ DoPNotify \/ DoPUnlock
    \/ DoTerminated

MCFairness == (\A s \in Sub : WF_vars(SubNext(s))) /\ WF_vars(PipeNext)
MCSpec == MCInit /\ [][MCNext]_mcvars /\ MCFairness

\* exhaustive configs: the history does not distinguish states
NoHistView == vars

Header == [subs |-> [s \in Sub |-> Calls[s]], cap |-> ChanCap, registerFirst |-> RegisterFirst]

\* gen (prefix mode, VIEW NoHistView): one shortest path to EVERY reachable state.  The harness
\* forces the prefix on the real code and then lets everything run to quiescence.
ExportPrefix ==
    PrintT(<<"REPLAY", ToJson([kind |-> "prefix", cfg |-> Header, steps |-> hist,
                               stuck |-> {s \in Sub : pc[s] # "finished"}])>>)

\* gen (prefix mode, big instances): only schedules the harness can force, and of those all with
\* a collision on a result mutex plus every fourth depth level of the rest
HasCollision == \E k \in 1..Len(hist) : hist[k].act \in {"WaitResult", "WakeWait"}
Forceable == \A k \in 1..Len(hist) : hist[k].hp
ExportPrefixSel == (Forceable /\ (HasCollision \/ Len(hist) % 4 = 0)) => ExportPrefix

\* gen (simulation mode): complete behaviours, printed when no step is enabled any more
Stopped == ~ENABLED Step
ExportFull ==
    Stopped => PrintT(<<"REPLAY", ToJson([kind |-> "full", cfg |-> Header, steps |-> hist,
                                         stuck |-> {s \in Sub : pc[s] # "finished"}])>>)

\* call tables of the bounded instances (cfg files cannot hold function literals)
Calls_2x21 == [s1 |-> <<"i1", "i2">>, s2 |-> <<"i1">>]                  \* shared id + a second call
Calls_2same == [s1 |-> <<"i1">>, s2 |-> <<"i1">>]
Calls_1 == [s1 |-> <<"i1">>]
Calls_3 == [s1 |-> <<"i1", "i1">>, s2 |-> <<"i1">>, s3 |-> <<"i2", "i1">>] \* thorough
Calls_2x22 == [s1 |-> <<"i1", "i1">>, s2 |-> <<"i1", "i2">>]          \* same id twice in a row + second id
Calls_3same == [s1 |-> <<"i1">>, s2 |-> <<"i1">>, s3 |-> <<"i1">>]

\* vacuity guards (negated reachability: used as "invariants" only in scratch runs)
SharedTaskReached == \E s, u \in Sub : s # u /\ held[s] # NoTask /\ held[s] = held[u]
===========================================================================
