---------------------------- MODULE TaskTracker ----------------------------
(* C14 -- every pipeline submission completes with its own result.          *)
(*                                                                          *)
(* Implementation-shaped model of                                           *)
(*   p2panda/src/processor/tasks.rs     TaskTracker::{track, mark_as_done}, *)
(*                                      Task::{mark_as_done, ready}         *)
(*   p2panda/src/processor/pipeline.rs  Pipeline::process (track, send,     *)
(*                                      ready) and the pipeline thread      *)
(*                                      (recv, process, mark_as_done)       *)
(* One action per lock acquisition / await point.  BOTH locks are explicit:  *)
(* the tracker write lock (held by `TaskTracker::mark_as_done` across       *)
(* awaits) and the result mutex `ready_result` of every task, which is held *)
(* by the writer (`Task::mark_as_done`) AND by every reader while it looks  *)
(* at / clones the result (first check and re-read of `Task::ready`).  A    *)
(* `lock().await` on a busy mutex is a blocked pc (`c_wait`, `t_wait`);     *)
(* tokio's mutex is FIFO: on unlock the permit goes to the first waiter.    *)
(*                                                                          *)
(* tokio semantics used (tokio 1.53, sync/notify.rs):                       *)
(*   - `Notify::notify_waiters()` wakes exactly the `Notified` futures that *)
(*     exist at the time of the call and stores NO permit;                  *)
(*   - a `Notified` future counts as waiting from its *creation* on (doc of *)
(*     `Notify::notified`), so "registered" = "created and not dropped".    *)
(*                                                                          *)
(* RegisterFirst selects the order inside `Task::ready`:                    *)
(*   TRUE   create Notified -> lock, check result -> await  (tasks.rs after *)
(*          the repair `fix: create the Notified future before checking..`) *)
(*   FALSE  lock, check result -> [window] -> create Notified -> await      *)
(*          (tasks.rs:115-136 as found; kept as the documented defect model)*)
EXTENDS Naturals, Sequences, FiniteSets

CONSTANTS Sub,            \* submitters: callers of Pipeline::process
          Id,             \* operation ids (hashes)
          Calls,          \* [Sub -> Seq(Id)]: the ids a submitter submits, one call after the other
          ChanCap,        \* capacity of pipeline_tx (pipeline.rs:28, 128 in the code)
          RegisterFirst,  \* BOOLEAN, see above
          Cancellable,    \* SUBSET Sub: callers whose `process` future may be dropped at an await point
          MaxTasks        \* upper bound on Task objects ever created (>= total number of calls)

NoTask == 0
None == [id |-> "none", run |-> 0]   \* empty result slot

VARIABLES
    tracker,   \* [Id -> 0..MaxTasks]   TaskTracker map (tasks.rs:19); NoTask = absent
    tlock,     \* "free" | "pipe"       tracker RwLock write half as held across awaits
    ntasks,    \* Nat                   Task objects created so far
    result,    \* [1..MaxTasks -> result record]  Task.ready_result (tasks.rs:80)
    waiters,   \* [1..MaxTasks -> SUBSET Sub]     live Notified futures of Task.ready_signal
    woken,     \* SUBSET Sub            Notified futures completed by notify_waiters
    rlock,     \* [1..MaxTasks -> "free" | s \in Sub | "pipe"]  holder of Task.ready_result's mutex
    rq,        \* [1..MaxTasks -> Seq(Sub)]  submitters queued on that mutex, in order of arrival
    chan,      \* Seq([id, from])       pipeline_tx -> pipeline thread
    pc,        \* [Sub -> location]
    call,      \* [Sub -> Nat]          index of the current call (1..Len(Calls[s]))
    held,      \* [Sub -> 0..MaxTasks]  the Task clone `track` returned
    ret,       \* [Sub -> Seq(result)]  results returned by finished calls
    ppc,       \* pipeline thread location
    pcur,      \* event being processed by the pipeline thread
    ptask,     \* task removed by the running mark_as_done
    runs       \* Nat  number of events processed (identifies the processing run in a result)

vars == <<tracker, tlock, ntasks, result, waiters, woken, rlock, rq, chan, pc, call, held, ret, ppc, pcur, ptask, runs>>

NoEvent == [id |-> "none", from |-> "none"]

CurId(s) == Calls[s][call[s]]

Init ==
    /\ tracker = [i \in Id |-> NoTask]
    /\ tlock = "free"
    /\ ntasks = 0
    /\ result = [t \in 1..MaxTasks |-> None]
    /\ waiters = [t \in 1..MaxTasks |-> {}]
    /\ woken = {}
    /\ rlock = [t \in 1..MaxTasks |-> "free"]
    /\ rq = [t \in 1..MaxTasks |-> <<>>]
    /\ chan = <<>>
    /\ pc = [s \in Sub |-> IF Len(Calls[s]) = 0 THEN "finished" ELSE "track"]
    /\ call = [s \in Sub |-> 1]
    /\ held = [s \in Sub |-> NoTask]
    /\ ret = [s \in Sub |-> <<>>]
    /\ ppc = "idle" /\ pcur = NoEvent /\ ptask = NoTask /\ runs = 0

---------------------------------------------------------------------------
(* Submitter = one `Pipeline::process(input).await` call (pipeline.rs:162)  *)

\* pipeline.rs:164 -> tasks.rs:40-51: write lock, get-or-insert, clone, unlock (no await inside)
Track(s) ==
    /\ pc[s] = "track" /\ tlock = "free"
    /\ IF tracker[CurId(s)] # NoTask
         THEN /\ held' = [held EXCEPT ![s] = tracker[CurId(s)]]
              /\ UNCHANGED <<tracker, ntasks>>
         ELSE /\ ntasks < MaxTasks
              /\ ntasks' = ntasks + 1
              /\ tracker' = [tracker EXCEPT ![CurId(s)] = ntasks + 1]
              /\ held' = [held EXCEPT ![s] = ntasks + 1]
    /\ pc' = [pc EXCEPT ![s] = "send"]
    /\ UNCHANGED <<tlock, result, waiters, woken, rlock, rq, chan, call, ret, ppc, pcur, ptask, runs>>

\* pipeline.rs:168: pipeline_tx.send(input).await -- waits while the channel is full
Send(s) ==
    /\ pc[s] = "send" /\ Len(chan) < ChanCap
    /\ chan' = Append(chan, [id |-> CurId(s), from |-> s])
    /\ pc' = [pc EXCEPT ![s] = IF RegisterFirst THEN "create" ELSE "check"]
    /\ UNCHANGED <<tracker, tlock, ntasks, result, waiters, woken, rlock, rq, call, held, ret, ppc, pcur, ptask, runs>>

\* `self.ready_signal.notified()`: from here on notify_waiters() reaches this future
CreateNotified(s) ==
    /\ pc[s] = (IF RegisterFirst THEN "create" ELSE "window")
    /\ waiters' = [waiters EXCEPT ![held[s]] = @ \cup {s}]
    /\ pc' = [pc EXCEPT ![s] = IF RegisterFirst THEN "check" ELSE "await"]
    /\ UNCHANGED <<tracker, tlock, ntasks, result, woken, rlock, rq, chan, call, held, ret, ppc, pcur, ptask, runs>>

Finish(s, r) ==
    /\ ret' = [ret EXCEPT ![s] = Append(@, r)]
    /\ IF call[s] < Len(Calls[s])
         THEN call' = [call EXCEPT ![s] = @ + 1] /\ pc' = [pc EXCEPT ![s] = "track"]
         ELSE call' = call /\ pc' = [pc EXCEPT ![s] = "finished"]
    /\ held' = [held EXCEPT ![s] = NoTask]

\* unlock of the result mutex of task t: FIFO hand-over to the first queued submitter
ReleaseR(t) ==
    IF rq[t] = <<>>
      THEN rlock' = [rlock EXCEPT ![t] = "free"] /\ rq' = rq
      ELSE rlock' = [rlock EXCEPT ![t] = Head(rq[t])] /\ rq' = [rq EXCEPT ![t] = Tail(@)]

AfterCheckPc == IF RegisterFirst THEN "await" ELSE "window"

\* ---- first check of Task::ready: `self.ready_result.lock().await`, is_some?, clone, return / unlock
\* the mutex is free: take it
LockResult(s) ==
    /\ pc[s] = "check" /\ rlock[held[s]] = "free"
    /\ rlock' = [rlock EXCEPT ![held[s]] = s]
    /\ pc' = [pc EXCEPT ![s] = "c_locked"]
    /\ UNCHANGED <<tracker, tlock, ntasks, result, waiters, woken, rq, chan, call, held, ret, ppc, pcur, ptask, runs>>

\* the mutex is busy (the writer, or ANOTHER READER of the same task): queue up and wait
WaitResult(s) ==
    /\ pc[s] = "check" /\ rlock[held[s]] # "free"
    /\ rq' = [rq EXCEPT ![held[s]] = Append(@, s)]
    /\ pc' = [pc EXCEPT ![s] = "c_wait"]
    /\ UNCHANGED <<tracker, tlock, ntasks, result, waiters, woken, rlock, chan, call, held, ret, ppc, pcur, ptask, runs>>

\* the previous holder's unlock handed the mutex over
Granted(s) ==
    /\ pc[s] = "c_wait" /\ rlock[held[s]] = s
    /\ pc' = [pc EXCEPT ![s] = "c_locked"]
    /\ UNCHANGED <<tracker, tlock, ntasks, result, waiters, woken, rlock, rq, chan, call, held, ret, ppc, pcur, ptask, runs>>

ReadSome(s) ==
    /\ pc[s] = "c_locked" /\ result[held[s]] # None
    /\ pc' = [pc EXCEPT ![s] = "c_some"]
    /\ UNCHANGED <<tracker, tlock, ntasks, result, waiters, woken, rlock, rq, chan, call, held, ret, ppc, pcur, ptask, runs>>

ReadNone(s) ==
    /\ pc[s] = "c_locked" /\ result[held[s]] = None
    /\ pc' = [pc EXCEPT ![s] = "c_none"]
    /\ UNCHANGED <<tracker, tlock, ntasks, result, waiters, woken, rlock, rq, chan, call, held, ret, ppc, pcur, ptask, runs>>

\* clone, drop the guard, return (a created Notified is dropped)
UnlockReturn(s) ==
    /\ pc[s] = "c_some"
    /\ ReleaseR(held[s])
    /\ Finish(s, result[held[s]])
    /\ waiters' = [waiters EXCEPT ![held[s]] = @ \ {s}]
    /\ woken' = woken \ {s}
    /\ UNCHANGED <<tracker, tlock, ntasks, result, chan, ppc, pcur, ptask, runs>>

\* None: drop the guard.  With the original order nothing has been registered yet: the window
\* (hook task.ready.after_check).
Unlock(s) ==
    /\ pc[s] = "c_none"
    /\ ReleaseR(held[s])
    /\ pc' = [pc EXCEPT ![s] = AfterCheckPc]
    /\ UNCHANGED <<tracker, tlock, ntasks, result, waiters, woken, chan, call, held, ret, ppc, pcur, ptask, runs>>

\* ---- after the wake-up: `notified.await` completes, `self.ready_result.lock().await` again
WakeLock(s) ==
    /\ pc[s] = "await" /\ s \in woken /\ rlock[held[s]] = "free"
    /\ woken' = woken \ {s}
    /\ rlock' = [rlock EXCEPT ![held[s]] = s]
    /\ pc' = [pc EXCEPT ![s] = "t_locked"]      \* hook task.ready.holding_result: guard held
    /\ UNCHANGED <<tracker, tlock, ntasks, result, waiters, rq, chan, call, held, ret, ppc, pcur, ptask, runs>>

WakeWait(s) ==
    /\ pc[s] = "await" /\ s \in woken /\ rlock[held[s]] # "free"
    /\ woken' = woken \ {s}
    /\ rq' = [rq EXCEPT ![held[s]] = Append(@, s)]
    /\ pc' = [pc EXCEPT ![s] = "t_wait"]
    /\ UNCHANGED <<tracker, tlock, ntasks, result, waiters, rlock, chan, call, held, ret, ppc, pcur, ptask, runs>>

GrantedTail(s) ==
    /\ pc[s] = "t_wait" /\ rlock[held[s]] = s
    /\ pc' = [pc EXCEPT ![s] = "t_locked"]
    /\ UNCHANGED <<tracker, tlock, ntasks, result, waiters, woken, rlock, rq, chan, call, held, ret, ppc, pcur, ptask, runs>>

\* clone, drop the guard, return (`expect` panics on None: modelled by returning None, see NoPanic)
ReadReturn(s) ==
    /\ pc[s] = "t_locked"
    /\ ReleaseR(held[s])
    /\ Finish(s, result[held[s]])
    /\ UNCHANGED <<tracker, tlock, ntasks, result, waiters, woken, chan, ppc, pcur, ptask, runs>>

\* ---- compositions: what ONE poll of the real future does when no schedule point lies inside
\* the critical section (first check: lock, look, unlock in one go).  Not part of Next (they add
\* no reachable state); used by the trace specification.
CheckAtomic(s) ==
    /\ pc[s] = "check" /\ rlock[held[s]] = "free"
    /\ IF result[held[s]] # None
         THEN /\ Finish(s, result[held[s]])
              /\ waiters' = [waiters EXCEPT ![held[s]] = @ \ {s}] /\ woken' = woken \ {s}
         ELSE /\ pc' = [pc EXCEPT ![s] = AfterCheckPc]
              /\ UNCHANGED <<call, held, ret, waiters, woken>>
    /\ UNCHANGED <<tracker, tlock, ntasks, result, rlock, rq, chan, ppc, pcur, ptask, runs>>

GrantedCheckAtomic(s) ==
    /\ pc[s] = "c_wait" /\ rlock[held[s]] = s
    /\ ReleaseR(held[s])
    /\ IF result[held[s]] # None
         THEN /\ Finish(s, result[held[s]])
              /\ waiters' = [waiters EXCEPT ![held[s]] = @ \ {s}] /\ woken' = woken \ {s}
         ELSE /\ pc' = [pc EXCEPT ![s] = AfterCheckPc]
              /\ UNCHANGED <<call, held, ret, waiters, woken>>
    /\ UNCHANGED <<tracker, tlock, ntasks, result, chan, ppc, pcur, ptask, runs>>

\* Beyond C14's wording: the caller drops the `process` future while it is suspended (between
\* track and send, at the channel, in `ready` incl. while it waits for or holds the result
\* mutex at an await point).  A created Notified and a held/queued lock go with it.  The
\* submitter makes no further calls.
CancelledRes == [id |-> "cancelled", run |-> 0]
Cancel(s) ==
    /\ s \in Cancellable /\ pc[s] \in {"send", "create", "check", "window", "await", "c_wait", "t_wait", "t_locked"}
    /\ ret' = [ret EXCEPT ![s] = Append(@, CancelledRes)]
    /\ pc' = [pc EXCEPT ![s] = "finished"]
    /\ waiters' = [waiters EXCEPT ![held[s]] = @ \ {s}]
    /\ woken' = woken \ {s}
    /\ held' = [held EXCEPT ![s] = NoTask]
    /\ IF pc[s] \in {"c_wait", "t_wait", "t_locked"}
         THEN IF rlock[held[s]] = s
                THEN ReleaseR(held[s])
                ELSE /\ rq' = [rq EXCEPT ![held[s]] = SelectSeq(@, LAMBDA x : x # s)]
                     /\ rlock' = rlock
         ELSE UNCHANGED <<rlock, rq>>
    /\ UNCHANGED <<tracker, tlock, ntasks, result, chan, call, ppc, pcur, ptask, runs>>

SubNext(s) ==
    \/ Track(s) \/ Send(s) \/ CreateNotified(s)
    \/ LockResult(s) \/ WaitResult(s) \/ Granted(s) \/ ReadSome(s) \/ ReadNone(s) \/ UnlockReturn(s) \/ Unlock(s)
    \/ WakeLock(s) \/ WakeWait(s) \/ GrantedTail(s) \/ ReadReturn(s)

---------------------------------------------------------------------------
(* Pipeline thread: `while let Some(op) = pipeline.next().await             *)
(*                   { tasks.mark_as_done(op.hash(), op).await }`           *)
(* (pipeline.rs:138-140)                                                    *)

\* takes the head of the channel and runs ingest + log_prune on it
PRecv ==
    /\ ppc = "idle" /\ chan # <<>>
    /\ pcur' = Head(chan) /\ chan' = Tail(chan)
    /\ runs' = runs + 1
    /\ ppc' = "remove"
    /\ UNCHANGED <<tracker, tlock, ntasks, result, waiters, woken, rlock, rq, pc, call, held, ret, ptask>>

\* tasks.rs:57-59: write lock, remove(&id) -> Some(task); the lock stays held
PRemove ==
    /\ ppc = "remove" /\ tlock = "free" /\ tracker[pcur.id] # NoTask
    /\ ptask' = tracker[pcur.id]
    /\ tracker' = [tracker EXCEPT ![pcur.id] = NoTask]
    /\ tlock' = "pipe"
    /\ ppc' = "set"
    /\ UNCHANGED <<ntasks, result, waiters, woken, rlock, rq, chan, pc, call, held, ret, pcur, runs>>

\* tasks.rs:59-61: nothing tracked under this id (second event of a shared task): return
PRemoveMissing ==
    /\ ppc = "remove" /\ tlock = "free" /\ tracker[pcur.id] = NoTask
    /\ ppc' = "idle" /\ pcur' = NoEvent
    /\ UNCHANGED <<tracker, tlock, ntasks, result, waiters, woken, rlock, rq, chan, pc, call, held, ret, ptask, runs>>

\* tasks.rs:106-109: lock ready_result (waits while a reader holds it) ...
PLockResult ==
    /\ ppc = "set" /\ rlock[ptask] = "free"
    /\ rlock' = [rlock EXCEPT ![ptask] = "pipe"]
    /\ ppc' = "set_locked"
    /\ UNCHANGED <<tracker, tlock, ntasks, result, waiters, woken, rq, chan, pc, call, held, ret, pcur, ptask, runs>>

\* ... store Some(result) ...
PWrite ==
    /\ ppc = "set_locked"
    /\ result' = [result EXCEPT ![ptask] = [id |-> pcur.id, run |-> runs]]
    /\ ppc' = "set_written"
    /\ UNCHANGED <<tracker, tlock, ntasks, waiters, woken, rlock, rq, chan, pc, call, held, ret, pcur, ptask, runs>>

\* ... unlock
PUnlockResult ==
    /\ ppc = "set_written"
    /\ ReleaseR(ptask)
    /\ ppc' = "notify"
    /\ UNCHANGED <<tracker, tlock, ntasks, result, waiters, woken, chan, pc, call, held, ret, pcur, ptask, runs>>

\* composition of the three (one poll of the real future; used by the trace specification)
PSetAtomic ==
    /\ ppc = "set" /\ rlock[ptask] = "free"
    /\ result' = [result EXCEPT ![ptask] = [id |-> pcur.id, run |-> runs]]
    /\ ppc' = "notify"
    /\ UNCHANGED <<tracker, tlock, ntasks, waiters, woken, rlock, rq, chan, pc, call, held, ret, pcur, ptask, runs>>

\* tasks.rs:111: notify_waiters() -- existing Notified futures only, no permit is stored
PNotify ==
    /\ ppc = "notify"
    /\ woken' = woken \cup waiters[ptask]
    /\ waiters' = [waiters EXCEPT ![ptask] = {}]
    /\ ppc' = "unlock"
    /\ UNCHANGED <<tracker, tlock, ntasks, result, rlock, rq, chan, pc, call, held, ret, pcur, ptask, runs>>

\* tasks.rs:64: mark_as_done returns, the tracker write guard is dropped
PUnlock ==
    /\ ppc = "unlock"
    /\ tlock' = "free"
    /\ ppc' = "idle" /\ pcur' = NoEvent /\ ptask' = NoTask
    /\ UNCHANGED <<tracker, ntasks, result, waiters, woken, rlock, rq, chan, pc, call, held, ret, runs>>

PipeNext == PRecv \/ PRemove \/ PRemoveMissing \/ PLockResult \/ PWrite \/ PUnlockResult \/ PNotify \/ PUnlock

---------------------------------------------------------------------------
AllFinished == \A s \in Sub : pc[s] = "finished"
Quiet == AllFinished /\ ppc = "idle" /\ chan = <<>>
Terminated == Quiet /\ UNCHANGED vars

Step == (\E s \in Sub : SubNext(s) \/ Cancel(s)) \/ PipeNext
Next == Step \/ Terminated

Fairness == (\A s \in Sub : WF_vars(SubNext(s))) /\ WF_vars(PipeNext)
Spec == Init /\ [][Next]_vars /\ Fairness

---------------------------------------------------------------------------
(* C14 *)

\* every call returns (liveness, under weak fairness of every submitter and of the pipeline thread)
EveryCallReturns == \A s \in Sub : <>(pc[s] = "finished")

\* ... and returns the result of a processing run of the operation it submitted
OwnResult ==
    \A s \in Sub : \A k \in 1..Len(ret[s]) :
        \/ ret[s][k] = CancelledRes
        \/ /\ ret[s][k].id = Calls[s][k]
           /\ ret[s][k].run \in 1..runs

\* the `expect("result exists after ready signal was fired")` in Task::ready never fires
NoPanic == \A s \in Sub : \A k \in 1..Len(ret[s]) : ret[s][k] # None

\* a submitter that is still waiting can still be woken: either its task is still to be marked
\* done by the pipeline thread, or it is registered/woken already, or the result is there and
\* it has not looked yet.  This is the state-level reason for liveness; its failure is exactly
\* the lost wake-up (result set, notify done, submitter about to wait unregistered).
NoLostWakeup ==
    \A s \in Sub :
        (/\ pc[s] \in {"window", "await"}
         /\ result[held[s]] # None
         /\ ~(ppc \in {"set_written", "notify"} /\ ptask = held[s]))   \* the notify_waiters call is over
            => s \in woken

\* Beyond C14: nothing stays in the tracker once everything is quiet.  Does NOT hold when a
\* caller can be cancelled between `track` and `send` (the entry is never removed): see NOTES.md.
NoOrphanTask == Quiet => \A x \in Id : tracker[x] = NoTask

\* structural sanity
TypeOK ==
    /\ tracker \in [Id -> 0..MaxTasks]
    /\ tlock \in {"free", "pipe"}
    /\ ntasks \in 0..MaxTasks
    /\ woken \subseteq Sub
    /\ Len(chan) <= ChanCap
    /\ \A s \in Sub : held[s] \in 0..ntasks
    /\ ppc \in {"idle", "remove", "set", "set_locked", "set_written", "notify", "unlock"}
    /\ (tlock = "pipe") <=> (ppc \in {"set", "set_locked", "set_written", "notify", "unlock"})

\* the result mutex: one holder, holder and waiters are where they should be, free => nobody queued
MutexOK ==
    \A t \in 1..MaxTasks :
        /\ rlock[t] = "free" => rq[t] = <<>>
        /\ rlock[t] = "pipe" => (ppc \in {"set_locked", "set_written"} /\ ptask = t)
        /\ rlock[t] \in Sub => (held[rlock[t]] = t /\ pc[rlock[t]] \in {"c_locked", "c_some", "c_none", "t_locked", "c_wait", "t_wait"})
        /\ \A k \in 1..Len(rq[t]) : held[rq[t][k]] = t /\ pc[rq[t][k]] \in {"c_wait", "t_wait"}

\* a task that left the tracker is never re-inserted and gets its result exactly once
ResultWrittenOnce == [][\A t \in 1..MaxTasks : result[t] # None => result'[t] = result[t]]_vars
===========================================================================
