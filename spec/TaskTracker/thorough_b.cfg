SPECIFICATION MCSpec
CONSTANTS
  Sub = {"s1", "s2"}
  Id = {"i1", "i2"}
  Calls <- Calls_2x22
  ChanCap = 1
  MaxTasks = 4
  Cancellable = {}
  RegisterFirst = TRUE
INVARIANTS
  TypeOK
  MutexOK
  OwnResult
  NoPanic
  NoLostWakeup
PROPERTIES
  EveryCallReturns
  ResultWrittenOnce
VIEW NoHistView
CHECK_DEADLOCK TRUE
