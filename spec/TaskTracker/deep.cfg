SPECIFICATION MCSpec
CONSTANTS
  Sub = {"s1", "s2", "s3"}
  Id = {"i1", "i2"}
  Calls <- Calls_3
  ChanCap = 2
  MaxTasks = 5
  Cancellable = {}
  RegisterFirst = TRUE
INVARIANTS
  TypeOK
  MutexOK
  OwnResult
  NoPanic
  NoLostWakeup
PROPERTIES
  EveryCallReturns
  ResultWrittenOnce
VIEW NoHistView
CHECK_DEADLOCK TRUE
