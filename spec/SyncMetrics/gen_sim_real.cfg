SPECIFICATION MCSpec
CONSTANTS
  Sess = {"a", "b", "c"}
  Bytes = {1, 2}
  MaxXfer = 3
  Lifecycle = "real"
  DoubleCount = FALSE
  FailedChoices = {"none"}
INVARIANTS
  ExportFull

CHECK_DEADLOCK FALSE
