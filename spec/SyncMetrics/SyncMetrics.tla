---------------------------- MODULE SyncMetrics ----------------------------
(* C40 -- topic sync metrics count every session's bytes exactly once.      *)
(*                                                                          *)
(* Two halves:                                                              *)
(*  (1) sessions: the event sequences a topic-log-sync session produces     *)
(*      (p2panda-sync/src/protocols/topic_log_sync.rs:115-347) together     *)
(*      with the bytes it REALLY transferred (ground truth counters);       *)
(*  (2) the aggregator: `Aggregator::process`, transcribed arm by arm from  *)
(*      p2panda/src/streams/sync_metrics.rs:42-141.                         *)
(* A session emitting an event and the aggregator processing it is one      *)
(* action: the aggregator state depends on the merged event sequence only   *)
(* (events of one session stay in order, sessions interleave freely).       *)
(*                                                                          *)
(* Lifecycle = "documented": SessionStarted, SyncStarted, Op.., SyncFinished,*)
(*    optionally LiveModeStarted, Op.., then SessionFinished or Failed;     *)
(*    Failed possible at any point (doc of TopicLogSyncEvent).              *)
(* Lifecycle = "real": the same without SessionStarted -- what              *)
(*    TopicLogSync::run really sends (SessionStarted is emitted nowhere:    *)
(*    that is C22's finding, not judged here).                              *)
(*                                                                          *)
(* DoubleCount = TRUE is the code as found (sync_metrics.rs:110-114 adds    *)
(* `metrics.sent_bytes()` = sync + live on SessionFinished although the     *)
(* sync part was added on SyncFinished); FALSE is the repaired arm (adds    *)
(* the live part only).                                                     *)
EXTENDS Naturals, FiniteSets, Sequences

CONSTANTS Sess,          \* session ids (strings)
          Bytes,         \* sizes a single transfer can have
          MaxXfer,       \* transfers per session (bounds the model by construction)
          Lifecycle,     \* "documented" | "real"
          DoubleCount,   \* BOOLEAN
          FailedChoices  \* subset of {"none", "last"}: what a Failed session's unsettled bytes do
                         \* to the totals (the code: "none"; see NOTES.md for why both are accepted)

Zero == [ss |-> 0, sl |-> 0, rs |-> 0, rl |-> 0]   \* sent/received x sync/live byte counters
SentOf(m) == m.ss + m.sl                            \* Metrics::sent_bytes()
RecvOf(m) == m.rs + m.rl                            \* Metrics::received_bytes()

VARIABLES
    \* ---- sessions (ground truth)
    phase,     \* [Sess -> "init"|"started"|"sync"|"synced"|"live"|"finished"|"failed"]
    m,         \* [Sess -> counters]  bytes really transferred so far
    xfers,     \* [Sess -> Nat]       transfers done (bound)
    \* ---- Aggregator fields (sync_metrics.rs:18-33)
    running,   \* running_sessions
    totSent,   \* total_bytes_sent
    totRecv,   \* total_bytes_received
    sm,        \* session_metrics: [Sess -> counters], "absent" modelled by inMap
    inMap,     \* SUBSET Sess: keys of session_metrics
    liveSet,   \* live_mode
    \* ---- observation / ghosts
    out,       \* what process() returned for the last event (record; kind "none" = None)
    startedEv, \* sessions whose SessionStarted was processed
    endedEv,   \* sessions whose terminal event was processed
    lastRep,   \* [Sess -> counters] last metrics a session reported in any event
    contrib    \* [Sess -> counters] what a failed session is taken to contribute (ghost)

vars == <<phase, m, xfers, running, totSent, totRecv, sm, inMap, liveSet, out, startedEv, endedEv, lastRep, contrib>>
sessvars == <<phase, m, xfers>>

NoOut == [kind |-> "none", sent |-> 0, recv |-> 0, tsent |-> 0, trecv |-> 0, sessions |-> 0, err |-> FALSE, live |-> FALSE]

Init ==
    /\ phase = [s \in Sess |-> "init"]
    /\ m = [s \in Sess |-> Zero]
    /\ xfers = [s \in Sess |-> 0]
    /\ running = 0 /\ totSent = 0 /\ totRecv = 0
    /\ sm = [s \in Sess |-> Zero] /\ inMap = {} /\ liveSet = {}
    /\ out = NoOut
    /\ startedEv = {} /\ endedEv = {}
    /\ lastRep = [s \in Sess |-> Zero]
    /\ contrib = [s \in Sess |-> Zero]

---------------------------------------------------------------------------
(* Aggregator::process, one operator per match arm.                         *)

\* sync_metrics.rs:137-141 handle_session_end
EndRunning == IF running > 0 THEN running - 1 ELSE 0          \* saturating_sub(1)
LastKnown(s) == IF s \in inMap THEN sm[s] ELSE Zero           \* remove(..).unwrap_or_default()

\* :54-60
AggSessionStarted(s) ==
    /\ running' = running + 1
    /\ sm' = [sm EXCEPT ![s] = Zero] /\ inMap' = inMap \cup {s}
    /\ out' = NoOut
    /\ UNCHANGED <<totSent, totRecv, liveSet>>

\* :61-72
AggSyncStarted(s, mm) ==
    /\ sm' = [sm EXCEPT ![s] = mm] /\ inMap' = inMap \cup {s}
    /\ out' = [NoOut EXCEPT !.kind = "SyncStarted", !.sessions = running]
    /\ UNCHANGED <<running, totSent, totRecv, liveSet>>

\* :73-93
AggOperationReceived(s, mm) ==
    /\ sm' = [sm EXCEPT ![s] = mm] /\ inMap' = inMap \cup {s}
    /\ out' = [NoOut EXCEPT !.kind = "OperationReceived", !.sent = SentOf(mm), !.recv = RecvOf(mm),
                            !.tsent = totSent, !.trecv = totRecv, !.live = (s \in liveSet)]
    /\ UNCHANGED <<running, totSent, totRecv, liveSet>>

\* :94-109
AggSyncFinished(s, mm) ==
    /\ sm' = [sm EXCEPT ![s] = mm] /\ inMap' = inMap \cup {s}
    /\ totSent' = totSent + SentOf(mm)
    /\ totRecv' = totRecv + RecvOf(mm)
    /\ out' = [NoOut EXCEPT !.kind = "SyncEnded", !.sent = SentOf(mm), !.recv = RecvOf(mm),
                            !.tsent = totSent + SentOf(mm), !.trecv = totRecv + RecvOf(mm)]
    /\ UNCHANGED <<running, liveSet>>

\* :110-115
AggSessionFinished(s, mm) ==
    /\ running' = EndRunning /\ liveSet' = liveSet \ {s} /\ inMap' = inMap \ {s} /\ sm' = [sm EXCEPT ![s] = Zero]
    /\ totSent' = totSent + (IF DoubleCount THEN SentOf(mm) ELSE mm.sl)
    /\ totRecv' = totRecv + (IF DoubleCount THEN RecvOf(mm) ELSE mm.rl)
    /\ out' = NoOut

\* :116-129.  `c` = "none": totals untouched (the code).  `c` = "last": the bytes of the last
\* reported metrics that were not added yet are added (an implementation that counts a failed
\* session's unsettled bytes is accepted as well, see NOTES.md).
AggFailed(s, c, settledSent, settledRecv) ==
    LET last == LastKnown(s)
        addS == IF c = "last" THEN SentOf(last) - settledSent ELSE 0
        addR == IF c = "last" THEN RecvOf(last) - settledRecv ELSE 0
    IN  /\ running' = EndRunning /\ liveSet' = liveSet \ {s} /\ inMap' = inMap \ {s} /\ sm' = [sm EXCEPT ![s] = Zero]
        /\ totSent' = totSent + addS
        /\ totRecv' = totRecv + addR
        /\ out' = [NoOut EXCEPT !.kind = "SyncEnded", !.sent = SentOf(last), !.recv = RecvOf(last),
                                !.tsent = totSent + addS, !.trecv = totRecv + addR, !.err = TRUE]

\* :130-133
AggLiveModeStarted(s) ==
    /\ liveSet' = liveSet \cup {s}
    /\ out' = NoOut
    /\ UNCHANGED <<running, totSent, totRecv, sm, inMap>>

---------------------------------------------------------------------------
(* Sessions: each action is "the session does something; if that sends an   *)
(* event, the aggregator processes it".                                     *)

Report(s, mm) == lastRep' = [lastRep EXCEPT ![s] = mm]

\* The counters of session s may advance to mm: sync counters grow during the sync phase only,
\* live counters during live mode only (topic_log_sync.rs:186: the live phase starts from the
\* final sync metrics and touches the live fields only).
CanAdvance(s, mm) ==
    CASE phase[s] = "sync" -> mm.ss >= m[s].ss /\ mm.rs >= m[s].rs /\ mm.sl = m[s].sl /\ mm.rl = m[s].rl
      [] phase[s] = "live" -> mm.sl >= m[s].sl /\ mm.rl >= m[s].rl /\ mm.ss = m[s].ss /\ mm.rs = m[s].rs
      [] OTHER -> mm = m[s]
Advance(s, mm) == CanAdvance(s, mm) /\ m' = [m EXCEPT ![s] = mm]

\* documented only: `SessionStarted` ("always sent", topic_log_sync.rs:464-467)
SessionStarted(s) ==
    /\ Lifecycle = "documented" /\ phase[s] = "init"
    /\ phase' = [phase EXCEPT ![s] = "started"]
    /\ AggSessionStarted(s)
    /\ startedEv' = startedEv \cup {s}
    /\ UNCHANGED <<m, xfers, endedEv, lastRep, contrib>>

\* LogSyncEvent::MetricsExchanged -> SyncStarted (nothing transferred yet)
SyncStarted(s) ==
    /\ phase[s] = (IF Lifecycle = "documented" THEN "started" ELSE "init")
    /\ phase' = [phase EXCEPT ![s] = "sync"]
    /\ AggSyncStarted(s, m[s]) /\ Report(s, m[s])
    /\ UNCHANGED <<m, xfers, startedEv, endedEv, contrib>>

\* bytes move without an event (sending during sync, forwarding during live mode)
TransferTo(s, mm) ==
    /\ phase[s] \in {"sync", "live"} /\ mm # m[s] /\ Advance(s, mm)
    /\ UNCHANGED <<phase, running, totSent, totRecv, sm, inMap, liveSet, out, startedEv, endedEv, lastRep, contrib>>

\* an operation arrives (sync: log_sync.rs, live: topic_log_sync.rs:271-304): the counters
\* have advanced to mm and OperationReceived carries them
ReceiveTo(s, mm) ==
    /\ phase[s] \in {"sync", "live"} /\ Advance(s, mm)
    /\ AggOperationReceived(s, mm) /\ Report(s, mm)
    /\ UNCHANGED <<phase, startedEv, endedEv, contrib>>

\* topic_log_sync.rs:160-167 (mm = final metrics of the sync phase)
SyncFinishedAt(s, mm) ==
    /\ phase[s] = "sync" /\ Advance(s, mm)
    /\ phase' = [phase EXCEPT ![s] = "synced"]
    /\ AggSyncFinished(s, mm) /\ Report(s, mm)
    /\ UNCHANGED <<startedEv, endedEv, contrib>>

\* topic_log_sync.rs:198-200
LiveModeStarted(s) ==
    /\ phase[s] = "synced"
    /\ phase' = [phase EXCEPT ![s] = "live"]
    /\ AggLiveModeStarted(s)
    /\ UNCHANGED <<m, xfers, startedEv, endedEv, lastRep, contrib>>

\* topic_log_sync.rs:323-344, Ok branch (with or without live mode)
SessionFinishedAt(s, mm) ==
    /\ phase[s] \in {"synced", "live"} /\ Advance(s, mm)
    /\ phase' = [phase EXCEPT ![s] = "finished"]
    /\ AggSessionFinished(s, mm) /\ Report(s, mm)
    /\ endedEv' = endedEv \cup {s}
    /\ UNCHANGED <<startedEv, contrib>>

\* bytes of s that were settled by a phase-closing event (SyncFinished) before it failed
SettledOf(s) == IF phase[s] \in {"synced", "live"} THEN [m[s] EXCEPT !.sl = 0, !.rl = 0] ELSE Zero

\* topic_log_sync.rs:169-181 (sync phase) and :334-344 (live phase); the event has no metrics
Failed(s, c) ==
    /\ phase[s] \in {"started", "sync", "synced", "live"} \/ (Lifecycle = "real" /\ phase[s] = "init")
    /\ phase' = [phase EXCEPT ![s] = "failed"]
    /\ AggFailed(s, c, SentOf(SettledOf(s)), RecvOf(SettledOf(s)))
    /\ contrib' = [contrib EXCEPT ![s] = IF c = "last" THEN LastKnown(s) ELSE SettledOf(s)]
    /\ endedEv' = endedEv \cup {s}
    /\ UNCHANGED <<m, xfers, startedEv, lastRep>>

\* bounded versions used by the model checker: one transfer of b bytes at a time
Bounded(s) == xfers[s] < MaxXfer /\ xfers' = [xfers EXCEPT ![s] = @ + 1]
SyncSend(s, b) == phase[s] = "sync" /\ Bounded(s) /\ TransferTo(s, [m[s] EXCEPT !.ss = @ + b])
SyncReceive(s, b) == phase[s] = "sync" /\ Bounded(s) /\ ReceiveTo(s, [m[s] EXCEPT !.rs = @ + b])
LiveSend(s, b) == phase[s] = "live" /\ Bounded(s) /\ TransferTo(s, [m[s] EXCEPT !.sl = @ + b])
LiveReceive(s, b) == phase[s] = "live" /\ Bounded(s) /\ ReceiveTo(s, [m[s] EXCEPT !.rl = @ + b])
SyncFinished(s) == SyncFinishedAt(s, m[s]) /\ UNCHANGED xfers
SessionFinished(s) == SessionFinishedAt(s, m[s]) /\ UNCHANGED xfers

SessNext(s) ==
    \/ SessionStarted(s) \/ SyncStarted(s) \/ SyncFinished(s) \/ LiveModeStarted(s) \/ SessionFinished(s)
    \/ \E b \in Bytes : SyncSend(s, b) \/ SyncReceive(s, b) \/ LiveSend(s, b) \/ LiveReceive(s, b)
    \/ \E c \in FailedChoices : Failed(s, c)

AllClosed == \A s \in Sess : phase[s] \in {"finished", "failed"}
Terminated == AllClosed /\ UNCHANGED vars

Next == (\E s \in Sess : SessNext(s)) \/ Terminated
Spec == Init /\ [][Next]_vars

---------------------------------------------------------------------------
(* C40 *)

RECURSIVE SumOver(_, _)
SumOver(S, f) == IF S = {} THEN 0 ELSE LET x == CHOOSE x \in S : TRUE IN f[x] + SumOver(S \ {x}, f)

\* What session s contributes to the topic totals, in terms of the bytes it REALLY transferred:
\* nothing before its sync phase closed, its sync bytes from SyncFinished on (live bytes are
\* reported when the session closes), everything once it finished; a failed session: `contrib`.
Contribution(s) ==
    CASE phase[s] \in {"synced", "live"} -> [m[s] EXCEPT !.sl = 0, !.rl = 0]
      [] phase[s] = "finished" -> m[s]
      [] phase[s] = "failed" -> contrib[s]
      [] OTHER -> Zero

TotalsExact ==
    /\ totSent = SumOver(Sess, [s \in Sess |-> SentOf(Contribution(s))])
    /\ totRecv = SumOver(Sess, [s \in Sess |-> RecvOf(Contribution(s))])

\* no byte is counted twice: the totals never exceed what the sessions reported at all
NoOverCount ==
    /\ totSent <= SumOver(Sess, [s \in Sess |-> SentOf(lastRep[s])])
    /\ totRecv <= SumOver(Sess, [s \in Sess |-> RecvOf(lastRep[s])])

\* once every session has finished cleanly the totals are the bytes really transferred
ExactWhenAllFinished ==
    (\A s \in Sess : phase[s] = "finished") =>
        /\ totSent = SumOver(Sess, [s \in Sess |-> SentOf(m[s])])
        /\ totRecv = SumOver(Sess, [s \in Sess |-> RecvOf(m[s])])

\* running-session count = started minus ended (of the sessions whose start was announced)
RunningExact == running = Cardinality(startedEv \ endedEv)

\* the totals carried by a SyncEnded / OperationReceived event are the aggregator's totals
OutTotalsAreTotals == out.kind = "SyncEnded" => (out.tsent = totSent /\ out.trecv = totRecv)

TypeOK ==
    /\ running \in Nat /\ totSent \in Nat /\ totRecv \in Nat
    /\ inMap \subseteq Sess /\ liveSet \subseteq Sess
    /\ liveSet \subseteq {s \in Sess : phase[s] = "live"}

TotalsMonotone == [][totSent' >= totSent /\ totRecv' >= totRecv]_vars
===========================================================================
