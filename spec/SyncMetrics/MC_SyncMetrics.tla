-------------------------- MODULE MC_SyncMetrics --------------------------
(* Bounded instances of SyncMetrics, history variable and JSON export of   *)
(* event sequences for the conformance harness (vh-node metrics).          *)
EXTENDS SyncMetrics, TLC, Json

VARIABLE hist
mcvars == <<vars, hist>>

\* one exported step: the event fed to Aggregator::process (ev = "none": the session transferred
\* bytes without an event) and everything observable afterwards
Rec(s, ev, mm, us, ur) ==
    hist' = Append(hist, [s |-> s, ev |-> ev, m |-> mm,
                          running |-> running', tsent |-> totSent', trecv |-> totRecv', out |-> out',
                          unaccS |-> us, unaccR |-> ur])

DoSessionStarted(s) == SessionStarted(s) /\ Rec(s, "SessionStarted", Zero, 0, 0)
DoSyncStarted(s) == SyncStarted(s) /\ Rec(s, "SyncStarted", m[s], 0, 0)
DoSyncSend(s, b) == SyncSend(s, b) /\ Rec(s, "none", m'[s], 0, 0)
DoSyncReceive(s, b) == SyncReceive(s, b) /\ Rec(s, "OperationReceived", m'[s], 0, 0)
DoSyncFinished(s) == SyncFinished(s) /\ Rec(s, "SyncFinished", m[s], 0, 0)
DoLiveModeStarted(s) == LiveModeStarted(s) /\ Rec(s, "LiveModeStarted", Zero, 0, 0)
DoLiveSend(s, b) == LiveSend(s, b) /\ Rec(s, "none", m'[s], 0, 0)
DoLiveReceive(s, b) == LiveReceive(s, b) /\ Rec(s, "OperationReceived", m'[s], 0, 0)
DoSessionFinished(s) == SessionFinished(s) /\ Rec(s, "SessionFinished", m[s], 0, 0)
DoFailed(s, c) ==
    Failed(s, c) /\ Rec(s, "Failed", Zero,
                        SentOf(LastKnown(s)) - SentOf(SettledOf(s)),
                        RecvOf(LastKnown(s)) - RecvOf(SettledOf(s)))
DoTerminated == Terminated /\ UNCHANGED hist

MCInit == Init /\ hist = <<>>
MCNext ==
    \/ \E s \in Sess : \/ DoSessionStarted(s) \/ DoSyncStarted(s) \/ DoSyncFinished(s)
                       \/ DoLiveModeStarted(s) \/ DoSessionFinished(s)
    \/ \E s \in Sess, b \in Bytes : DoSyncSend(s, b) \/ DoSyncReceive(s, b) \/ DoLiveSend(s, b) \/ DoLiveReceive(s, b)
    \/ \E s \in Sess, c \in FailedChoices : DoFailed(s, c)
    \/ DoTerminated
MCSpec == MCInit /\ [][MCNext]_mcvars

NoHistView == vars

Header == [lifecycle |-> Lifecycle, sessions |-> Sess]

\* gen, prefix mode (VIEW NoHistView): one shortest event sequence to every reachable state
ExportPrefix == PrintT(<<"REPLAY", ToJson([kind |-> "prefix", cfg |-> Header, steps |-> hist])>>)
\* gen, full mode (no VIEW / simulation): every complete event sequence
ExportFull == AllClosed => PrintT(<<"REPLAY", ToJson([kind |-> "full", cfg |-> Header, steps |-> hist])>>)
===========================================================================
