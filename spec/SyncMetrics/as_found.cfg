SPECIFICATION MCSpec
CONSTANTS
  Sess = {"a", "b"}
  Bytes = {1, 2}
  MaxXfer = 2
  Lifecycle = "real"
  DoubleCount = TRUE
  FailedChoices = {"none"}
INVARIANTS
  TypeOK
  TotalsExact
  NoOverCount
  ExactWhenAllFinished
  RunningExact
  OutTotalsAreTotals
PROPERTIES
  TotalsMonotone
VIEW NoHistView
CHECK_DEADLOCK TRUE
