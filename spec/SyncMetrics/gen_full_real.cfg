SPECIFICATION MCSpec
CONSTANTS
  Sess = {"a"}
  Bytes = {1, 2}
  MaxXfer = 2
  Lifecycle = "real"
  DoubleCount = FALSE
  FailedChoices = {"none"}
INVARIANTS
  ExportFull

CHECK_DEADLOCK FALSE
