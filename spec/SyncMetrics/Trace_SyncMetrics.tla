------------------------ MODULE Trace_SyncMetrics ------------------------
(* Trace validation: session events processed by the real Aggregator        *)
(* (harness `vh-node metrics record`) must be behaviours of SyncMetrics,    *)
(* with the C40 invariants evaluated after every event.  The logged totals, *)
(* running count and returned event bind the aggregator half; the logged    *)
(* metrics bind the session half (counters advance monotonically, sync      *)
(* counters only in the sync phase, live counters only in live mode).       *)
EXTENDS SyncMetrics, TLC, Json, IOUtils

Rec == ndJsonDeserialize(IOEnv.TRACE)

TraceSess == {Rec[1].pool[k] : k \in 1..Len(Rec[1].pool)}
TraceLifecycle == Rec[1].lifecycle
TraceBig == 2000000000

VARIABLE i
tvars == <<vars, i>>

Ev == Rec[i]
EvM == [ss |-> Ev.m.ss, sl |-> Ev.m.sl, rs |-> Ev.m.rs, rl |-> Ev.m.rl]

\* the aggregator's observables after the event, as logged from the real Aggregator
Observed ==
    /\ running' = Ev.running
    /\ totSent' = Ev.tsent
    /\ totRecv' = Ev.trecv
    /\ out' = [kind |-> Ev.out.kind, sent |-> Ev.out.sent, recv |-> Ev.out.recv, tsent |-> Ev.out.tsent,
               trecv |-> Ev.out.trecv, sessions |-> Ev.out.sessions, err |-> Ev.out.err, live |-> Ev.out.live]

StepReset ==
    /\ Ev.ev = "Reset" /\ Ev.lifecycle = TraceLifecycle
    /\ phase' = [s \in Sess |-> "init"]
    /\ m' = [s \in Sess |-> Zero]
    /\ xfers' = [s \in Sess |-> 0]
    /\ running' = 0 /\ totSent' = 0 /\ totRecv' = 0
    /\ sm' = [s \in Sess |-> Zero] /\ inMap' = {} /\ liveSet' = {}
    /\ out' = NoOut
    /\ startedEv' = {} /\ endedEv' = {}
    /\ lastRep' = [s \in Sess |-> Zero]
    /\ contrib' = [s \in Sess |-> Zero]

StepTransfer == Ev.ev = "Transfer" /\ TransferTo(Ev.s, EvM) /\ UNCHANGED xfers
StepSessionStarted == Ev.ev = "SessionStarted" /\ SessionStarted(Ev.s) /\ Observed
StepSyncStarted == Ev.ev = "SyncStarted" /\ EvM = Zero /\ SyncStarted(Ev.s) /\ Observed
StepOperationReceived == Ev.ev = "OperationReceived" /\ ReceiveTo(Ev.s, EvM) /\ UNCHANGED xfers /\ Observed
StepSyncFinished == Ev.ev = "SyncFinished" /\ SyncFinishedAt(Ev.s, EvM) /\ UNCHANGED xfers /\ Observed
StepLiveModeStarted == Ev.ev = "LiveModeStarted" /\ LiveModeStarted(Ev.s) /\ Observed
StepSessionFinished == Ev.ev = "SessionFinished" /\ SessionFinishedAt(Ev.s, EvM) /\ UNCHANGED xfers /\ Observed
StepFailed == Ev.ev = "Failed" /\ (\E c \in FailedChoices : Failed(Ev.s, c)) /\ Observed

TraceInit == Init /\ i = 1
TraceNext ==
    /\ i <= Len(Rec)
    /\ i' = i + 1
    /\ \/ StepReset \/ StepTransfer \/ StepSessionStarted \/ StepSyncStarted \/ StepOperationReceived
       \/ StepSyncFinished \/ StepLiveModeStarted \/ StepSessionFinished \/ StepFailed
TraceSpec == TraceInit /\ [][TraceNext]_tvars

TraceAccepted ==
    LET d == TLCGet("stats").diameter IN
    IF d - 1 = Len(Rec) THEN TRUE
    ELSE Print(<<"TRACE_REJECTED", d - 1, Len(Rec), ToJson(Rec[d])>>, FALSE)
===========================================================================
