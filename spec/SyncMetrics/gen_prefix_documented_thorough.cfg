SPECIFICATION MCSpec
CONSTANTS
  Sess = {"a", "b"}
  Bytes = {1, 2}
  MaxXfer = 2
  Lifecycle = "documented"
  DoubleCount = FALSE
  FailedChoices = {"none"}
INVARIANTS
  ExportPrefix
VIEW NoHistView
CHECK_DEADLOCK FALSE
