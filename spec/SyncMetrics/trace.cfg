SPECIFICATION TraceSpec
CONSTANTS
  Sess <- TraceSess
  Bytes = {}
  MaxXfer <- TraceBig
  Lifecycle <- TraceLifecycle
  DoubleCount = FALSE
  FailedChoices = {"none", "last"}
INVARIANTS
  TypeOK
  TotalsExact
  NoOverCount
  ExactWhenAllFinished
  RunningExact
  OutTotalsAreTotals
POSTCONDITION TraceAccepted
CHECK_DEADLOCK FALSE
