SPECIFICATION MCSpec
CONSTANTS
  Sess = {"a", "b", "c"}
  Bytes = {1, 2}
  MaxXfer = 3
  Lifecycle = "documented"
  DoubleCount = FALSE
  FailedChoices = {"none"}
INVARIANTS
  ExportFull

CHECK_DEADLOCK FALSE
