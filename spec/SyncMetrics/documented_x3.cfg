SPECIFICATION MCSpec
CONSTANTS
  Sess = {"a", "b"}
  Bytes = {1, 2}
  MaxXfer = 3
  Lifecycle = "documented"
  DoubleCount = FALSE
  FailedChoices = {"none", "last"}
INVARIANTS
  TypeOK
  TotalsExact
  NoOverCount
  ExactWhenAllFinished
  RunningExact
  OutTotalsAreTotals
PROPERTIES
  TotalsMonotone
VIEW NoHistView
CHECK_DEADLOCK TRUE
