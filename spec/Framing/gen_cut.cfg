SPECIFICATION GenSpec
CONSTANTS
  Sizes = {1}
  EncMaxes = {2}
  DecMaxes = {2}
  MaxMsgs = 2
  Phased = TRUE
  AllowCut = TRUE
INVARIANTS
  Export
CHECK_DEADLOCK FALSE
