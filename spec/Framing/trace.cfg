SPECIFICATION TraceSpec
CONSTANTS
  Sizes = {}
  EncMaxes = {}
  DecMaxes = {}
  MaxMsgs = 0
  Phased = FALSE
  AllowCut = TRUE
INVARIANTS
  TypeOK
  EncodeRejectsExactlyOver
  DecodedIsPrefix
  NeverYieldsOver
  ErrorsAreJustified
  OverSizeRejectedAtHeader
  DecodesExactly
  EndsCleanlyWhenAllFit
  HeaderAligned
  StreamConserved
POSTCONDITION TraceAccepted
CHECK_DEADLOCK FALSE
