SPECIFICATION MCSpec
CONSTANTS
  Sizes = {0, 1, 2, 3, 4}
  EncMaxes = {2, 3, 4}
  DecMaxes = {2, 3}
  MaxMsgs = 3
  Phased = FALSE
  AllowCut = TRUE
INVARIANTS
  TypeOK
  EncodeRejectsExactlyOver
  DecodedIsPrefix
  NeverYieldsOver
  ErrorsAreJustified
  OverSizeRejectedAtHeader
  DecodesExactly
  EndsCleanlyWhenAllFit
  HeaderAligned
  StreamConserved
VIEW NoHistView
CHECK_DEADLOCK TRUE
