--------------------------- MODULE Trace_Framing ---------------------------
(* Trace validation: events recorded from the real FramedRead<_, Codec<M>>  *)
(* (harness `vh-net framing record`) must be behaviours of Framing, with    *)
(* the C26 invariants evaluated at every step.                              *)
(*                                                                          *)
(* One event per spec action, all arguments bound:                          *)
(*   Reset{encMax, decMax}  Encode{c, n, ok, wrote}  Close  Cut{j}          *)
(*   Read{k}  Decode{res, c, n, buflen}  Eof{res, buflen}                   *)
(* `c` is the content id of a message (equal postcard bytes = equal id,     *)
(* assigned by the recorder; -1 = the decoded value equals no encoded one). *)
EXTENDS Framing, TLC, Json, IOUtils

Rec == ndJsonDeserialize(IOEnv.TRACE)

VARIABLE i
tvars == <<vars, i>>

Ev == Rec[i]

StepReset ==
    /\ Ev.ev = "Reset"
    /\ encMax' = Ev.encMax /\ decMax' = Ev.decMax
    /\ encLog' = <<>> /\ sent' = <<>> /\ wire' = <<>>
    /\ closed' = FALSE /\ cut' = FALSE
    /\ buf' = <<>> /\ dstate' = "reading" /\ out' = <<>> /\ err' = "none"

StepEncode ==
    /\ Ev.ev = "Encode"
    /\ Encode(Ev.c, Ev.n)
    /\ encLog'[Len(encLog')].ok = Ev.ok                 \* the implementation's verdict
    /\ Len(wire') - Len(wire) = Ev.wrote                \* bytes it appended

StepClose == Ev.ev = "Close" /\ Close

StepCut == Ev.ev = "Cut" /\ Cut(Ev.j)

StepRead == Ev.ev = "Read" /\ Read(Ev.k)

StepDecode ==
    /\ Ev.ev = "Decode"
    /\ Decode
    /\ LET r == DecodeResult(buf) IN
       /\ Ev.res = (IF r[1] = "too_large" THEN "error" ELSE r[1])
       /\ r[1] = "item" => out'[Len(out')] = <<Ev.c, Ev.n>>   \* the value the real decoder produced
    /\ Len(buf') = Ev.buflen

StepEof ==
    /\ Ev.ev = "Eof"
    /\ Eof
    /\ Ev.res = (IF dstate' = "ended" THEN "ended" ELSE "error")
    /\ Len(buf') = Ev.buflen

TraceInit ==
    /\ encMax = 0 /\ decMax = 0
    /\ encLog = <<>> /\ sent = <<>> /\ wire = <<>>
    /\ closed = FALSE /\ cut = FALSE
    /\ buf = <<>> /\ dstate = "reading" /\ out = <<>> /\ err = "none"
    /\ i = 1

TraceNext ==
    /\ i <= Len(Rec)
    /\ i' = i + 1
    /\ (StepReset \/ StepEncode \/ StepClose \/ StepCut \/ StepRead \/ StepDecode \/ StepEof)

TraceSpec == TraceInit /\ [][TraceNext]_tvars

TraceAccepted ==
    LET d == TLCGet("stats").diameter IN
    IF d - 1 = Len(Rec) THEN TRUE
    ELSE Print(<<"TRACE_REJECTED", d - 1, Len(Rec), ToJson(Rec[d])>>, FALSE)
===========================================================================
