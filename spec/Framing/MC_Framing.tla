--------------------------- MODULE MC_Framing ---------------------------
(* Bounded instance of Framing for TLC + JSON export of every behaviour. *)
EXTENDS Framing, TLC, Json

VARIABLE hist        \* one record per action, with the observable the harness compares

mcvars == <<vars, hist>>

MCInit == Init /\ hist = <<>>

MCEncode ==
    /\ Len(encLog) < MaxMsgs
    /\ \E n \in Sizes :
        /\ Encode(Len(encLog) + 1, n)
        /\ hist' = Append(hist, [a |-> "Encode", c |-> Len(encLog) + 1, n |-> n, ok |-> (n <= encMax)])

MCClose == Close /\ hist' = Append(hist, [a |-> "Close"])

MCCut == \E j \in 0..Len(wire) : Cut(j) /\ hist' = Append(hist, [a |-> "Cut", j |-> j])

MCRead ==
    \E k \in 1..Len(wire) :
        /\ Read(k)
        /\ hist' = Append(hist, [a |-> "Read", k |-> k, buflen |-> Len(buf) + k])

MCDecode ==
    /\ Decode
    /\ LET r == DecodeResult(buf) IN
       hist' = Append(hist,
                 IF r[1] = "item"
                 THEN [a |-> "Decode", res |-> "item", c |-> ItemOf(r[2], buf)[1], n |-> Len(r[2]), buflen |-> Len(r[3])]
                 ELSE [a |-> "Decode", res |-> r[1], c |-> 0, n |-> 0, buflen |-> Len(buf)])

MCEof ==
    /\ Eof
    /\ hist' = Append(hist, [a |-> "Eof", res |-> IF buf = <<>> THEN "ended" ELSE "bytes_remaining"])

MCTerminated == Terminated /\ UNCHANGED hist

MCSteps == MCEncode \/ MCClose \/ MCCut \/ MCRead \/ MCDecode \/ MCEof
MCNext == MCSteps \/ MCTerminated

MCSpec == MCInit /\ [][MCNext]_mcvars

\* export runs: no stuttering at the end, so every behaviour is printed exactly once
GenSpec == MCInit /\ [][MCSteps]_mcvars

NoHistView == vars

Done == dstate \in {"ended", "errored"}

Export ==
    Done => PrintT(<<"REPLAY", ToJson([kind |-> "framing", encMax |-> encMax, decMax |-> decMax,
                                       steps |-> hist])>>)

===========================================================================
