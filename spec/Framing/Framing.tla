------------------------------ MODULE Framing ------------------------------
(***************************************************************************)
(* Length-prefixed wire framing of p2panda-net (C26).                      *)
(*                                                                         *)
(*   Encode(c, n)   transcribes  p2panda-net/src/codec.rs:68-91            *)
(*                  `<Codec<M> as Encoder<M>>::encode`                     *)
(*   Decode         transcribes  p2panda-net/src/codec.rs:101-122          *)
(*                  `<Codec<M> as Decoder>::decode`, branch for branch     *)
(*   Read(k), Eof   are the two things tokio-util's `FramedRead` does      *)
(*                  between `decode` calls (framed_impl.rs poll_next):     *)
(*                  append the next chunk of the byte stream to the        *)
(*                  buffer, or run `decode_eof` after a 0-byte read.       *)
(*                                                                         *)
(* The byte stream is a sequence of TOKENS, one token per byte:            *)
(*   <<"L", c, n, i>>  i-th (1..4) byte of the big-endian length prefix of *)
(*                     the frame of message c whose postcard size is n     *)
(*   <<"P", c, j>>     j-th (1..n) postcard byte of message c              *)
(* A message is identified by its content id `c` (equal messages = equal   *)
(* ids) and its postcard size `n`.  What the bytes ARE is not modelled:    *)
(* postcard and the big-endian u32 are concretised by the harness.         *)
(*                                                                         *)
(* Sender and receiver own one `Codec` each (max_frame_len = encMax /      *)
(* decMax); a sender with a larger limit is how an over-size frame gets on *)
(* the wire at all.                                                        *)
(***************************************************************************)
EXTENDS Integers, Sequences, FiniteSets

CONSTANTS Sizes,        \* postcard sizes a message may have (set of naturals)
          EncMaxes,     \* possible values of the sender's max_frame_len
          DecMaxes,     \* possible values of the receiver's max_frame_len
          MaxMsgs,      \* bound on the number of `encode` calls (model checking only)
          Phased,       \* TRUE: sender encodes everything and closes before the receiver reads
          AllowCut      \* TRUE: the connection may break, losing a suffix of the bytes in flight

VARIABLES
    encMax,     \* sender's max_frame_len
    decMax,     \* receiver's max_frame_len
    encLog,     \* one entry per encode call: [c, n, ok]
    sent,       \* messages accepted by the encoder, in order: <<c, n>>
    wire,       \* bytes written by the sender and not yet read by the receiver
    closed,     \* sender side of the stream is closed (EOF follows the last byte of `wire`)
    cut,        \* bytes were lost in flight (the stream is truncated)
    buf,        \* the receiver's BytesMut
    dstate,     \* FramedRead state: "reading" | "framing" | "errored" | "ended"
    out,        \* items yielded by the decoder, in order: <<c, n>>
    err         \* why the decoder failed: "none" | "too_large" | "bytes_remaining"

vars == <<encMax, decMax, encLog, sent, wire, closed, cut, buf, dstate, out, err>>

---------------------------------------------------------------------------
(* Tokens                                                                  *)

LenTok(c, n, i) == <<"L", c, n, i>>
PayTok(c, j)    == <<"P", c, j>>

Frame(c, n) == [i \in 1..(4 + n) |-> IF i <= 4 THEN LenTok(c, n, i) ELSE PayTok(c, i - 4)]

\* the first four bytes of b are the complete length prefix of one frame
AlignedHeader(b) ==
    /\ Len(b) >= 4
    /\ \A i \in 1..4 : b[i][1] = "L" /\ b[i][4] = i /\ b[i][2] = b[1][2] /\ b[i][3] = b[1][3]

\* u32::from_be_bytes(src[..4])  -- meaningful only on an aligned header; -1 otherwise
HeaderLen(b) == IF AlignedHeader(b) THEN b[1][3] ELSE -1

\* postcard::from_bytes(&src[4..4+len]) gives back message c iff these are exactly its bytes
IsPayloadOf(p, c, n) == Len(p) = n /\ \A j \in 1..n : p[j] = PayTok(c, j)

---------------------------------------------------------------------------
(* Sender: codec.rs:68-91                                                  *)

Encode(c, n) ==
    /\ ~closed
    /\ IF n > encMax                                   \* codec.rs:72  frame_len > max_frame_len
       THEN /\ encLog' = Append(encLog, [c |-> c, n |-> n, ok |-> FALSE])
            /\ UNCHANGED <<sent, wire>>                \*   Err(TooLargeMessage), dst untouched
       ELSE /\ encLog' = Append(encLog, [c |-> c, n |-> n, ok |-> TRUE])
            /\ sent' = Append(sent, <<c, n>>)
            /\ wire' = wire \o Frame(c, n)             \* codec.rs:80-88  put_u32 + postcard bytes appended
    /\ UNCHANGED <<encMax, decMax, closed, cut, buf, dstate, out, err>>

Close ==
    /\ ~closed
    /\ closed' = TRUE
    /\ UNCHANGED <<encMax, decMax, encLog, sent, wire, cut, buf, dstate, out, err>>

\* the connection breaks: only the first j bytes still in flight arrive
Cut(j) ==
    /\ AllowCut /\ ~cut
    /\ j \in 0..(Len(wire) - 1)
    /\ wire' = SubSeq(wire, 1, j)
    /\ closed' = TRUE /\ cut' = TRUE
    /\ UNCHANGED <<encMax, decMax, encLog, sent, buf, dstate, out, err>>

---------------------------------------------------------------------------
(* Receiver                                                                *)

ReceiverMayRun == Phased => closed

\* FramedRead in state `reading`: the next chunk (k >= 1 bytes) of the stream is appended
Read(k) ==
    /\ ReceiverMayRun
    /\ dstate = "reading"
    /\ k \in 1..Len(wire)
    /\ buf' = buf \o SubSeq(wire, 1, k)
    /\ wire' = SubSeq(wire, k + 1, Len(wire))
    /\ dstate' = "framing"
    /\ UNCHANGED <<encMax, decMax, encLog, sent, closed, cut, out, err>>

\* Result of one `decode` call on buffer b: <<kind, item, rest>>   (codec.rs:101-122)
DecodeResult(b) ==
    IF Len(b) < 4 THEN <<"none", <<>>, b>>                                  \* :103
    ELSE LET len == HeaderLen(b) IN
         IF len > decMax THEN <<"too_large", <<>>, b>>                      \* :110
         ELSE IF Len(b) < 4 + len THEN <<"none", <<>>, b>>                  \* :115
         ELSE <<"item", SubSeq(b, 5, 4 + len), SubSeq(b, 5 + len, Len(b))>> \* :118-121 from_bytes, advance

\* the message a payload decodes to: message c iff the payload is exactly c's postcard bytes,
\* otherwise garbage (-1); the harness compares the real decoded value with the real message c
ItemOf(p, b) == IF IsPayloadOf(p, b[1][2], Len(p)) THEN <<b[1][2], Len(p)>> ELSE <<-1, Len(p)>>

Decode ==
    /\ dstate = "framing"
    /\ LET r == DecodeResult(buf) IN
       CASE r[1] = "none" ->
              /\ dstate' = "reading"
              /\ UNCHANGED <<buf, out, err>>
         [] r[1] = "too_large" ->
              /\ dstate' = "errored" /\ err' = "too_large"
              /\ UNCHANGED <<buf, out>>
         [] r[1] = "item" ->
              /\ out' = Append(out, ItemOf(r[2], buf))
              /\ buf' = r[3]
              /\ UNCHANGED <<dstate, err>>
    /\ UNCHANGED <<encMax, decMax, encLog, sent, wire, closed, cut>>

\* FramedRead reads 0 bytes (stream closed and drained) and calls `decode_eof`
\* (tokio-util default: decode; None with a non-empty buffer is "bytes remaining on stream")
Eof ==
    /\ ReceiverMayRun
    /\ dstate = "reading" /\ closed /\ wire = <<>>
    /\ IF buf = <<>>
       THEN dstate' = "ended" /\ UNCHANGED err
       ELSE dstate' = "errored" /\ err' = "bytes_remaining"
    /\ UNCHANGED <<encMax, decMax, encLog, sent, wire, closed, cut, buf, out>>

Terminated ==
    /\ dstate \in {"ended", "errored"}
    /\ UNCHANGED vars

---------------------------------------------------------------------------
Init ==
    /\ encMax \in EncMaxes /\ decMax \in DecMaxes
    /\ encLog = <<>> /\ sent = <<>> /\ wire = <<>>
    /\ closed = FALSE /\ cut = FALSE
    /\ buf = <<>> /\ dstate = "reading" /\ out = <<>> /\ err = "none"

\* content ids in the bounded model: the index of the encode call (all distinct)
Next ==
    \/ \E n \in Sizes : Len(encLog) < MaxMsgs /\ Encode(Len(encLog) + 1, n)
    \/ Close
    \/ \E j \in 0..Len(wire) : Cut(j)
    \/ \E k \in 1..Len(wire) : Read(k)
    \/ Decode
    \/ Eof
    \/ Terminated

Spec == Init /\ [][Next]_vars

---------------------------------------------------------------------------
(* C26                                                                     *)

IsPrefix(s, t) == Len(s) <= Len(t) /\ \A i \in 1..Len(s) : s[i] = t[i]

\* Encode side: rejected iff larger than the sender's maximum
EncodeRejectsExactlyOver ==
    \A i \in 1..Len(encLog) : encLog[i].ok <=> (encLog[i].n <= encMax)

\* whatever has been decoded so far is a prefix of what was encoded, in order
DecodedIsPrefix == IsPrefix(out, sent)

\* no frame above the receiver's maximum is ever yielded
NeverYieldsOver == \A i \in 1..Len(out) : out[i][2] <= decMax

\* the first message not yet decoded (if any)
NextUndecoded == sent[Len(out) + 1]

\* the decoder fails only for a reason the property allows:
\*   too_large        the next frame really is larger than decMax (RejectsOver / no smaller one is)
\*   bytes_remaining  the stream was truncated inside a frame
ErrorsAreJustified ==
    /\ err = "too_large" => Len(out) < Len(sent) /\ NextUndecoded[2] > decMax
    /\ err = "bytes_remaining" => cut

\* an over-size frame at the head of the stream is rejected as soon as its prefix is complete:
\* the decoder is never in `reading` holding a complete over-size header
OverSizeRejectedAtHeader ==
    (dstate = "reading" /\ Len(buf) >= 4) => HeaderLen(buf) <= decMax

\* DecodesExactly: a stream that ends cleanly yielded exactly the encoded sequence
\* (a connection cut exactly at a frame boundary is indistinguishable from a close: then the
\* yielded sequence is the delivered prefix, see DecodedIsPrefix / StreamConserved)
DecodesExactly == (dstate = "ended" /\ ~cut) => out = sent

\* a clean end is reached unless there is an over-size frame or a cut
EndsCleanlyWhenAllFit ==
    (dstate = "errored" /\ ~cut) => \E i \in 1..Len(sent) : sent[i][2] > decMax

\* whenever `decode` looks at four bytes they are the length prefix of ONE frame
HeaderAligned == (dstate = "framing" /\ Len(buf) >= 4) => AlignedHeader(buf)

\* the buffer plus the bytes in flight are exactly the frames not yet decoded (unless cut)
Flatten(ms) ==
    LET F[i \in 0..Len(ms)] == IF i = 0 THEN <<>> ELSE F[i - 1] \o Frame(ms[i][1], ms[i][2])
    IN F[Len(ms)]
StreamConserved ==
    ~cut => buf \o wire = Flatten(SubSeq(sent, Len(out) + 1, Len(sent)))

TypeOK ==
    /\ dstate \in {"reading", "framing", "errored", "ended"}
    /\ err \in {"none", "too_large", "bytes_remaining"}
    /\ (dstate = "errored") <=> (err # "none")
===========================================================================
