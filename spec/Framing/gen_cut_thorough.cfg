SPECIFICATION GenSpec
CONSTANTS
  Sizes = {0, 1, 2, 3}
  EncMaxes = {2, 3}
  DecMaxes = {2}
  MaxMsgs = 2
  Phased = TRUE
  AllowCut = TRUE
INVARIANTS
  Export
CHECK_DEADLOCK FALSE
