--------------------------- MODULE MC_Backoff ---------------------------
(* Bounded instance of Backoff for TLC + JSON export of every behaviour. *)
EXTENDS Backoff, Sequences, TLC, Json

CONSTANTS MaxNow,       \* the clock stops here
          MaxDt,        \* largest single time step
          MaxSteps      \* number of calls / time steps after `new`

VARIABLE hist

mcvars == <<vars, hist>>

C(i, n1, n2, m, r1, r2) ==
    [initial |-> i, minInc |-> n1, maxInc |-> n2, maxValue |-> m, minReset |-> r1, maxReset |-> r2]

\* small configurations: initial 0 / > 0, maximum reachable exactly or only by overshooting,
\* a maximum equal to the initial value, increments that may be zero
ConfigsSmall == { C(0, 1, 4, 5, 2, 5), C(1, 2, 4, 6, 2, 4), C(2, 1, 3, 2, 1, 3), C(0, 0, 3, 4, 3, 5) }
ConfigsGenInc == { C(0, 1, 4, 5, 2, 4), C(1, 2, 4, 4, 2, 3) }
ConfigsGenTime == { C(0, 1, 3, 3, 2, 4) }

\* observable after a step (what the harness compares) + the draws actually made (-1: no draw)
Step(name, inc, r, dt) ==
    [a |-> name, inc |-> inc, r |-> r, dt |-> dt,
     value |-> value', resetAfter |-> resetAfter', elapsed |-> act'[2]]

MCInit == Init /\ hist = <<[a |-> "New", inc |-> -1, r |-> resetAfter, dt |-> 0,
                            value |-> value, resetAfter |-> resetAfter, elapsed |-> FALSE]>>

Bounded == Len(hist) <= MaxSteps

MCIncrement ==
    /\ Bounded
    /\ \E inc \in Incs, r \in Resets :
        /\ Increment(inc, r)
        \* a draw whose result is not used is not a choice: fixed to the smallest value
        /\ LET usedInc == (~Elapsed /\ value < cfg.maxValue)
               usedR == Elapsed
           IN /\ (~usedInc => inc = cfg.minInc)
              /\ (~usedR => r = cfg.minReset)
              /\ hist' = Append(hist, Step("Increment", IF usedInc THEN inc ELSE -1, IF usedR THEN r ELSE -1, 0))

MCReset ==
    /\ Bounded
    /\ \E r \in Resets : Reset(r) /\ hist' = Append(hist, Step("Reset", -1, r, 0))

MCAdvance ==
    /\ Bounded
    /\ \E dt \in 1..MaxDt :
        /\ now + dt <= MaxNow
        /\ Advance(dt)
        /\ hist' = Append(hist, Step("Advance", -1, -1, dt))

MCNext == MCIncrement \/ MCReset \/ MCAdvance

MCSpec == MCInit /\ [][MCNext]_mcvars

\* hist only matters for its length in the exhaustive runs
NoHistView == <<vars, Len(hist)>>

MCResetsAfterInterval == [][ResetsAfterIntervalStep]_mcvars
MCGrowsUntilMax == [][GrowsUntilMaxStep]_mcvars

Export ==
    Len(hist) = MaxSteps + 1 =>
        PrintT(<<"REPLAY", ToJson([kind |-> "backoff", cfg |-> cfg, steps |-> hist])>>)
===========================================================================
