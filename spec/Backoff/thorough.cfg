SPECIFICATION MCSpec
CONSTANTS
  Configs <- ConfigsSmall
  ClampOnAdd = TRUE
  MaxNow = 10
  MaxDt = 3
  MaxSteps = 12
INVARIANTS
  TypeOK
  WithinBounds
PROPERTIES
  MCResetsAfterInterval
  MCGrowsUntilMax
VIEW NoHistView
CHECK_DEADLOCK FALSE
