------------------------------ MODULE Backoff ------------------------------
(***************************************************************************)
(* Discovery backoff of p2panda-net (C28).                                 *)
(*                                                                         *)
(*   New(r)            transcribes  Backoff::new        backoff.rs:62-72   *)
(*   Increment(inc, r) transcribes  Backoff::increment  backoff.rs:74-88   *)
(*   Reset(r)          transcribes  Backoff::reset      backoff.rs:100-104 *)
(*   Advance(dt)       is the passing of time (`Instant::now()` moves)     *)
(*                                                                         *)
(* All durations are integers (milliseconds in the code).  The two random  *)
(* draws of the ChaCha20 generator are the parameters `inc` (drawn from    *)
(* min_increment..max_increment, half open, only when an increment is      *)
(* actually added) and `r` (drawn from min_reset..max_reset, half open,    *)
(* only when a reset happens): quantifying over them is quantifying over   *)
(* all seeds.  The configuration is a variable that never changes, so one  *)
(* model run covers several configurations.                                *)
(*                                                                         *)
(* ClampOnAdd selects how the sum is bounded:                              *)
(*   FALSE  the code before the repair: `value += increment`; a value above*)
(*          the maximum is only cut back by the NEXT increment call        *)
(*   TRUE   the code as repaired: `value = min(value + increment, max)`    *)
(***************************************************************************)
EXTENDS Integers

CONSTANTS Configs,      \* set of records [initial, minInc, maxInc, maxValue, minReset, maxReset]
          ClampOnAdd    \* BOOLEAN, see above

\* what `Config` must satisfy for the type to make sense at all (rand panics on an empty range)
SaneConfig(c) ==
    /\ c.initial \in Nat /\ c.maxValue \in Nat /\ c.initial <= c.maxValue
    /\ c.minInc \in Nat /\ c.maxInc \in Nat /\ c.minInc < c.maxInc
    /\ c.minReset \in Nat /\ c.maxReset \in Nat /\ c.minReset < c.maxReset

VARIABLES
    cfg,         \* Backoff.config (never changes)
    value,       \* Backoff.value: the delay `sleep` waits
    lastReset,   \* Backoff.last_reset_at (a point in time)
    resetAfter,  \* Backoff.reset_after
    now,         \* the clock
    act          \* label of the last action: <<name, had the interval elapsed?>>

vars == <<cfg, value, lastReset, resetAfter, now, act>>

Incs   == cfg.minInc..(cfg.maxInc - 1)       \* random_increment: random_range(min..max)
Resets == cfg.minReset..(cfg.maxReset - 1)   \* random_reset_after: random_range(min..max)

Min(a, b) == IF a <= b THEN a ELSE b

\* has the reset interval elapsed?   backoff.rs:85  last_reset_at.elapsed() >= reset_after
Elapsed == now - lastReset >= resetAfter

\* backoff.rs:100-104
ResetTo(r) ==
    /\ value' = cfg.initial
    /\ lastReset' = now
    /\ resetAfter' = r

\* value after the first half of increment()   backoff.rs:76-82
Bumped(inc) ==
    IF value > cfg.maxValue THEN cfg.maxValue
    ELSE IF value < cfg.maxValue
         THEN (IF ClampOnAdd THEN Min(value + inc, cfg.maxValue) ELSE value + inc)
         ELSE value

Increment(inc, r) ==
    /\ inc \in Incs /\ r \in Resets
    /\ IF Elapsed                                   \* backoff.rs:85-87 (the bump is overwritten)
       THEN ResetTo(r)
       ELSE /\ value' = Bumped(inc)
            /\ UNCHANGED <<lastReset, resetAfter>>
    /\ act' = <<"Increment", Elapsed>>
    /\ UNCHANGED <<cfg, now>>

Reset(r) ==
    /\ r \in Resets
    /\ ResetTo(r)
    /\ act' = <<"Reset", FALSE>>
    /\ UNCHANGED <<cfg, now>>

Advance(dt) ==
    /\ dt >= 1
    /\ now' = now + dt
    /\ act' = <<"Advance", FALSE>>
    /\ UNCHANGED <<cfg, value, lastReset, resetAfter>>

\* Backoff::new: fields initialised, then reset()
Init ==
    /\ cfg \in Configs
    /\ now = 0 /\ lastReset = 0 /\ value = cfg.initial
    /\ resetAfter \in Resets
    /\ act = <<"New", FALSE>>

---------------------------------------------------------------------------
(* C28                                                                     *)

\* the delay is never below the initial value and never above the configured maximum
WithinBounds == cfg.initial <= value /\ value <= cfg.maxValue

\* once the reset interval has elapsed, (the next) increment brings the delay back to the
\* initial value and starts a new interval
ResetsAfterIntervalStep ==
    (act' = <<"Increment", TRUE>>) => (value' = cfg.initial /\ lastReset' = now')

\* an increment inside the interval never lowers the delay, and raises it while below the maximum
GrowsUntilMaxStep ==
    (act' = <<"Increment", FALSE>>) =>
        /\ value' >= value
        /\ (value < cfg.maxValue /\ cfg.minInc > 0) => value' > value

ResetsAfterInterval == [][ResetsAfterIntervalStep]_vars
GrowsUntilMax == [][GrowsUntilMaxStep]_vars

TypeOK ==
    /\ SaneConfig(cfg)
    /\ value \in Nat /\ now \in Nat /\ lastReset \in 0..now
    /\ resetAfter \in Resets
===========================================================================
