SPECIFICATION TraceSpec
CONSTANTS
  Configs = {}
  ClampOnAdd = FALSE
INVARIANTS
  TypeOK
  WithinBounds
PROPERTIES
  TrResetsAfterInterval
  TrGrowsUntilMax
POSTCONDITION TraceAccepted
CHECK_DEADLOCK FALSE
