SPECIFICATION TraceSpec
CONSTANTS
  Configs = {}
  ClampOnAdd = TRUE
INVARIANTS
  TypeOK
  WithinBounds
PROPERTIES
  TrResetsAfterInterval
  TrGrowsUntilMax
POSTCONDITION TraceAccepted
CHECK_DEADLOCK FALSE
