\* The code BEFORE the repair (`value += increment` without a clamp): WithinBounds fails.
\* Kept for documentation (not a registered step): see NOTES.md.
SPECIFICATION MCSpec
CONSTANTS
  Configs <- ConfigsSmall
  ClampOnAdd = FALSE
  MaxNow = 8
  MaxDt = 3
  MaxSteps = 9
INVARIANTS
  TypeOK
  WithinBounds
PROPERTIES
  MCResetsAfterInterval
  MCGrowsUntilMax
VIEW NoHistView
CHECK_DEADLOCK FALSE
