SPECIFICATION MCSpec
CONSTANTS
  Configs <- ConfigsGenTime
  ClampOnAdd = TRUE
  MaxNow = 6
  MaxDt = 2
  MaxSteps = 4
INVARIANTS
  Export
CHECK_DEADLOCK FALSE
