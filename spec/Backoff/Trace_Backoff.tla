--------------------------- MODULE Trace_Backoff ---------------------------
(* Trace validation: calls recorded from the real discovery Backoff         *)
(* (harness `vh-net backoff record`, real ChaCha20Rng seeds, real clock)    *)
(* must be behaviours of Backoff, with the C28 invariants evaluated at      *)
(* every step.                                                              *)
(*                                                                          *)
(*   Reset{cfg, value, resetAfter}   a new Backoff (Backoff::new)           *)
(*   Tick{lo, hi}                    the next increment call saw a time     *)
(*                                   since the last reset within lo..hi ms  *)
(*   Increment{value, resetAfter}    state after Backoff::increment         *)
(*   BackoffReset{value, resetAfter} state after Backoff::reset             *)
(*                                                                          *)
(* The draws are not logged (they are private to the generator): the step   *)
(* is accepted iff SOME draw of the specification explains the logged state.*)
EXTENDS Backoff, Sequences, TLC, Json, IOUtils

Rec == ndJsonDeserialize(IOEnv.TRACE)

VARIABLE i
tvars == <<vars, i>>

Ev == Rec[i]

StepNew ==
    /\ Ev.ev = "Reset"
    /\ cfg' = Ev.cfg
    /\ value' = Ev.cfg.initial /\ value' = Ev.value
    /\ resetAfter' = Ev.resetAfter /\ Ev.resetAfter \in Ev.cfg.minReset..(Ev.cfg.maxReset - 1)
    /\ lastReset' = 0 /\ now' = 0
    /\ act' = <<"New", FALSE>>

\* The time since the last reset, as the next increment call sees it, is some t in lo..hi.
\* Only `t >= resetAfter` matters to the code, so two representatives are enough: lo, and hi when
\* the bracket straddles the threshold (then both "elapsed" and "not elapsed" are possible).
TickChoices == IF Ev.lo < resetAfter /\ resetAfter <= Ev.hi THEN {Ev.lo, Ev.hi} ELSE {Ev.lo}
StepTick ==
    /\ Ev.ev = "Tick"
    /\ \E t \in TickChoices : now' = lastReset + t
    /\ act' = <<"Advance", FALSE>>
    /\ UNCHANGED <<cfg, value, lastReset, resetAfter>>

\* candidate draws that can explain the logged state (instead of enumerating the whole range)
IncCandidates == {Ev.value - value, cfg.minInc, cfg.maxInc - 1} \cap Incs
ResetCandidates == {Ev.resetAfter, cfg.minReset} \cap Resets

StepIncrement ==
    /\ Ev.ev = "Increment"
    /\ \E inc \in IncCandidates, r \in ResetCandidates : Increment(inc, r)
    /\ value' = Ev.value /\ resetAfter' = Ev.resetAfter

StepBackoffReset ==
    /\ Ev.ev = "BackoffReset"
    /\ \E r \in ResetCandidates : Reset(r)
    /\ value' = Ev.value /\ resetAfter' = Ev.resetAfter

TraceInit ==
    /\ cfg = [initial |-> 0, minInc |-> 0, maxInc |-> 1, maxValue |-> 0, minReset |-> 0, maxReset |-> 1]
    /\ value = 0 /\ lastReset = 0 /\ resetAfter = 0 /\ now = 0
    /\ act = <<"New", FALSE>>
    /\ i = 1

TraceNext ==
    /\ i <= Len(Rec)
    /\ i' = i + 1
    /\ (StepNew \/ StepTick \/ StepIncrement \/ StepBackoffReset)

TraceSpec == TraceInit /\ [][TraceNext]_tvars

TrResetsAfterInterval == [][ResetsAfterIntervalStep]_tvars
TrGrowsUntilMax == [][GrowsUntilMaxStep]_tvars

TraceAccepted ==
    LET d == TLCGet("stats").diameter IN
    IF d - 1 = Len(Rec) THEN TRUE
    ELSE Print(<<"TRACE_REJECTED", d - 1, Len(Rec), ToJson(Rec[d])>>, FALSE)
===========================================================================
