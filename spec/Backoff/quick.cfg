SPECIFICATION MCSpec
CONSTANTS
  Configs <- ConfigsSmall
  ClampOnAdd = TRUE
  MaxNow = 8
  MaxDt = 3
  MaxSteps = 9
INVARIANTS
  TypeOK
  WithinBounds
PROPERTIES
  MCResetsAfterInterval
  MCGrowsUntilMax
VIEW NoHistView
CHECK_DEADLOCK FALSE
