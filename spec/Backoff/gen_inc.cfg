SPECIFICATION MCSpec
CONSTANTS
  Configs <- ConfigsGenInc
  ClampOnAdd = TRUE
  MaxNow = 0
  MaxDt = 0
  MaxSteps = 5
INVARIANTS
  Export
CHECK_DEADLOCK FALSE
