SPECIFICATION MCSpec
CONSTANTS
  MaxSend = 3
  Variants = {"onetime", "longterm"}
  Modes = {"single", "both"}
  PreKeyGuard = TRUE
  MaxExtra = 99
INVARIANTS
  TypeOK
  C37_InOrderDecrypts
  C37_ReplayRejected
  UsedKeysDropped
  EstablishedCanSend
VIEW NoHistView
CHECK_DEADLOCK TRUE
