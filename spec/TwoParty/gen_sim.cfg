SPECIFICATION MCSpec
CONSTANTS
  MaxSend = 4
  Variants = {"onetime", "longterm"}
  Modes = {"single", "both"}
  PreKeyGuard = TRUE
  MaxExtra = 3
INVARIANTS
  Export
CHECK_DEADLOCK TRUE
