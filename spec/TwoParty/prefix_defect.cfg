* NOT a registered check: the code BEFORE fix c0800e1 (PreKeyGuard = FALSE). TLC reports C37_ReplayRejected
\* violated (long-term bundle, replay of the initial PreKey message). Kept as documentation / vacuity witness.
SPECIFICATION MCSpec
CONSTANTS
  MaxSend = 3
  Variants = {"onetime", "longterm"}
  Modes = {"single", "both"}
  PreKeyGuard = FALSE
  MaxExtra = 99
INVARIANTS
  TypeOK
  C37_InOrderDecrypts
  C37_ReplayRejected
  UsedKeysDropped
  EstablishedCanSend
VIEW NoHistView
CHECK_DEADLOCK TRUE
