----------------------------- MODULE TwoParty -----------------------------
(***************************************************************************)
(* Two-Party Secure Messaging (2SM) of p2panda-encryption:                 *)
(*   p2panda-encryption/src/two_party/two_party.rs                         *)
(*                                                                         *)
(* One session between the sides "A" and "B".  Every field of              *)
(* `TwoPartyState` is a variable (indexed by side), `send` / `receive` are *)
(* transcribed branch for branch.                                          *)
(*                                                                         *)
(* CRYPTOGRAPHY IS ABSTRACTED: a key pair is an *identity*                 *)
(*    [k |-> "pre", n |-> 0]   the receiver's published pre-key bundle     *)
(*    [k |-> "rcv", n |-> i]   the secret the SENDER generated for the     *)
(*                              receiver in its send number i              *)
(*    [k |-> "own", n |-> i]   the secret the RECEIVER generated itself in *)
(*                              its send number i                          *)
(* (identities are relative to the direction of the message), and          *)
(* "x3dh_decrypt / hpke_open succeeds" means "the secret found in the slot *)
(* the message points to (`key_used`) has the identity the message was     *)
(* sealed to".  The harness concretises every identity with real X25519    *)
(* keys and checks plaintext bytes.                                        *)
(***************************************************************************)
EXTENDS Integers, FiniteSets, Sequences

CONSTANTS MaxSend,      \* messages per direction (bound by construction)
          Variants,     \* subset of {"onetime", "longterm"}: kind of pre-key bundle
          Modes,        \* subset of {"single", "both"}: who holds a bundle of the peer
          PreKeyGuard   \* TRUE: `decrypt` rejects a PreKey message once a message of the peer
                        \* was received (the repaired code); FALSE: the code before the fix

Side == {"A", "B"}
Peer(s) == IF s = "A" THEN "B" ELSE "A"

VARIABLES
    variant,    \* "onetime" (OneTimeTwoParty) | "longterm" (LongTermTwoParty)
    mode,       \* "single": A = init_to_send(bundle of B), B = init_to_receive()
                \* "both"  : both sides init_to_send (how DCGKA sets sessions up lazily)
    next,       \* our_next_key_index
    min,        \* our_min_key_index
    ourKeys,    \* DOMAIN our_secret_keys
    recv,       \* our_received_secret_key: 0 = None, i = secret the peer made in its send i
    theirUsed,  \* their_next_key_used
    theirVK,    \* their_verifying_key (identity of the key pair), k = "none" for None
    prekey,     \* their_prekey_bundle.is_some()
    otk,        \* key manager still holds the one-time secret of OUR published bundle
    chan,       \* chan[s]: every message s has sent so far, in send order
    got         \* got[s]: number of messages of chan[Peer(s)] that s has processed (FIFO)

vars == <<variant, mode, next, min, ourKeys, recv, theirUsed, theirVK, prekey, otk, chan, got>>

PreKeyUsed      == [t |-> "PreKey", i |-> 0]
ReceivedKeyUsed == [t |-> "ReceivedKey", i |-> 0]
OwnKeyUsed(i)   == [t |-> "OwnKey", i |-> i]

NoKey    == [k |-> "none", n |-> 0]
PreKeyId == [k |-> "pre", n |-> 0]

---------------------------------------------------------------------------
\* two_party.rs:127-150.  (Written over argument names so that the trace specification can
\* re-initialise the primed variables with the same text.)
InitTo(v, m, variant_, mode_, next_, min_, ourKeys_, recv_, theirUsed_, theirVK_, prekey_, otk_, chan_, got_) ==
    /\ variant_ = v
    /\ mode_ = m
    /\ next_ = [s \in Side |-> 1]
    /\ min_ = [s \in Side |-> 1]
    /\ ourKeys_ = [s \in Side |-> {}]
    /\ recv_ = [s \in Side |-> 0]
    /\ theirUsed_ = [s \in Side |-> PreKeyUsed]
    /\ theirVK_ = [s \in Side |-> NoKey]
    /\ prekey_ = [s \in Side |-> (s = "A" \/ m = "both")]
    \* the one-time secret exists at the side whose bundle the peer holds
    /\ otk_ = [s \in Side |-> (v = "onetime" /\ (s = "B" \/ m = "both"))]
    /\ chan_ = [s \in Side |-> <<>>]
    /\ got_ = [s \in Side |-> 0]

Init ==
    \E v \in Variants, m \in Modes :
        InitTo(v, m, variant, mode, next, min, ourKeys, recv, theirUsed, theirVK, prekey, otk, chan, got)

---------------------------------------------------------------------------
(* send: two_party.rs:153-185, encrypt: 276-304                            *)

CanSend(s) == theirVK[s].k # "none" \/ prekey[s]

Send(s) ==
    /\ Len(chan[s]) < MaxSend
    /\ CanSend(s)
    /\ LET first == theirVK[s].k = "none"
           m == [idx  |-> next[s],                               \* sender_next_index
                 used |-> theirUsed[s],                          \* key_used
                 enc  |-> IF first THEN PreKeyId ELSE theirVK[s]] \* sealed to
       IN /\ chan' = [chan EXCEPT ![s] = Append(@, m)]
          /\ prekey' = IF first THEN [prekey EXCEPT ![s] = FALSE] ELSE prekey   \* .take()
    /\ ourKeys' = [ourKeys EXCEPT ![s] = @ \cup {next[s]}]
    /\ next' = [next EXCEPT ![s] = @ + 1]
    /\ theirVK' = [theirVK EXCEPT ![s] = [k |-> "rcv", n |-> next[s]]]
    /\ theirUsed' = [theirUsed EXCEPT ![s] = ReceivedKeyUsed]
    /\ UNCHANGED <<variant, mode, min, recv, otk, got>>

\* encrypt returns Err(PreKeyReuse): no verifying key yet and no bundle (init_to_receive side
\* that never received anything).  The caller keeps its old state.
SendRejected(s) ==
    /\ Len(chan[s]) < MaxSend
    /\ ~CanSend(s)
    /\ UNCHANGED vars

---------------------------------------------------------------------------
(* receive: two_party.rs:188-202, decrypt: 308-374                         *)

Decryptable(s, m) ==
    CASE m.used.t = "PreKey" ->
            /\ m.enc.k = "pre"                                   \* ciphertext type PreKey
            /\ (variant = "onetime" => otk[s])                   \* use_onetime_secret
            /\ (PreKeyGuard => recv[s] = 0)                      \* the fix
      [] m.used.t = "ReceivedKey" ->
            /\ m.enc.k \notin {"pre", "none"}                    \* ciphertext type Hpke
            /\ recv[s] # 0
            /\ m.enc = [k |-> "rcv", n |-> recv[s]]              \* hpke_open with that secret
      [] m.used.t = "OwnKey" ->
            /\ m.enc.k \notin {"pre", "none"}
            /\ m.used.i \in ourKeys[s]
            /\ m.enc = [k |-> "own", n |-> m.used.i]

Apply(s, m) ==
    /\ otk' = IF m.used.t = "PreKey" /\ variant = "onetime"
              THEN [otk EXCEPT ![s] = FALSE] ELSE otk
    /\ IF m.used.t = "OwnKey"
       THEN /\ ourKeys' = [ourKeys EXCEPT ![s] = {j \in @ : j < min[s] \/ j > m.used.i}]
            /\ min' = [min EXCEPT ![s] = m.used.i + 1]
       ELSE UNCHANGED <<ourKeys, min>>
    /\ theirVK' = [theirVK EXCEPT ![s] = [k |-> "own", n |-> m.idx]]
    /\ theirUsed' = [theirUsed EXCEPT ![s] = OwnKeyUsed(m.idx)]
    /\ recv' = [recv EXCEPT ![s] = m.idx]

Pending(s) == got[s] < Len(chan[Peer(s)])
HeadMsg(s) == chan[Peer(s)][got[s] + 1]

\* the next message of the peer, in send order
Receive(s) ==
    /\ Pending(s)
    /\ Decryptable(s, HeadMsg(s))
    /\ Apply(s, HeadMsg(s))
    /\ got' = [got EXCEPT ![s] = @ + 1]
    /\ UNCHANGED <<variant, mode, next, prekey, chan>>

\* an already processed message is handed to `receive` again.  What the code does: if it
\* decrypts, the state is overwritten as for a fresh message; otherwise Err, state kept.
Replay(s, j) ==
    /\ j \in 1..got[s]
    /\ IF Decryptable(s, chan[Peer(s)][j])
       THEN Apply(s, chan[Peer(s)][j])
       ELSE UNCHANGED <<otk, ourKeys, min, theirVK, theirUsed, recv>>
    /\ UNCHANGED <<variant, mode, next, prekey, chan, got>>

Quiescent == \A s \in Side : Len(chan[s]) = MaxSend /\ ~Pending(s)
Terminated == Quiescent /\ UNCHANGED vars

Next ==
    \/ \E s \in Side : Send(s) \/ SendRejected(s) \/ Receive(s)
    \/ \E s \in Side : \E j \in 1..got[s] : Replay(s, j)
    \/ Terminated

Spec == Init /\ [][Next]_vars

---------------------------------------------------------------------------
(* C37                                                                     *)

\* Whatever the interleaving of the two directions: the next message of the peer (send order)
\* decrypts (and, crypto abstracted, to its own plaintext: the key identities match).
InOrderDecrypts == \A s \in Side : Pending(s) => Decryptable(s, HeadMsg(s))

\* At every later point a processed message is rejected when it is processed again.
ReplayRejected == \A s \in Side : \A j \in 1..got[s] : ~Decryptable(s, chan[Peer(s)][j])

(* Beyond the listed property                                              *)
TypeOK ==
    /\ \A s \in Side : ourKeys[s] \subseteq min[s]..(next[s] - 1)
    /\ \A s \in Side : next[s] = Len(chan[s]) + 1
    /\ \A s \in Side : recv[s] \in 0..MaxSend
\* forward secrecy bookkeeping: a key the peer has used (or a later one) is gone
UsedKeysDropped ==
    \A s \in Side : \A j \in 1..got[s] :
        LET m == chan[Peer(s)][j] IN m.used.t = "OwnKey" => \A i \in ourKeys[s] : i > m.used.i
\* the session is usable in both directions as soon as one message got through
EstablishedCanSend == \A s \in Side : got[s] > 0 => CanSend(s)
===========================================================================
