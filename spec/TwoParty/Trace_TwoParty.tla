-------------------------- MODULE Trace_TwoParty --------------------------
(* Trace validation: events recorded from real TwoParty sessions (harness   *)
(* `vh-enc2 twoparty record`) must be behaviours of TwoParty; the C37        *)
(* invariants are evaluated in every state of the recorded execution.       *)
EXTENDS TwoParty, TLC, Json, IOUtils

Rec == ndJsonDeserialize(IOEnv.TRACE)

VARIABLE i
tvars == <<vars, i>>

Ev == Rec[i]

SeqRange(q) == {q[x] : x \in DOMAIN q}

\* the implementation's abstract state of side s after the call (if it was observable)
StMatches(s) ==
    Ev.has_st =>
        /\ next'[s] = Ev.st.next
        /\ min'[s] = Ev.st.min
        /\ ourKeys'[s] = SeqRange(Ev.st.keys)
        /\ recv'[s] = Ev.st.recv
        /\ theirUsed'[s] = [t |-> Ev.st.used_t, i |-> Ev.st.used_i]
        /\ theirVK'[s] = [k |-> Ev.st.vk_k, n |-> Ev.st.vk_n]
        /\ prekey'[s] = Ev.st.prekey
        /\ otk'[s] = Ev.st.otk

StepReset ==
    /\ Ev.ev = "Reset"
    /\ InitTo(Ev.variant, Ev.mode, variant', mode', next', min', ourKeys', recv', theirUsed', theirVK',
              prekey', otk', chan', got')

StepSend ==
    /\ Ev.ev = "Send" /\ Ev.ok
    /\ Send(Ev.s)
    /\ LET m == chan'[Ev.s][Len(chan'[Ev.s])] IN
          /\ m.idx = Ev.msg.idx
          /\ m.used = [t |-> Ev.msg.used_t, i |-> Ev.msg.used_i]       \* key_used of the real message
          /\ (m.enc.k = "pre") = (Ev.msg.ctype = "PreKey")             \* ciphertext type
          /\ Ev.has_st => m.enc = [k |-> Ev.msg.enc_k, n |-> Ev.msg.enc_n]
    /\ StMatches(Ev.s)

StepSendRejected ==
    /\ Ev.ev = "Send" /\ ~Ev.ok
    /\ SendRejected(Ev.s)

StepReceive ==
    /\ Ev.ev = "Receive"
    /\ Ev.ok /\ Ev.plain_ok             \* an in-order message that is rejected has no spec step
    /\ Ev.j = got[Ev.s] + 1
    /\ Receive(Ev.s)
    /\ StMatches(Ev.s)

StepReplay ==
    /\ Ev.ev = "Replay"
    /\ Ev.ok = Decryptable(Ev.s, chan[Peer(Ev.s)][Ev.j])
    /\ Replay(Ev.s, Ev.j)
    /\ StMatches(Ev.s)

TraceInit == Init /\ i = 1
TraceNext ==
    /\ i <= Len(Rec)
    /\ i' = i + 1
    /\ (StepReset \/ StepSend \/ StepSendRejected \/ StepReceive \/ StepReplay)
TraceSpec == TraceInit /\ [][TraceNext]_tvars

C37_InOrderDecrypts == InOrderDecrypts
C37_ReplayRejected == ReplayRejected

TraceAccepted ==
    LET d == TLCGet("stats").diameter IN
    IF d - 1 = Len(Rec) THEN TRUE
    ELSE Print(<<"TRACE_REJECTED", d - 1, Len(Rec), ToJson(Rec[d])>>, FALSE)
===========================================================================
