--------------------------- MODULE MC_TwoParty ---------------------------
(* Bounded instance of TwoParty for TLC + JSON export of every behaviour.  *)
EXTENDS TwoParty, TLC, Json

CONSTANTS MaxExtra      \* replays / rejected sends per exported behaviour (history bound only)

VARIABLES hist,         \* steps with the expected observable (hidden by VIEW in exhaustive runs)
          extra         \* number of Replay / SendRejected steps so far

mcvars == <<vars, hist, extra>>

\* abstract `TwoPartyState` (+ the one-time secret of the key manager) of side s, as JSON
StateJson(s) ==
    [next |-> next[s], min |-> min[s], keys |-> ourKeys[s], recv |-> recv[s],
     used_t |-> theirUsed[s].t, used_i |-> theirUsed[s].i,
     vk_k |-> theirVK[s].k, vk_n |-> theirVK[s].n,
     prekey |-> prekey[s], otk |-> otk[s]]

MsgJson(m) == [idx |-> m.idx, used_t |-> m.used.t, used_i |-> m.used.i, enc_k |-> m.enc.k, enc_n |-> m.enc.n]

MCInit == Init /\ hist = <<>> /\ extra = 0

MCSend(s) ==
    /\ Send(s)
    /\ hist' = Append(hist, [a |-> "Send", s |-> s, ok |-> TRUE, j |-> next[s],
                             msg |-> MsgJson(chan'[s][Len(chan'[s])]), st |-> StateJson(s)'])
    /\ extra' = extra

MCSendRejected(s) ==
    /\ extra < MaxExtra
    /\ SendRejected(s)
    /\ hist' = Append(hist, [a |-> "Send", s |-> s, ok |-> FALSE, j |-> next[s],
                             msg |-> MsgJson([idx |-> 0, used |-> PreKeyUsed, enc |-> NoKey]), st |-> StateJson(s)'])
    /\ extra' = extra + 1

MCReceive(s) ==
    /\ Receive(s)
    /\ hist' = Append(hist, [a |-> "Receive", s |-> s, ok |-> TRUE, j |-> got[s] + 1,
                             msg |-> MsgJson(HeadMsg(s)), st |-> StateJson(s)'])
    /\ extra' = extra

MCReplay(s, j) ==
    /\ extra < MaxExtra
    /\ Replay(s, j)
    /\ hist' = Append(hist, [a |-> "Replay", s |-> s, ok |-> Decryptable(s, chan[Peer(s)][j]), j |-> j,
                             msg |-> MsgJson(chan[Peer(s)][j]), st |-> StateJson(s)'])
    /\ extra' = extra + 1

MCTerminated == Quiescent /\ UNCHANGED mcvars

MCNext ==
    \/ \E s \in Side : MCSend(s) \/ MCSendRejected(s) \/ MCReceive(s)
    \/ \E s \in Side : \E j \in 1..MaxSend : MCReplay(s, j)     \* (guard j <= got[s] inside)
    \/ MCTerminated

MCSpec == MCInit /\ [][MCNext]_mcvars

NoHistView == vars

\* exhaustive runs: Replay / SendRejected do not change `vars`, so with the view they are
\* self-loops and MaxExtra does not matter (ReplayRejected is a state invariant: it speaks about
\* a replay of every processed message at every reachable point).

C37_InOrderDecrypts == InOrderDecrypts
C37_ReplayRejected == ReplayRejected

\* vacuity guards (negated: TLC must find them violated in a separate sanity config)
ReachedConcurrentPreKeys ==
    mode = "both" /\ \E s \in Side : got[s] > 0 /\ chan[Peer(s)][1].used.t = "PreKey" /\ Len(chan[s]) > 0 /\ chan[s][1].used.t = "PreKey"

Export ==
    Quiescent => PrintT(<<"REPLAY", ToJson([kind |-> "twoparty", variant |-> variant, mode |-> mode,
                                            guard |-> PreKeyGuard, steps |-> hist])>>)
===========================================================================
