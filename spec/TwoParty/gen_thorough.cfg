SPECIFICATION MCSpec
CONSTANTS
  MaxSend = 3
  Variants = {"onetime", "longterm"}
  Modes = {"single", "both"}
  PreKeyGuard = TRUE
  MaxExtra = 0
INVARIANTS
  Export
CHECK_DEADLOCK TRUE
