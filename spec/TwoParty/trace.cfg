SPECIFICATION TraceSpec
CONSTANTS
  MaxSend = 1000
  Variants = {"onetime"}
  Modes = {"single"}
  PreKeyGuard = TRUE
INVARIANTS
  TypeOK
  C37_InOrderDecrypts
  C37_ReplayRejected
  UsedKeysDropped
POSTCONDITION TraceAccepted
CHECK_DEADLOCK FALSE
