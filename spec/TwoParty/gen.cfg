SPECIFICATION MCSpec
CONSTANTS
  MaxSend = 2
  Variants = {"onetime", "longterm"}
  Modes = {"single", "both"}
  PreKeyGuard = TRUE
  MaxExtra = 1
INVARIANTS
  Export
CHECK_DEADLOCK TRUE
