SPECIFICATION MCSpec
CONSTANTS
  Author = {"a1", "a2"}
  Mallory = {"mx"}
  Log = {"l1", "l2"}
  MaxSeq = 4
  PrunePositions <- EvenPositions
  MaxDeliver = 10
  MaxInFlight = 3
  ForgeBudget = 2
  Classes <- PruneAttackClasses
  FineIngest = FALSE
  Batch = FALSE
  Worker = {}
  Variant_ReadLatestBeforeBegin = FALSE
  Defect_PruneAfterFailedIngest = FALSE
  Defect_PruneFlagSkipsLatestCheck = FALSE
  Defect_LogIdFromTopicUnchecked = FALSE
INVARIANTS
  Export
  C01_OnlyAuthenticStored
  C03_UniqueSeq
  C03_Linked
  C05_NoResurrection
CHECK_DEADLOCK FALSE
