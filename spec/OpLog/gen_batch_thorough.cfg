SPECIFICATION MCSpec
CONSTANTS
  Author = {"a1"}
  Mallory = {"mx"}
  Log = {"l1"}
  MaxSeq = 3
  PrunePositions <- NonZeroPositions
  MaxDeliver = 4
  MaxInFlight = 3
  ForgeBudget = 0
  Classes <- AllClasses
  FineIngest = FALSE
  Batch = TRUE
  Worker = {}
  Variant_ReadLatestBeforeBegin = FALSE
  Defect_PruneAfterFailedIngest = FALSE
  Defect_PruneFlagSkipsLatestCheck = FALSE
  Defect_LogIdFromTopicUnchecked = FALSE
INVARIANTS
  Export
CHECK_DEADLOCK FALSE
