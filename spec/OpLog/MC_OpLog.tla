------------------------------ MODULE MC_OpLog ------------------------------
(***************************************************************************)
(* Bounded instance of OpLog for TLC: the honest world, the forgery        *)
(* classes, the delivery driver, the history variable and the JSON export. *)
(***************************************************************************)
EXTENDS OpLog, TLC, Json

CONSTANTS
    Author,         \* honest, non-equivocating authors
    Mallory,        \* author names (keys) owned by the attacker; the attacker may equivocate
    Log,
    MaxSeq,         \* honest chains have the operations 0..MaxSeq
    PrunePositions, \* <<a, l, s>> at which the honest author MAY have set the prune flag
    MaxDeliver,     \* number of submissions per behaviour
    MaxInFlight,    \* events inside the pipeline at the same time (concurrent callers)
    ForgeBudget,    \* submissions per behaviour that are not honest operations
    Classes,        \* forgery classes in use
    FineIngest,     \* TRUE: ingest_operation one await point per action, several workers
    Batch           \* TRUE: export shape [Submit^k Ingest^k Prune^k]* (queue k calls, run them, prune)

VARIABLES
    world,          \* the set of <<a, l, s>> where the honest operation carries the prune flag
    n, forged,      \* submissions so far / forged submissions so far
    phase,          \* Batch mode: "fill" | "ingest" | "prune"
    hist            \* the behaviour, as the harness replays it

mcvars == <<vars, world, n, forged, phase, hist>>

---------------------------------------------------------------------------
(* The honest world: one operation per (author, log, seq) - no equivocation *)

HId(a, l, s) == [a |-> a, l |-> l, seq |-> s, v |-> "Honest"]

H(a, l, s) ==
    [id |-> HId(a, l, s), a |-> a, l |-> l, ol |-> l, seq |-> s,
     prune |-> (<<a, l, s>> \in world),
     bl |-> IF s = 0 THEN NoId ELSE HId(a, l, s - 1),
     wf |-> TRUE]

(* Forgery classes.  Every class is a mutation of an honest operation `b`;  *)
(* `x` is the class parameter (an author name or a sequence number).        *)
(* The item carries the header fields AFTER the mutation (they are what     *)
(* Event::new reads) and the verdict validate_operation must give.          *)
ParamTag(k, x) ==
    IF k \in {"SeqChanged", "GapLinked"} THEN ToString(x)
    ELSE IF k \in {"ClaimOtherAuthor", "ForgedPrune", "Resigned", "ResignedLinked"} THEN x ELSE ""
FId(b, k, x) == [b.id EXCEPT !.v = k \o ":" \o ParamTag(k, x)]

\* signed by the claimed author, but malformed: one validate_header / validate_operation branch each
SignedMalformed == {"BadVersion", "PayloadInfoInconsistent", "BacklinkSeqInconsistent", "BodyMismatch"}

Forge(b, k, x) ==
    CASE k = "BadSig"            -> [b EXCEPT !.id = FId(b, k, x), !.wf = FALSE]
      [] k \in SignedMalformed   -> [b EXCEPT !.id = FId(b, k, x), !.wf = FALSE]
      \* header field changed without re-signing
      [] k = "ClaimOtherAuthor"  -> [b EXCEPT !.id = FId(b, k, x), !.wf = FALSE, !.a = x]
      [] k = "PruneFlipped"      -> [b EXCEPT !.id = FId(b, k, x), !.wf = FALSE, !.prune = ~b.prune]
      [] k = "SeqChanged"        -> [b EXCEPT !.id = FId(b, k, x), !.wf = FALSE, !.seq = x]
      [] k = "BacklinkChanged"   -> [b EXCEPT !.id = FId(b, k, x), !.wf = FALSE,
                                              !.bl = [b.id EXCEPT !.v = "Elsewhere"]]
      \* fabricated header naming a victim, prune flag set, garbage signature (the C04 attack)
      [] k = "ForgedPrune"       -> [b EXCEPT !.id = FId(b, k, x), !.wf = FALSE, !.a = x, !.prune = TRUE]
      \* verifying key replaced by the attacker's and re-signed with the attacker's key:
      \* a VALID operation of the attacker whose backlink points into the victim's log
      [] k = "Resigned"          -> [b EXCEPT !.id = FId(b, k, x), !.a = x]
      \* signed by the log's OWN author, no prune flag, but the sequence number x skips at least one
      \* number after the operation b it backlinks to (b.seq + 2 <= x; x = MaxSeq + 2 stands for a
      \* far jump, the harness uses u32::MAX): never extends the log - if b is the latest stored entry
      \* it is "non-incremental seq", if the latest is another entry it is "wrong backlink"
      [] k = "GapLinked"         -> [b EXCEPT !.id = FId(b, k, x), !.seq = x, !.bl = b.id, !.prune = FALSE]
      \* the attacker mirrors the victim's chain under its own key: like Resigned, but the backlink is
      \* fixed up to the attacker's copy of the predecessor (a well-linked attacker chain)
      \* (at seq 0 there is no backlink: the copy IS the Resigned copy, same bytes, same id)
      [] k = "ResignedLinked"    -> [b EXCEPT !.id = FId(b, IF b.seq = 0 THEN "Resigned" ELSE k, x), !.a = x,
                                              !.bl = IF b.seq = 0 THEN NoId
                                                     ELSE [b.bl EXCEPT !.v = (IF b.seq = 1 THEN "Resigned" ELSE k) \o ":" \o x]]
      \* the honest operation itself (same hash), delivered on the topic of ANOTHER log x
      [] k = "CrossLog"          -> [b EXCEPT !.l = x]

Params(b, k) ==
    CASE k \in {"ClaimOtherAuthor", "ForgedPrune"} -> (Author \cup Mallory) \ {b.a}
      [] k \in {"Resigned", "ResignedLinked"} -> Mallory
      [] k = "CrossLog"   -> Log \ {b.l}
      [] k = "SeqChanged" -> (0..MaxSeq) \ {b.seq}
      [] k = "GapLinked"  -> (b.seq + 2)..(MaxSeq + 2)
      [] OTHER            -> {0}

---------------------------------------------------------------------------
StoreIds(S) == {e.id : e \in S}

MCInit ==
    /\ Init
    /\ world \in SUBSET PrunePositions
    /\ n = 0 /\ forged = 0 /\ hist = <<>> /\ phase = "fill"

DoSubmit(it, k, b) ==
    /\ Submit(it)
    /\ hist' = Append(hist, [act |-> "Submit", cls |-> k, base |-> b.id, item |-> it])
    /\ n' = n + 1

InCalls == Cardinality({w \in Worker : ing[w].pc # "idle"})

MCSubmit ==
    /\ n < MaxDeliver
    /\ Len(inQ) + Len(pruneQ) + InCalls < MaxInFlight
    /\ Batch => phase = "fill"
    /\ phase' = phase
    /\ \E a \in Author, l \in Log, s \in 0..MaxSeq :
          LET b == H(a, l, s)
          IN \/ DoSubmit(b, "Honest", b) /\ forged' = forged
             \/ /\ forged < ForgeBudget
                /\ forged' = forged + 1
                /\ \E k \in Classes : \E x \in Params(b, k) : DoSubmit(Forge(b, k, x), k, b)
    /\ UNCHANGED world

MCIngest ==
    /\ ~FineIngest
    /\ IngestStep
    /\ hist' = Append(hist, [act |-> "Ingest", res |-> pruneQ'[Len(pruneQ')].res,
                             store |-> StoreIds(store')])
    /\ Batch => phase # "prune"
    /\ phase' = IF Batch THEN "ingest" ELSE phase
    /\ UNCHANGED <<world, n, forged>>

\* one await point of one concurrent ingest_operation call; the call's return is what hist records
MCIngestCall ==
    /\ FineIngest
    /\ \E w \in Worker : IngestCall(w)
    /\ hist' = IF Len(pruneQ') = Len(pruneQ) + 1
               THEN Append(hist, [act |-> "Ingest", res |-> pruneQ'[Len(pruneQ')].res,
                                  store |-> StoreIds(store')])
               ELSE hist
    /\ UNCHANGED <<world, n, forged, phase>>

MCPrune ==
    /\ LogPruneStep
    /\ LET ev == Head(pruneQ)
       IN hist' = Append(hist, [act |-> "Prune", active |-> PruneActive(ev),
                                a |-> ev.item.a, l |-> ev.item.l, until |-> ev.item.seq,
                                pruned |-> last'.pruned, store |-> StoreIds(store')])
    /\ Batch => inQ = <<>>
    /\ phase' = IF ~Batch THEN phase ELSE IF Len(pruneQ) = 1 THEN "fill" ELSE "prune"
    /\ UNCHANGED <<world, n, forged>>

MCNext == MCSubmit \/ MCIngest \/ MCIngestCall \/ MCPrune
MCSpec == MCInit /\ [][MCNext]_mcvars

Done == n = MaxDeliver /\ inQ = <<>> /\ pruneQ = <<>> /\ InCalls = 0

(* VIEW for the exhaustive configs.  Hidden: `hist` (export only), `last` (no action reads it)  *)
(* and the class tag of items that fail validate_operation - IngestOutcome, PruneActive and    *)
(* ToDelete read only (a, l, seq, prune) of such an item, so states that differ in nothing     *)
(* else have the same futures.                                                                 *)
ViewItem(it) ==
    IF it.wf THEN it
    ELSE [it EXCEPT !.id = [a |-> "", l |-> "", seq |-> -1, v |-> "Invalid"], !.bl = NoId, !.ol = it.l]
NoHistView ==
    <<store, [i \in DOMAIN inQ |-> ViewItem(inQ[i])],
      [i \in DOMAIN pruneQ |-> [item |-> ViewItem(pruneQ[i].item), res |-> pruneQ[i].res]],
      applied, ingested, world, n, forged, phase,
      [w \in Worker |-> [pc |-> ing[w].pc, item |-> ViewItem(ing[w].item), tip |-> ing[w].tip]],
      permQ, holder>>

Export ==
    Done => PrintT(<<"REPLAY", ToJson([kind |-> "oplog", world |-> world, steps |-> hist])>>)

---------------------------------------------------------------------------
(* Action properties have to be stated over the MC variables               *)
MC_C01_RejectLeavesNoTrace == [][A_C01_RejectLeavesNoTrace]_mcvars
MC_C03_HeightMonotone == [][A_C03_HeightMonotone]_mcvars
MC_C03_RejectsNonExtending == [][A_C03_RejectsNonExtending]_mcvars
MC_C04_DeletesOnlyByValidPrune == [][A_C04_DeletesOnlyByValidPrune]_mcvars
MC_C04_ValidPruneDeletesExactly == [][A_C04_ValidPruneDeletesExactly]_mcvars
MC_C05_NoInsertBelowPrunePoint == [][A_C05_NoInsertBelowPrunePoint]_mcvars

---------------------------------------------------------------------------
(* Vacuity guards ("branch reached"): used negated in reach.cfg - TLC must  *)
(* report each of them VIOLATED, i.e. the situation occurs in the model.    *)
Reach_PruneDeletes == ~(pruneQ # <<>> /\ ToDelete(store, Head(pruneQ)) # {})
Reach_RejectedValidOp == ~(pruneQ # <<>> /\ Head(pruneQ).item.wf /\ Head(pruneQ).res = "Rejected")
Reach_LatePruneRejected ==
    ~(pruneQ # <<>> /\ Head(pruneQ).item.wf /\ Head(pruneQ).item.prune /\ Head(pruneQ).res = "Rejected")
Reach_AlreadyExists == ~(pruneQ # <<>> /\ Head(pruneQ).res = "AlreadyExists")
Reach_TwoInFlight == ~(Len(inQ) + Len(pruneQ) >= 2)
Reach_TwoCallsSameLogWaiting ==
    ~(\E v, w \in Worker : v # w /\ ing[v].pc = "wait" /\ ing[w].pc = "wait"
                              /\ ing[v].item.a = ing[w].item.a /\ ing[v].item.l = ing[w].item.l)
Reach_GapAfterPruneJump == ~(\E e \in store : e.prune /\ e.seq > 0 /\ ~\E p \in store : SameLog(p, e) /\ p.seq = e.seq - 1)

---------------------------------------------------------------------------
(* Option sets for the configs (cfg files cannot write tuples)              *)
AllPositions == Author \X Log \X (0..MaxSeq)
FirstAuthorPositions == {p \in AllPositions : p[1] = "a1"}
LastOfFirstAuthor == {p \in AllPositions : p[1] = "a1" /\ p[3] = MaxSeq}
EvenPositions == {p \in AllPositions : p[3] > 0 /\ p[3] % 2 = 0}
NonZeroPositions == {p \in AllPositions : p[3] > 0}
NoPositions == {}
AllClasses == {"BadSig", "BadVersion", "PayloadInfoInconsistent", "BacklinkSeqInconsistent",
               "BodyMismatch", "ClaimOtherAuthor", "PruneFlipped", "SeqChanged",
               "BacklinkChanged", "ForgedPrune", "Resigned"}
OnlyResigned == {"Resigned", "ResignedLinked"}
OnlyCrossLog == {"CrossLog"}
OnlyGapLinked == {"GapLinked"}
PruneAttackClasses == {"ForgedPrune", "PruneFlipped", "ClaimOtherAuthor", "BadSig", "Resigned"}
=============================================================================
