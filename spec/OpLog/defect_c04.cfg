\* Documentation config (not a registered step): the code AS FOUND before the fix commit.
\* TLC must report MC_C04_DeletesOnlyByValidPrune violated (forged prune-flagged header deletes a log).
SPECIFICATION MCSpec
CONSTANTS
  Author = {"a1", "a2"}
  Mallory = {"mx"}
  Log = {"l1"}
  MaxSeq = 1
  PrunePositions <- LastOfFirstAuthor
  MaxDeliver = 3
  MaxInFlight = 1
  ForgeBudget = 1
  Classes <- AllClasses
  FineIngest = FALSE
  Batch = FALSE
  Worker = {}
  Variant_ReadLatestBeforeBegin = FALSE
  Defect_PruneAfterFailedIngest = TRUE
  Defect_PruneFlagSkipsLatestCheck = FALSE
  Defect_LogIdFromTopicUnchecked = FALSE
PROPERTIES
  MC_C04_DeletesOnlyByValidPrune
VIEW NoHistView
CHECK_DEADLOCK FALSE
