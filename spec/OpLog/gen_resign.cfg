SPECIFICATION MCSpec
CONSTANTS
  Author = {"a1"}
  Mallory = {"mx"}
  Log = {"l1"}
  MaxSeq = 2
  PrunePositions <- LastOfFirstAuthor
  MaxDeliver = 3
  MaxInFlight = 1
  ForgeBudget = 4
  Classes <- OnlyResigned
  FineIngest = FALSE
  Batch = FALSE
  Worker = {}
  Variant_ReadLatestBeforeBegin = FALSE
  Defect_PruneAfterFailedIngest = FALSE
  Defect_PruneFlagSkipsLatestCheck = FALSE
  Defect_LogIdFromTopicUnchecked = FALSE
INVARIANTS
  Export
  C03_UniqueSeq
  C03_Linked
CHECK_DEADLOCK FALSE
