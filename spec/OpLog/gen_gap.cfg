SPECIFICATION MCSpec
CONSTANTS
  Author = {"a1"}
  Mallory = {"mx"}
  Log = {"l1"}
  MaxSeq = 2
  PrunePositions <- LastOfFirstAuthor
  MaxDeliver = 4
  MaxInFlight = 1
  ForgeBudget = 1
  Classes <- OnlyGapLinked
  FineIngest = FALSE
  Batch = FALSE
  Worker = {}
  Variant_ReadLatestBeforeBegin = FALSE
  Defect_PruneAfterFailedIngest = FALSE
  Defect_PruneFlagSkipsLatestCheck = FALSE
  Defect_LogIdFromTopicUnchecked = FALSE
INVARIANTS
  Export
CHECK_DEADLOCK FALSE
