\* Documentation config (not a registered step): get_latest_entry as a plain pool read BEFORE begin().
\* TLC must report a C05 / C03 property violated (stale tip: older prune-flagged op stored below a newer prune point).
SPECIFICATION MCSpec
CONSTANTS
  Author = {"a1"}
  Mallory = {"mx"}
  Log = {"l1"}
  MaxSeq = 3
  PrunePositions <- AllPositions
  MaxDeliver = 3
  MaxInFlight = 3
  ForgeBudget = 0
  Classes <- AllClasses
  FineIngest = TRUE
  Batch = FALSE
  Worker = {"w1", "w2"}
  Variant_ReadLatestBeforeBegin = TRUE
  Defect_PruneAfterFailedIngest = FALSE
  Defect_PruneFlagSkipsLatestCheck = FALSE
  Defect_LogIdFromTopicUnchecked = FALSE
INVARIANTS
  C05_NoResurrection
PROPERTIES
  MC_C05_NoInsertBelowPrunePoint
VIEW NoHistView
CHECK_DEADLOCK FALSE
