\* The same bounds with the log-id check the property needs: every invariant holds.
SPECIFICATION MCSpec
CONSTANTS
  Author = {"a1"}
  Mallory = {"mx"}
  Log = {"l1", "l2"}
  MaxSeq = 2
  PrunePositions <- LastOfFirstAuthor
  MaxDeliver = 4
  MaxInFlight = 1
  ForgeBudget = 1
  Classes <- OnlyCrossLog
  Defect_PruneAfterFailedIngest = FALSE
  Defect_PruneFlagSkipsLatestCheck = FALSE
  Defect_LogIdFromTopicUnchecked = FALSE
INVARIANTS
  C01_OnlyAuthenticStored
  C03_UniqueSeq
  C03_Linked
  C05_NoResurrection
PROPERTIES
  MC_C04_DeletesOnlyByValidPrune
VIEW NoHistView
CHECK_DEADLOCK FALSE
