------------------------------- MODULE OpLog -------------------------------
(***************************************************************************)
(* Validation, ingest and log-prefix pruning of p2panda operations.        *)
(*                                                                         *)
(* What is modelled (one action per transaction / processor stage):        *)
(*                                                                         *)
(*   Submit(it)    `Pipeline::process` (p2panda/src/processor/pipeline.rs  *)
(*                 :170) - the caller built `Event::new(operation, log_id, *)
(*                 topic, prune_flag)` (event.rs:47) and pushed it into    *)
(*                 the pipeline channel.  Sync, import, publish and replay *)
(*                 all funnel into this call (streams/stream.rs:331,428).  *)
(*   IngestStep    the `Ingest` processor takes the head of the channel    *)
(*                 and runs `ingest_operation`                             *)
(*                 (p2panda-stream/src/ingest/operation.rs:21-92):         *)
(*                 validate_operation, then ONE store transaction          *)
(*                 { has_operation_tx; get_latest_entry_tx;                *)
(*                   validate_prunable_backlink; insert; commit }.         *)
(*                 The pipeline maps Ok/Err into `event.ingest`            *)
(*                 (pipeline.rs:108-117) and hands the event on.           *)
(*   LogPruneStep  the `LogPrune` processor                                *)
(*                 (p2panda-stream/src/log_prune/processor.rs:55-80) takes *)
(*                 the next event and executes its `LogPruneArgs`:         *)
(*                 `prune_entries(author, log, seq)` = DELETE seq < until  *)
(*                 (p2panda-store/src/logs/sqlite/mod.rs:261), one         *)
(*                 statement.  Then the task is marked done and            *)
(*                 `Pipeline::process` returns the event (`last`).         *)
(*                                                                         *)
(* Several callers (topic streams) share one pipeline, so events of        *)
(* different callers are in flight at the same time: IngestStep of a later *)
(* event can run before LogPruneStep of an earlier one (two FIFO stages).  *)
(*                                                                         *)
(* What is abstract: bytes, hashes and signatures.  An operation is an     *)
(* ITEM: the header fields the code branches on plus `wf`, the verdict of  *)
(* `validate_operation` (p2panda-core/src/operation.rs:484-546) as DATA.   *)
(* Forged / tampered operations are CLASSES of items (MC_OpLog.tla); the   *)
(* conformance harness concretises every class with real Ed25519 / BLAKE3  *)
(* / CBOR bytes and checks that the real verdict is the one assumed here.  *)
(*                                                                         *)
(* The two constants Defect_* switch in the behaviour of the code AS FOUND *)
(* (DESIGN.md section 7); with both FALSE the spec describes the repaired  *)
(* code (see NOTES.md for the commits).                                    *)
(***************************************************************************)
EXTENDS Integers, Sequences, FiniteSets

CONSTANTS
    Worker,                            \* concurrent callers of ingest_operation on the one store
                                       \* (several pipelines / streams sharing it); strings
    Variant_ReadLatestBeforeBegin,     \* NOT the code: the latest entry read with a plain pool read
                                       \* before begin() - documents why the read sits inside the tx
    Defect_PruneAfterFailedIngest,     \* C04 as found: a failed ingest still reaches LogPrune with
                                       \* the args Event::new derived from the unverified header
    Defect_PruneFlagSkipsLatestCheck,  \* C05 as found: prune flag + seq > 0 => no comparison with
                                       \* the stored latest entry at all
    Defect_LogIdFromTopicUnchecked     \* C04, unrepaired (known finding): the node takes the log id from
                                       \* the topic an operation ARRIVES on (stream.rs:341) and never
                                       \* compares it with the log id the signed header names

VARIABLES
    store,      \* set of entries (rows of operations_v1)
    inQ,        \* events submitted and not yet ingested            (FIFO)
    pruneQ,     \* events ingested, waiting for the LogPrune stage  (FIFO)
    applied,    \* prune points [a, l, seq] whose LogPrune ran as the effect of a validated op
    ingested,   \* prune points [a, l, seq] ever INSERTED by ingest (history, for C05)
    last,       \* the event `Pipeline::process` returned last (NoEvent at the start)
    ing,        \* per worker: the ingest_operation call it is executing [pc, item, tip]
    permQ,      \* workers waiting in store.begin() for the transaction permit (tokio semaphore: FIFO)
    holder      \* the worker holding the transaction permit ("" = free)

ivars == <<ing, permQ, holder>>
vars == <<store, inQ, pruneQ, applied, ingested, last, ing, permQ, holder>>

---------------------------------------------------------------------------
(* Items.  `id` stands for the operation hash (operation id); ids are      *)
(* records so that they survive JSON.  NoId = "no backlink".               *)

NoId == [a |-> "", l |-> "", seq |-> -1, v |-> ""]

\* shape of an item (documentation; TLC never enumerates it):
\*   [id, a, l, ol, seq, prune, bl, wf]
\*   a     header.verifying_key (the CLAIMED author)
\*   l     the log id handed to ingest / LogPrune (node: LogId::from_topic(topic))
\*   ol    the operation's OWN log: the log id its signed header names (extensions.log_id)
\*   seq   header.seq_num             prune  the prune flag handed to ingest / Event::new
\*   bl    header.backlink            wf     validate_operation(operation) = Ok
Entry(it) == it                 \* a stored row keeps exactly these fields

NoEntry == [id |-> NoId, a |-> "", l |-> "", ol |-> "", seq |-> -1, prune |-> FALSE, bl |-> NoId, wf |-> FALSE]
NoEvent == [item |-> NoEntry, res |-> "None", pruned |-> 0]

LogOf(S, a, l) == {e \in S : e.a = a /\ e.l = l}
SameLog(e, f) == e.a = f.a /\ e.l = f.l
Height(S, a, l) ==
    LET es == LogOf(S, a, l)
    IN IF es = {} THEN -1 ELSE CHOOSE h \in {e.seq : e \in es} : \A e \in es : e.seq <= h

\* GET_LATEST_ENTRY: ORDER BY seq_num DESC LIMIT 1 (logs/sqlite/mod.rs:18)
Latest(S, a, l) ==
    LET es == LogOf(S, a, l)
    IN IF es = {} THEN NoEntry ELSE CHOOSE e \in es : \A f \in es : f.seq <= e.seq

---------------------------------------------------------------------------
(* ingest_operation, branch for branch                                     *)

\* operation.rs:555-588.  TooManyAuthors cannot happen here: `past` was fetched with it.a.
ValidateBacklink(past, it) ==
    /\ past.seq + 1 = it.seq
    /\ it.bl # NoId
    /\ it.bl = past.id

\* prune.rs:74-101
ValidatePrunableBacklink(past, it) ==
    IF it.seq > 0
    THEN IF ~it.prune
         THEN past # NoEntry /\ ValidateBacklink(past, it)
         ELSE \/ Defect_PruneFlagSkipsLatestCheck
              \/ past = NoEntry
              \/ past.seq < it.seq                 \* repaired: the log must not have progressed
    ELSE past = NoEntry \/ ValidateBacklink(past, it)

\* What validation would have to include for C04 to hold at node level; the code does not check it.
ArrivedOnOwnLog(it) == Defect_LogIdFromTopicUnchecked \/ it.l = it.ol

IngestOutcome(S, it) ==
    IF ~it.wf \/ ~ArrivedOnOwnLog(it) THEN "Rejected"                  \* operation.rs:36
    ELSE IF \E e \in S : e.id = it.id THEN "AlreadyExists"             \* :44-56 (by hash, any log)
    ELSE IF ValidatePrunableBacklink(Latest(S, it.a, it.l), it)        \* :59-71
         THEN "Inserted" ELSE "Rejected"

\* Event::new (event.rs:60-68) derives the args from the header BEFORE validation;
\* the pipeline (pipeline.rs:108-117) keeps / (repaired) drops them after a failed ingest.
PruneActive(ev) ==
    /\ ev.item.prune
    /\ (Defect_PruneAfterFailedIngest \/ ev.res # "Rejected")

ToDelete(S, ev) ==
    IF PruneActive(ev)
    THEN {e \in S : e.a = ev.item.a /\ e.l = ev.item.l /\ e.seq < ev.item.seq}
    ELSE {}

PrunePoint(it) == [a |-> it.a, l |-> it.l, seq |-> it.seq]

NoWorker == ""
IdleCall == [pc |-> "idle", item |-> NoEntry, tip |-> NoEntry]

---------------------------------------------------------------------------
Init ==
    /\ store = {} /\ inQ = <<>> /\ pruneQ = <<>>
    /\ applied = {} /\ ingested = {} /\ last = NoEvent
    /\ ing = [w \in Worker |-> IdleCall] /\ permQ = <<>> /\ holder = NoWorker

Submit(it) ==
    /\ inQ' = Append(inQ, it)
    /\ UNCHANGED <<store, pruneQ, applied, ingested, last, ivars>>

IngestStep ==
    /\ inQ # <<>>
    /\ LET it == Head(inQ)
           res == IngestOutcome(store, it)
       IN /\ store' = IF res = "Inserted" THEN store \cup {Entry(it)} ELSE store
          /\ ingested' = IF res = "Inserted" /\ it.prune
                         THEN ingested \cup {PrunePoint(it)} ELSE ingested
          /\ pruneQ' = Append(pruneQ, [item |-> it, res |-> res])
    /\ inQ' = Tail(inQ)
    /\ UNCHANGED <<applied, last, ivars>>

---------------------------------------------------------------------------
(* The same call, one action per await point, for several concurrent callers.  IngestStep above   *)
(* is one call running alone; the steps below are what TLC interleaves when Worker has >= 2       *)
(* elements (operation.rs line numbers).                                                           *)

Finish(w, it, res) ==
    /\ pruneQ' = Append(pruneQ, [item |-> it, res |-> res])
    /\ ing' = [ing EXCEPT ![w] = IdleCall]

\* the caller takes the next event and enters ingest_operation
IngStart(w) ==
    /\ ing[w].pc = "idle" /\ inQ # <<>>
    /\ ing' = [ing EXCEPT ![w] = [pc |-> "validate", item |-> Head(inQ), tip |-> NoEntry]]
    /\ inQ' = Tail(inQ)
    /\ UNCHANGED <<store, pruneQ, applied, ingested, last, permQ, holder>>

\* :36 validate_operation; :41 store.begin() = join the FIFO queue of the permit semaphore
IngValidate(w) ==
    /\ ing[w].pc = "validate"
    /\ LET it == ing[w].item
       IN IF ~it.wf \/ ~ArrivedOnOwnLog(it)
          THEN Finish(w, it, "Rejected") /\ UNCHANGED <<permQ>>
          ELSE /\ ing' = [ing EXCEPT ![w].pc = "wait",
                                     ![w].tip = IF Variant_ReadLatestBeforeBegin
                                                THEN Latest(store, it.a, it.l) ELSE NoEntry]
               /\ permQ' = Append(permQ, w)
               /\ UNCHANGED pruneQ
    /\ UNCHANGED <<store, inQ, applied, ingested, last, holder>>

\* begin() returns: permit acquired, transaction open
IngBegin(w) ==
    /\ ing[w].pc = "wait" /\ holder = NoWorker /\ permQ # <<>> /\ Head(permQ) = w
    /\ holder' = w /\ permQ' = Tail(permQ)
    /\ ing' = [ing EXCEPT ![w].pc = "exists"]
    /\ UNCHANGED <<store, inQ, pruneQ, applied, ingested, last>>

\* :47-58 has_operation_tx; rollback + Ok(false) when it exists
IngCheckExists(w) ==
    /\ ing[w].pc = "exists" /\ holder = w
    /\ LET it == ing[w].item
       IN IF \E e \in store : e.id = it.id
          THEN Finish(w, it, "AlreadyExists") /\ holder' = NoWorker
          ELSE ing' = [ing EXCEPT ![w].pc = "read"] /\ UNCHANGED <<pruneQ, holder>>
    /\ UNCHANGED <<store, inQ, applied, ingested, last, permQ>>

\* :62-66 get_latest_entry_tx - INSIDE the transaction, under the permit
IngReadLatest(w) ==
    /\ ing[w].pc = "read" /\ holder = w
    /\ ing' = [ing EXCEPT ![w].pc = "insert",
                          ![w].tip = IF Variant_ReadLatestBeforeBegin THEN ing[w].tip
                                     ELSE Latest(store, ing[w].item.a, ing[w].item.l)]
    /\ UNCHANGED <<store, inQ, pruneQ, applied, ingested, last, permQ, holder>>

\* :70 validate_prunable_backlink against the tip read above; :76-90 insert, associate, commit
IngInsertCommit(w) ==
    /\ ing[w].pc = "insert" /\ holder = w
    /\ LET it == ing[w].item
           res == IF ValidatePrunableBacklink(ing[w].tip, it) THEN "Inserted" ELSE "Rejected"
       IN /\ store' = IF res = "Inserted" THEN store \cup {Entry(it)} ELSE store
          /\ ingested' = IF res = "Inserted" /\ it.prune
                         THEN ingested \cup {PrunePoint(it)} ELSE ingested
          /\ Finish(w, it, res)
    /\ holder' = NoWorker          \* commit / (error path) permit dropped
    /\ UNCHANGED <<inQ, applied, last, permQ>>

IngestCall(w) ==
    \/ IngStart(w) \/ IngValidate(w) \/ IngBegin(w)
    \/ IngCheckExists(w) \/ IngReadLatest(w) \/ IngInsertCommit(w)

LogPruneStep ==
    /\ pruneQ # <<>>
    /\ LET ev == Head(pruneQ)
           del == ToDelete(store, ev)
       IN /\ store' = store \ del
          /\ applied' = IF PruneActive(ev) /\ ev.item.wf /\ ev.res # "Rejected"
                        THEN applied \cup {PrunePoint(ev.item)} ELSE applied
          /\ last' = [item |-> ev.item, res |-> ev.res, pruned |-> Cardinality(del)]
    /\ pruneQ' = Tail(pruneQ)
    /\ UNCHANGED <<inQ, ingested, ivars>>

---------------------------------------------------------------------------
(* C01  only authentic, well-formed operations are ingested or delivered   *)

C01_OnlyAuthenticStored == \A e \in store : e.wf

C01_InvalidNeverCompleted ==            \* `is_completed` / StreamEvent::Processed
    /\ \A i \in DOMAIN pruneQ : ~pruneQ[i].item.wf => pruneQ[i].res = "Rejected"
    /\ last # NoEvent /\ ~last.item.wf => last.res = "Rejected"

\* an ingest_operation call returns (either grain): its event is appended to pruneQ
IsIngestStep == Len(pruneQ') = Len(pruneQ) + 1
IngestedItem == pruneQ'[Len(pruneQ')].item
IsPruneStep == pruneQ # <<>> /\ pruneQ' = Tail(pruneQ)

A_C01_RejectLeavesNoTrace ==
    IsIngestStep /\ pruneQ'[Len(pruneQ')].res = "Rejected" => store' = store
C01_RejectLeavesNoTrace == [][A_C01_RejectLeavesNoTrace]_vars

---------------------------------------------------------------------------
(* C03  every stored log is a hash-linked, gap-free chain                  *)

C03_UniqueSeq ==
    \A e, f \in store : SameLog(e, f) /\ e.seq = f.seq => e = f

C03_Linked ==
    \A e \in store :
        e.seq > 0 /\ ~e.prune =>
            \E p \in store : SameLog(p, e) /\ p.seq = e.seq - 1 /\ e.bl = p.id

A_C03_HeightMonotone ==
    \A e \in store : Height(store', e.a, e.l) >= Height(store, e.a, e.l)
C03_HeightMonotone == [][A_C03_HeightMonotone]_vars

\* Declarative "does not extend its log" (independent of the code-shaped definition above):
NonExtending(S, it) ==
    LET es == LogOf(S, it.a, it.l)
        h == Height(S, it.a, it.l)
    IN \/ es = {} /\ it.seq > 0 /\ ~it.prune                      \* missing prefix, no prune flag
       \/ es # {} /\ ~it.prune /\ it.seq # h + 1                  \* non-incremental
       \/ es # {} /\ ~it.prune /\ it.seq = h + 1
             /\ ~\E p \in es : p.seq = h /\ it.bl = p.id          \* wrong backlink
       \/ es # {} /\ it.prune /\ it.seq <= h                      \* at or below the stored height

A_C03_RejectsNonExtending ==
    IsIngestStep /\ pruneQ'[Len(pruneQ')].res = "Inserted"
        => IngestedItem.wf /\ ~NonExtending(store, IngestedItem)
C03_RejectsNonExtending == [][A_C03_RejectsNonExtending]_vars

---------------------------------------------------------------------------
(* C04  pruning is authenticated and scoped to the prune op's own log      *)

A_C04_DeletesOnlyByValidPrune ==
    store \ store' # {} =>
        /\ IsPruneStep
        /\ LET ev == Head(pruneQ)
           IN /\ ev.item.wf /\ ev.item.prune /\ ev.res # "Rejected"
              /\ \A e \in store \ store' :
                     e.a = ev.item.a /\ e.l = ev.item.ol /\ e.seq < ev.item.seq   \* its OWN log
C04_DeletesOnlyByValidPrune == [][A_C04_DeletesOnlyByValidPrune]_vars

A_C04_ValidPruneDeletesExactly ==
    IsPruneStep =>
        LET ev == Head(pruneQ)
        IN IF ev.item.wf /\ ev.item.prune /\ ev.res # "Rejected"
           THEN store' = {e \in store : ~(e.a = ev.item.a /\ e.l = ev.item.ol /\ e.seq < ev.item.seq)}
           ELSE store' = store
C04_ValidPruneDeletesExactly == [][A_C04_ValidPruneDeletesExactly]_vars

---------------------------------------------------------------------------
(* C05  pruned log prefixes never come back                                *)

\* nothing is inserted below a prune point that was ingested before
A_C05_NoInsertBelowPrunePoint ==
    \A e \in store' \ store :
        \A p \in ingested : p.a = e.a /\ p.l = e.l => e.seq >= p.seq
C05_NoInsertBelowPrunePoint == [][A_C05_NoInsertBelowPrunePoint]_vars

\* after LogPrune ran for a prune point nothing below it is stored
C05_NoResurrection ==
    \A p \in applied : \A e \in store : e.a = p.a /\ e.l = p.l => e.seq >= p.seq
=============================================================================
