SPECIFICATION MCSpec
CONSTANTS
  Author = {"a1"}
  Mallory = {"mx"}
  Log = {"l1"}
  MaxSeq = 2
  PrunePositions <- LastOfFirstAuthor
  MaxDeliver = 4
  MaxInFlight = 2
  ForgeBudget = 2
  Classes <- OnlyGapLinked
  FineIngest = FALSE
  Batch = FALSE
  Worker = {}
  Variant_ReadLatestBeforeBegin = FALSE
  Defect_PruneAfterFailedIngest = FALSE
  Defect_PruneFlagSkipsLatestCheck = FALSE
  Defect_LogIdFromTopicUnchecked = FALSE
INVARIANTS
  C01_OnlyAuthenticStored
  C01_InvalidNeverCompleted
  C03_UniqueSeq
  C03_Linked
  C05_NoResurrection
PROPERTIES
  MC_C01_RejectLeavesNoTrace
  MC_C03_HeightMonotone
  MC_C03_RejectsNonExtending
  MC_C04_DeletesOnlyByValidPrune
  MC_C04_ValidPruneDeletesExactly
  MC_C05_NoInsertBelowPrunePoint
VIEW NoHistView
CHECK_DEADLOCK FALSE
