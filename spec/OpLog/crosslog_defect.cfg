\* Faithful model of the unrepaired known finding C04/cross-log-prune: the log id comes from the
\* arrival topic. TLC must report MC_C04_DeletesOnlyByValidPrune violated.
SPECIFICATION MCSpec
CONSTANTS
  Author = {"a1"}
  Mallory = {"mx"}
  Log = {"l1", "l2"}
  MaxSeq = 2
  PrunePositions <- LastOfFirstAuthor
  MaxDeliver = 4
  MaxInFlight = 1
  ForgeBudget = 1
  Classes <- OnlyCrossLog
  FineIngest = FALSE
  Batch = FALSE
  Worker = {}
  Variant_ReadLatestBeforeBegin = FALSE
  Defect_PruneAfterFailedIngest = FALSE
  Defect_PruneFlagSkipsLatestCheck = FALSE
  Defect_LogIdFromTopicUnchecked = TRUE
PROPERTIES
  MC_C04_DeletesOnlyByValidPrune
VIEW NoHistView
CHECK_DEADLOCK FALSE
