---------------------------- MODULE Trace_OpLog ----------------------------
(***************************************************************************)
(* Trace validation: events recorded from the real ingest_operation /      *)
(* LogPrune / Pipeline (harness `vh-oplog oplog record`, `vh-pipeline      *)
(* pipeline record`) must be a behaviour of OpLog, with the C01/C03/C04/   *)
(* C05 invariants and action properties evaluated at every step.           *)
(*                                                                         *)
(*   {"ev":"Reset"}                                                        *)
(*   {"ev":"Submit","cls":..,"item":{id,a,l,seq,prune,bl,wf}}              *)
(*   {"ev":"Ingest","res":..,"a":..,"l":..,"log":{count,height,low,total}} *)
(*   {"ev":"Prune","active":..,"a":..,"l":..,"until":..,"pruned":..,       *)
(*                 "log":{count,height,low,total}}                         *)
(*   {"ev":"Snapshot","store":[id,..]}                                     *)
(***************************************************************************)
EXTENDS OpLog, TLC, Json, IOUtils

Rec == ndJsonDeserialize(IOEnv.TRACE)

VARIABLE i
tvars == <<vars, i>>

Ev == Rec[i]

\* the cheap scalar state the implementation logged for the touched log, against the spec state
ScalarsOk(S, a, l, sc) ==
    LET es == LogOf(S, a, l)
        seqs == {e.seq : e \in es}
    IN \/ sc.total = -1              \* not observed (several callers in flight; a Snapshot follows)
       \/ /\ Cardinality(es) = sc.count
          /\ Height(S, a, l) = sc.height
          /\ (IF es = {} THEN -1 ELSE CHOOSE m \in seqs : \A x \in seqs : m <= x) = sc.low
          /\ Cardinality(S) = sc.total

StepReset ==
    /\ Ev.ev = "Reset"
    /\ store' = {} /\ inQ' = <<>> /\ pruneQ' = <<>>
    /\ applied' = {} /\ ingested' = {} /\ last' = NoEvent
    /\ UNCHANGED ivars

StepSubmit ==
    /\ Ev.ev = "Submit"
    /\ Submit(Ev.item)

StepIngest ==
    /\ Ev.ev = "Ingest"
    /\ IngestStep
    /\ Head(inQ).a = Ev.a /\ Head(inQ).l = Ev.l
    /\ pruneQ'[Len(pruneQ')].res = Ev.res              \* the implementation's verdict
    /\ ScalarsOk(store', Ev.a, Ev.l, Ev.log)

StepPrune ==
    /\ Ev.ev = "Prune"
    /\ LogPruneStep
    /\ LET ev == Head(pruneQ)
       IN ev.item.a = Ev.a /\ ev.item.l = Ev.l /\ ev.item.seq = Ev.until
          \* ("active" - did LogPrune run a DELETE - is logged for the reader only: a DELETE that
          \*  removes nothing is not observable at property level; the deleted rows are bound below)
    /\ last'.pruned = Ev.pruned                        \* rows LogPrune reported
    /\ ScalarsOk(store', Ev.a, Ev.l, Ev.log)

StepSnapshot ==
    /\ Ev.ev = "Snapshot"
    /\ {e.id : e \in store} = {Ev.store[k] : k \in DOMAIN Ev.store}
    /\ UNCHANGED vars

TraceInit == Init /\ i = 1
TraceNext ==
    /\ i <= Len(Rec)
    /\ i' = i + 1
    /\ (StepReset \/ StepSubmit \/ StepIngest \/ StepPrune \/ StepSnapshot)
TraceSpec == TraceInit /\ [][TraceNext]_tvars

NotReset == i <= Len(Rec) /\ Ev.ev # "Reset"
T_C01_RejectLeavesNoTrace == [][NotReset => A_C01_RejectLeavesNoTrace]_tvars
T_C03_HeightMonotone == [][NotReset => A_C03_HeightMonotone]_tvars
T_C03_RejectsNonExtending == [][NotReset => A_C03_RejectsNonExtending]_tvars
T_C04_DeletesOnlyByValidPrune == [][NotReset => A_C04_DeletesOnlyByValidPrune]_tvars
T_C04_ValidPruneDeletesExactly == [][NotReset => A_C04_ValidPruneDeletesExactly]_tvars
T_C05_NoInsertBelowPrunePoint == [][NotReset => A_C05_NoInsertBelowPrunePoint]_tvars

TraceAccepted ==
    LET d == TLCGet("stats").diameter IN
    IF d - 1 = Len(Rec) THEN TRUE
    ELSE Print(<<"TRACE_REJECTED", d - 1, Len(Rec), ToJson(Rec[d])>>, FALSE)
=============================================================================
