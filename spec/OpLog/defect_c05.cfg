\* Documentation config (not a registered step): the code AS FOUND before the fix commit.
\* TLC must report C05_NoResurrection violated (late, older prune-flagged operation stored again).
SPECIFICATION MCSpec
CONSTANTS
  Author = {"a1"}
  Mallory = {"mx"}
  Log = {"l1"}
  MaxSeq = 3
  PrunePositions <- AllPositions
  MaxDeliver = 4
  MaxInFlight = 1
  ForgeBudget = 0
  Classes <- AllClasses
  FineIngest = FALSE
  Batch = FALSE
  Worker = {}
  Variant_ReadLatestBeforeBegin = FALSE
  Defect_PruneAfterFailedIngest = FALSE
  Defect_PruneFlagSkipsLatestCheck = TRUE
  Defect_LogIdFromTopicUnchecked = FALSE
INVARIANTS
  C05_NoResurrection
VIEW NoHistView
CHECK_DEADLOCK FALSE
