SPECIFICATION TraceSpec
CONSTANTS
  Worker = {}
  Variant_ReadLatestBeforeBegin = FALSE
  Defect_PruneAfterFailedIngest = FALSE
  Defect_PruneFlagSkipsLatestCheck = FALSE
  Defect_LogIdFromTopicUnchecked = FALSE
INVARIANTS
  C01_OnlyAuthenticStored
  C01_InvalidNeverCompleted
  C03_UniqueSeq
  C03_Linked
  C05_NoResurrection
PROPERTIES
  T_C01_RejectLeavesNoTrace
  T_C03_HeightMonotone
  T_C03_RejectsNonExtending
  T_C04_DeletesOnlyByValidPrune
  T_C04_ValidPruneDeletesExactly
  T_C05_NoInsertBelowPrunePoint
POSTCONDITION TraceAccepted
CHECK_DEADLOCK FALSE
