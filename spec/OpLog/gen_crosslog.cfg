\* Behaviours of the FAITHFUL model (known finding on): what the node really does with a valid
\* operation that arrives on the topic of another log.
SPECIFICATION MCSpec
CONSTANTS
  Author = {"a1"}
  Mallory = {"mx"}
  Log = {"l1", "l2"}
  MaxSeq = 2
  PrunePositions <- LastOfFirstAuthor
  MaxDeliver = 3
  MaxInFlight = 1
  ForgeBudget = 1
  Classes <- OnlyCrossLog
  FineIngest = FALSE
  Batch = FALSE
  Worker = {}
  Variant_ReadLatestBeforeBegin = FALSE
  Defect_PruneAfterFailedIngest = FALSE
  Defect_PruneFlagSkipsLatestCheck = FALSE
  Defect_LogIdFromTopicUnchecked = TRUE
INVARIANTS
  Export
CHECK_DEADLOCK FALSE
