SPECIFICATION MCSpec
CONSTANTS
  Author = {"a1", "a2"}
  Mallory = {"mx"}
  Log = {"l1"}
  MaxSeq = 2
  PrunePositions <- LastOfFirstAuthor
  MaxDeliver = 3
  MaxInFlight = 1
  ForgeBudget = 1
  Classes <- AllClasses
  FineIngest = FALSE
  Batch = FALSE
  Worker = {}
  Variant_ReadLatestBeforeBegin = FALSE
  Defect_PruneAfterFailedIngest = FALSE
  Defect_PruneFlagSkipsLatestCheck = FALSE
  Defect_LogIdFromTopicUnchecked = FALSE
INVARIANTS
  Export
CHECK_DEADLOCK FALSE
