SPECIFICATION MCSpec
CONSTANTS
  Me = "me"
  Remotes = {"r1"}
  T = "t"
  F = "f"
  AuthorOrder <- MC_AuthorOrder
  RemoteBodies <- MC_RemoteBodies2
  RemotePrunes <- MC_RemotePrunes2
  Policies = {"auto", "explicit"}
  ResetHeights <- MC_ResetHeights
  Defect_ReadBeforePermit = FALSE
  MaxPub = 2
  MaxPrune = 1
  MaxImp = 2
  MaxAck = 1
  MaxForeign = 0
  MaxReset = 0
  MaxCrash = 2
  MinWork = 0
  Controlled = FALSE
INVARIANTS
  TypeOK
  LocksConsistent
  StoredIsAssociated
  StoredImpliesAssociated
  LogsContiguous
  PrunedOnlyBelowPruneOp
  CursorIsMaxOfAcked
  OnlyOwnTopicAcked
  ForeignNeverPastCheck
  ReplayExact
  ReplayQueueCoversExpect
  NeverForgotten
PROPERTIES
  MC_CursorMonotone
  MC_ForeignTopicRejected
VIEW NoHistView
CHECK_DEADLOCK FALSE
