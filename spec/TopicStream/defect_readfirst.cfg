SPECIFICATION MCSpec
CONSTANTS
  Me = "me"
  Remotes = {"r1"}
  T = "t"
  F = "f"
  AuthorOrder <- MC_AuthorOrder
  RemoteBodies <- MC_RemoteBodiesQ
  RemotePrunes <- MC_RemotePrunesQ
  Policies = {"auto", "explicit"}
  ResetHeights <- MC_ResetHeights
  Defect_ReadBeforePermit = TRUE
  MaxPub = 2
  MaxPrune = 0
  MaxImp = 0
  MaxAck = 2
  MaxForeign = 0
  MaxReset = 0
  MaxCrash = 0
  MinWork = 0
  Controlled = FALSE
INVARIANTS
  TypeOK
PROPERTIES
  MC_CursorMonotone
VIEW NoHistView
CHECK_DEADLOCK FALSE
