------------------------- MODULE Trace_TopicStream -------------------------
(* Trace validation: schedules recorded from a real p2panda Node            *)
(* (harness `vh-topicstream topicstream record`) must be behaviours of      *)
(* TopicStream; every event binds its logged arguments, the persisted state *)
(* (cursor, stored operations, topic associations) read from the database   *)
(* after the step and the pcs derived from the schedule points the          *)
(* processes are parked at.  The C07 / C15 invariants are evaluated at      *)
(* every step (trace.cfg).                                                  *)
EXTENDS TopicStream, TLC, Json, IOUtils

Rec == ndJsonDeserialize(IOEnv.TRACE)

VARIABLE i
tvars == <<vars, i>>

Ev == Rec[i]

\* constants a .cfg file cannot spell
TR_AuthorOrder == <<"me", "r1", "r2">>
TR_RemoteBodies == [s \in 1..12 |-> (s - 1) % 3 # 1]   \* = harness record.rs remote_body
TR_RemotePrunes == [s \in 1..12 |-> (s - 1) % 5 = 4]   \* = harness record.rs remote_prune
TR_ResetHeights == {-1}

\* ---- JSON -> spec values
OpOf(j) == MkOpP(j.a, j.tp, j.seq, j.body, j.prune)
SetOfOps(js) == {OpOf(js[k]) : k \in 1..Len(js)}
CursorOf(j) == [a \in Authors |-> IF a \in DOMAIN j THEN j[a] ELSE NoneH]
AssocOf(js) == {<<js[k].tp, js[k].a>> : k \in 1..Len(js)}

\* the implementation's persisted state and pcs after the step
Matches ==
    /\ cursor' = CursorOf(Ev.cursor)
    /\ stored' = SetOfOps(Ev.stored)
    /\ assoc' = AssocOf(Ev.assoc)
    /\ st'.pc = Ev.stpc /\ pub'.pc = Ev.pubpc /\ app'.pc = Ev.apppc

StepReset ==
    /\ Ev.ev = "Reset"
    /\ stored' = {} /\ assoc' = {} /\ cursor' = EmptyCursor
    /\ up' = FALSE /\ policy' = "auto" /\ pub' = IdlePub /\ pubq' = <<>> /\ st' = IdleSt /\ rq' = <<>>
    /\ ackLock' = "none" /\ txHolder' = "none" /\ chan' = <<>> /\ app' = IdleApp
    /\ expect' = {} /\ replayed' = {} /\ sent' = {} /\ base' = EmptyCursor /\ ackd' = {} /\ lastRes' = "none"
    /\ nPub' = 0 /\ nPrune' = 0 /\ nImp' = 0 /\ nAck' = 0 /\ nForeign' = 0 /\ nReset' = 0 /\ crashes' = 0

StepOpen ==
    /\ Ev.ev = "Open"
    /\ \/ Ev.from = "frontier" /\ Open(Ev.p)
       \/ Ev.from = "start" /\ OpenFromStart(Ev.p)
       \/ Ev.from = "cursor" /\ OpenFromCursor(Ev.p, CursorOf(Ev.c))
    /\ Matches

Plain(name, A) == Ev.ev = name /\ A /\ Matches

StepForgeBegin ==
    /\ Ev.ev = "ForgeBegin" /\ ForgeBegin(Ev.op.prune, Ev.op.body) /\ pub'.op.seq = Ev.op.seq /\ Matches

StepTakePublished ==
    /\ Ev.ev = "TakePublished" /\ TakePublished /\ st'.op.seq = Ev.op.seq /\ Matches

StepTakeImported ==
    /\ Ev.ev = "TakeImported" /\ TakeImported(Ev.op.a, Ev.op.seq) /\ st'.op = OpOf(Ev.op) /\ Matches

\* what the application really received is what the specification's channel holds
StepAppRecv ==
    /\ Ev.ev = "AppRecv"
    /\ chan # <<>>
    /\ Head(chan).k = Ev.rcv.k
    /\ Ev.rcv.k = "op" => Head(chan).op = OpOf(Ev.rcv.op)
    /\ AppRecv /\ Matches

StepAppAckBegin ==
    /\ Ev.ev = "AppAckBegin" /\ AppAckBegin(OpOf(Ev.op)) /\ lastRes' = Ev.res /\ Matches

StepAppAckCommit ==
    /\ Ev.ev = "AppAckCommit" /\ AppAckCommit /\ lastRes' = Ev.res /\ Matches

StepCrash == Ev.ev = "Crash" /\ Crash

\* Free-running history (no schedule control): a node process was killed with SIGKILL at a random
\* moment; the event carries the database as the dead process left it (cursor, stored, assoc), what
\* the re-opened stream replayed from the frontier, the acks and publishes that had RETURNED before
\* the kill and the last cursor seen before it.  TLC evaluates the properties on that data:
\*   C15  replayed = stored operations of the topic with a body and seq above the persisted cursor
\*   C15  a completed ack of a still stored operation is durable (covered by the cursor), a completed
\*        publish is stored (or was pruned by a later operation)
\*   C07  the persisted cursor did not move backwards across the kill
\* and continues from that state (crash-atomicity invariants StoredIsAssociated, LogsContiguous).
StepFreeRestart ==
    /\ Ev.ev = "FreeRestart"
    /\ LET S == SetOfOps(Ev.stored)
           c == CursorOf(Ev.cursor)
           R == SetOfOps(Ev.replayed)
           A == SetOfOps(Ev.acked_ok)
           prevc == CursorOf(Ev.prev_cursor)
       IN /\ R = {o \in S : o.tp = T /\ o.body /\ o.seq > c[o.a]}
          \* (StreamSubscription::ack of an operation that was pruned meanwhile returns Ok without
          \* acknowledging anything, stream.rs:752-757 -- such an operation cannot be replayed either)
          /\ \A o \in A : (o.tp = T /\ o \in S) => c[o.a] >= o.seq
          \* a completed publish is stored, unless a later operation with the prune flag removed it
          \* (written with a set, not with \E: TLC enumerates every witness of an \E in an action)
          /\ \A k \in 1..Len(Ev.published) :
                {o \in S : o.a = Me /\ o.tp = T /\ (o.seq = Ev.published[k] \/ (o.prune /\ o.seq > Ev.published[k]))} # {}
          /\ \A a \in Authors : c[a] >= prevc[a]
          /\ Len(Ev.others) = 0
          \* ReplayStarted / ReplayEnded appear iff some range is non-empty (operations without
          \* body are replayed too: acknowledged by the node, not delivered)
          /\ (Len(Ev.markers) = 0) = ({o \in S : o.tp = T /\ o.seq > c[o.a]} = {})
          /\ stored' = S /\ assoc' = AssocOf(Ev.assoc) /\ cursor' = c
          /\ base' = c /\ ackd' = {}
    /\ up' = FALSE /\ policy' = "auto" /\ pub' = IdlePub /\ pubq' = <<>> /\ st' = IdleSt /\ rq' = <<>>
    /\ ackLock' = "none" /\ txHolder' = "none" /\ chan' = <<>> /\ app' = IdleApp
    /\ expect' = {} /\ replayed' = {} /\ sent' = {} /\ lastRes' = "none"
    /\ nReset' = nReset + 1
    /\ UNCHANGED <<nPub, nPrune, nImp, nAck, nForeign, crashes>>

TraceInit == Init /\ i = 1

TraceNext ==
    /\ i <= Len(Rec)
    /\ i' = i + 1
    /\ \/ StepReset \/ StepOpen \/ StepCrash \/ StepFreeRestart
       \/ StepForgeBegin \/ Plain("ForgeCommit", ForgeCommit) \/ Plain("Enqueue", Enqueue)
       \/ Plain("ForgeForeign", ForgeForeign)
       \/ StepTakePublished \/ StepTakeImported
       \/ Plain("PipelineProcess", PipelineProcess) \/ Plain("SkipAck", SkipAck)
       \/ Plain("AckEnter", AckEnter) \/ Plain("AckRead", AckRead) \/ Plain("AppAckRead", AppAckRead)
       \/ Plain("AckWriteTx", AckWriteTx) \/ Plain("AckCommit", AckCommit) \/ Plain("Deliver", Deliver)
       \/ Plain("ReplayEnd", ReplayEnd)
       \/ StepAppRecv \/ StepAppAckBegin
       \/ Plain("AppAckWriteTx", AppAckWriteTx) \/ StepAppAckCommit

TraceSpec == TraceInit /\ [][TraceNext]_tvars

TR_CursorMonotone ==
    [][Ev.ev = "Reset" \/ nReset' # nReset \/ \A a \in Authors : cursor'[a] >= cursor[a]]_tvars

TraceAccepted ==
    LET d == TLCGet("stats").diameter IN
    IF d - 1 = Len(Rec) THEN TRUE
    ELSE Print(<<"TRACE_REJECTED", d - 1, Len(Rec), ToJson(Rec[d])>>, FALSE)
=============================================================================
