---------------------------- MODULE TopicStream ----------------------------
(***************************************************************************)
(* Topic stream of the p2panda Node API: publishing, processing, acking,   *)
(* delivery, crash and replay from the acked frontier.                     *)
(*                                                                         *)
(*   p2panda/src/forge.rs            OperationForge::create_operation      *)
(*   p2panda/src/streams/stream.rs   processed_stream, process_operation,  *)
(*                                   StreamPublisher::publish_inner,       *)
(*                                   StreamSubscription::ack               *)
(*   p2panda/src/streams/acked.rs    Acked::ack, Acked::nacked_log_ranges  *)
(*   p2panda/src/streams/replay.rs   replay_log_ranges                     *)
(*                                                                         *)
(* One action per await point / critical section of that code.  The names  *)
(* in brackets are the cfg-guarded schedule points (`verif::point`) at      *)
(* which the process is parked in the state BEFORE the action.             *)
(*                                                                         *)
(* Shape of the data: the Node API derives the log id from the topic       *)
(* (operation.rs LogId::from_topic), so an author has exactly one log per   *)
(* topic and a log is the pair (author, topic).  The stream under test is   *)
(* the one of topic T; F is a second ("foreign") topic of the same node.    *)
(* "None" heights are -1.                                                  *)
(***************************************************************************)
EXTENDS Integers, Sequences, FiniteSets

CONSTANTS
    Me,            \* the node's own author (signing key of the node)
    Remotes,       \* authors whose operations arrive through an external stream
    T, F,          \* topic of the stream under test, foreign topic
    AuthorOrder,   \* all authors as a sequence: iteration order of the BTreeMaps (key byte order)
    RemoteBodies,  \* RemoteBodies[i] = "remote operation with seq i-1 has a body"
    RemotePrunes,  \* RemotePrunes[i] = "remote operation with seq i-1 carries the prune flag"
    Policies,      \* subset of {"auto", "explicit"} a node may be started with
    ResetHeights,  \* heights a StreamFrom::Cursor(c) reset may name (bounds the model only)
    Defect_ReadBeforePermit
                   \* FALSE = the code: Acked::ack takes the permit of the Acked semaphore first and holds
                   \* it across read, advance and write (acked.rs:118-139).  TRUE = documentation only
                   \* (defect_readfirst.cfg, not a registered check): the cursor is read before the permit
                   \* is taken and only the write is serialised -- TLC then violates CursorMonotone and
                   \* CursorIsMaxOfAcked with two overlapping acks (lost update).

Authors == {Me} \cup Remotes
NoneH == -1

NoOp == [a |-> "-", tp |-> "-", seq |-> -1, body |-> FALSE, prune |-> FALSE]
MkOpP(a, tp, s, b, p) == [a |-> a, tp |-> tp, seq |-> s, body |-> b, prune |-> p]
MkOp(a, tp, s, b) == MkOpP(a, tp, s, b, FALSE)
EmptyCursor == [a \in Authors |-> NoneH]

VARIABLES
    (* ---- persistent (SQLite file) ---- *)
    stored,     \* set of operations in operations_v1 (log = (a, tp))
    assoc,      \* set of <<topic, author>>: topic -> log associations
    cursor,     \* persisted cursor named T: [Authors -> height or -1]
    (* ---- volatile (lost by Crash) ---- *)
    up,         \* node spawned and stream of T open
    policy,     \* ack policy of this incarnation
    pub,        \* publisher call in flight: [pc, op]
    pubq,       \* publish channel: operations waiting for the stream task
    st,         \* stream task: [pc, op, src, ctx, rd]
    rq,         \* operations the replay still has to go through (this incarnation)
    ackLock,    \* holder of the Acked semaphore: "none" | "st" | "app"
    txHolder,   \* holder of the store's transaction permit: "none" | "pub" | "st" | "app"
    chan,       \* application channel (app_tx -> StreamSubscription)
    app,        \* application ack call in flight: [pc, op, rd]
    (* ---- bookkeeping of the properties (history) ---- *)
    expect,     \* declarative replay set, snapshot taken when the stream was opened
    replayed,   \* operations the replay handed to the application channel (this incarnation)
    sent,       \* every operation handed to the application channel (this incarnation)
    base,       \* value the cursor was last reset to (StreamFrom::Start / Cursor); initially empty
    ackd,       \* operations whose ack returned Ok since the last reset
    lastRes,    \* result of the last completed application ack call
    (* ---- budgets (bound the behaviours, see MC) ---- *)
    nPub, nPrune, nImp, nAck, nForeign, nReset, crashes

pvars == <<stored, assoc, cursor>>
vvars == <<up, policy, pub, pubq, st, rq, ackLock, txHolder, chan, app>>
hvars == <<expect, replayed, sent, base, ackd, lastRes>>
bvars == <<nPub, nPrune, nImp, nAck, nForeign, nReset, crashes>>
vars == <<pvars, vvars, hvars, bvars>>

---------------------------------------------------------------------------
(* helpers                                                                 *)

Max(S) == CHOOSE x \in S : \A y \in S : y <= x
LogOps(S, a, tp) == {o \in S : o.a = a /\ o.tp = tp}
Height(S, a, tp) == IF LogOps(S, a, tp) = {} THEN NoneH ELSE Max({o.seq : o \in LogOps(S, a, tp)})

\* cursor.rs:51-64 (decided in StateVector; here on the single-log-per-author shape)
Advance(c, a, h) == IF c[a] >= h THEN c ELSE [c EXCEPT ![a] = h]

\* acked.rs:86-91: TopicStore::resolve(T) then LogStore::get_log_heights per author
HeightAuthors == {a \in Authors : <<T, a>> \in assoc /\ Height(stored, a, T) >= 0}

\* acked.rs:111 cursor.compare(heights) = logs::compare(local = heights, remote = cursor state):
\* author unknown to the cursor -> (None, h]; cursor behind -> (c, h]; otherwise nothing.
RangeOf(c, a) ==
    LET h == Height(stored, a, T) IN
    IF c[a] = NoneH THEN <<NoneH, h>>
    ELSE IF c[a] < h THEN <<c[a], h>>
    ELSE <<0, -1>>                                   \* no range

\* replay.rs:71-83 get_log_entries(author, log, after, until), ascending; authors in map order
Entries(a, r) == {o \in LogOps(stored, a, T) : o.seq > r[1] /\ o.seq <= r[2]}

\* operations of one log in ascending seq order (seq numbers of one log are distinct)
SeqOfSet(S) ==
    [k \in 1..Cardinality(S) |-> CHOOSE o \in S : Cardinality({p \in S : p.seq < o.seq}) = k - 1]

RECURSIVE ReplayFrom(_, _)
ReplayFrom(c, k) ==
    IF k > Len(AuthorOrder) THEN <<>>
    ELSE LET a == AuthorOrder[k] IN
         (IF a \in HeightAuthors THEN SeqOfSet(Entries(a, RangeOf(c, a))) ELSE <<>>) \o ReplayFrom(c, k + 1)

ReplayQueue(c) == ReplayFrom(c, 1)

\* C15, declarative: every stored operation of the topic with a body that is not covered by the cursor
Unacked(c) == {o \in stored : o.tp = T /\ o.body /\ o.seq > c[o.a]}

IdleSt == [pc |-> "off", op |-> NoOp, src |-> "-", ctx |-> "-", rd |-> EmptyCursor]
IdlePub == [pc |-> "idle", op |-> NoOp]
IdleApp == [pc |-> "idle", op |-> NoOp, rd |-> EmptyCursor]

NeedAck(o) == ~o.body \/ policy = "auto"      \* stream.rs:370-379, 395, 482

---------------------------------------------------------------------------
Init ==
    /\ stored = {} /\ assoc = {} /\ cursor = EmptyCursor
    /\ up = FALSE /\ policy = "auto" /\ pub = IdlePub /\ pubq = <<>> /\ st = IdleSt /\ rq = <<>>
    /\ ackLock = "none" /\ txHolder = "none" /\ chan = <<>> /\ app = IdleApp
    /\ expect = {} /\ replayed = {} /\ sent = {} /\ base = EmptyCursor /\ ackd = {} /\ lastRes = "none"
    /\ nPub = 0 /\ nPrune = 0 /\ nImp = 0 /\ nAck = 0 /\ nForeign = 0 /\ nReset = 0 /\ crashes = 0

---------------------------------------------------------------------------
(* Opening the stream: Node::stream_from -> processed_stream               *)
(* (stream.rs:107-162, acked.rs:81-114).  nacked_log_ranges runs before    *)
(* the publisher handle exists, so nothing of this node runs concurrently.  *)

OpenWith(p, c) ==
    /\ ~up
    /\ up' = TRUE /\ policy' = p
    /\ cursor' = c
    /\ LET q == ReplayQueue(c) IN
        /\ rq' = q
        /\ expect' = Unacked(c)
        /\ replayed' = {} /\ sent' = {}
        \* replay.rs:62-69: nothing to replay -> no ReplayStarted / ReplayEnded at all
        /\ chan' = IF q = <<>> THEN <<>> ELSE <<[k |-> "rs", op |-> NoOp]>>
        /\ st' = IF q = <<>>
                 THEN [IdleSt EXCEPT !.pc = "idle", !.ctx = "live"]                    \* [stream.loop.top]
                 ELSE [IdleSt EXCEPT !.pc = "taken", !.op = Head(q), !.src = "replay", !.ctx = "replay"]
                                                                                       \* [process_operation.start]
    /\ pub' = IdlePub /\ pubq' = <<>> /\ ackLock' = "none" /\ txHolder' = "none" /\ app' = IdleApp
    /\ lastRes' = "none"
    /\ UNCHANGED <<stored, assoc, nPub, nPrune, nImp, nAck, nForeign, crashes>>

\* StreamFrom::Frontier (acked.rs:101)
Open(p) ==
    /\ p \in Policies
    /\ OpenWith(p, cursor)
    /\ UNCHANGED <<base, ackd, nReset>>

\* StreamFrom::Start (acked.rs:102-105): replaces the persisted cursor by the empty one
OpenFromStart(p) ==
    /\ p \in Policies
    /\ OpenWith(p, EmptyCursor)
    /\ base' = EmptyCursor /\ ackd' = {} /\ nReset' = nReset + 1

\* StreamFrom::Cursor(c) (acked.rs:106): replaces the persisted cursor by the given one
OpenFromCursor(p, c) ==
    /\ p \in Policies
    /\ OpenWith(p, c)
    /\ base' = c /\ ackd' = {} /\ nReset' = nReset + 1

---------------------------------------------------------------------------
(* Publisher: StreamPublisher::publish_inner (stream.rs:640-677)           *)

\* forge.rs:92-110: begin tx (store permit), read latest entry, sign.       [-> forge.tx.before_commit]
\* publish(m): body, no prune flag; prune(Some(m)) / prune(None): prune flag, body optional
\* (stream.rs:597-614).
ForgeBegin(pr, b) ==
    /\ up /\ pub.pc = "idle" /\ txHolder = "none"
    /\ (~b => pr)
    /\ txHolder' = "pub"
    /\ pub' = [pc |-> "intx", op |-> MkOpP(Me, T, Height(stored, Me, T) + 1, b, pr)]
    /\ nPub' = nPub + 1
    /\ nPrune' = IF pr THEN nPrune + 1 ELSE nPrune
    /\ UNCHANGED <<pvars, up, policy, pubq, st, rq, ackLock, chan, app, hvars, nImp, nAck, nForeign, nReset, crashes>>

\* forge.rs:128-141: associate + insert_operation + commit, ONE transaction.  [-> publish.after_forge]
ForgeCommit ==
    /\ up /\ pub.pc = "intx"
    /\ stored' = stored \cup {pub.op}
    /\ assoc' = assoc \cup {<<T, Me>>}
    /\ txHolder' = "none"
    /\ pub' = [pub EXCEPT !.pc = "forged"]
    /\ UNCHANGED <<cursor, up, policy, pubq, st, rq, ackLock, chan, app, hvars, bvars>>

\* stream.rs:662 publish_tx.send; publish() returns afterwards
Enqueue ==
    /\ up /\ pub.pc = "forged"
    /\ pubq' = Append(pubq, pub.op)
    /\ pub' = IdlePub
    /\ UNCHANGED <<pvars, up, policy, st, rq, ackLock, txHolder, chan, app, hvars, bvars>>

\* An operation of the foreign topic F (published through F's own log; one transaction)
ForgeForeign ==
    /\ up /\ txHolder = "none"
    /\ stored' = stored \cup {MkOp(Me, F, Height(stored, Me, F) + 1, TRUE)}
    /\ assoc' = assoc \cup {<<F, Me>>}
    /\ nForeign' = nForeign + 1
    /\ UNCHANGED <<cursor, vvars, hvars, nPub, nPrune, nImp, nAck, nReset, crashes>>

---------------------------------------------------------------------------
(* Stream task (stream.rs:145-300, replay.rs:47-114)                       *)

\* stream.rs:231 publish_rx.recv                       [stream.loop.top -> stream.published.before_process]
TakePublished ==
    /\ up /\ st.pc = "idle" /\ pubq # <<>>
    /\ st' = [st EXCEPT !.pc = "taken", !.op = Head(pubq), !.src = "pub"]
    /\ pubq' = Tail(pubq)
    /\ UNCHANGED <<pvars, up, policy, pub, rq, ackLock, txHolder, chan, app, hvars, bvars>>

\* stream.rs:272-283 external_stream.next(): a remote operation arrives (duplicates allowed,
\* gaps are not modelled).                            [stream.loop.top -> process_operation.start]
TakeImported(r, s) ==
    /\ up /\ st.pc = "idle"
    /\ r \in Remotes /\ s \in 0..(Len(RemoteBodies) - 1)
    \* the next operation of the log, or one that is stored already (a pruned one would fail ingest)
    /\ \/ s = Height(stored, r, T) + 1
       \/ \E o \in LogOps(stored, r, T) : o.seq = s
    /\ st' = [st EXCEPT !.pc = "taken", !.op = MkOpP(r, T, s, RemoteBodies[s + 1], RemotePrunes[s + 1]), !.src = "imp"]
    /\ nImp' = nImp + 1
    /\ UNCHANGED <<pvars, up, policy, pub, pubq, rq, ackLock, txHolder, chan, app, hvars, nPub, nPrune, nAck, nForeign, nReset, crashes>>

\* pipeline.process (stream.rs:348, 438): ingest = insert + associate in one transaction unless
\* the operation exists already (p2panda-stream ingest/operation.rs:38-89).
\*                   [*.before_process / process_operation.start -> *.processed]
\* then log_prune (processor/event.rs:55-66, p2panda-store prune_entries: DELETE seq_num < until)
\* for an operation with the prune flag, also when ingest said "exists already".
PipelineProcess ==
    /\ up /\ st.pc = "taken" /\ txHolder = "none"
    /\ stored' = LET S == stored \cup {st.op} IN
                 IF st.op.prune
                 THEN S \ {o \in S : o.a = st.op.a /\ o.tp = st.op.tp /\ o.seq < st.op.seq}
                 ELSE S
    /\ assoc' = assoc \cup {<<T, st.op.a>>}
    /\ st' = [st EXCEPT !.pc = "processed"]
    /\ UNCHANGED <<cursor, up, policy, pub, pubq, rq, ackLock, txHolder, chan, app, hvars, bvars>>

\* explicit policy and a body: nothing is acknowledged by the node (stream.rs:395, 482)
\*                                                     [*.processed -> *.before_send]
SkipAck ==
    /\ up /\ st.pc = "processed" /\ ~NeedAck(st.op)
    /\ st' = [st EXCEPT !.pc = "deliver"]
    /\ UNCHANGED <<pvars, up, policy, pub, pubq, rq, ackLock, txHolder, chan, app, hvars, bvars>>

\* Acked::ack is a critical section under the permit of the per-stream Acked semaphore, shared by
\* all clones (stream task, StreamSubscription, every ProcessedOperation):
\*   acquire permit (acked.rs:118) -> topic check -> read cursor -> advance -> tx { set_cursor } ->
\*   commit -> permit released.
\* Two ackers exist on one stream: the stream task (system / automatic acks) and the application.

\* acked.rs:117-118: the call is made.  With the permit free the caller takes it and goes on to the
\* topic check [*.processed -> acked.ack.before_read]; with the permit held by the other acker it
\* waits inside semaphore.acquire() -- no schedule point is reached until the holder releases.
AckEnter ==
    /\ up /\ st.pc = "processed" /\ NeedAck(st.op)
    /\ IF Defect_ReadBeforePermit
       THEN st' = [st EXCEPT !.pc = "acklocked"] /\ UNCHANGED ackLock
       ELSE IF ackLock = "none"
            THEN st' = [st EXCEPT !.pc = "acklocked"] /\ ackLock' = "st"
            ELSE st' = [st EXCEPT !.pc = "ackblocked"] /\ UNCHANGED ackLock
    /\ UNCHANGED <<pvars, up, policy, pub, pubq, rq, txHolder, chan, app, hvars, bvars>>

\* acked.rs:127-132: read the persisted cursor (committed read), advance in memory
\*                                                     [acked.ack.before_read -> acked.ack.after_read]
AckRead ==
    /\ up /\ st.pc = "acklocked"
    /\ st' = [st EXCEPT !.pc = "ackread", !.rd = Advance(cursor, st.op.a, st.op.seq)]
    /\ UNCHANGED <<pvars, up, policy, pub, pubq, rq, ackLock, txHolder, chan, app, hvars, bvars>>

\* acked.rs:134-135: begin tx, set_cursor (uncommitted)  [acked.ack.after_read -> acked.ack.before_commit]
AckWriteTx ==
    /\ up /\ st.pc = "ackread" /\ txHolder = "none"
    /\ Defect_ReadBeforePermit => ackLock = "none"
    /\ ackLock' = IF Defect_ReadBeforePermit THEN "st" ELSE ackLock
    /\ txHolder' = "st"
    /\ st' = [st EXCEPT !.pc = "ackintx"]
    /\ UNCHANGED <<pvars, up, policy, pub, pubq, rq, chan, app, hvars, bvars>>

\* The stream task releases the permit: an application ack that waits for it gets it (tokio's
\* semaphore hands over in FIFO order, there is one other acker), does its topic check and either
\* returns "rejected" at once or parks before its read.
AppAfterStRelease ==
    IF app.pc = "ackblocked"
    THEN IF app.op.tp # T THEN IdleApp ELSE [app EXCEPT !.pc = "acklocked"]
    ELSE app
LockAfterStRelease == IF app.pc = "ackblocked" /\ app.op.tp = T THEN "app" ELSE "none"
ResAfterStRelease == IF app.pc = "ackblocked" /\ app.op.tp # T THEN "rejected" ELSE lastRes

\* what the stream task does after an operation is through (delivered or, without body, acked)
NextSt(q) ==
    IF st.ctx = "replay"
    THEN IF q = <<>> THEN [IdleSt EXCEPT !.pc = "ending", !.ctx = "replay"]      \* [replay.before_ended]
         ELSE [IdleSt EXCEPT !.pc = "taken", !.op = Head(q), !.src = "replay", !.ctx = "replay"]
    ELSE [IdleSt EXCEPT !.pc = "idle", !.ctx = "live"]                              \* [stream.loop.top]

\* acked.rs:136 commit; permit and semaphore released       [acked.ack.before_commit -> ...]
AckCommit ==
    /\ up /\ st.pc = "ackintx"
    /\ cursor' = st.rd
    /\ ackd' = ackd \cup {st.op}
    /\ txHolder' = "none"
    /\ ackLock' = LockAfterStRelease /\ app' = AppAfterStRelease /\ lastRes' = ResAfterStRelease
    /\ IF st.op.body
       THEN /\ st' = [st EXCEPT !.pc = "deliver"]                                   \* [*.before_send]
            /\ rq' = rq
       ELSE /\ st' = NextSt(IF st.ctx = "replay" THEN Tail(rq) ELSE rq)             \* stream.rs:378 None
            /\ rq' = IF st.ctx = "replay" THEN Tail(rq) ELSE rq
    /\ UNCHANGED <<stored, assoc, up, policy, pub, pubq, chan, expect, replayed, sent, base, bvars>>

\* app_tx.send(event) (stream.rs:298, replay.rs:95)               [*.before_send -> ...]
Deliver ==
    /\ up /\ st.pc = "deliver"
    /\ chan' = Append(chan, [k |-> "op", op |-> st.op])
    /\ replayed' = IF st.ctx = "replay" THEN replayed \cup {st.op} ELSE replayed
    /\ sent' = sent \cup {st.op}
    /\ rq' = IF st.ctx = "replay" THEN Tail(rq) ELSE rq
    /\ st' = NextSt(IF st.ctx = "replay" THEN Tail(rq) ELSE rq)
    /\ UNCHANGED <<pvars, up, policy, pub, pubq, ackLock, txHolder, app, expect, base, ackd, lastRes, bvars>>

\* replay.rs:106 ReplayEnded                                 [replay.before_ended -> stream.loop.top]
ReplayEnd ==
    /\ up /\ st.pc = "ending"
    /\ chan' = Append(chan, [k |-> "re", op |-> NoOp])
    /\ st' = [IdleSt EXCEPT !.pc = "idle", !.ctx = "live"]
    /\ UNCHANGED <<pvars, up, policy, pub, pubq, rq, ackLock, txHolder, app, hvars, bvars>>

---------------------------------------------------------------------------
(* Application: StreamSubscription (stream.rs:739-774)                     *)

AppRecv ==
    /\ up /\ app.pc = "idle" /\ chan # <<>>
    /\ chan' = Tail(chan)
    /\ UNCHANGED <<pvars, up, policy, pub, pubq, st, rq, ackLock, txHolder, app, hvars, bvars>>

\* StreamSubscription::ack(hash) of ANY stored operation (stream.rs:752-757) -> Acked::ack.
\* acked.rs:118: permit first (the call waits while the stream task holds it);
\* acked.rs:123-125: an operation of another topic is rejected before anything is read.
AppAckBegin(o) ==
    /\ up /\ app.pc = "idle"
    /\ o \in stored
    /\ nAck' = nAck + 1
    /\ IF ~Defect_ReadBeforePermit /\ ackLock # "none"
       THEN /\ lastRes' = "pending"
            /\ app' = [pc |-> "ackblocked", op |-> o, rd |-> EmptyCursor]        \* inside semaphore.acquire()
            /\ UNCHANGED ackLock
       ELSE IF o.tp # T
            THEN /\ lastRes' = "rejected"
                 /\ UNCHANGED <<app, ackLock>>
            ELSE /\ lastRes' = "pending"
                 /\ ackLock' = IF Defect_ReadBeforePermit THEN ackLock ELSE "app"
                 /\ app' = [pc |-> "acklocked", op |-> o, rd |-> EmptyCursor]     \* [-> acked.ack.before_read]
    /\ UNCHANGED <<pvars, up, policy, pub, pubq, st, rq, txHolder, chan, expect, replayed, sent, base, ackd,
                   nPub, nPrune, nImp, nForeign, nReset, crashes>>

AppAckRead ==
    /\ up /\ app.pc = "acklocked"
    /\ app' = [app EXCEPT !.pc = "ackread", !.rd = Advance(cursor, app.op.a, app.op.seq)]
    /\ UNCHANGED <<pvars, up, policy, pub, pubq, st, rq, ackLock, txHolder, chan, hvars, bvars>>

AppAckWriteTx ==
    /\ up /\ app.pc = "ackread" /\ txHolder = "none"
    /\ Defect_ReadBeforePermit => ackLock = "none"
    /\ ackLock' = IF Defect_ReadBeforePermit THEN "app" ELSE ackLock
    /\ txHolder' = "app"
    /\ app' = [app EXCEPT !.pc = "ackintx"]
    /\ UNCHANGED <<pvars, up, policy, pub, pubq, st, rq, chan, hvars, bvars>>

\* commit; the permit goes to the stream task if it waits for it
AppAckCommit ==
    /\ up /\ app.pc = "ackintx"
    /\ cursor' = app.rd
    /\ ackd' = ackd \cup {app.op}
    /\ lastRes' = "ok"
    /\ txHolder' = "none"
    /\ ackLock' = IF st.pc = "ackblocked" THEN "st" ELSE "none"
    /\ st' = IF st.pc = "ackblocked" THEN [st EXCEPT !.pc = "acklocked"] ELSE st
    /\ app' = IdleApp
    /\ UNCHANGED <<stored, assoc, up, policy, pub, pubq, rq, chan, expect, replayed, sent, base, bvars>>

---------------------------------------------------------------------------
(* Crash: node, handles, runtime, process gone.  Uncommitted transactions   *)
(* are rolled back by SQLite; committed state stays.                        *)

Crash ==
    /\ up
    /\ up' = FALSE
    /\ pub' = IdlePub /\ pubq' = <<>> /\ st' = IdleSt /\ rq' = <<>>
    /\ ackLock' = "none" /\ txHolder' = "none" /\ chan' = <<>> /\ app' = IdleApp
    /\ expect' = {} /\ replayed' = {} /\ sent' = {}
    /\ lastRes' = "none"
    /\ crashes' = crashes + 1
    /\ UNCHANGED <<pvars, policy, base, ackd, nPub, nPrune, nImp, nAck, nForeign, nReset>>

---------------------------------------------------------------------------
ResetStep ==
    \/ \E p \in Policies : OpenFromStart(p)
    \/ \E p \in Policies, c \in [Authors -> ResetHeights] : OpenFromCursor(p, c)

Next ==
    \/ \E p \in Policies : Open(p)
    \/ ResetStep
    \/ (\E pr \in BOOLEAN, b \in BOOLEAN : ForgeBegin(pr, b)) \/ ForgeCommit \/ Enqueue \/ ForgeForeign
    \/ TakePublished
    \/ \E r \in Remotes, s \in 0..(Len(RemoteBodies) - 1) : TakeImported(r, s)
    \/ PipelineProcess \/ SkipAck \/ AckEnter \/ AckRead \/ AckWriteTx \/ AckCommit \/ Deliver \/ ReplayEnd
    \/ AppRecv
    \/ \E o \in stored : AppAckBegin(o)
    \/ AppAckRead \/ AppAckWriteTx \/ AppAckCommit
    \/ Crash

Spec == Init /\ [][Next]_vars

---------------------------------------------------------------------------
(* Properties                                                              *)

\* C07 (second half): acknowledging never moves the persisted cursor backwards.  The only steps
\* allowed to lower it are the explicit resets StreamFrom::Start / StreamFrom::Cursor.
\* (nReset is incremented by exactly those two actions.)
CursorMonotone ==
    [][nReset' # nReset \/ \A a \in Authors : cursor'[a] >= cursor[a]]_vars

\* C07, declarative form: the persisted cursor is the pointwise maximum of the value it was last
\* reset to and the sequence numbers of the operations OF THIS TOPIC whose ack returned Ok.
\* (An operation of another topic never contributes; a rejected ack never contributes.)
CursorIsMaxOfAcked ==
    \A a \in Authors :
        cursor[a] = Max({base[a]} \cup {o.seq : o \in {x \in ackd : x.a = a /\ x.tp = T}})

\* C07: an ack of an operation of a different topic is rejected and leaves the cursor unchanged
ForeignTopicRejected ==
    [][\A o \in stored : (o.tp # T /\ AppAckBegin(o)) =>
            (cursor' = cursor /\ (lastRes' = "rejected" \/ (ackLock # "none" /\ app'.pc = "ackblocked")))]_vars
\* ... and such an ack never gets past the topic check, also when it first had to wait for the permit
ForeignNeverPastCheck == app.pc \in {"acklocked", "ackread", "ackintx"} => app.op.tp = T
OnlyOwnTopicAcked == \A o \in ackd : o.tp = T

\* C15: when the replay of an incarnation is over, it has handed to the application exactly the
\* stored operations with a body that were not covered by the cursor when the stream was opened;
\* while it runs it never hands over anything else.
ReplayExact ==
    /\ replayed \subseteq expect
    /\ (up /\ st.ctx = "live") => replayed = expect

\* Beyond C15 (at-least-once while the node is up): a stored operation of the topic with a body that
\* the cursor does not cover is never forgotten by a running node -- it was handed to the application
\* in this incarnation, or is queued for replay, or is on its way through publisher / stream task.
SeqSet(q) == {q[k] : k \in 1..Len(q)}
NeverForgotten ==
    up => \A o \in stored :
            (o.tp = T /\ o.body /\ o.seq > cursor[o.a]) =>
                \/ o \in sent
                \/ o \in SeqSet(rq)
                \/ o \in SeqSet(pubq)
                \/ (pub.pc = "forged" /\ o = pub.op)
                \/ (st.pc \in {"taken", "processed", "acklocked", "ackblocked", "ackread", "ackintx", "deliver"} /\ o = st.op)

\* the transcribed mechanism (ranges -> entries) agrees with the declarative set at open time
ReplayQueueCoversExpect ==
    (up /\ st.ctx = "replay") =>
        {o \in {rq[i] : i \in 1..Len(rq)} : o.body} = expect \ replayed

TypeOK ==
    /\ up \in BOOLEAN
    /\ policy \in {"auto", "explicit"}
    /\ pub.pc \in {"idle", "intx", "forged"}
    /\ st.pc \in {"off", "idle", "taken", "processed", "acklocked", "ackblocked", "ackread", "ackintx", "deliver", "ending"}
    /\ app.pc \in {"idle", "acklocked", "ackblocked", "ackread", "ackintx"}
    /\ ackLock \in {"none", "st", "app"}
    /\ txHolder \in {"none", "pub", "st", "app"}
    /\ \A a \in Authors : cursor[a] \in Int

\* lock discipline of the model (a holder is really inside its critical section)
LocksConsistent ==
    /\ (txHolder = "pub") = (pub.pc = "intx")
    /\ (txHolder = "st") = (st.pc = "ackintx")
    /\ (txHolder = "app") = (app.pc = "ackintx")
    /\ (ackLock = "st") = (st.pc \in {"acklocked", "ackread", "ackintx"})
    /\ (ackLock = "app") = (app.pc \in {"acklocked", "ackread", "ackintx"})
    \* an acker waits only while the other one holds the permit; never both
    /\ st.pc = "ackblocked" => ackLock = "app"
    /\ app.pc = "ackblocked" => ackLock = "st"

\* insert and topic association are one transaction: never one without the other
StoredIsAssociated == \A o \in stored : <<o.tp, o.a>> \in assoc
\* (the name the publish crash sweep of the harness refers to; holds because ForgeCommit and the
\* ingest of PipelineProcess are single transactions)
StoredImpliesAssociated == StoredIsAssociated

\* logs have no gaps above their pruned prefix (forge and in-order ingest)
LowSeq(a, tp) == CHOOSE x \in {o.seq : o \in LogOps(stored, a, tp)} : \A o \in LogOps(stored, a, tp) : x <= o.seq
LogsContiguous ==
    \A o \in stored : \A s \in LowSeq(o.a, o.tp)..o.seq : \E p \in stored : p.a = o.a /\ p.tp = o.tp /\ p.seq = s

\* a prefix is only ever removed below a stored operation that carries the prune flag
PrunedOnlyBelowPruneOp ==
    \A o \in stored : LowSeq(o.a, o.tp) > 0 => \E p \in LogOps(stored, o.a, o.tp) : p.prune /\ p.seq = LowSeq(o.a, o.tp)
=============================================================================
