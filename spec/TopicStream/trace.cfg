SPECIFICATION TraceSpec
CONSTANTS
  Me = "me"
  Remotes = {"r1", "r2"}
  T = "t"
  F = "f"
  AuthorOrder <- TR_AuthorOrder
  RemoteBodies <- TR_RemoteBodies
  RemotePrunes <- TR_RemotePrunes
  Policies = {"auto", "explicit"}
  ResetHeights <- TR_ResetHeights
  Defect_ReadBeforePermit = FALSE
INVARIANTS
  TypeOK
  LocksConsistent
  StoredIsAssociated
  StoredImpliesAssociated
  LogsContiguous
  PrunedOnlyBelowPruneOp
  CursorIsMaxOfAcked
  OnlyOwnTopicAcked
  ForeignNeverPastCheck
  ReplayExact
  ReplayQueueCoversExpect
  NeverForgotten
PROPERTIES
  TR_CursorMonotone
POSTCONDITION TraceAccepted
CHECK_DEADLOCK FALSE
