-------------------------- MODULE MC_TopicStream --------------------------
(* Bounded instance of TopicStream for TLC: budgets, history variable,     *)
(* JSON export of complete behaviours, VIEW hiding the history.            *)
EXTENDS TopicStream, TLC, Json

CONSTANTS
    MaxPub, MaxImp, MaxAck, MaxForeign, MaxReset, MaxCrash,
    Controlled      \* TRUE in the export configs: only schedules the harness can force (see NOTES.md)

VARIABLES
    hist,           \* one record per step: action, arguments, expected observable afterwards
    done            \* behaviour complete (export point)

mcvars == <<vars, hist, done>>

\* values for constants a .cfg file cannot spell (tuples, negative numbers)
MC_AuthorOrder == <<"me", "r1">>
MC_AuthorOrder3 == <<"me", "r1", "r2">>
MC_RemoteBodies2 == <<TRUE, FALSE>>
MC_RemoteBodies3 == <<TRUE, FALSE, TRUE>>
MC_RemoteBodiesQ == <<FALSE>>
MC_ResetHeights == {-1, 0}
MC_ResetHeights2 == {-1, 0, 1}

OpsJson(S) == {[a |-> o.a, tp |-> o.tp, seq |-> o.seq, body |-> o.body] : o \in S}

\* what the harness compares with the real node after the step
Post ==
    [cursor |-> cursor', stored |-> OpsJson(stored'), assoc |-> {[tp |-> x[1], a |-> x[2]] : x \in assoc'},
     stpc |-> st'.pc, stop |-> st'.op, stctx |-> st'.ctx, pubpc |-> pub'.pc, apppc |-> app'.pc,
     res |-> lastRes', chan |-> Len(chan'), up |-> up', policy |-> policy']

NoArg == [none |-> TRUE]
Log(name, arg) == hist' = Append(hist, [act |-> name, arg |-> arg, post |-> Post])

Budgets ==
    /\ nPub' <= MaxPub /\ nImp' <= MaxImp /\ nAck' <= MaxAck
    /\ nForeign' <= MaxForeign /\ nReset' <= MaxReset /\ crashes' <= MaxCrash

OpenArg(p, from) == [p |-> p, from |-> from, c |-> cursor', expect |-> OpsJson(expect'), rq |-> rq']

Steps ==
    \/ \E p \in Policies : Open(p) /\ Log("Open", OpenArg(p, "frontier"))
    \/ \E p \in Policies : OpenFromStart(p) /\ Log("Open", OpenArg(p, "start"))
    \/ \E p \in Policies, c \in [Authors -> ResetHeights] : OpenFromCursor(p, c) /\ Log("Open", OpenArg(p, "cursor"))
    \/ ForgeBegin /\ Log("ForgeBegin", [op |-> pub'.op])
    \/ ForgeCommit /\ Log("ForgeCommit", [op |-> pub.op])
    \/ Enqueue /\ Log("Enqueue", [op |-> pub.op])
    \/ ForgeForeign /\ Log("ForgeForeign", [op |-> MkOp(Me, F, Height(stored, Me, F) + 1, TRUE)])
    \/ TakePublished /\ Log("TakePublished", [op |-> st'.op])
    \/ \E r \in Remotes, s \in 0..(Len(RemoteBodies) - 1) :
          /\ (Controlled => pubq = <<>>)
          /\ TakeImported(r, s) /\ Log("TakeImported", [op |-> st'.op])
    \/ PipelineProcess /\ Log("PipelineProcess", [op |-> st.op])
    \/ SkipAck /\ Log("SkipAck", [op |-> st.op])
    \/ AckRead /\ Log("AckRead", [op |-> st.op])
    \/ AckWriteTx /\ Log("AckWriteTx", [op |-> st.op])
    \/ AckCommit /\ Log("AckCommit", [op |-> st.op])
    \/ Deliver /\ Log("Deliver", [op |-> st.op])
    \/ ReplayEnd /\ Log("ReplayEnd", NoArg)
    \/ AppRecv /\ Log("AppRecv", [ev |-> Head(chan)])
    \/ \E o \in stored : AppAckBegin(o) /\ Log("AppAckBegin", [op |-> o])
    \/ AppAckWriteTx /\ Log("AppAckWriteTx", [op |-> app.op])
    \/ AppAckCommit /\ Log("AppAckCommit", [op |-> app.op])
    \/ Crash /\ Log("Crash", [stpc |-> st.pc, pubpc |-> pub.pc, apppc |-> app.pc, stctx |-> st.ctx])

\* a behaviour is complete when the node is up again after at least one crash, replay is over and
\* everything was received; export happens there
Quiet ==
    /\ up /\ st.pc = "idle" /\ pub.pc = "idle" /\ pubq = <<>> /\ app.pc = "idle" /\ chan = <<>>

Finish ==
    /\ ~done /\ Quiet /\ crashes >= 1
    /\ done' = TRUE
    /\ UNCHANGED <<vars, hist>>

MCInit == Init /\ hist = <<>> /\ done = FALSE

MCNext ==
    \/ (~done /\ Steps /\ Budgets /\ done' = done)
    \/ Finish

MCSpec == MCInit /\ [][MCNext]_mcvars

\* exhaustive configs: history hidden
NoHistView == <<vars, done>>

Export == done => PrintT(<<"REPLAY", ToJson([kind |-> "topicstream", steps |-> hist])>>)

---------------------------------------------------------------------------
(* properties (over mcvars)                                                *)

MC_CursorMonotone ==
    [][nReset' # nReset \/ \A a \in Authors : cursor'[a] >= cursor[a]]_mcvars

MC_ForeignTopicRejected ==
    [][\A o \in stored : (o.tp # T /\ AppAckBegin(o)) => (lastRes' = "rejected" /\ cursor' = cursor)]_mcvars

=============================================================================
