-------------------------- MODULE MC_TopicStream --------------------------
(* Bounded instance of TopicStream for TLC: budgets, history variable,     *)
(* JSON export of complete behaviours, VIEW hiding the history.            *)
EXTENDS TopicStream, TLC, Json

CONSTANTS
    MaxPub, MaxPrune, MaxImp, MaxAck, MaxForeign, MaxReset, MaxCrash,
    MinWork,        \* a behaviour is exported only after that many publish/import steps
    Controlled      \* TRUE in the export configs: only schedules the harness can force (see NOTES.md)

VARIABLES
    hist,           \* one record per step: action, arguments, expected observable afterwards
    done            \* behaviour complete (export point)

mcvars == <<vars, hist, done>>

\* values for constants a .cfg file cannot spell (tuples, negative numbers)
MC_AuthorOrder == <<"me", "r1">>
MC_AuthorOrder3 == <<"me", "r1", "r2">>
MC_RemoteBodies2 == <<TRUE, FALSE>>
MC_RemoteBodies3 == <<TRUE, FALSE, TRUE>>
MC_RemoteBodiesQ == <<FALSE>>
MC_RemotePrunesQ == <<FALSE>>
MC_RemotePrunes2 == <<FALSE, TRUE>>
MC_RemotePrunes3 == <<FALSE, TRUE, FALSE>>
MC_ResetHeights == {-1, 0}
MC_ResetHeights2 == {-1, 0, 1}

OpsJson(S) == S

\* what the harness compares with the real node after the step
Post ==
    [cursor |-> cursor', stored |-> OpsJson(stored'), assoc |-> {[tp |-> x[1], a |-> x[2]] : x \in assoc'},
     stpc |-> st'.pc, stop |-> st'.op, stctx |-> st'.ctx, pubpc |-> pub'.pc, apppc |-> app'.pc, appop |-> app'.op,
     res |-> lastRes', chan |-> Len(chan'), up |-> up', policy |-> policy']

NoArg == [none |-> TRUE]
Log(name, arg) == hist' = Append(hist, [act |-> name, arg |-> arg, post |-> Post])

Budgets ==
    /\ nPub' <= MaxPub /\ nPrune' <= MaxPrune /\ nImp' <= MaxImp /\ nAck' <= MaxAck
    /\ nForeign' <= MaxForeign /\ nReset' <= MaxReset /\ crashes' <= MaxCrash

OpenArg(p, from) == [p |-> p, from |-> from, c |-> cursor', expect |-> OpsJson(expect'), rq |-> rq']

\* one named wrapper per action (TLC reports coverage per name; checks.json requires each > 0)
S_Open ==
    /\ ~done /\ done' = done
    /\ \E p \in Policies : Open(p) /\ Log("Open", OpenArg(p, "frontier"))
    /\ Budgets
S_OpenFromStart ==
    /\ ~done /\ done' = done
    /\ \E p \in Policies : OpenFromStart(p) /\ Log("Open", OpenArg(p, "start"))
    /\ Budgets
S_OpenFromCursor ==
    /\ ~done /\ done' = done
    /\ \E p \in Policies, c \in [Authors -> ResetHeights] : OpenFromCursor(p, c) /\ Log("Open", OpenArg(p, "cursor"))
    /\ Budgets
S_ForgeBegin ==
    /\ ~done /\ done' = done
    /\ \E pr \in BOOLEAN, b \in BOOLEAN : ForgeBegin(pr, b) /\ Log("ForgeBegin", [op |-> pub'.op])
    /\ Budgets
S_ForgeCommit ==
    /\ ~done /\ done' = done
    /\ ForgeCommit /\ Log("ForgeCommit", [op |-> pub.op])
    /\ Budgets
S_Enqueue ==
    /\ ~done /\ done' = done
    /\ Enqueue /\ Log("Enqueue", [op |-> pub.op])
    /\ Budgets
S_ForgeForeign ==
    /\ ~done /\ done' = done
    /\ ForgeForeign /\ Log("ForgeForeign", [op |-> MkOp(Me, F, Height(stored, Me, F) + 1, TRUE)])
    /\ Budgets
S_TakePublished ==
    /\ ~done /\ done' = done
    /\ TakePublished /\ Log("TakePublished", [op |-> st'.op])
    /\ Budgets
S_TakeImported ==
    /\ ~done /\ done' = done
    /\ \E r \in Remotes, s \in 0..(Len(RemoteBodies) - 1) : (Controlled => pubq = <<>>) /\ TakeImported(r, s) /\ Log("TakeImported", [op |-> st'.op])
    /\ Budgets
S_PipelineProcess ==
    /\ ~done /\ done' = done
    /\ PipelineProcess /\ Log("PipelineProcess", [op |-> st.op])
    /\ Budgets
S_SkipAck ==
    /\ ~done /\ done' = done
    /\ SkipAck /\ Log("SkipAck", [op |-> st.op])
    /\ Budgets
S_AckEnter ==
    /\ ~done /\ done' = done
    /\ AckEnter /\ Log("AckEnter", [op |-> st.op])
    /\ Budgets
S_AckRead ==
    /\ ~done /\ done' = done
    /\ AckRead /\ Log("AckRead", [op |-> st.op])
    /\ Budgets
S_AckWriteTx ==
    /\ ~done /\ done' = done
    /\ AckWriteTx /\ Log("AckWriteTx", [op |-> st.op])
    /\ Budgets
S_AckCommit ==
    /\ ~done /\ done' = done
    /\ AckCommit /\ Log("AckCommit", [op |-> st.op])
    /\ Budgets
S_Deliver ==
    /\ ~done /\ done' = done
    /\ Deliver /\ Log("Deliver", [op |-> st.op])
    /\ Budgets
S_ReplayEnd ==
    /\ ~done /\ done' = done
    /\ ReplayEnd /\ Log("ReplayEnd", NoArg)
    /\ Budgets
S_AppRecv ==
    /\ ~done /\ done' = done
    /\ AppRecv /\ Log("AppRecv", [ev |-> Head(chan)])
    /\ Budgets
S_AppAckBegin ==
    /\ ~done /\ done' = done
    /\ \E o \in stored : AppAckBegin(o) /\ Log("AppAckBegin", [op |-> o])
    /\ Budgets
S_AppAckRead ==
    /\ ~done /\ done' = done
    /\ AppAckRead /\ Log("AppAckRead", [op |-> app.op])
    /\ Budgets
S_AppAckWriteTx ==
    /\ ~done /\ done' = done
    /\ AppAckWriteTx /\ Log("AppAckWriteTx", [op |-> app.op])
    /\ Budgets
S_AppAckCommit ==
    /\ ~done /\ done' = done
    /\ AppAckCommit /\ Log("AppAckCommit", [op |-> app.op])
    /\ Budgets
S_Crash ==
    /\ ~done /\ done' = done
    /\ Crash /\ Log("Crash", [stpc |-> st.pc, pubpc |-> pub.pc, apppc |-> app.pc, stctx |-> st.ctx])
    /\ Budgets

\* a behaviour is complete when the node is up again after at least one crash, replay is over and
\* everything was received; export happens there
\* (export configs) overlapping acks happened in this behaviour
Quiet ==
    /\ up /\ st.pc = "idle" /\ pub.pc = "idle" /\ pubq = <<>> /\ app.pc = "idle" /\ chan = <<>>

Finish ==
    /\ ~done /\ Quiet /\ crashes >= 1 /\ nPub + nImp >= MinWork
    /\ done' = TRUE
    /\ UNCHANGED <<vars, hist>>

MCInit == Init /\ hist = <<>> /\ done = FALSE

MCNext ==
    \/ S_Open
    \/ S_OpenFromStart
    \/ S_OpenFromCursor
    \/ S_ForgeBegin
    \/ S_ForgeCommit
    \/ S_Enqueue
    \/ S_ForgeForeign
    \/ S_TakePublished
    \/ S_TakeImported
    \/ S_PipelineProcess
    \/ S_SkipAck
    \/ S_AckEnter
    \/ S_AckRead
    \/ S_AckWriteTx
    \/ S_AckCommit
    \/ S_Deliver
    \/ S_ReplayEnd
    \/ S_AppRecv
    \/ S_AppAckBegin
    \/ S_AppAckRead
    \/ S_AppAckWriteTx
    \/ S_AppAckCommit
    \/ S_Crash
    \/ Finish

MCSpec == MCInit /\ [][MCNext]_mcvars

\* exhaustive configs: history hidden
NoHistView == <<vars, done>>

Export == done => PrintT(<<"REPLAY", ToJson([kind |-> "topicstream", steps |-> hist])>>)

---------------------------------------------------------------------------
(* properties (over mcvars)                                                *)

MC_CursorMonotone ==
    [][nReset' # nReset \/ \A a \in Authors : cursor'[a] >= cursor[a]]_mcvars

MC_ForeignTopicRejected ==
    [][\A o \in stored : (o.tp # T /\ AppAckBegin(o)) =>
            (cursor' = cursor /\ (lastRes' = "rejected" \/ (ackLock # "none" /\ app'.pc = "ackblocked")))]_mcvars

=============================================================================
