SPECIFICATION MCSpec
CONSTANTS
  Me = "me"
  Remotes = {"r1"}
  T = "t"
  F = "f"
  AuthorOrder <- MC_AuthorOrder
  RemoteBodies <- MC_RemoteBodiesQ
  RemotePrunes <- MC_RemotePrunesQ
  Policies = {"auto", "explicit"}
  ResetHeights <- MC_ResetHeights
  Defect_ReadBeforePermit = FALSE
  MaxPub = 1
  MaxPrune = 1
  MaxImp = 1
  MaxAck = 1
  MaxForeign = 1
  MaxReset = 1
  MaxCrash = 2
  MinWork = 0
  Controlled = FALSE
INVARIANTS
  TypeOK
  LocksConsistent
  StoredIsAssociated
  StoredImpliesAssociated
  LogsContiguous
  PrunedOnlyBelowPruneOp
  CursorIsMaxOfAcked
  OnlyOwnTopicAcked
  ForeignNeverPastCheck
  ReplayExact
  ReplayQueueCoversExpect
  NeverForgotten
PROPERTIES
  MC_CursorMonotone
  MC_ForeignTopicRejected
VIEW NoHistView
CHECK_DEADLOCK FALSE
