SPECIFICATION MCSpec
CONSTANTS
  Me = "me"
  Remotes = {"r1"}
  T = "t"
  F = "f"
  AuthorOrder <- MC_AuthorOrder
  RemoteBodies <- MC_RemoteBodies2
  RemotePrunes <- MC_RemotePrunes2
  Policies = {"auto", "explicit"}
  ResetHeights <- MC_ResetHeights
  Defect_ReadBeforePermit = FALSE
  MaxPub = 2
  MaxPrune = 1
  MaxImp = 1
  MaxAck = 2
  MaxForeign = 1
  MaxReset = 1
  MaxCrash = 1
  MinWork = 0
  Controlled = FALSE
INVARIANTS
  TypeOK
  CursorIsMaxOfAcked
  OnlyOwnTopicAcked
  ForeignNeverPastCheck
PROPERTIES
  MC_CursorMonotone
  MC_ForeignTopicRejected
VIEW NoHistView
CHECK_DEADLOCK FALSE
