SPECIFICATION CompareSpec
CONSTANTS
  Author = {"a1", "a2"}
  Log = {"l1", "l2"}
  MaxH = 3
  MaxN = 0
INVARIANTS
  ExportCompare
CHECK_DEADLOCK FALSE
