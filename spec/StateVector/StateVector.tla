--------------------------- MODULE StateVector ---------------------------
(***************************************************************************)
(* State vectors ("log heights") of p2panda-core.                          *)
(*                                                                         *)
(*   Compare(local, remote)  transcribes  p2panda-core/src/logs.rs         *)
(*                           `compare`, branch for branch                  *)
(*   Advance(c, a, l, h)     transcribes  p2panda-core/src/cursor.rs       *)
(*                           `Cursor::advance`                             *)
(*                                                                         *)
(* A height map is a function from a SUBSET of Author to functions from a  *)
(* SUBSET of Log to heights (exactly the shape of the nested BTreeMap: an   *)
(* author may be present with an empty log map).  "None" in a range is -1. *)
(***************************************************************************)
EXTENDS Integers, FiniteSets, Sequences

CONSTANTS Author, Log, MaxH

NoneH == -1
Heights == 0..MaxH
LogMaps == UNION {[L -> Heights] : L \in SUBSET Log}
HeightMaps == UNION {[A -> LogMaps] : A \in SUBSET Author}
EmptyMap == [x \in {} |-> 0]

Has(m, a, l) == a \in DOMAIN m /\ l \in DOMAIN m[a]

(* Flattened view: the set of (author, log, value) triples of a nested map *)
Flat(m) == UNION {{<<a, l, m[a][l]>> : l \in DOMAIN m[a]} : a \in DOMAIN m}

---------------------------------------------------------------------------
(* logs.rs:61-120                                                          *)

\* branch 1: remote does not know the author -> all local logs from the start
NeedsUnknownAuthor(local, a) ==
    [l \in DOMAIN local[a] |-> <<NoneH, local[a][l]>>]

\* branch 3/4: per-log comparison
NeedsKnownAuthor(local, remote, a) ==
    LET Ls == {l \in DOMAIN local[a] :
                  \/ l \notin DOMAIN remote[a]                 \* log unknown
                  \/ remote[a][l] < local[a][l]}               \* remote behind
    IN [l \in Ls |-> IF l \notin DOMAIN remote[a]
                     THEN <<NoneH, local[a][l]>>
                     ELSE <<remote[a][l], local[a][l]>>]

Compare(local, remote) ==
    LET As == {a \in DOMAIN local :
                  \/ a \notin DOMAIN remote
                  \/ /\ local[a] # remote[a]                   \* branch 2: equal -> skip
                     /\ DOMAIN NeedsKnownAuthor(local, remote, a) # {}}
    IN [a \in As |-> IF a \notin DOMAIN remote
                     THEN NeedsUnknownAuthor(local, a)
                     ELSE NeedsKnownAuthor(local, remote, a)]

---------------------------------------------------------------------------
(* C06: declarative definition of "what the remote is missing"             *)

KeysOf(m) == UNION {{<<a, l>> : l \in DOMAIN m[a]} : a \in DOMAIN m}

Decl(local, remote) ==
    {<<p[1], p[2], <<(IF Has(remote, p[1], p[2]) THEN remote[p[1]][p[2]] ELSE NoneH), local[p[1]][p[2]]>>>> :
        p \in {q \in KeysOf(local) :
                  ~Has(remote, q[1], q[2]) \/ remote[q[1]][q[2]] < local[q[1]][q[2]]}}

HeightOf(m, a, l) == IF Has(m, a, l) THEN m[a][l] ELSE NoneH
Max(x, y) == IF x >= y THEN x ELSE y

\* remote heights after receiving everything in the diff (range's "until")
MergedHeight(remote, diff, a, l) ==
    IF Has(diff, a, l) THEN diff[a][l][2] ELSE HeightOf(remote, a, l)

CompareMatchesDecl(local, remote) == Flat(Compare(local, remote)) = Decl(local, remote)

MergeIsPointwiseMax(local, remote) ==
    \A p \in KeysOf(local) \cup KeysOf(remote) :
        MergedHeight(remote, Compare(local, remote), p[1], p[2])
            = Max(HeightOf(local, p[1], p[2]), HeightOf(remote, p[1], p[2]))

---------------------------------------------------------------------------
(* cursor.rs:51-64                                                         *)

Advance(c, a, l, h) ==
    IF Has(c, a, l) /\ c[a][l] >= h
    THEN c
    ELSE LET old == IF a \in DOMAIN c THEN c[a] ELSE EmptyMap
             new == [k \in DOMAIN old \cup {l} |-> IF k = l THEN h ELSE old[k]]
         IN [b \in DOMAIN c \cup {a} |-> IF b = a THEN new ELSE c[b]]

\* Cursor as a little state machine: `cur` is the cursor state, `adv` the set of
\* all (author, log, height) it was ever advanced to.
VARIABLES cur, adv, n

CursorInit == cur = EmptyMap /\ adv = {} /\ n = 0

CursorAdvance(a, l, h) ==
    /\ cur' = Advance(cur, a, l, h)
    /\ adv' = adv \cup {<<a, l, h>>}
    /\ n' = n + 1

CursorNext == \E a \in Author, l \in Log, h \in Heights : CursorAdvance(a, l, h)

\* C07 (first half): cursor state = pointwise max of everything it was advanced to
\* (a function of the SET adv, hence independent of the order of advances).
MaxAdvanced(a, l) ==
    LET hs == {t[3] : t \in {u \in adv : u[1] = a /\ u[2] = l}}
    IN IF hs = {} THEN NoneH ELSE CHOOSE h \in hs : \A g \in hs : g <= h

CursorIsPointwiseMax ==
    \A p \in KeysOf(cur) \cup {<<t[1], t[2]>> : t \in adv} : HeightOf(cur, p[1], p[2]) = MaxAdvanced(p[1], p[2])

CursorNeverBackwards ==
    [][\A a \in Author, l \in Log : HeightOf(cur', a, l) >= HeightOf(cur, a, l)]_<<cur, adv, n>>
===========================================================================
