------------------------ MODULE Trace_StateVector ------------------------
(* Trace validation: events recorded from the real `compare` / `Cursor`    *)
(* (harness `vh-core statevector record`) must be behaviours of            *)
(* StateVector, with the C06/C07 predicates evaluated at every step.       *)
EXTENDS StateVector, TLC, Json, IOUtils

Rec == ndJsonDeserialize(IOEnv.TRACE)

VARIABLE i
tvars == <<cur, adv, n, i>>

Ev == Rec[i]

\* JSON side: maps are objects {"a":{"l":h}}, diffs {"a":{"l":[from,until]}} (None = -1)
FlatDiffJson(d) == UNION {{<<a, l, <<d[a][l][1], d[a][l][2]>>>> : l \in DOMAIN d[a]} : a \in DOMAIN d}

StepReset ==
    /\ Ev.ev = "Reset"
    /\ cur' = EmptyMap /\ adv' = {} /\ n' = 0

StepAdvance ==
    /\ Ev.ev = "Advance"
    /\ CursorAdvance(Ev.a, Ev.l, Ev.h)
    /\ Flat(cur') = Flat(Ev.after)           \* the implementation's cursor state after the call

StepCompare ==
    /\ Ev.ev = "Compare"
    /\ FlatDiffJson(Ev.diff) = Flat(Compare(Ev.local, Ev.remote))   \* impl = transcription
    /\ FlatDiffJson(Ev.diff) = Decl(Ev.local, Ev.remote)            \* C06 on the impl's answer
    /\ MergeIsPointwiseMax(Ev.local, Ev.remote)
    /\ UNCHANGED <<cur, adv, n>>

TraceInit == CursorInit /\ i = 1
TraceNext ==
    /\ i <= Len(Rec)
    /\ i' = i + 1
    /\ (StepReset \/ StepAdvance \/ StepCompare)
TraceSpec == TraceInit /\ [][TraceNext]_tvars

C07_CursorIsPointwiseMax == CursorIsPointwiseMax

TraceAccepted ==
    LET d == TLCGet("stats").diameter IN
    IF d - 1 = Len(Rec) THEN TRUE
    ELSE Print(<<"TRACE_REJECTED", d - 1, Len(Rec), ToJson(Rec[d])>>, FALSE)
===========================================================================
