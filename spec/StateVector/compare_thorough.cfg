SPECIFICATION CompareSpec
CONSTANTS
  Author = {"a1", "a2"}
  Log = {"l1", "l2"}
  MaxH = 3
  MaxN = 0
INVARIANTS
  C06_CompareMatchesDecl
  C06_MergeIsPointwiseMax
CHECK_DEADLOCK FALSE
