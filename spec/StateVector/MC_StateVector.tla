------------------------- MODULE MC_StateVector -------------------------
(* Bounded instances of StateVector for TLC + JSON export of every case.  *)
EXTENDS StateVector, TLC, Json

CONSTANTS MaxN          \* number of advances in the cursor machine

VARIABLES local, remote, \* the pair handed to Compare
          hist           \* sequence of advances (history; hidden by VIEW where it does not matter)

mcvars == <<local, remote, cur, adv, n, hist>>

MapJson(m) == {[a |-> a, logs |-> {[l |-> l, h |-> m[a][l]] : l \in DOMAIN m[a]}] : a \in DOMAIN m}
DiffJson(d) == {[a |-> a, logs |-> {[l |-> l, from |-> d[a][l][1], until |-> d[a][l][2]] : l \in DOMAIN d[a]}] : a \in DOMAIN d}

---------------------------------------------------------------------------
(* Machine 1: every pair of height maps (one initial state per pair)       *)

CompareInit ==
    /\ local \in HeightMaps /\ remote \in HeightMaps
    /\ CursorInit /\ hist = <<>>
CompareNext == FALSE /\ UNCHANGED mcvars
CompareSpec == CompareInit /\ [][CompareNext]_mcvars

C06_CompareMatchesDecl == CompareMatchesDecl(local, remote)
C06_MergeIsPointwiseMax == MergeIsPointwiseMax(local, remote)

\* vacuity guards: each branch of `compare` is exercised by some pair
BranchUnknownAuthor == \E a \in DOMAIN local : a \notin DOMAIN remote
BranchEqualLogs == \E a \in DOMAIN local : a \in DOMAIN remote /\ local[a] = remote[a]
BranchUnknownLog == \E a \in DOMAIN local : a \in DOMAIN remote /\ \E l \in DOMAIN local[a] : l \notin DOMAIN remote[a]
BranchBehind == \E a \in DOMAIN local : a \in DOMAIN remote /\ \E l \in DOMAIN local[a] : l \in DOMAIN remote[a] /\ remote[a][l] < local[a][l]
BranchAhead == \E a \in DOMAIN local : a \in DOMAIN remote /\ \E l \in DOMAIN local[a] : l \in DOMAIN remote[a] /\ remote[a][l] > local[a][l]

ExportCompare ==
    PrintT(<<"REPLAY", ToJson([kind |-> "compare",
                               local |-> MapJson(local), remote |-> MapJson(remote),
                               diff |-> DiffJson(Compare(local, remote))])>>)

---------------------------------------------------------------------------
(* Machine 2: the cursor under every advance sequence of length <= MaxN    *)

CursorMCInit == local = EmptyMap /\ remote = EmptyMap /\ CursorInit /\ hist = <<>>
CursorMCNext ==
    /\ n < MaxN
    /\ \E a \in Author, l \in Log, h \in Heights :
          /\ CursorAdvance(a, l, h)
          /\ hist' = Append(hist, [a |-> a, l |-> l, h |-> h, after |-> MapJson(Advance(cur, a, l, h))])
    /\ UNCHANGED <<local, remote>>
CursorSpec == CursorMCInit /\ [][CursorMCNext]_mcvars

C07_CursorIsPointwiseMax == CursorIsPointwiseMax
C07_CursorNeverBackwards ==
    [][\A a \in Author, l \in Log : HeightOf(cur', a, l) >= HeightOf(cur, a, l)]_mcvars

NoHistView == <<local, remote, cur, adv, n>>

ExportCursor ==
    n = MaxN => PrintT(<<"REPLAY", ToJson([kind |-> "cursor", steps |-> hist])>>)
===========================================================================
