SPECIFICATION CursorSpec
CONSTANTS
  Author = {"a1", "a2"}
  Log = {"l1", "l2"}
  MaxH = 2
  MaxN = 6
INVARIANTS
  C07_CursorIsPointwiseMax
PROPERTIES
  C07_CursorNeverBackwards
VIEW NoHistView
CHECK_DEADLOCK FALSE
