SPECIFICATION TraceSpec
CONSTANTS
  Author = {}
  Log = {}
  MaxH = 0
INVARIANTS
  C07_CursorIsPointwiseMax
PROPERTIES
  CursorNeverBackwards
POSTCONDITION TraceAccepted
CHECK_DEADLOCK FALSE
