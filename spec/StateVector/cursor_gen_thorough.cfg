SPECIFICATION CursorSpec
CONSTANTS
  Author = {"a1", "a2"}
  Log = {"l1", "l2"}
  MaxH = 2
  MaxN = 4
INVARIANTS
  ExportCursor
CHECK_DEADLOCK FALSE
