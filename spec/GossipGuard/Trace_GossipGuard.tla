------------------------ MODULE Trace_GossipGuard ------------------------
(* Trace validation: schedules of the real `Gossip` / `GossipHandle` /     *)
(* `GossipSubscription` code, driven by a seeded random scheduler over the *)
(* schedule points (harness `vh-gossip gossipguard record`), must be       *)
(* behaviours of GossipGuard, with the C29 predicates evaluated at every   *)
(* step.  Every event carries the action, its arguments and what the       *)
(* harness observed afterwards: where every stream() call stands, the      *)
(* state of every handle, identity and value of the counter behind every   *)
(* live handle and behind the entry of the senders map, the manager's      *)
(* mailbox and its session.                                                *)
EXTENDS GossipGuard, TLC, Json, IOUtils

Rec == ndJsonDeserialize(IOEnv.TRACE)

VARIABLE i
tvars == <<vars, i>>

Ev == Rec[i]

ToSet(seq) == {seq[j] : j \in DOMAIN seq}

\* values for CloneSeq
Clones2 == <<"k1", "k2">>

\* the state after the step is the one the harness saw
Observed ==
    /\ \A s \in Proc : pc'[s] = Ev.pc[s]
    /\ \A h \in HandleId : hst'[h] = Ev.hst[h]
    /\ \A h \in DOMAIN Ev.live :
          /\ hst'[h] = "live"
          /\ hctr'[h] = Ev.live[h].ctr
          /\ ctr'[hctr'[h]] = Ev.live[h].val
    /\ \A h \in HandleId : hst'[h] = "live" => h \in DOMAIN Ev.live
    /\ Ev.senders.locked <=> (writer' # None)
    /\ ~Ev.senders.locked =>
          /\ senders'.ctr = Ev.senders.ctr
          /\ senders' # NoEntry =>
                /\ Ev.senders.mlocked <=> (cmutex'[senders'.ctr] # None)
                /\ ~Ev.senders.mlocked => ctr'[senders'.ctr] = Ev.senders.val
    /\ Len(mailbox') = Len(Ev.mailbox)
    /\ \A j \in 1..Len(mailbox') : mailbox'[j].t = Ev.mailbox[j].t /\ mailbox'[j].by = Ev.mailbox[j].by
    /\ session' = Ev.session
    /\ orphans' = ToSet(Ev.orphans)

StepReset ==
    /\ Ev.ev = "Reset"
    /\ pc' = [s \in Proc |-> "idle"]
    /\ hst' = [h \in HandleId |-> "none"]
    /\ hctr' = [h \in HandleId |-> None]
    /\ hsess' = [h \in HandleId |-> None]
    /\ ctr' = [c \in Proc |-> 0]
    /\ cmutex' = [c \in Proc |-> None]
    /\ senders' = NoEntry
    /\ readers' = {} /\ writer' = None
    /\ mailbox' = <<>>
    /\ session' = None /\ orphans' = {}

StepReadSenders == Ev.ev = "ReadSenders" /\ ReadSenders(Ev.p) /\ Observed
StepResumeRead == Ev.ev = "ResumeRead" /\ ResumeRead(Ev.p) /\ Observed
StepResumeWrite == Ev.ev = "ResumeWrite" /\ ResumeWrite(Ev.p) /\ Observed
StepCloneGuard == Ev.ev = "CloneGuard" /\ CloneGuard(Ev.p) /\ Observed
StepAcquireWrite == Ev.ev = "AcquireWrite" /\ AcquireWrite(Ev.p) /\ Observed
StepCallSubscribe == Ev.ev = "CallSubscribe" /\ CallSubscribe(Ev.p) /\ Observed
StepInsertSenders == Ev.ev = "InsertSenders" /\ InsertSenders(Ev.p) /\ Observed
StepCancelStream == Ev.ev = "CancelStream" /\ CancelStream(Ev.p) /\ Observed
StepActorStep == Ev.ev = "ActorStep" /\ ActorStep /\ Observed
StepCloneHandle == Ev.ev = "CloneHandle" /\ CloneHandle(Ev.p, Ev.k) /\ Observed
StepFetchSub == Ev.ev = "FetchSub" /\ FetchSub(Ev.p) /\ Observed
StepSendUnsub == Ev.ev = "SendUnsub" /\ SendUnsub(Ev.p) /\ Observed

TraceInit == Init /\ i = 1

TraceNext ==
    /\ i <= Len(Rec)
    /\ i' = i + 1
    /\ \/ StepReset
       \/ StepReadSenders \/ StepResumeRead \/ StepResumeWrite \/ StepCloneGuard \/ StepAcquireWrite \/ StepCallSubscribe
       \/ StepInsertSenders \/ StepCancelStream \/ StepActorStep \/ StepCloneHandle \/ StepFetchSub \/ StepSendUnsub

TraceSpec == TraceInit /\ [][TraceNext]_tvars

C29_ReturnedHandleIsBacked == ReturnedHandleIsBacked
C29_LeftAtZero == LeftAtZero
C29_LeftOnlyAtZero == [][SendsUnsubscribe => {h \in HandleId : hst'[h] = "live"} = {}]_tvars
X_HandleUsesCurrentSession == HandleUsesCurrentSession
X_CounterCountsHandles == CounterCountsHandles

TraceAccepted ==
    LET d == TLCGet("stats").diameter IN
    IF d - 1 = Len(Rec) THEN TRUE
    ELSE Print(<<"TRACE_REJECTED", d - 1, Len(Rec), ToJson(Rec[d])>>, FALSE)
===========================================================================
