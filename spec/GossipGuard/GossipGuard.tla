---------------------------- MODULE GossipGuard ----------------------------
(***************************************************************************)
(* Reference counting of gossip topic handles in p2panda-net               *)
(* (p2panda-net/src/gossip/api.rs): `Gossip::stream`, `TopicDropGuard`,    *)
(* and the part of the gossip manager actor that reacts to `Subscribe` /   *)
(* `Unsubscribe` (p2panda-net/src/gossip/actors/manager.rs:186-288).       *)
(*                                                                         *)
(* One topic.  Every process s \in Proc calls `gossip.stream(topic)` once; *)
(* the handle it gets back is named after the process and may be dropped   *)
(* at any later time.  Live handles may additionally be cloned             *)
(* (`GossipHandle::clone` / `GossipHandle::subscribe`, both are            *)
(* `TopicDropGuard::clone`) Len(CloneSeq) times; clones are dropped like   *)
(* handles.                                                                *)
(*                                                                         *)
(* The three Defect_* constants select, for three places of the code, the  *)
(* behaviour as it was found (TRUE) or as it is after the repair (FALSE):  *)
(*                                                                         *)
(*  Defect_CheckThenClone  fast path of stream(): `has_subscriptions()`    *)
(*                         (atomic load) and `guard.clone()` (fetch_add)   *)
(*                         are two steps; FALSE: one atomic                *)
(*                         "increment if non-zero".                        *)
(*  Defect_UnlockedJoin    slow path of stream(): new guard, Subscribe     *)
(*                         call and insertion into `senders` run without   *)
(*                         mutual exclusion; FALSE: under the write lock   *)
(*                         of `senders`, after re-checking the entry.      *)
(*  Defect_SplitDrop       `TopicDropGuard::drop`: the counter is not      *)
(*                         protected between the decrement to zero and    *)
(*                         the sending of Unsubscribe; FALSE: the counter  *)
(*                         mutex is held from the decrement until the     *)
(*                         message is in the inbox.                       *)
(*                                                                         *)
(* Granularity: one action per stretch of code between two points at which *)
(* another task/thread can be scheduled *and observe a difference*.  Lock  *)
(* acquisitions are merged with the first shared access that follows them  *)
(* (acquire is a right mover), releases with the last access before them   *)
(* (release is a left mover); creating a guard is local until it is        *)
(* inserted or dropped.  A task that would have to wait for the RwLock is  *)
(* modelled as not having taken the step yet (tokio's RwLock is FIFO-fair; *)
(* with the merged actions the waiting order cannot be observed).          *)
(***************************************************************************)
EXTENDS Integers, Sequences, FiniteSets

CONSTANTS Proc,                  \* callers of stream(), strings
          CloneSeq,              \* names of the clones that may be made (GossipHandle::clone /
                                 \* subscribe), a sequence of strings, used in this order
          MaxCancels,            \* how many stream() futures may be dropped half-way
          Defect_CheckThenClone,
          Defect_UnlockedJoin,
          Defect_SplitDrop

None == "none"
NoEntry == [ctr |-> None, sess |-> None]
CloneIds == {CloneSeq[i] : i \in 1..Len(CloneSeq)}
\* a handle is either the one returned to process s (named s) or a clone
HandleId == Proc \cup CloneIds

VARIABLES
    pc,        \* pc[s]: where the stream() call of s stands
    hst,       \* hst[h]: "none" | "live" | "fetched" (fetch_sub done, Unsubscribe not yet sent) | "dropped"
    hctr,      \* hctr[h]: id of the counter the guard of handle h (or of the running call) points to
    hsess,     \* hsess[h]: session (id of the Subscribe) whose channels the handle holds
    ctr,       \* ctr[c]: value of the counter created by the slow path of process c
    cmutex,    \* cmutex[c]: the handle whose drop holds the mutex of counter c across the
               \*            schedule point before send_message(Unsubscribe), or "none"
    senders,   \* entry of the `senders` map for the topic: NoEntry or [ctr |-> c, sess |-> x]
    readers,   \* processes holding the read lock of `senders` across a schedule point
    writer,    \* process holding the write lock of `senders` across a schedule point, or "none"
    mailbox,   \* FIFO mailbox of the gossip manager: [t |-> "Subscribe"/"Unsubscribe", by |-> id]
    session,   \* manager state: sessions_by_topic[topic] (id of the Subscribe that made it) or "none"
    orphans    \* sessions replaced in sessions_by_topic without having been stopped

vars == <<pc, hst, hctr, hsess, ctr, cmutex, senders, readers, writer, mailbox, session, orphans>>

PcValues == {"idle",       \* stream() not called yet
             "mutexR",     \* fast path: senders read-locked, blocked on the mutex of the entry's counter
             "mutexW",     \* slow path: senders write-locked, blocked on the mutex of the entry's counter
             "atA",        \* api.rs:161 between has_subscriptions() and guard.clone(), read lock held
             "atW",        \* (repaired slow path) before senders.write()
             "atB",        \* api.rs:180 new guard created
             "waitReply",  \* api.rs:201 Subscribe sent, waiting for the reply
             "atC",        \* api.rs:209 reply received, before the insertion into senders
             "returned",   \* stream() returned Ok(handle)
             "cancelled"}  \* the future of stream() was dropped before it returned

TypeOK ==
    /\ pc \in [Proc -> PcValues]
    /\ hst \in [HandleId -> {"none", "live", "fetched", "dropped"}]
    /\ hctr \in [HandleId -> Proc \cup {None}]
    /\ hsess \in [HandleId -> Proc \cup {None}]
    /\ ctr \in [Proc -> Nat]
    /\ cmutex \in [Proc -> HandleId \cup {None}]
    /\ senders = NoEntry \/ senders \in [ctr : Proc, sess : Proc]
    /\ readers \subseteq Proc
    /\ writer \in Proc \cup {None}
    /\ session \in Proc \cup {None}
    /\ orphans \subseteq Proc

Init ==
    /\ pc = [s \in Proc |-> "idle"]
    /\ hst = [h \in HandleId |-> "none"]
    /\ hctr = [h \in HandleId |-> None]
    /\ hsess = [h \in HandleId |-> None]
    /\ ctr = [c \in Proc |-> 0]
    /\ cmutex = [c \in Proc |-> None]
    /\ senders = NoEntry
    /\ readers = {} /\ writer = None
    /\ mailbox = <<>>
    /\ session = None /\ orphans = {}

\* TopicDropGuard::has_subscriptions (api.rs:454) on the entry of the senders map
EntryLive == senders # NoEntry /\ ctr[senders.ctr] >= 1

\* try_clone() on the entry has to wait: a drop holds the mutex of its counter
EntryLocked == senders # NoEntry /\ cmutex[senders.ctr] # None

---------------------------------------------------------------------------
(* stream(): fast path, api.rs:157-170                                     *)

\* `self.senders.read().await.get(&topic)` + liveness check.
\*  - entry live, code as found: park between check and clone with the read lock held
\*  - entry live, repaired: atomic increment-if-non-zero, handle returned
\*  - otherwise: read lock released; (as found) new guard created, api.rs:177;
\*               (repaired) go for the write lock
EvalRead(s) ==
    IF EntryLive
    THEN IF Defect_CheckThenClone
         THEN /\ pc' = [pc EXCEPT ![s] = "atA"]
              /\ readers' = readers \cup {s}
              /\ hctr' = [hctr EXCEPT ![s] = senders.ctr]
              /\ hsess' = [hsess EXCEPT ![s] = senders.sess]
              /\ UNCHANGED <<ctr, hst>>
         ELSE /\ pc' = [pc EXCEPT ![s] = "returned"]
              /\ ctr' = [ctr EXCEPT ![senders.ctr] = @ + 1]
              /\ hctr' = [hctr EXCEPT ![s] = senders.ctr]
              /\ hsess' = [hsess EXCEPT ![s] = senders.sess]
              /\ hst' = [hst EXCEPT ![s] = "live"]
              /\ readers' = readers \ {s}
    ELSE IF Defect_UnlockedJoin
         THEN /\ pc' = [pc EXCEPT ![s] = "atB"]
              /\ ctr' = [ctr EXCEPT ![s] = 1]            \* TopicDropGuard::new, INITIAL_COUNTER
              /\ hctr' = [hctr EXCEPT ![s] = s]
              /\ readers' = readers \ {s}
              /\ UNCHANGED <<hsess, hst>>
         ELSE /\ pc' = [pc EXCEPT ![s] = "atW"]
              /\ readers' = readers \ {s}
              /\ UNCHANGED <<ctr, hctr, hsess, hst>>

ReadSenders(s) ==
    /\ pc[s] = "idle"
    /\ writer = None
    /\ IF EntryLocked
       THEN \* the call sits in try_clone() (std mutex) with the read lock of senders held
            /\ pc' = [pc EXCEPT ![s] = "mutexR"]
            /\ readers' = readers \cup {s}
            /\ UNCHANGED <<ctr, hctr, hsess, hst>>
       ELSE EvalRead(s)
    /\ UNCHANGED <<cmutex, senders, writer, mailbox, session, orphans>>

\* the drop that held the counter mutex is through: try_clone() goes on by itself
ResumeRead(s) ==
    /\ pc[s] = "mutexR"
    /\ ~EntryLocked
    /\ EvalRead(s)
    /\ UNCHANGED <<cmutex, senders, writer, mailbox, session, orphans>>

\* `guard.clone()`: unconditional fetch_add (api.rs:472-476), read lock released on return
CloneGuard(s) ==
    /\ pc[s] = "atA"
    /\ cmutex[hctr[s]] = None
    /\ ctr' = [ctr EXCEPT ![hctr[s]] = @ + 1]
    /\ readers' = readers \ {s}
    /\ pc' = [pc EXCEPT ![s] = "returned"]
    /\ hst' = [hst EXCEPT ![s] = "live"]
    /\ UNCHANGED <<hctr, hsess, cmutex, senders, writer, mailbox, session, orphans>>

---------------------------------------------------------------------------
(* stream(): slow path, api.rs:172-228                                     *)

\* repaired code only: `self.senders.write().await`, entry checked again under the lock
EvalWrite(s) ==
    IF EntryLive
    THEN /\ pc' = [pc EXCEPT ![s] = "returned"]
         /\ ctr' = [ctr EXCEPT ![senders.ctr] = @ + 1]
         /\ hctr' = [hctr EXCEPT ![s] = senders.ctr]
         /\ hsess' = [hsess EXCEPT ![s] = senders.sess]
         /\ hst' = [hst EXCEPT ![s] = "live"]
         /\ writer' = None
    ELSE /\ pc' = [pc EXCEPT ![s] = "atB"]
         /\ ctr' = [ctr EXCEPT ![s] = 1]
         /\ hctr' = [hctr EXCEPT ![s] = s]
         /\ writer' = s
         /\ UNCHANGED <<hsess, hst>>

AcquireWrite(s) ==
    /\ pc[s] = "atW"
    /\ writer = None /\ readers = {}
    /\ IF EntryLocked
       THEN /\ pc' = [pc EXCEPT ![s] = "mutexW"]
            /\ writer' = s
            /\ UNCHANGED <<ctr, hctr, hsess, hst>>
       ELSE EvalWrite(s)
    /\ UNCHANGED <<cmutex, senders, readers, mailbox, session, orphans>>

ResumeWrite(s) ==
    /\ pc[s] = "mutexW"
    /\ ~EntryLocked
    /\ EvalWrite(s)
    /\ UNCHANGED <<cmutex, senders, readers, mailbox, session, orphans>>

\* `call!(actor_ref, ToGossipManager::Subscribe, topic, node_ids)`: message enqueued
CallSubscribe(s) ==
    /\ pc[s] = "atB"
    /\ mailbox' = Append(mailbox, [t |-> "Subscribe", by |-> s])
    /\ pc' = [pc EXCEPT ![s] = "waitReply"]
    /\ UNCHANGED <<hst, hctr, hsess, ctr, cmutex, senders, readers, writer, session, orphans>>

\* `senders.write().await; senders.insert(..)`; the handle is returned
InsertSenders(s) ==
    /\ pc[s] = "atC"
    /\ readers = {}
    /\ IF Defect_UnlockedJoin THEN writer = None ELSE writer = s
    /\ senders' = [ctr |-> hctr[s], sess |-> hsess[s]]
    /\ writer' = None
    /\ pc' = [pc EXCEPT ![s] = "returned"]
    /\ hst' = [hst EXCEPT ![s] = "live"]
    /\ UNCHANGED <<hctr, hsess, ctr, cmutex, readers, mailbox, session, orphans>>

---------------------------------------------------------------------------
(* gossip manager actor, manager.rs:186-288                                *)

ActorStep ==
    /\ mailbox # <<>>
    /\ LET m == Head(mailbox) IN
       IF m.t = "Subscribe"
       THEN \* new session replaces sessions_by_topic[topic] (an existing one is not stopped),
            \* the reply resumes the caller up to api.rs:209
            \* (if the caller is gone the reply is lost, manager.rs:263 ignores that)
            /\ session' = m.by
            /\ orphans' = IF session = None THEN orphans ELSE orphans \cup {session}
            /\ pc' = [pc EXCEPT ![m.by] = IF @ = "waitReply" THEN "atC" ELSE @]
            /\ hsess' = [hsess EXCEPT ![m.by] = m.by]
       ELSE \* Unsubscribe: stop the session registered for the topic, if any
            /\ session' = None
            /\ UNCHANGED <<orphans, pc, hsess>>
    /\ mailbox' = Tail(mailbox)
    /\ UNCHANGED <<hst, hctr, ctr, cmutex, senders, readers, writer>>

---------------------------------------------------------------------------
(* handles: clone and drop, api.rs:472-531                                 *)

\* GossipHandle::clone / GossipHandle::subscribe on a live handle: fetch_add
CloneHandle(h, k) ==
    /\ hst[h] = "live"
    /\ cmutex[hctr[h]] = None
    /\ \E i \in 1..Len(CloneSeq) :
          /\ k = CloneSeq[i] /\ hst[k] = "none"
          /\ \A j \in 1..(i - 1) : hst[CloneSeq[j]] # "none"    \* clone names are used in order
    /\ ctr' = [ctr EXCEPT ![hctr[h]] = @ + 1]
    /\ hst' = [hst EXCEPT ![k] = "live"]
    /\ hctr' = [hctr EXCEPT ![k] = hctr[h]]
    /\ hsess' = [hsess EXCEPT ![k] = hsess[h]]
    /\ UNCHANGED <<pc, cmutex, senders, readers, writer, mailbox, session, orphans>>

Unsub(h) == [t |-> "Unsubscribe", by |-> h]

\* TopicDropGuard::drop, first half: lock the counter, decrement. If the counter arrived at
\* zero the drop goes on to the schedule point before send_message(Unsubscribe) - with the
\* counter mutex held (repaired code) or not (Defect_SplitDrop); otherwise it is through.
FetchSub(h) ==
    /\ hst[h] = "live"
    /\ cmutex[hctr[h]] = None
    /\ LET prev == ctr[hctr[h]] IN
       /\ ctr' = [ctr EXCEPT ![hctr[h]] = prev - 1]
       /\ IF prev = 1
          THEN /\ hst' = [hst EXCEPT ![h] = "fetched"]
               /\ cmutex' = IF Defect_SplitDrop THEN cmutex ELSE [cmutex EXCEPT ![hctr[h]] = h]
          ELSE /\ hst' = [hst EXCEPT ![h] = "dropped"]
               /\ UNCHANGED cmutex
    /\ UNCHANGED <<pc, hctr, hsess, senders, readers, writer, mailbox, session, orphans>>

\* second half: actor_ref.send_message(Unsubscribe), then the counter mutex is released
SendUnsub(h) ==
    /\ hst[h] = "fetched"
    /\ mailbox' = Append(mailbox, Unsub(h))
    /\ hst' = [hst EXCEPT ![h] = "dropped"]
    /\ cmutex' = [c \in Proc |-> IF cmutex[c] = h THEN None ELSE cmutex[c]]
    /\ UNCHANGED <<pc, hctr, hsess, ctr, senders, readers, writer, session, orphans>>

---------------------------------------------------------------------------
(* cancellation: the caller drops the future of stream() at an await point *)
(* (beyond the listed statement).  Locks held by the future are released;  *)
(* a guard it has created is dropped: counter 1 -> 0 and Unsubscribe, in   *)
(* one step (the repaired drop).                                           *)

CancelStream(s) ==
    /\ pc[s] \in {"atA", "atW", "atB", "waitReply", "atC"}
    /\ Cardinality({x \in Proc : pc[x] = "cancelled"}) < MaxCancels
    /\ pc' = [pc EXCEPT ![s] = "cancelled"]
    /\ readers' = readers \ {s}
    /\ writer' = IF writer = s THEN None ELSE writer
    /\ IF pc[s] \in {"atB", "waitReply", "atC"}
       THEN /\ ctr' = [ctr EXCEPT ![s] = 0]
            /\ mailbox' = Append(mailbox, [t |-> "Unsubscribe", by |-> s])
       ELSE UNCHANGED <<ctr, mailbox>>
    /\ UNCHANGED <<hst, hctr, hsess, cmutex, senders, session, orphans>>

---------------------------------------------------------------------------
Next ==
    \/ \E s \in Proc : ReadSenders(s) \/ ResumeRead(s) \/ CloneGuard(s) \/ AcquireWrite(s)
                       \/ ResumeWrite(s)
                       \/ CallSubscribe(s) \/ InsertSenders(s) \/ CancelStream(s)
    \/ ActorStep
    \/ \E h \in HandleId : FetchSub(h) \/ SendUnsub(h)
    \/ \E h \in HandleId, k \in CloneIds : CloneHandle(h, k)

Spec == Init /\ [][Next]_vars

---------------------------------------------------------------------------
(* C29                                                                     *)

LiveHandles == {h \in HandleId : hst[h] = "live"}

\* A handle that stream() (or clone) has handed out is backed by a subscription of the manager
\* once the manager has worked off its mailbox.
ReturnedHandleIsBacked ==
    (mailbox = <<>>) => (LiveHandles # {} => session # None)

\* stronger reading (beyond the listed statement): the channels held by the handle are those of
\* the session the manager currently runs for the topic
HandleUsesCurrentSession ==
    (mailbox = <<>>) => \A h \in LiveHandles : session = hsess[h]

\* The overlay is left only when the last handle went away: whenever an Unsubscribe is put into
\* the mailbox, no handle is live any more.
SendsUnsubscribe ==
    /\ Len(mailbox') = Len(mailbox) + 1
    /\ mailbox'[Len(mailbox')].t = "Unsubscribe"
LeftOnlyAtZero == [][SendsUnsubscribe => {h \in HandleId : hst'[h] = "live"} = {}]_vars

\* ... and it *is* left then: when nothing is running and nothing is live, the manager holds no
\* session for the topic and has not lost track of one.
Quiescent ==
    /\ \A s \in Proc : pc[s] \in {"idle", "returned", "cancelled"}
    /\ \A h \in HandleId : hst[h] \in {"none", "dropped"}
    /\ \A s \in Proc : pc[s] = "returned" => hst[s] = "dropped"
    /\ mailbox = <<>>
LeftAtZero == Quiescent => (session = None /\ orphans = {})

\* implementation invariant behind the property: the counter of the current entry counts the
\* live handles that point to it (processes between check and clone excluded)
CounterCountsHandles ==
    \A c \in Proc : ctr[c] >= Cardinality({h \in LiveHandles : hctr[h] = c})

\* branch-reached predicates (vacuity guards, negated in *_reach configs)
ReachFastPathReturn == \E s \in Proc : hst[s] = "live" /\ hctr[s] # s
ReachResubscribe == \E s \in Proc : pc[s] = "atC" /\ senders # NoEntry
===========================================================================
