SPECIFICATION MCSpec
CONSTANTS
  Proc = {"s1", "s2"}
  CloneSeq <- Clones1
  MaxCancels = 1
  Defect_CheckThenClone = FALSE
  Defect_UnlockedJoin = FALSE
  Defect_SplitDrop = FALSE
INVARIANTS
  Export
CHECK_DEADLOCK FALSE
