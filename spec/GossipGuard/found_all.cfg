SPECIFICATION MCSpec
CONSTANTS
  Proc = {"s1", "s2"}
  CloneSeq <- Clones0
  Defect_CheckThenClone = TRUE
  Defect_UnlockedJoin = TRUE
  Defect_SplitDrop = TRUE
INVARIANTS
  TypeOK
  C29_ReturnedHandleIsBacked
  C29_LeftAtZero
PROPERTIES
  C29_LeftOnlyAtZero
VIEW NoHistView
CHECK_DEADLOCK FALSE
