SPECIFICATION MCSpec
CONSTANTS
  Proc = {"s1", "s2", "s3"}
  CloneSeq <- Clones2
  MaxCancels = 2
  Defect_CheckThenClone = FALSE
  Defect_UnlockedJoin = FALSE
  Defect_SplitDrop = FALSE
INVARIANTS
  Export
CHECK_DEADLOCK FALSE
