------------------------- MODULE MC_GossipGuard -------------------------
(* Bounded instance of GossipGuard for TLC + JSON export of behaviours.    *)
EXTENDS GossipGuard, TLC, Json

VARIABLE hist          \* sequence of [a, p, k, st]: action, process/handle, clone name, state after

mcvars == <<vars, hist>>

\* values for CloneSeq (cfg: CloneSeq <- Clones1)
Clones0 == <<>>
Clones1 == <<"k1">>
Clones2 == <<"k1", "k2">>
Clones3 == <<"k1", "k2", "k3">>

SendersJson == IF senders = NoEntry THEN [ctr |-> None, sess |-> None, val |-> -1, locked |-> FALSE]
               ELSE [ctr |-> senders.ctr, sess |-> senders.sess, val |-> ctr[senders.ctr],
                     locked |-> (cmutex[senders.ctr] # None)]

\* observable state after a step: what the harness compares with the real Gossip / probe actor
StateJson ==
    [pc |-> pc, hst |-> hst, hctr |-> hctr, hsess |-> hsess, ctr |-> ctr, cmutex |-> cmutex,
     senders |-> SendersJson, readers |-> readers, writer |-> writer,
     mailbox |-> mailbox, session |-> session, orphans |-> orphans]

Log(a, p, k) == hist' = Append(hist, [a |-> a, p |-> p, k |-> k, st |-> StateJson'])

MCInit == Init /\ hist = <<>>

\* one named wrapper per action (TLC reports coverage per name)
DoReadSenders(s) == ReadSenders(s) /\ Log("ReadSenders", s, "")
DoResumeRead(s) == ResumeRead(s) /\ Log("ResumeRead", s, "")
DoResumeWrite(s) == ResumeWrite(s) /\ Log("ResumeWrite", s, "")
DoCloneGuard(s) == CloneGuard(s) /\ Log("CloneGuard", s, "")
DoAcquireWrite(s) == AcquireWrite(s) /\ Log("AcquireWrite", s, "")
DoCallSubscribe(s) == CallSubscribe(s) /\ Log("CallSubscribe", s, "")
DoInsertSenders(s) == InsertSenders(s) /\ Log("InsertSenders", s, "")
DoCancelStream(s) == CancelStream(s) /\ Log("CancelStream", s, "")
DoActorStep == ActorStep /\ Log("ActorStep", "", "")
DoFetchSub(h) == FetchSub(h) /\ Log("FetchSub", h, "")
DoSendUnsub(h) == SendUnsub(h) /\ Log("SendUnsub", h, "")
DoCloneHandle(h, k) == CloneHandle(h, k) /\ Log("CloneHandle", h, k)

MCNext ==
    \/ \E s \in Proc : DoReadSenders(s)
    \/ \E s \in Proc : DoResumeRead(s)
    \/ \E s \in Proc : DoResumeWrite(s)
    \/ \E s \in Proc : DoCloneGuard(s)
    \/ \E s \in Proc : DoAcquireWrite(s)
    \/ \E s \in Proc : DoCallSubscribe(s)
    \/ \E s \in Proc : DoInsertSenders(s)
    \/ \E s \in Proc : DoCancelStream(s)
    \/ DoActorStep
    \/ \E h \in HandleId : DoFetchSub(h)
    \/ \E h \in HandleId : DoSendUnsub(h)
    \/ \E h \in HandleId, k \in CloneIds : DoCloneHandle(h, k)

MCSpec == MCInit /\ [][MCNext]_mcvars

NoHistView == vars

\* every stream() call returned, every handle dropped, mailbox worked off
Done ==
    /\ \A s \in Proc : (pc[s] = "returned" /\ hst[s] = "dropped") \/ pc[s] = "cancelled"
    /\ \A h \in HandleId : hst[h] \in {"none", "dropped"}
    /\ mailbox = <<>>

Export ==
    Done => PrintT(<<"REPLAY", ToJson([kind |-> "gossipguard",
                                       defects |-> [check_then_clone |-> Defect_CheckThenClone,
                                                    unlocked_join |-> Defect_UnlockedJoin,
                                                    split_drop |-> Defect_SplitDrop],
                                       procs |-> Proc, clones |-> CloneSeq,
                                       steps |-> hist])>>)

C29_ReturnedHandleIsBacked == ReturnedHandleIsBacked
C29_LeftAtZero == LeftAtZero
C29_LeftOnlyAtZero == [][SendsUnsubscribe => {h \in HandleId : hst'[h] = "live"} = {}]_mcvars
X_HandleUsesCurrentSession == HandleUsesCurrentSession
X_CounterCountsHandles == CounterCountsHandles
NotReachFastPathReturn == ~ReachFastPathReturn
NotReachResubscribe == ~ReachResubscribe
===========================================================================
