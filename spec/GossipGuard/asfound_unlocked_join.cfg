SPECIFICATION MCSpec
CONSTANTS
  Proc = {"s1", "s2"}
  CloneSeq <- Clones0
  MaxCancels = 0
  Defect_CheckThenClone = FALSE
  Defect_UnlockedJoin = TRUE
  Defect_SplitDrop = FALSE
INVARIANTS
  TypeOK
  C29_ReturnedHandleIsBacked
  C29_LeftAtZero
  X_CounterCountsHandles
PROPERTIES
  C29_LeftOnlyAtZero
VIEW NoHistView
CHECK_DEADLOCK FALSE
