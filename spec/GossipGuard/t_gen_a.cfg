SPECIFICATION MCSpec
CONSTANTS
  Proc = {"s1", "s2"}
  CloneSeq <- Clones0
  Defect_CheckThenClone = FALSE
  Defect_UnlockedJoin = TRUE
  Defect_SplitDrop = FALSE
INVARIANTS
  Export
CHECK_DEADLOCK FALSE
