SPECIFICATION MCSpec
CONSTANTS
  Proc = {"s1", "s2"}
  CloneSeq <- Clones0
  Defect_CheckThenClone = TRUE
  Defect_UnlockedJoin = TRUE
  Defect_SplitDrop = TRUE
INVARIANTS
  Export
CHECK_DEADLOCK FALSE
