SPECIFICATION MCSpec
CONSTANTS
  Proc = {"s1", "s2", "s3", "s4"}
  CloneSeq <- Clones3
  MaxCancels = 2
  Defect_CheckThenClone = FALSE
  Defect_UnlockedJoin = FALSE
  Defect_SplitDrop = FALSE
INVARIANTS
  TypeOK
  C29_ReturnedHandleIsBacked
  C29_LeftAtZero
  X_HandleUsesCurrentSession
  X_CounterCountsHandles
PROPERTIES
  C29_LeftOnlyAtZero
VIEW NoHistView
CHECK_DEADLOCK FALSE
