SPECIFICATION TraceSpec
CONSTANTS
  Proc = {"s1", "s2", "s3"}
  CloneSeq <- Clones2
  MaxCancels = 3
  Defect_CheckThenClone = FALSE
  Defect_UnlockedJoin = FALSE
  Defect_SplitDrop = FALSE
INVARIANTS
  TypeOK
  C29_ReturnedHandleIsBacked
  C29_LeftAtZero
  X_HandleUsesCurrentSession
  X_CounterCountsHandles
PROPERTIES
  C29_LeftOnlyAtZero
POSTCONDITION TraceAccepted
CHECK_DEADLOCK FALSE
