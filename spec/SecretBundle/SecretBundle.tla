---------------------------- MODULE SecretBundle ----------------------------
(***************************************************************************)
(* Group-secret bundle of the data encryption scheme                       *)
(*   p2panda-encryption/src/data_scheme/group_secret.rs                    *)
(*                                                                         *)
(*   bundle   HashMap<GroupSecretId, GroupSecret>  as  id -> timestamp      *)
(*   latest   Option<GroupSecretId>                as  id, 0 = None         *)
(*                                                                         *)
(* Ids are positive integers ordered like the 32-byte SHA-256 ids are       *)
(* ordered by the code (`*id > latest_secret_id.unwrap_or([0; 32])`); 0 is  *)
(* the all-zero id the code uses as sentinel (no real secret hashes to it). *)
(* Timestamps are 0..TopT, TopT standing for u64::MAX.                     *)
(*                                                                         *)
(* One action per public function: Insert, Remove, Extend, FromSecrets,    *)
(* Generate.  `find_latest` is transcribed as the loop it is, over an      *)
(* ARBITRARY iteration order of the hash map (Orders).                     *)
(***************************************************************************)
EXTENDS Integers, FiniteSets, Sequences

CONSTANTS Id,        \* abstract secret ids (positive integers)
          TopT       \* largest representable timestamp (u64::MAX)

ASSUME Id \subseteq Nat \ {0}
ASSUME TopT \in Nat

TS == 0..TopT
NoId == 0
Empty == [x \in {} |-> 0]

(* (timestamp, id) pairs ordered lexicographically *)
Later(t1, i1, t2, i2) == t1 > t2 \/ (t1 = t2 /\ i1 > i2)

---------------------------------------------------------------------------
(* find_latest, group_secret.rs:286-301                                    *)
(*   let mut latest_timestamp = 0; let mut latest_secret_id = None;        *)
(*   for (id, secret) in secrets {                                         *)
(*     if latest_timestamp < ts                                            *)
(*        || (latest_timestamp == ts && *id > latest_secret_id.unwrap_or([0;32])) *)
(*     { latest_timestamp = ts; latest_secret_id = Some(id) } }            *)
RECURSIVE Fold(_, _, _, _)
Fold(b, order, lt, lid) ==
    IF order = <<>> THEN lid
    ELSE LET id == Head(order)
             ts == b[id]
         IN IF lt < ts \/ (lt = ts /\ id > lid)
            THEN Fold(b, Tail(order), ts, id)
            ELSE Fold(b, Tail(order), lt, lid)

FindLatest(b, order) == Fold(b, order, 0, NoId)

\* every iteration order a HashMap may produce
Orders(S) == {s \in [1..Cardinality(S) -> S] : \A x, y \in 1..Cardinality(S) : x # y => s[x] # s[y]}

(* The property's definition of "latest": maximum by (timestamp, id) *)
MaxOf(b) ==
    IF DOMAIN b = {} THEN NoId
    ELSE CHOOSE i \in DOMAIN b : \A j \in DOMAIN b : j = i \/ Later(b[i], i, b[j], j)

---------------------------------------------------------------------------
VARIABLES bundle,    \* current secrets: id -> timestamp
          latest,    \* SecretBundleState::latest (0 = None)
          gens,      \* secrets returned by `generate` so far: id -> timestamp
          lastGen,   \* last `generate` call: [id, ts, lid, lts] (id = 0: none yet / error); lid/lts = latest at that call
          used,      \* ids that already denote a secret (a generated secret has fresh random bytes)
          added,     \* every (id, ts) put into the bundle since it was constructed
          pure       \* no Remove since construction

vars == <<bundle, latest, gens, lastGen, used, added, pure>>

NoGen == [id |-> 0, ts |-> 0, lid |-> 0, lts |-> 0, err |-> FALSE]

Init ==
    /\ bundle = Empty /\ latest = NoId            \* SecretBundle::init
    /\ gens = Empty /\ lastGen = NoGen /\ used = {}
    /\ added = {} /\ pure = TRUE

\* y.latest = find_latest(&y.secrets) with whatever order the map iterates in
SetLatest(b) == latest' \in {FindLatest(b, order) : order \in Orders(DOMAIN b)}

Overwrite(b, o) == [i \in DOMAIN b \cup DOMAIN o |-> IF i \in DOMAIN o THEN o[i] ELSE b[i]]

\* A secret (id, ts) the environment can hand in: a generated secret keeps its bytes and timestamp
Known(i, t) == i \in DOMAIN gens => gens[i] = t

(* SecretBundle::insert, :259-264: HashMap::insert overwrites an equal id *)
Insert(i, t) ==
    /\ Known(i, t)
    /\ bundle' = Overwrite(bundle, [x \in {i} |-> t])
    /\ SetLatest(bundle')
    /\ used' = used \cup {i}
    /\ added' = added \cup {<<i, t>>}
    /\ UNCHANGED <<gens, lastGen, pure>>

(* SecretBundle::remove, :266-274 (absent id: nothing removed) *)
Remove(i) ==
    /\ bundle' = [x \in DOMAIN bundle \ {i} |-> bundle[x]]
    /\ SetLatest(bundle')
    /\ pure' = (pure /\ i \notin DOMAIN bundle)
    /\ UNCHANGED <<gens, lastGen, used, added>>

(* SecretBundle::extend, :276-281: y.secrets.extend(other.secrets) *)
Extend(o) ==
    /\ \A i \in DOMAIN o : Known(i, o[i])
    /\ bundle' = Overwrite(bundle, o)
    /\ SetLatest(bundle')
    /\ used' = used \cup DOMAIN o
    /\ added' = added \cup {<<i, o[i]>> : i \in DOMAIN o}
    /\ UNCHANGED <<gens, lastGen, pure>>

(* SecretBundle::from_secrets, :224-231: HashMap::from_iter, a later equal id wins *)
RECURSIVE FromSeq(_)
FromSeq(s) == IF s = <<>> THEN Empty
              ELSE Overwrite(FromSeq(SubSeq(s, 1, Len(s) - 1)), [x \in {s[Len(s)][1]} |-> s[Len(s)][2]])

FromSecrets(s) ==
    /\ \A k \in 1..Len(s) : Known(s[k][1], s[k][2])
    /\ bundle' = FromSeq(s)
    /\ SetLatest(bundle')
    /\ used' = used \cup {s[k][1] : k \in 1..Len(s)}
    /\ added' = {<<s[k][1], s[k][2]>> : k \in 1..Len(s)}
    /\ pure' = TRUE
    /\ UNCHANGED <<gens, lastGen>>

(* Persistence: SecretBundleState is written as the list of its secrets (impl Serialize,  *)
(* :172-184) and read back through from_secrets (impl Deserialize, :186-219): the secrets   *)
(* stay, `latest` is recomputed from whatever order the list had                           *)
Reload ==
    /\ bundle' = bundle
    /\ SetLatest(bundle')
    /\ UNCHANGED <<gens, lastGen, used, added, pure>>

(* SecretBundle::generate, :241-257.  `w` is the wall clock (seconds) read by   *)
(* GroupSecret::from_rng; `i` the id of the fresh random secret.  The secret is *)
(* returned, not inserted.                                                     *)
(*   let latest_timestamp = y.latest().map(|l| l.timestamp()).unwrap_or(0);    *)
(*   if secret.timestamp() <= latest_timestamp {                               *)
(*       secret.set_timestamp(latest_timestamp.checked_add(1).ok_or(TimestampOverflow)?) } *)
LatestTs == IF latest = NoId THEN 0 ELSE bundle[latest]

Generate(w, i) ==
    /\ i \notin used
    /\ IF w <= LatestTs /\ LatestTs = TopT
       THEN \* checked_add fails: Err(TimestampOverflow), no secret is produced
            /\ lastGen' = [NoGen EXCEPT !.err = TRUE, !.lid = latest, !.lts = LatestTs]
            /\ UNCHANGED <<gens, used>>
       ELSE LET t == IF w <= LatestTs THEN LatestTs + 1 ELSE w
            IN /\ lastGen' = [id |-> i, ts |-> t, lid |-> latest, lts |-> LatestTs, err |-> FALSE]
               /\ gens' = Overwrite(gens, [x \in {i} |-> t])
               /\ used' = used \cup {i}
    /\ UNCHANGED <<bundle, latest, added, pure>>

---------------------------------------------------------------------------
(* C36 *)

\* `latest` is the maximum by (timestamp, id) of what the bundle holds - whatever
\* order the hash map was filled and iterated in
LatestIsMax == latest = MaxOf(bundle)

\* ... hence a function of the SET of secrets put in, not of their order: as long as nothing
\* was removed and no secret was handed in under two different timestamps
Consistent == \A p, q \in added : p[1] = q[1] => p[2] = q[2]
AddedMap == [i \in {p[1] : p \in added} |-> (CHOOSE p \in added : p[1] = i)[2]]
OrderIndependent == (pure /\ Consistent) => (bundle = AddedMap /\ latest = MaxOf(AddedMap))

\* a freshly generated secret is strictly later than the latest secret at the time of the call
GeneratedIsNewer ==
    lastGen.id # NoId => /\ lastGen.ts \in TS
                         /\ lastGen.lid # NoId => Later(lastGen.ts, lastGen.id, lastGen.lts, lastGen.lid)

\* ... so inserting it right away makes it the latest
JustAdded(i) == /\ i \notin DOMAIN bundle /\ DOMAIN bundle' = DOMAIN bundle \cup {i}
                /\ \A j \in DOMAIN bundle : bundle'[j] = bundle[j]
GeneratedBecomesLatestStep ==
    \A i \in Id : (lastGen.id = i /\ lastGen.lid = latest /\ lastGen.lts = LatestTs /\ JustAdded(i)) => latest' = i
GeneratedBecomesLatest == [][GeneratedBecomesLatestStep]_vars

TypeOK ==
    /\ DOMAIN bundle \subseteq Id /\ \A x \in DOMAIN bundle : bundle[x] \in TS
    /\ latest \in Id \cup {NoId}
    /\ latest # NoId => latest \in DOMAIN bundle
=============================================================================
