SPECIFICATION MCSpec
CONSTANTS
  Id = {1, 2, 3}
  TopT = 8
  InsTS = {0, 1, 2, 3}
  Walls = {0, 1, 2, 4}
  Modes = {"now", "top"}
  MaxSteps = 0
  MaxExt = 3
  MaxSeq = 3
  ClockMoves = TRUE
INVARIANTS
  TypeOK
  C36_LatestIsMax
  C36_GeneratedIsNewer
PROPERTIES
  C36_GeneratedBecomesLatest
VIEW NoAddedView
CHECK_DEADLOCK FALSE
