SPECIFICATION MCSpec
CONSTANTS
  Id = {1, 2, 3}
  TopT = 5
  InsTS = {0, 1}
  Walls = {1}
  Modes = {"now"}
  MaxSteps = 0
  MaxExt = 2
  MaxSeq = 2
  ClockMoves = FALSE
INVARIANTS
  C36_LatestIsMax
  C36_OrderIndependent
VIEW NoHistView
CHECK_DEADLOCK FALSE
