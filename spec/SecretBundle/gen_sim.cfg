SPECIFICATION MCSpec
CONSTANTS
  Id = {1, 2, 3, 4}
  TopT = 10
  InsTS = {0, 1, 2, 3}
  Walls = {1, 2, 4}
  Modes = {"now", "top"}
  MaxSteps = 6
  MaxExt = 2
  MaxSeq = 2
  ClockMoves = FALSE
INVARIANTS
  Export
CHECK_DEADLOCK FALSE
