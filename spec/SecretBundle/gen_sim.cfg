SPECIFICATION MCSpec
CONSTANTS
  Id = {1, 2, 3, 4, 5}
  TopT = 12
  InsTS = {0, 1, 2, 3}
  Walls = {0, 1, 2, 4}
  Modes = {"now", "top"}
  MaxSteps = 7
  MaxExt = 3
  MaxSeq = 3
  ClockMoves = FALSE
INVARIANTS
  Export
CHECK_DEADLOCK FALSE
