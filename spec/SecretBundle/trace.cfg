SPECIFICATION TraceSpec
CONSTANTS
  Id = {1, 2, 3, 4, 5, 6, 7, 8, 9, 10, 11, 12, 13, 14, 15, 16, 17, 18, 19, 20, 21, 22, 23, 24}
  TopT = 2147483647
  Orders <- OneOrder
INVARIANTS
  C36_LatestIsMax
  C36_OrderIndependent
  C36_GeneratedIsNewer
PROPERTIES
  C36_GeneratedBecomesLatest
POSTCONDITION TraceAccepted
CHECK_DEADLOCK FALSE
