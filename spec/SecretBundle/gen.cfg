SPECIFICATION MCSpec
CONSTANTS
  Id = {1, 2, 3}
  TopT = 7
  InsTS = {0, 1, 2}
  Walls = {1}
  Modes = {"now", "top"}
  MaxSteps = 2
  MaxExt = 2
  MaxSeq = 2
  ClockMoves = FALSE
INVARIANTS
  Export
CHECK_DEADLOCK FALSE
