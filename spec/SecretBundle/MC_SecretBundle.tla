-------------------------- MODULE MC_SecretBundle --------------------------
(* Bounded instance of SecretBundle for TLC + JSON export of behaviours.   *)
EXTENDS SecretBundle, TLC, Json

CONSTANTS MaxSteps,        \* public calls per behaviour (0: unbounded, the state space is finite anyway)
          InsTS,           \* timestamps the environment hands in
          Walls,           \* wall-clock readings
          MaxExt,          \* max number of secrets in the bundle given to `extend`
          MaxSeq,          \* max length of the list given to `from_secrets`
          ClockMoves,      \* TRUE: the wall clock may change (also backwards) between calls
          Modes            \* subset of {"now", "top"}:
                           \*   "now": timestamps InsTS around the wall clock (harness: wall |-> SystemTime::now())
                           \*   "top": timestamps {TopT-1, TopT}, wall clock 0 = far below all of them
                           \*          (harness: TopT |-> u64::MAX); `generate` only on a non-empty bundle

VARIABLES mode, wall, steps, hist
mcvars == <<bundle, latest, gens, lastGen, used, added, pure, mode, wall, steps, hist>>

InsTSNow == IF mode = "top" THEN {TopT - 1, TopT} ELSE InsTS

\* timestamps under which id i may be handed in
TsOf(i) == IF i \in DOMAIN gens THEN {gens[i]} ELSE InsTSNow
AllTs == InsTSNow \cup {gens[i] : i \in DOMAIN gens}
Maps(S) == {m \in [S -> AllTs] : \A i \in S : m[i] \in TsOf(i)}
Pairs == {<<i, t>> : i \in Id, t \in AllTs}
Seqs == UNION {[1..n -> {p \in Pairs : p[2] \in TsOf(p[1])}] : n \in 0..MaxSeq}

BundleJson(b) == {[id |-> i, ts |-> b[i]] : i \in DOMAIN b}
After == [latest |-> latest', bundle |-> BundleJson(bundle')]

MCInit ==
    /\ Init /\ steps = 0 /\ hist = <<>>
    /\ mode \in Modes
    /\ wall \in (IF mode = "top" THEN {0} ELSE Walls)

DoInsert ==
    \E i \in Id : \E t \in TsOf(i) :
        /\ Insert(i, t)
        /\ hist' = Append(hist, [op |-> "insert", id |-> i, ts |-> t] @@ After)
DoRemove ==
    \E i \in Id :
        /\ Remove(i)
        /\ hist' = Append(hist, [op |-> "remove", id |-> i, present |-> (i \in DOMAIN bundle)] @@ After)
DoExtend ==
    \E S \in {X \in SUBSET Id : Cardinality(X) <= MaxExt} : \E o \in Maps(S) :
        /\ Extend(o)
        /\ hist' = Append(hist, [op |-> "extend", other |-> BundleJson(o)] @@ After)
DoFromSecrets ==                       \* a constructor: explored as the first call only
    /\ used = {}
    /\ \E s \in Seqs :
           /\ FromSecrets(s)
           /\ hist' = Append(hist, [op |-> "from_secrets",
                                 list |-> [k \in 1..Len(s) |-> [id |-> s[k][1], ts |-> s[k][2]]]] @@ After)
DoGenerate ==
    /\ mode = "top" => latest # NoId
    /\ \E i \in Id :
        /\ Generate(wall, i)
        /\ hist' = Append(hist, [op |-> "generate", id |-> lastGen'.id, ts |-> lastGen'.ts,
                                 err |-> lastGen'.err, overflow |-> (lastGen'.ts > TopT)] @@ After)
DoReload ==
    /\ Reload
    /\ hist' = Append(hist, [op |-> "reload"] @@ After)
Tick ==
    /\ ClockMoves /\ mode = "now"
    /\ wall' \in Walls \ {wall}
    /\ UNCHANGED <<vars, mode, steps, hist>>

Bounded == /\ MaxSteps = 0 \/ steps < MaxSteps
           /\ steps' = (IF MaxSteps = 0 THEN 0 ELSE steps + 1)
           /\ UNCHANGED <<wall, mode>>
CallInsert == Bounded /\ DoInsert
CallRemove == Bounded /\ DoRemove
CallExtend == Bounded /\ DoExtend
CallFromSecrets == Bounded /\ DoFromSecrets
CallGenerate == Bounded /\ DoGenerate
CallReload == Bounded /\ DoReload

MCNext == CallInsert \/ CallRemove \/ CallExtend \/ CallFromSecrets \/ CallGenerate \/ CallReload \/ Tick
MCSpec == MCInit /\ [][MCNext]_mcvars

NoHistView == <<bundle, latest, gens, lastGen, used, added, pure, mode, wall, steps>>
\* for configs that do not check OrderIndependent (the only formula reading added / pure)
NoAddedView == <<bundle, latest, gens, lastGen, used, mode, wall, steps>>

C36_LatestIsMax == LatestIsMax
C36_OrderIndependent == OrderIndependent
C36_GeneratedIsNewer == GeneratedIsNewer
C36_GeneratedBecomesLatest == [][GeneratedBecomesLatestStep]_mcvars

\* vacuity guards: negations must be violated (checked once by hand, see NOTES) - here as reachable branches
TieReached == \E i, j \in DOMAIN bundle : i # j /\ bundle[i] = bundle[j] /\ (latest = i \/ latest = j)

Export ==
    steps = MaxSteps => PrintT(<<"REPLAY", ToJson([kind |-> "bundle", base |-> mode, wall |-> wall,
                                                   top |-> TopT, steps |-> hist])>>)
=============================================================================
