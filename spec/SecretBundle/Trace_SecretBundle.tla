------------------------ MODULE Trace_SecretBundle ------------------------
(* Trace validation: call sequences recorded from the real SecretBundle    *)
(* (harness `vh-enc secretbundle record`) must be behaviours of            *)
(* SecretBundle, with the C36 invariants evaluated after every call.       *)
(* Ids are the ranks of the real 32-byte ids within a run; timestamps are  *)
(* real seconds ("top" runs: shifted so that u64::MAX is TopT).            *)
EXTENDS SecretBundle, TLC, Json, IOUtils

Rec == ndJsonDeserialize(IOEnv.TRACE)

VARIABLE i
tvars == <<bundle, latest, gens, lastGen, used, added, pure, i>>

Ev == Rec[i]

\* hash-map iteration order does not matter (MC_SecretBundle checks every order on small
\* bundles): one canonical order keeps validation linear.  Substituted for Orders in trace.cfg.
RECURSIVE SeqOf(_)
SeqOf(S) == IF S = {} THEN <<>> ELSE LET x == CHOOSE y \in S : TRUE IN <<x>> \o SeqOf(S \ {x})
OneOrder(S) == {SeqOf(S)}

Obs == latest' = Ev.latest /\ Cardinality(DOMAIN bundle') = Ev.len
          /\ (IF latest' = NoId THEN 0 ELSE bundle'[latest']) = Ev.latest_ts

StepReset ==
    /\ Ev.ev = "Reset"
    /\ bundle' = Empty /\ latest' = NoId /\ gens' = Empty /\ lastGen' = NoGen /\ used' = {}
    /\ added' = {} /\ pure' = TRUE

StepInsert == Ev.ev = "Insert" /\ Insert(Ev.id, Ev.ts) /\ Obs
StepRemove == Ev.ev = "Remove" /\ Remove(Ev.id) /\ Obs
\* `extend` is given from_secrets(list): a later equal id wins inside the list
StepExtend == Ev.ev = "Extend" /\ Extend(FromSeq(Ev.list)) /\ Obs
StepFromSecrets == Ev.ev = "FromSecrets" /\ FromSecrets(Ev.list) /\ Obs
\* the wall clock reading lies between the two readings the recorder took around the call
StepGenerate ==
    /\ Ev.ev = "Generate"
    /\ \E w \in Ev.wlo..Ev.whi :
          IF Ev.err THEN \E g \in Id : Generate(w, g) /\ lastGen'.err
          ELSE Generate(w, Ev.id) /\ ~lastGen'.err /\ lastGen'.ts = Ev.ts
    /\ Obs

StepReload == Ev.ev = "Reload" /\ Reload /\ Obs

TraceInit == Init /\ i = 1
TraceNext ==
    /\ i <= Len(Rec)
    /\ i' = i + 1
    /\ (StepReset \/ StepInsert \/ StepRemove \/ StepExtend \/ StepFromSecrets \/ StepGenerate \/ StepReload)
TraceSpec == TraceInit /\ [][TraceNext]_tvars

C36_LatestIsMax == LatestIsMax
C36_OrderIndependent == OrderIndependent
C36_GeneratedIsNewer == GeneratedIsNewer
C36_GeneratedBecomesLatest == [][GeneratedBecomesLatestStep]_tvars

TraceAccepted ==
    LET d == TLCGet("stats").diameter IN
    IF d - 1 = Len(Rec) THEN TRUE
    ELSE Print(<<"TRACE_REJECTED", d - 1, Len(Rec), ToJson(Rec[d])>>, FALSE)
===========================================================================
