SPECIFICATION MCSpec
CONSTANTS
  Id = {1, 2, 3}
  TopT = 7
  InsTS = {0, 1, 2}
  Walls = {0, 1, 3}
  Modes = {"now", "top"}
  MaxSteps = 0
  MaxExt = 2
  MaxSeq = 3
  ClockMoves = TRUE
INVARIANTS
  TypeOK
  C36_LatestIsMax
  C36_GeneratedIsNewer
PROPERTIES
  C36_GeneratedBecomesLatest
VIEW NoAddedView
CHECK_DEADLOCK FALSE
