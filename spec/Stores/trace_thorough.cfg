SPECIFICATION TraceSpec
INVARIANTS
  C08_RowsPartition
  C08_HeightsSummarise
POSTCONDITION TraceAccepted
CHECK_DEADLOCK FALSE
