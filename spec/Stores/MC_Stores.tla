----------------------------- MODULE MC_Stores -----------------------------
(* Bounded instances of Stores for TLC, the history variable and the JSON    *)
(* export of commands + expected return values + expected query results.    *)
EXTENDS Stores, Json

CONSTANTS
    Author, Log, Topic, Name,   \* key spaces (strings)
    MaxSeq,                     \* range bounds queried: None, 0..MaxSeq+1
    Universe,                   \* set of operation descriptors [id, author, seq, hdr, pay, body]
    CursorVals,                 \* set of cursor values (height maps)
    Families,                   \* subset of {"ops", "topics", "cursors"}: which commands are enabled
    MaxLen,                     \* bound on the number of commands
    ExportTransitions,          \* TRUE: print one REPLAY line per generated transition
    FullTransitions             \* TRUE: those lines carry every ranged query, else only (None, None)

VARIABLE hist                   \* sequence of [c |-> command name, args.., ret |-> return value]

mcvars == <<ops, topics, cursors, ret, hist>>

-----------------------------------------------------------------------------
(* Operation universes.  An id determines author, seq and payload (it is the *)
(* hash of the header); the log is chosen at insert time.  "a1s1x" is a fork *)
(* of "a1s1" (same author and seq, different header).  body = FALSE: the     *)
(* operation is inserted without a body (pay > 0: payload declared in the    *)
(* header but never received).  hdr is a placeholder in the bounded model    *)
(* (real header lengths are measured by the harness).                        *)
OpG(id, a, s, p, g, b) == [id |-> id, author |-> a, seq |-> s, hdr |-> 100 + s, pay |-> p, giga |-> g, body |-> b]
Op(id, a, s, p, b) == OpG(id, a, s, p, 0, b)

U4 == { Op("a1s0", "a1", 0, 3, TRUE), Op("a1s1", "a1", 1, 5, TRUE),
        Op("a1s1x", "a1", 1, 0, FALSE), Op("a2s1", "a2", 1, 7, TRUE) }
U5 == U4 \cup { Op("a1s2", "a1", 2, 9, FALSE) }
U6 == U5 \cup { Op("a2s0", "a2", 0, 2, TRUE) }
\* header-only operations that declare huge payloads: "a2big" alone is 2^32 - 50 bytes, so that
\* the header bytes push the total over u32::MAX; "a2g1" + "a2big" overflow on the payload sum
Big == { OpG("a2big", "a2", 2, 1073741774, 3, FALSE), OpG("a2g1", "a2", 0, 8, 1, FALSE) }
UB == { Op("a1s0", "a1", 0, 3, TRUE), Op("a2s1", "a2", 1, 7, TRUE) } \cup Big
U6B == U6 \cup Big
U9 == U6 \cup { Op("a1s3", "a1", 3, 4, TRUE), Op("a2s3", "a2", 3, 6, TRUE), Op("a2s3x", "a2", 3, 1, TRUE) }

\* Cursor values: height maps author -> (log -> height), including the empty map and an
\* author with an empty log map
V0 == <<>>
V1 == ("a1" :> ("l1" :> 0))
V2 == ("a1" :> ("l1" :> 3 @@ "l2" :> 1) @@ "a2" :> ("l1" :> 2))
V3 == ("a2" :> <<>>)
CV4 == {V0, V1, V2, V3}
NoVals == {}
NoOps == {}

Bounds == {NoneS} \cup 0..(MaxSeq + 1)
\* per-transition lines carry the state-identifying queries only (latest, heights, get, the
\* unbounded range of every log); per-state lines carry every range
TransBounds == IF FullTransitions THEN Bounds ELSE {NoneS}

-----------------------------------------------------------------------------
(* Expected query results of a state, as JSON-able sets of records          *)

QLatest == {[a |-> a, l |-> l, ids |-> LatestSet(a, l)] : a \in Author, l \in Log}
QHeights ==
    {[a |-> a, logs |-> L,
      res |-> {[l |-> l, h |-> Heights(a, L)[l]] : l \in DOMAIN Heights(a, L)}] :
        a \in Author, L \in SUBSET Log}
\* ranged queries, grouped per (author, log); one row <<after, until, count, payload bytes below
\* the 2^30 units, ids, 2^30 units>> per pair of bounds drawn from B (the harness adds the real
\* header lengths of `ids` and decides "fits into u32" with them)
QRanges(B) ==
    {[a |-> a, l |-> l,
      rows |-> {<<af, un, SizeCount(a, l, af, un), SizePay(a, l, af, un), InRange(a, l, af, un),
                  SizeGiga(a, l, af, un)>> :
                   af \in B, un \in B}] :
        a \in Author, l \in Log}
QGet == {[id |-> o.id, present |-> HasOperation(o.id),
          body |-> IF HasOperation(o.id) THEN GetBody(o.id) ELSE FALSE] : o \in Universe}
MapJson(m) == {[a |-> a, logs |-> {[l |-> l, h |-> m[a][l]] : l \in DOMAIN m[a]}] : a \in DOMAIN m}
QResolve == {[t |-> t, pairs |-> {[a |-> p[1], l |-> p[2]] : p \in Resolve(t)}] : t \in Topic}
QCursor == {[n |-> n, present |-> HasCursor(n),
             v |-> IF HasCursor(n) THEN MapJson(GetCursor(n)) ELSE {}] : n \in Name}

Queries(B) ==
    [latest  |-> IF "ops" \in Families THEN QLatest ELSE {},
     heights |-> IF "ops" \in Families THEN QHeights ELSE {},
     ranges  |-> IF "ops" \in Families THEN QRanges(B) ELSE {},
     get     |-> IF "ops" \in Families THEN QGet ELSE {},
     resolve |-> IF "topics" \in Families THEN QResolve ELSE {},
     cursor  |-> IF "cursors" \in Families THEN QCursor ELSE {}]

UniverseJson == IF "ops" \in Families THEN Universe ELSE {}

\* one line = the commands of a path with their return values + every query on its last state
Line(h, q) == <<"REPLAY", ToJson([kind |-> "stores", universe |-> UniverseJson, steps |-> h, q |-> q])>>

-----------------------------------------------------------------------------
Rec(c) ==
    /\ Len(hist) < MaxLen
    /\ hist' = Append(hist, c @@ [ret |-> ret'])
    /\ ExportTransitions => PrintT(Line(hist', Queries(TransBounds)'))

MCInsertOperation ==
    "ops" \in Families /\ \E o \in Universe, l \in Log :
        /\ InsertOperation(o.id, o.author, l, o.seq, o.hdr, o.pay, o.giga, o.body)
        /\ Rec([c |-> "insert", id |-> o.id, l |-> l])
MCDeleteOperation ==
    "ops" \in Families /\ \E o \in Universe :
        DeleteOperation(o.id) /\ Rec([c |-> "delete", id |-> o.id])
MCDeleteOperationPayload ==
    "ops" \in Families /\ \E o \in Universe :
        DeleteOperationPayload(o.id) /\ Rec([c |-> "delete_payload", id |-> o.id])
MCPruneEntries ==
    "ops" \in Families /\ \E a \in Author, l \in Log, n \in 0..(MaxSeq + 1) :
        PruneEntries(a, l, n) /\ Rec([c |-> "prune", a |-> a, l |-> l, n |-> n])
MCAssociate ==
    "topics" \in Families /\ \E t \in Topic, a \in Author, l \in Log :
        Associate(t, a, l) /\ Rec([c |-> "associate", t |-> t, a |-> a, l |-> l])
MCRemove ==
    "topics" \in Families /\ \E t \in Topic, a \in Author, l \in Log :
        Remove(t, a, l) /\ Rec([c |-> "remove", t |-> t, a |-> a, l |-> l])
MCSetCursor ==
    "cursors" \in Families /\ \E n \in Name, v \in CursorVals :
        SetCursor(n, v) /\ Rec([c |-> "set_cursor", n |-> n, v |-> MapJson(v)])
MCDeleteCursor ==
    "cursors" \in Families /\ \E n \in Name :
        DeleteCursor(n) /\ Rec([c |-> "delete_cursor", n |-> n])

MCInit == Init /\ hist = <<>>
MCNext ==
    \/ MCInsertOperation \/ MCDeleteOperation \/ MCDeleteOperationPayload \/ MCPruneEntries
    \/ MCAssociate \/ MCRemove \/ MCSetCursor \/ MCDeleteCursor
MCSpec == MCInit /\ [][MCNext]_mcvars

\* exhaustive configs identify states that differ only in the path / the last return value
StateView == <<ops, topics, cursors>>

\* per-state export (one line per distinct state, with the path TLC first reached it by)
ExportState == PrintT(Line(hist, Queries(Bounds)))

-----------------------------------------------------------------------------
(* Invariants                                                               *)

OpRecs == [author : Author, log : Log, seq : 0..MaxSeq + 1, hdr : Nat, pay : Nat, giga : 0..3, body : BOOLEAN]
TypeOK ==
    /\ DOMAIN ops \subseteq {o.id : o \in Universe}
    /\ \A id \in DOMAIN ops : ops[id] \in OpRecs
    /\ \A id \in DOMAIN ops : \E o \in Universe :
          o.id = id /\ o.author = ops[id].author /\ o.seq = ops[id].seq /\ o.pay = ops[id].pay
    /\ topics \subseteq Topic \X Author \X Log
    /\ DOMAIN cursors \subseteq Name
    /\ \A n \in DOMAIN cursors : cursors[n] \in CursorVals
    /\ ret \in Nat

C08_HeightsSummarise == HeightsSummarise(Author, SUBSET Log)
C08_HeightsOfNothingIsNone == HeightsOfNothingIsNone(Author)
C08_RangesTile == RangesTile(Author, Log, 0..(MaxSeq + 1))
C08_SizeMatchesEntries == SizeMatchesEntries(Author, Log, 0..(MaxSeq + 1))
C08_RowsPartition == RowsPartition

\* history-based laws (path configs, no VIEW) ------------------------------
Last == hist[Len(hist)]

\* prune(a, l, n) leaves nothing below n in that log and reports what it removed
C08_PruneLaw ==
    (hist # <<>> /\ Last.c = "prune") =>
        /\ \A id \in InLog(Last.a, Last.l) : ops[id].seq >= Last.n
        /\ Last.n = 0 => Last.ret = 0

\* Replays the history on the declarative "abstract collections" and compares with the state:
\* an id is stored iff its last successful insert is later than its last removal
U(id) == CHOOSE o \in Universe : o.id = id
C09_InsertTrueOnce ==
    \A i \in DOMAIN hist, j \in DOMAIN hist :
        (i < j /\ hist[i].c = "insert" /\ hist[j].c = "insert" /\ hist[i].id = hist[j].id
         /\ hist[i].ret = 1 /\ hist[j].ret = 1)
        => \E k \in (i + 1)..(j - 1) :
              \/ hist[k].c = "delete" /\ hist[k].id = hist[i].id /\ hist[k].ret = 1
              \/ /\ hist[k].c = "prune" /\ hist[k].ret >= 1
                 /\ hist[k].a = U(hist[i].id).author /\ hist[k].l = hist[i].l
                 /\ hist[k].n > U(hist[i].id).seq
C09_FirstInsertTrue ==
    \A j \in DOMAIN hist :
        (hist[j].c = "insert" /\ ~\E i \in 1..(j - 1) : hist[i].c \in {"insert"} /\ hist[i].id = hist[j].id)
        => hist[j].ret = 1
C09_ReinsertFalse ==
    \A j \in 2..Len(hist) :
        (hist[j].c = "insert" /\ hist[j - 1].c = "insert" /\ hist[j - 1].id = hist[j].id) => hist[j].ret = 0
C09_DeleteIsMapRemove ==
    (hist # <<>> /\ Last.c = "delete") => ~HasOperation(Last.id)
C09_DeletePayloadIsMapUpdate ==
    (hist # <<>> /\ Last.c = "delete_payload") =>
        /\ (Last.ret = 1) <=> HasOperation(Last.id)
        /\ HasOperation(Last.id) => ~GetBody(Last.id)

\* topics: a triple is associated iff the last command on it is an `associate`;
\* a command reports 1 exactly when it changed the membership
TopicCmds(t, a, l) == {i \in DOMAIN hist : hist[i].c \in {"associate", "remove"} /\ hist[i].t = t /\ hist[i].a = a /\ hist[i].l = l}
C09_TopicsAreASet ==
    \A t \in Topic, a \in Author, l \in Log :
        LET I == TopicCmds(t, a, l) IN
        /\ (<<t, a, l>> \in topics) <=> (I # {} /\ hist[Max(I)].c = "associate")
        /\ \A i \in I :
              LET before == {j \in I : j < i}
                  wasIn == before # {} /\ hist[Max(before)].c = "associate"
              IN hist[i].ret = IF hist[i].c = "associate" THEN (IF wasIn THEN 0 ELSE 1)
                                                          ELSE (IF wasIn THEN 1 ELSE 0)

\* cursors: a read returns the last cursor written under the name (none after a delete)
CursorCmds(n) == {i \in DOMAIN hist : hist[i].c \in {"set_cursor", "delete_cursor"} /\ hist[i].n = n}
C09_CursorLastWriter ==
    \A n \in Name :
        LET I == CursorCmds(n) IN
        IF I = {} \/ hist[Max(I)].c = "delete_cursor"
        THEN ~HasCursor(n)
        ELSE HasCursor(n) /\ MapJson(GetCursor(n)) = hist[Max(I)].v
=============================================================================
