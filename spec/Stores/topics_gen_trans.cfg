SPECIFICATION MCSpec
CONSTANTS
  Author = {"a1", "a2"}
  Log = {"l1", "l2"}
  Topic = {"t1", "t2"}
  Name = {}
  MaxSeq = 0
  Universe <- NoOps
  CursorVals <- NoVals
  Families = {"topics"}
  MaxLen = 1000
  ExportTransitions = TRUE
  FullTransitions = TRUE
VIEW StateView
CHECK_DEADLOCK FALSE
