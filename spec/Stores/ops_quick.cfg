SPECIFICATION MCSpec
CONSTANTS
  Author = {"a1", "a2"}
  Log = {"l1", "l2"}
  Topic = {}
  Name = {}
  MaxSeq = 2
  Universe <- U5
  CursorVals <- NoVals
  Families = {"ops"}
  MaxLen = 1000
  ExportTransitions = FALSE
  FullTransitions = FALSE
INVARIANTS
  TypeOK
  C08_HeightsSummarise
  C08_HeightsOfNothingIsNone
  C08_RangesTile
  C08_SizeMatchesEntries
  C08_RowsPartition
VIEW StateView
CHECK_DEADLOCK FALSE
