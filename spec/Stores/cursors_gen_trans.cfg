SPECIFICATION MCSpec
CONSTANTS
  Author = {"a1", "a2"}
  Log = {"l1", "l2"}
  Topic = {}
  Name = {"c1", "c2"}
  MaxSeq = 0
  Universe <- NoOps
  CursorVals <- CV4
  Families = {"cursors"}
  MaxLen = 1000
  ExportTransitions = TRUE
  FullTransitions = TRUE
VIEW StateView
CHECK_DEADLOCK FALSE
