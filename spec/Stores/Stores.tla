------------------------------- MODULE Stores -------------------------------
(***************************************************************************)
(* Reference model of the SQLite stores of p2panda-store (C08, C09).       *)
(*                                                                         *)
(*   operations_v1  (p2panda-store/src/operations/sqlite.rs,               *)
(*                   p2panda-store/src/logs/sqlite/mod.rs)                 *)
(*   topics_v1      (p2panda-store/src/topics/sqlite.rs)                   *)
(*   cursors_v1     (p2panda-store/src/cursors/sqlite.rs)                  *)
(*                                                                         *)
(* Commands are actions, named after the trait methods; `ret` is the value *)
(* the command returns (booleans as 1/0, prune count as itself, unit as 0).*)
(* Queries are pure operators over the state.  The model is "a simple      *)
(* in-memory collection of the stored entries":                            *)
(*                                                                         *)
(*   ops     : Id -|-> [author, log, seq, hdr, pay, giga, body]            *)
(*             one row per operation id (hash); `log` is the log id the    *)
(*             operation was inserted under (it is an argument of          *)
(*             insert_operation, not part of the header); `hdr` = encoded  *)
(*             header length; the header's payload_size (a u32) is         *)
(*             giga * 2^30 + pay with pay < 2^30 + small (TLC integers are *)
(*             32 bit); `body` = a payload is stored with the row          *)
(*   topics  : set of <<topic, author, log>>                               *)
(*   cursors : Name -|-> value   (value = any height map; opaque here)     *)
(*                                                                         *)
(* The store has no uniqueness constraint on (author, log, seq): two       *)
(* different operations may sit at the same position of a log ("fork").    *)
(* The model therefore gives, for the order-sensitive queries, the SET of  *)
(* acceptable answers (any maximal entry; any seq-sorted arrangement).     *)
(*                                                                         *)
(* "None" for an optional sequence number is -1.                           *)
(***************************************************************************)
EXTENDS Integers, FiniteSets, Sequences, FiniteSetsExt, TLC

VARIABLES ops, topics, cursors, ret

vars == <<ops, topics, cursors, ret>>

NoneS == -1
Empty == <<>>                       \* the function with empty domain

Init ==
    /\ ops = Empty
    /\ topics = {}
    /\ cursors = Empty
    /\ ret = 0

Keep(f, S) == [x \in S |-> f[x]]

-----------------------------------------------------------------------------
(* Commands on operations_v1                                               *)

\* operations/sqlite.rs:41-93  INSERT OR IGNORE, hash is PRIMARY KEY;
\* returns rows_affected > 0
InsertOperation(id, a, l, s, h, p, g, b) ==
    /\ IF id \in DOMAIN ops
       THEN ops' = ops /\ ret' = 0
       ELSE /\ ops' = ops @@ (id :> [author |-> a, log |-> l, seq |-> s,
                                      hdr |-> h, pay |-> p, giga |-> g, body |-> b])
            /\ ret' = 1
    /\ UNCHANGED <<topics, cursors>>

\* operations/sqlite.rs:167-187  DELETE FROM operations_v1 WHERE hash = ?
DeleteOperation(id) ==
    /\ IF id \in DOMAIN ops
       THEN ops' = Keep(ops, DOMAIN ops \ {id}) /\ ret' = 1
       ELSE ops' = ops /\ ret' = 0
    /\ UNCHANGED <<topics, cursors>>

\* operations/sqlite.rs:189-206  UPDATE operations_v1 SET body = NULL WHERE hash = ?
\* (true whenever the row exists, also when it had no body; header, header_size and
\* payload_size columns are untouched)
DeleteOperationPayload(id) ==
    /\ IF id \in DOMAIN ops
       THEN ops' = [ops EXCEPT ![id].body = FALSE] /\ ret' = 1
       ELSE ops' = ops /\ ret' = 0
    /\ UNCHANGED <<topics, cursors>>

InLog(a, l) == {id \in DOMAIN ops : ops[id].author = a /\ ops[id].log = l}

\* logs/sqlite/mod.rs:260-287  DELETE ... WHERE verifying_key = ? AND log_id = ? AND seq_num < ?
\* (whole rows; `until` exclusive); returns rows_affected
PruneEntries(a, l, n) ==
    LET gone == {id \in InLog(a, l) : ops[id].seq < n} IN
    /\ ops' = Keep(ops, DOMAIN ops \ gone)
    /\ ret' = Cardinality(gone)
    /\ UNCHANGED <<topics, cursors>>

-----------------------------------------------------------------------------
(* Commands on topics_v1 (UNIQUE (topic, author, data_id)) and cursors_v1  *)

\* topics/sqlite.rs:24-58  INSERT OR IGNORE
Associate(t, a, l) ==
    /\ topics' = topics \cup {<<t, a, l>>}
    /\ ret' = IF <<t, a, l>> \in topics THEN 0 ELSE 1
    /\ UNCHANGED <<ops, cursors>>

\* topics/sqlite.rs:61-94  DELETE ... WHERE topic = ? AND author = ? AND data_id = ?
Remove(t, a, l) ==
    /\ topics' = topics \ {<<t, a, l>>}
    /\ ret' = IF <<t, a, l>> \in topics THEN 1 ELSE 0
    /\ UNCHANGED <<ops, cursors>>

\* cursors/sqlite.rs:52-78  INSERT ... ON CONFLICT(name) DO UPDATE SET cursor = EXCLUDED.cursor
SetCursor(n, v) ==
    /\ cursors' = IF n \in DOMAIN cursors THEN [cursors EXCEPT ![n] = v]
                                          ELSE cursors @@ (n :> v)
    /\ ret' = 0
    /\ UNCHANGED <<ops, topics>>

\* cursors/sqlite.rs:81-97  DELETE FROM cursors_v1 WHERE name = ?
DeleteCursor(n) ==
    /\ cursors' = Keep(cursors, DOMAIN cursors \ {n})
    /\ ret' = 0
    /\ UNCHANGED <<ops, topics>>

-----------------------------------------------------------------------------
(* Queries on the log view of operations_v1  (LogStore, C08)               *)

SeqsIn(S) == {ops[id].seq : id \in S}

\* get_latest_entry (mod.rs:18-60): ORDER BY seq_num DESC LIMIT 1.  The set of acceptable
\* answers: every entry with the maximal sequence number; {} = None.
LatestSet(a, l) ==
    LET S == InLog(a, l) IN
    IF S = {} THEN {} ELSE {id \in S : ops[id].seq = Max(SeqsIn(S))}

\* get_log_heights (mod.rs:97-151): SELECT log_id, MAX(seq_num) ... log_id IN (..) GROUP BY log_id;
\* a function over the requested logs that have at least one entry.  Empty domain = None
\* (the code never returns Some(empty map)).  Defined for every SET of logs, the empty set
\* included: nothing requested, nothing found, None (trait doc: "Returns None when the author
\* or a log with the requested id was not found").
Heights(a, L) ==
    [l \in {k \in L : InLog(a, k) # {}} |-> Max(SeqsIn(InLog(a, l)))]

\* the WHERE clause shared by get_log_entries and get_log_size (mod.rs:161-257):
\*    after = None -> seq_num >= 0          after = Some(x) -> seq_num > x
\*    until = None -> seq_num <= u32::MAX   until = Some(y) -> seq_num <= y
InRange(a, l, af, un) ==
    {id \in InLog(a, l) : /\ (af = NoneS \/ ops[id].seq > af)
                          /\ (un = NoneS \/ ops[id].seq <= un)}

\* get_log_entries: the entries of the range ordered by seq_num.  `s` is an acceptable list iff
\* it contains every entry of the range exactly once in non-decreasing seq order (ties = forks,
\* their order is not determined by the SQL).
IsEntriesAnswer(s, a, l, af, un) ==
    /\ {s[i] : i \in DOMAIN s} = InRange(a, l, af, un)
    /\ Len(s) = Cardinality(InRange(a, l, af, un))
    /\ \A i \in 1..(Len(s) - 1) : ops[s[i]].seq <= ops[s[i + 1]].seq
EntriesIsNone(a, l, af, un) == InRange(a, l, af, un) = {}

\* get_log_size: SELECT SUM(header_size), SUM(payload_size), COUNT(*) over the same range;
\* result (count, header bytes + payload bytes).  payload_size is the header's declared payload
\* size: it is counted whether or not the body is (still) stored.
SizeCount(a, l, af, un) == Cardinality(InRange(a, l, af, un))
SizePay(a, l, af, un) == MapThenSumSet(LAMBDA id : ops[id].pay, InRange(a, l, af, un))
SizeHdr(a, l, af, un) == MapThenSumSet(LAMBDA id : ops[id].hdr, InRange(a, l, af, un))
SizeGiga(a, l, af, un) == MapThenSumSet(LAMBDA id : ops[id].giga, InRange(a, l, af, un))
\* bytes below the 2^30 units (header bytes + payload remainders)
SizeRest(a, l, af, un) == SizeHdr(a, l, af, un) + SizePay(a, l, af, un)
\* The result type is (u32, u32).  The byte total giga * 2^30 + rest does not fit into a u32 iff
\* it is >= 4 * 2^30 (rest < 2^31 is assumed, so giga <= 2 never overflows).  Such a total
\* has no correct rendering as a pair: the only acceptable outcome is an error - not a panic
\* and not a wrapped or saturated number.
Giga == 1073741824
SizeOverflows(a, l, af, un) ==
    \/ SizeGiga(a, l, af, un) >= 4
    \/ SizeGiga(a, l, af, un) = 3 /\ SizeRest(a, l, af, un) >= Giga
\* The Option wrapper of the two ranged queries.  The trait documents a `None` case for
\* get_latest_entry and get_log_heights only; for get_log_entries / get_log_size it is silent.
\* The abstract answers are therefore the LIST of entries and the PAIR (count, bytes); the code
\* renders the empty list as None and the zero pair as Some((0, 0)) (an aggregate query always
\* yields a row, SUM over no rows decodes as 0).  `None` is accepted as a rendering of the empty
\* list / the zero pair and of nothing else (NOTES.md, "None versus empty").
EntriesAnswerOK(none, s, a, l, af, un) ==
    IF none THEN InRange(a, l, af, un) = {} ELSE IsEntriesAnswer(s, a, l, af, un)
\* `bytes` is the logged total when it is < 2^31, else the logged total minus 2^31 with
\* `high` = TRUE (so that TLC's 32-bit integers can carry every u32)
SizeAnswerOK(err, none, n, bytes, high, a, l, af, un) ==
    IF SizeOverflows(a, l, af, un) THEN err
    ELSE /\ ~err
         /\ IF none THEN SizeCount(a, l, af, un) = 0
            ELSE /\ n = SizeCount(a, l, af, un)
                 /\ LET g == SizeGiga(a, l, af, un)
                        r == SizeRest(a, l, af, un)
                    IN \* total = g * 2^30 + r ; high <=> total >= 2^31
                       IF g >= 2 THEN high /\ bytes = (g - 2) * Giga + r
                       ELSE IF g = 1 /\ r >= Giga THEN high /\ bytes = r - Giga
                       ELSE ~high /\ bytes = g * Giga + r

-----------------------------------------------------------------------------
(* Queries of OperationStore, TopicStore, CursorStore (C09)                *)

HasOperation(id) == id \in DOMAIN ops
\* get_operation returns the row's hash, decoded header and body (or None)
GetBody(id) == ops[id].body

Resolve(t) == {<<x[2], x[3]>> : x \in {y \in topics : y[1] = t}}

HasCursor(n) == n \in DOMAIN cursors
GetCursor(n) == cursors[n]

-----------------------------------------------------------------------------
(* Sanity laws of the model itself.  The substance of C08/C09 is the        *)
(* conformance of the implementation with the operators above; these laws  *)
(* are the facts the callers (log sync, forge, acked) rely on, checked by  *)
(* TLC on every reachable state.  As = authors, Ls = logs, LSets = sets of   *)
(* logs, Bs = bounds.                                                          *)

\* heights summarise a log: nothing lies after the height, everything lies at or below it,
\* and the latest entry sits at the height
HeightsSummarise(As, LSets) ==
    \A a \in As : \A L \in LSets :
        LET H == Heights(a, L) IN
        /\ DOMAIN H \subseteq L
        /\ \A l \in L :
              IF l \in DOMAIN H
              THEN /\ InRange(a, l, H[l], NoneS) = {}
                   /\ InRange(a, l, NoneS, H[l]) = InLog(a, l)
                   /\ LatestSet(a, l) # {}
                   /\ \A id \in LatestSet(a, l) : ops[id].seq = H[l]
              ELSE InLog(a, l) = {} /\ LatestSet(a, l) = {}

HeightsOfNothingIsNone(As) == \A a \in As : DOMAIN Heights(a, {}) = {}

\* (after, until] ranges tile a log: this is what lets `compare` + ranged reads transfer a log
RangesTile(As, Ls, Bs) ==
    \A a \in As, l \in Ls : \A x \in Bs, y \in Bs :
        /\ x <= y => /\ InRange(a, l, NoneS, x) \cup InRange(a, l, x, y) = InRange(a, l, NoneS, y)
                     /\ InRange(a, l, NoneS, x) \cap InRange(a, l, x, y) = {}
        /\ x >= y => InRange(a, l, x, y) = {}
        /\ InRange(a, l, NoneS, y) \cup InRange(a, l, y, NoneS) = InLog(a, l)

\* size and entries agree on every range
SizeMatchesEntries(As, Ls, Bs) ==
    \A a \in As, l \in Ls : \A x \in Bs \cup {NoneS}, y \in Bs \cup {NoneS} :
        /\ (SizeCount(a, l, x, y) = 0) <=> EntriesIsNone(a, l, x, y)
        /\ SizeRest(a, l, x, y) >= SizeCount(a, l, x, y)           \* headers are never empty
        /\ SizeCount(a, l, x, y) = 0 => (SizeRest(a, l, x, y) = 0 /\ SizeGiga(a, l, x, y) = 0)
        /\ SizeOverflows(a, l, x, y) => SizeCount(a, l, x, y) > 0

\* every stored row is visible through exactly one (author, log) view
RowsPartition ==
    \A id \in DOMAIN ops : id \in InLog(ops[id].author, ops[id].log)

=============================================================================
