SPECIFICATION MCSpec
CONSTANTS
  Author = {"a1", "a2"}
  Log = {"l1", "l2"}
  Topic = {}
  Name = {}
  MaxSeq = 3
  Universe <- U9
  CursorVals <- NoVals
  Families = {"ops"}
  MaxLen = 25
  ExportTransitions = FALSE
  FullTransitions = FALSE
INVARIANTS
  ExportState
CHECK_DEADLOCK FALSE
