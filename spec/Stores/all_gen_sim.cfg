SPECIFICATION MCSpec
CONSTANTS
  Author = {"a1", "a2"}
  Log = {"l1", "l2"}
  Topic = {"t1", "t2"}
  Name = {"c1", "c2"}
  MaxSeq = 2
  Universe <- U6
  CursorVals <- CV4
  Families = {"ops", "topics", "cursors"}
  MaxLen = 30
  ExportTransitions = FALSE
  FullTransitions = FALSE
INVARIANTS
  ExportState
CHECK_DEADLOCK FALSE
