---------------------------- MODULE Trace_Stores ----------------------------
(* Trace validation: command / query events recorded from a real           *)
(* SqliteStore (harness `vh-stores stores record`) must be a behaviour of   *)
(* Stores: every command event applies the spec action with the logged      *)
(* arguments and must report the spec's return value; every `Queries` event *)
(* leaves the state unchanged and each logged query result must be the      *)
(* value (or one of the acceptable values) of the spec's query operator.    *)
EXTENDS Stores, Json, IOUtils

Rec == ndJsonDeserialize(IOEnv.TRACE)

VARIABLE i
tvars == <<ops, topics, cursors, ret, i>>

Ev == Rec[i]


\* cursor values are logged flat: the author keys and the (author, log, height) triples
CurVal(e) == [authors |-> Range(e.authors), heights |-> Range(e.heights)]

QueryOK(q) ==
    CASE q.k = "latest" ->
            IF q.id = "" THEN LatestSet(q.a, q.l) = {}
            ELSE q.id \in LatestSet(q.a, q.l) /\ q.body = ops[q.id].body
      [] q.k = "heights" ->
            LET H == Heights(q.a, Range(q.logs)) IN
            /\ q.none <=> (DOMAIN H = {})                      \* never Some(empty map)
            /\ Range(q.res) = {<<l, H[l]>> : l \in DOMAIN H}
            /\ Len(q.res) = Cardinality(DOMAIN H)
      [] q.k = "entries" ->
            /\ EntriesAnswerOK(q.none, q.ids, q.a, q.l, q.af, q.un)
            /\ q.none => q.ids = <<>>
            /\ \A k \in DOMAIN q.ids : q.bodies[k] = ops[q.ids[k]].body
      [] q.k = "size" ->
            SizeAnswerOK(q.err, q.none, q.n, q.bytes, q.high, q.a, q.l, q.af, q.un)
      [] q.k = "get" ->
            /\ q.has = HasOperation(q.id)
            /\ q.present = HasOperation(q.id)
            /\ q.present => q.body = GetBody(q.id)
      [] q.k = "resolve" ->
            /\ Range(q.pairs) = Resolve(q.t)
            /\ Len(q.pairs) = Cardinality(Resolve(q.t))
      [] q.k = "cursor" ->
            /\ q.present = HasCursor(q.n)
            /\ q.present => CurVal(q) = GetCursor(q.n)

StepReset ==
    /\ Ev.ev = "Reset"
    /\ ops' = Empty /\ topics' = {} /\ cursors' = Empty /\ ret' = 0

StepInsertOperation ==
    /\ Ev.ev = "InsertOperation"
    /\ InsertOperation(Ev.id, Ev.a, Ev.l, Ev.seq, Ev.hdr, Ev.pay, Ev.giga, Ev.body)
    /\ ret' = Ev.ret
StepDeleteOperation ==
    /\ Ev.ev = "DeleteOperation" /\ DeleteOperation(Ev.id) /\ ret' = Ev.ret
StepDeleteOperationPayload ==
    /\ Ev.ev = "DeleteOperationPayload" /\ DeleteOperationPayload(Ev.id) /\ ret' = Ev.ret
StepPruneEntries ==
    /\ Ev.ev = "PruneEntries" /\ PruneEntries(Ev.a, Ev.l, Ev.n) /\ ret' = Ev.ret
StepAssociate ==
    /\ Ev.ev = "Associate" /\ Associate(Ev.t, Ev.a, Ev.l) /\ ret' = Ev.ret
StepRemove ==
    /\ Ev.ev = "Remove" /\ Remove(Ev.t, Ev.a, Ev.l) /\ ret' = Ev.ret
StepSetCursor ==
    /\ Ev.ev = "SetCursor" /\ SetCursor(Ev.n, CurVal(Ev)) /\ ret' = Ev.ret
StepDeleteCursor ==
    /\ Ev.ev = "DeleteCursor" /\ DeleteCursor(Ev.n) /\ ret' = Ev.ret
StepQueries ==
    /\ Ev.ev = "Queries"
    /\ \A k \in DOMAIN Ev.q : QueryOK(Ev.q[k])
    /\ UNCHANGED <<ops, topics, cursors, ret>>

TraceInit == Init /\ i = 1
TraceNext ==
    /\ i <= Len(Rec)
    /\ i' = i + 1
    /\ \/ StepReset
       \/ StepInsertOperation \/ StepDeleteOperation \/ StepDeleteOperationPayload \/ StepPruneEntries
       \/ StepAssociate \/ StepRemove \/ StepSetCursor \/ StepDeleteCursor
       \/ StepQueries
TraceSpec == TraceInit /\ [][TraceNext]_tvars

\* the model's laws on the recorded states, over the keys present in the data
AuthorsPresent == {ops[id].author : id \in DOMAIN ops}
LogsPresent == {ops[id].log : id \in DOMAIN ops}
C08_HeightsSummarise == HeightsSummarise(AuthorsPresent, {LogsPresent})
C08_RowsPartition == RowsPartition

TraceAccepted ==
    LET d == TLCGet("stats").diameter IN
    IF d - 1 = Len(Rec) THEN TRUE
    ELSE Print(<<"TRACE_REJECTED", d - 1, Len(Rec), ToJson(Rec[d])>>, FALSE)
=============================================================================
