SPECIFICATION TraceSpec
INVARIANTS
  C08_HeightsSummarise
  C08_RowsPartition
POSTCONDITION TraceAccepted
CHECK_DEADLOCK FALSE
