SPECIFICATION MCSpec
CONSTANTS
  Author = {"a1", "a2"}
  Log = {"l1", "l2"}
  Topic = {"t1", "t2"}
  Name = {"c1", "c2"}
  MaxSeq = 0
  Universe <- NoOps
  CursorVals <- CV4
  Families = {"topics", "cursors"}
  MaxLen = 1000
  ExportTransitions = FALSE
  FullTransitions = FALSE
INVARIANTS
  TypeOK
VIEW StateView
CHECK_DEADLOCK FALSE
