SPECIFICATION MCSpec
CONSTANTS
  Author = {"a1", "a2"}
  Log = {"l1", "l2"}
  Topic = {}
  Name = {}
  MaxSeq = 2
  Universe <- UB
  CursorVals <- NoVals
  Families = {"ops"}
  MaxLen = 1000
  ExportTransitions = FALSE
  FullTransitions = FALSE
INVARIANTS
  ExportState
VIEW StateView
CHECK_DEADLOCK FALSE
