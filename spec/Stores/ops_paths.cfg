SPECIFICATION MCSpec
CONSTANTS
  Author = {"a1", "a2"}
  Log = {"l1", "l2"}
  Topic = {}
  Name = {}
  MaxSeq = 1
  Universe <- U4
  CursorVals <- NoVals
  Families = {"ops"}
  MaxLen = 3
  ExportTransitions = FALSE
  FullTransitions = FALSE
INVARIANTS
  TypeOK
  C08_PruneLaw
  C09_InsertTrueOnce
  C09_FirstInsertTrue
  C09_ReinsertFalse
  C09_DeleteIsMapRemove
  C09_DeletePayloadIsMapUpdate
  C09_TopicsAreASet
  C09_CursorLastWriter
CHECK_DEADLOCK FALSE
