SPECIFICATION MCSpec
CONSTANTS
  Author = {"a1", "a2"}
  Log = {"l1", "l2"}
  Topic = {"t1"}
  Name = {"c1"}
  MaxSeq = 0
  Universe <- NoOps
  CursorVals <- CV4
  Families = {"topics", "cursors"}
  MaxLen = 5
  ExportTransitions = FALSE
  FullTransitions = FALSE
INVARIANTS
  TypeOK
  C08_PruneLaw
  C09_InsertTrueOnce
  C09_FirstInsertTrue
  C09_ReinsertFalse
  C09_DeleteIsMapRemove
  C09_DeletePayloadIsMapUpdate
  C09_TopicsAreASet
  C09_CursorLastWriter
CHECK_DEADLOCK FALSE
