SPECIFICATION MergeSpec
CONSTANTS
  Member = {"a", "b"}
  MCs = {1}
  ACs = {0, 1}
  Levels = {1, 3}
  CondVals = {}
  Arity = 2
  Defect_TieBreakByPartialCmp = FALSE
  Defect_NoopModifyUnchecked = FALSE
INVARIANTS
  ExportCase
CHECK_DEADLOCK FALSE
