--------------------------- MODULE MC_GroupNest ---------------------------
(* Every nesting over small level sets is one initial state; the query     *)
(* invariants are checked on each and each is exported with the members    *)
(* and transitive groups the specification computes for every group.       *)
EXTENDS GroupNest, TLC, Json

CONSTANTS ILevels,     \* levels an individual can have in a group
          GLevels,     \* levels a sub-group can have in a group (never Manage)
          LeafOnly     \* individuals that are members of the LAST group only (keeps the count down)

Seq3 == <<"G", "P", "Q">>
Seq4 == <<"G", "P", "Q", "R">>

Allowed(p) ==
    IF p[2] \in Groups THEN GLevels \cup {Absent}
    ELSE IF p[2] \in LeafOnly /\ Pos(p[1]) < Len(GroupSeq) THEN {Absent}
    ELSE ILevels \cup {Absent}

\* all functions f on S with f[p] \in Allowed(p) (built directly; filtering [Pairs -> ..] is too slow)
RECURSIVE Fns(_)
Fns(S) ==
    IF S = {} THEN {[x \in {} |-> Absent]}
    ELSE LET p == CHOOSE q \in S : TRUE
         IN {(p :> v) @@ f : f \in Fns(S \ {p}), v \in Allowed(p)}

NestInit == edge \in Fns(Pairs)
NestNext == FALSE /\ UNCHANGED edge
NestSpec == NestInit /\ [][NestNext]_edge

C31_QueryOrderIndependent == QueryOrderIndependent
C31_QuerySane == QuerySane

\* vacuity: a diamond whose two paths carry different effective access exists in the domain
UnequalDiamond ==
    \E g, h, k \in Groups :
        /\ h \in Direct(g) /\ k \in Direct(g) /\ k \in Direct(h)
        /\ edge[<<g, k>>] # Min(edge[<<g, h>>], edge[<<h, k>>])
NoUnequalDiamond == ~UnequalDiamond

EdgeJson == {[g |-> p[1], x |-> p[2], l |-> edge[p], grp |-> (p[2] \in Groups)] : p \in {q \in Pairs : edge[q] # Absent}}
TransJson(g) == LET t == Trans(g) IN {[m |-> m, l |-> t[m], grp |-> (m \in Groups)] : m \in DOMAIN t}

ExportNesting ==
    PrintT(<<"REPLAY", ToJson([kind |-> "nesting", groups |-> GroupSeq, edges |-> EdgeJson,
                               trans |-> [g \in Groups |-> TransJson(g)],
                               diamond |-> UnequalDiamond])>>)
===========================================================================
