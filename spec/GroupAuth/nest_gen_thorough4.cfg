SPECIFICATION NestSpec
CONSTANTS
  GroupSeq <- Seq4
  Indiv = {"a"}
  LeafOnly = {"a"}
  ILevels = {3}
  GLevels = {0, 1, 2}
  RevisitSubgroups = TRUE
INVARIANTS
  ExportNesting
CHECK_DEADLOCK FALSE
