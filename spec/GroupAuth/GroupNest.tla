----------------------------- MODULE GroupNest -----------------------------
(***************************************************************************)
(* The transitive membership QUERY of p2panda-auth for nested groups:      *)
(* `GroupCrdtInnerState::members_inner` (crdt/mod.rs:198-262), the walk    *)
(* behind `members()`, `groups()` and `traverse_members()`.                *)
(*                                                                         *)
(* A nesting is a function `edge` from pairs <<g, x>> (x an individual or a *)
(* group that comes later in GroupSeq, which keeps nestings acyclic as the *)
(* code's cycle check does) to an access level, or Absent.  Levels only    *)
(* (0 Pull .. 3 Manage); conditions are not modelled here.                 *)
(*                                                                         *)
(*   Trans(g)        declarative: for every reachable member the MAXIMUM   *)
(*                   over all paths of the MINIMUM level along the path    *)
(*   WalkResults(g)  the walk AS CODED, for EVERY iteration order of every *)
(*                   member map (the code iterates HashMaps)               *)
(***************************************************************************)
EXTENDS Integers, Sequences, FiniteSets

CONSTANTS GroupSeq,          \* sequence of group ids; a group may contain only later groups
          Indiv,             \* individuals
          RevisitSubgroups   \* TRUE: the code (recurse into a sub-group for every path that leads to it)
                             \* FALSE: "visit a sub-tree once" - a regression class this module guards against

Absent == -1
Top == 4
Groups == {GroupSeq[i] : i \in 1..Len(GroupSeq)}
Pos(g) == CHOOSE i \in 1..Len(GroupSeq) : GroupSeq[i] = g
Targets(g) == Indiv \cup {h \in Groups : Pos(h) > Pos(g)}
Pairs == {p \in Groups \X (Indiv \cup Groups) : p[2] \in Targets(p[1])}

VARIABLE edge
Direct(g) == {x \in Targets(g) : edge[<<g, x>>] # Absent}        \* access_levels() of the group
Min(x, y) == IF x <= y THEN x ELSE y
Max(x, y) == IF x >= y THEN x ELSE y

---------------------------------------------------------------------------
(* declarative                                                             *)
RECURSIVE PathSet(_, _)
\* all <<member, effective level>> over all paths from g with inherited bound b
PathSet(g, b) ==
    UNION {LET l == Min(edge[<<g, x>>], b)
           IN {<<x, l>>} \cup (IF x \in Groups THEN PathSet(x, l) ELSE {})
           : x \in Direct(g)}

Trans(g) ==
    LET ps == PathSet(g, Top)
        ms == {p[1] : p \in ps}
    IN [m \in ms |-> CHOOSE l \in {p[2] : p \in {q \in ps : q[1] = m}} :
                        \A p \in {q \in ps : q[1] = m} : p[2] <= l]

---------------------------------------------------------------------------
(* as coded: mod.rs:215-260.  M is the `members` map being filled.         *)
Upd(M, x, l) ==
    IF x \in DOMAIN M
    THEN [M EXCEPT ![x] = Max(@, l)]                     \* and_modify: keep the higher (is_lower_access)
    ELSE [y \in DOMAIN M \cup {x} |-> IF y = x THEN l ELSE M[y]]   \* or_insert

RECURSIVE Walk(_, _, _, _)
\* the set of maps the loop over `rest` (members of g not yet iterated) can end with
Walk(g, b, M, rest) ==
    IF rest = {} THEN {M}
    ELSE UNION {LET l == Min(edge[<<g, x>>], b)            \* next_access
                    first == x \notin DOMAIN M
                    M1 == Upd(M, x, l)
                    after == IF x \in Groups /\ (RevisitSubgroups \/ first)
                             THEN Walk(x, l, M1, Direct(x))
                             ELSE {M1}
                IN UNION {Walk(g, b, M2, rest \ {x}) : M2 \in after}
                : x \in rest}

WalkResults(g) == Walk(g, Top, [x \in {} |-> 0], Direct(g))

---------------------------------------------------------------------------
(* C31 for the query: whatever order the maps are iterated in, the walk    *)
(* gives one answer, and it is the declarative one.                        *)
QueryOrderIndependent == \A g \in Groups : WalkResults(g) = {Trans(g)}

\* a direct member never ends below its direct access; nobody exceeds the best edge out of the root
QuerySane ==
    \A g \in Groups :
        /\ \A x \in Direct(g) : Trans(g)[x] >= edge[<<g, x>>]
        /\ \A m \in DOMAIN Trans(g) : \E x \in Direct(g) : Trans(g)[m] <= edge[<<g, x>>]
===========================================================================
