SPECIFICATION MergeSpec
CONSTANTS
  Member = {"a"}
  MCs = {1, 2}
  ACs = {0, 1}
  Levels = {0, 1, 3}
  CondVals = {0, 1}
  Arity = 3
  Defect_TieBreakByPartialCmp = FALSE
  Defect_NoopModifyUnchecked = FALSE
INVARIANTS
  ExportCase
CHECK_DEADLOCK FALSE
