SPECIFICATION MCSpec
CONSTANTS
  Actor = {"a", "b", "c", "x"}
  Creator = "a"
  Initial <- InitialABC
  Kinds = {"add", "remove", "promote", "demote"}
  AccessArgs <- ArgsPlain
  Replica = {r1, r2}
  MaxOps = 3
  MaxRejected = 1
  Defect_TieBreakByPartialCmp = FALSE
  Defect_NoopModifyUnchecked = FALSE
INVARIANTS
  C31_Convergence
  C31_IncrementalEqualsRebuild
  C31_VerdictsAgree
  C33_OnlyAuthorized
  C33_MembersHaveOrigin
SYMMETRY ReplicaSymmetry
PROPERTIES
  C33_RejectLeavesUnchanged
