SPECIFICATION MCSpec
CONSTANTS
  Actor = {"a", "b", "c", "x"}
  Creator = "a"
  Initial <- InitialABCm
  Kinds = {"add", "remove"}
  AccessArgs <- ArgsManage
  Replica = {r1, r2}
  MaxOps = 4
  MaxRejected = 0
  ShapeAttempts = FALSE
  ShapeTail = "none"
  Defect_TieBreakByPartialCmp = FALSE
  Defect_NoopModifyUnchecked = FALSE
  Defect_RecreateAccepted = FALSE
INVARIANTS
  C31_Convergence
  C31_IncrementalEqualsRebuild
  C31_VerdictsAgree
SYMMETRY ReplicaSymmetry
