SPECIFICATION NestSpec
CONSTANTS
  GroupSeq <- Seq3
  Indiv = {"a", "b"}
  LeafOnly = {"b"}
  ILevels = {1, 3}
  GLevels = {1, 2}
  RevisitSubgroups = TRUE
INVARIANTS
  ExportNesting
CHECK_DEADLOCK FALSE
