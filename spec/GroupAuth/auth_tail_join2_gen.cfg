SPECIFICATION ShapeSpec
CONSTANTS
  Actor = {"a", "b", "c", "e"}
  Creator = "a"
  Initial <- InitialACb
  Kinds = {"add", "remove", "promote", "demote"}
  AccessArgs <- ArgsPRM
  Replica = {}
  MaxOps = 6
  MaxRejected = 0
  ShapeAttempts = FALSE
  ShapeTail = "join2"
  Defect_TieBreakByPartialCmp = FALSE
  Defect_NoopModifyUnchecked = FALSE
  Defect_RecreateAccepted = FALSE
INVARIANTS
  ExportHistory
CHECK_DEADLOCK FALSE
