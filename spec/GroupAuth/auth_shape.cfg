SPECIFICATION ShapeSpec
CONSTANTS
  Actor = {"a", "b", "c", "e"}
  Creator = "a"
  Initial <- InitialACb
  Kinds = {"add", "remove", "promote", "demote"}
  AccessArgs <- ArgsPRM
  Replica = {r1}
  MaxOps = 5
  MaxRejected = 1
  ShapeAttempts = TRUE
  ShapeTail = "none"
  Defect_TieBreakByPartialCmp = FALSE
  Defect_NoopModifyUnchecked = FALSE
  Defect_RecreateAccepted = FALSE
INVARIANTS
  C33_OnlyAuthorized
  C33_MembersHaveOrigin
  C31_VerdictsAgree
PROPERTIES
  C33_RejectLeavesUnchanged
