SPECIFICATION ShapeSpec
CONSTANTS
  Actor = {"a", "b", "c", "e"}
  Creator = "a"
  Initial <- InitialACb
  Kinds = {"add", "remove", "promote", "demote"}
  AccessArgs <- ArgsPRM
  Replica = {r1}
  MaxOps = 6
  MaxRejected = 0
  ShapeAttempts = FALSE
  ShapeTail = "fork3"
  Defect_TieBreakByPartialCmp = FALSE
  Defect_NoopModifyUnchecked = FALSE
  Defect_RecreateAccepted = FALSE
INVARIANTS
  C31_Convergence
  C31_IncrementalEqualsRebuild
  C31_VerdictsAgree
CHECK_DEADLOCK FALSE
