----------------------------- MODULE GroupAuth -----------------------------
(***************************************************************************)
(* The replicated layer of p2panda-auth for ONE group with individual      *)
(* members: a DAG of group operations, replicas that process operations in *)
(* causal order, validation in the state at an operation's dependencies,   *)
(* and the StrongRemove resolver (concurrency bubbles, operation filter,   *)
(* mutual-remove cycles).  Transcribed AS CODED from                       *)
(*                                                                         *)
(*   p2panda-auth/src/group/crdt/mod.rs     GroupCrdt::{process, validate, *)
(*                                          add_operation}, apply_action,  *)
(*                                          apply_remove_unsafe,           *)
(*                                          merge_states, heads            *)
(*   p2panda-auth/src/group/resolver.rs     StrongRemove::{rebuild_required,*)
(*                                          process, process_bubble,       *)
(*                                          compute_filter, apply_operation}*)
(*   p2panda-auth/src/graph.rs              concurrent_bubbles, split_bubble*)
(*   p2panda-auth/src/group/authority_graphs.rs  build_graph, compute_cycles*)
(*                                                                         *)
(* The membership-state algebra (create/add/remove/promote/demote/merge)   *)
(* is GroupMerge.tla.  Nested groups are not modelled here (they are       *)
(* exercised on the real code by the recorded-history direction).          *)
(***************************************************************************)
EXTENDS GroupMerge, Sequences, TLC

CONSTANTS Actor,        \* everybody who may author operations or be a target (strings)
          Creator,      \* author of the create operation
          Initial,      \* initial members: function member -> access
          Kinds,        \* subset of {"add", "remove", "promote", "demote"}
          AccessArgs,   \* access values used as arguments of add/promote/demote
          Replica       \* replica names

NoActor == "-"

VARIABLES ops,         \* sequence of published operations; the index is the operation id
          anc,         \* anc[o]: the strict predecessors of o in the graph (determined by ops; kept
                       \* as a variable only so that TLC does not recompute the closure)
          delivered,   \* delivered[r]: ids of the operations replica r accepted into its graph
          rejected,    \* rejected[r]: ids of the operations replica r refused
          st           \* st[r]: the replica's `states` map (operation id -> group state)
vars == <<ops, anc, delivered, rejected, st>>

(* An operation: [author, deps, kind, member, acc, init, ok]; `init` are   *)
(* the initial members of a create (member -> access), empty otherwise.   *)
(* `ok` is the verdict of the publisher's validation (a function of the    *)
(* operation's causal history); every replica must reach the same verdict. *)
Op(author, deps, kind, member, acc, ok) ==
    [author |-> author, deps |-> deps, kind |-> kind, member |-> member, acc |-> acc, ok |-> ok,
     init |-> [x \in {} |-> 0]]
CreateOp(author, initial) ==
    [author |-> author, deps |-> {}, kind |-> "create", member |-> NoActor, acc |-> Acc(NoC, Pull), ok |-> TRUE,
     init |-> initial]

Ids == 1..Len(ops)
OkIds == {o \in Ids : ops[o].ok}

---------------------------------------------------------------------------
(* The operation graph (mod.rs:543-560 add_operation; edges dep -> op)     *)

Anc(o) == anc[o]                                                   \* strict predecessors
Closure(deps) == deps \cup UNION {anc[d] : d \in deps}            \* an operation's causal history
Before(x, y) == x \in Anc(y)                                       \* graph.rs has_path
Conc(x, y) == x # y /\ ~Before(x, y) /\ ~Before(y, x)              \* graph.rs is_concurrent
DownClosed(S) == \A o \in S : ops[o].deps \subseteq S

\* mod.rs:113-127 heads(): nodes without outgoing edges
Heads(S) == {o \in S : \A p \in S : o \notin ops[p].deps}

\* graph.rs:15-56 concurrent_bubbles: connected components (size > 1) of the concurrency relation
RECURSIVE Grow(_, _)
Grow(G, S) ==
    LET S2 == S \cup {y \in G : \E x \in S : Conc(x, y)}
    IN IF S2 = S THEN S ELSE Grow(G, S2)
BubbleOf(G, o) == Grow(G, {o})
Bubbles(G) == {B \in {BubbleOf(G, o) : o \in G} : Cardinality(B) > 1}

---------------------------------------------------------------------------
(* resolver.rs:312-372                                                     *)
RemovedBy(o) ==        \* removed_or_demoted_manager
    IF ops[o].kind = "remove" THEN ops[o].member
    ELSE IF ops[o].kind = "demote" /\ ops[o].acc.l # Manage THEN ops[o].member
    ELSE NoActor
DelegatedTo(o) ==      \* added_or_promoted_manager
    IF ops[o].kind \in {"add", "promote"} /\ ops[o].acc.l = Manage THEN ops[o].member
    ELSE NoActor

(* resolver.rs:187-236 compute_filter: for every removal/demotion in the    *)
(* bubble, the concurrent operations authored by the removed member and    *)
(* the concurrent (re-)adds of that member.                                *)
FilterOf(B) ==
    {c \in B : \E o \in B :
        /\ RemovedBy(o) # NoActor
        /\ Conc(c, o)
        /\ \/ ops[c].author = RemovedBy(o)                            \* is_removed
           \/ ops[c].kind = "add" /\ ops[c].member = RemovedBy(o)}    \* is_readd

(* authority_graphs.rs:140-240 build_graph.  Nodes are <<actor, op>>.      *)
Removals(B) == {o \in B : RemovedBy(o) # NoActor /\ RemovedBy(o) # ops[o].author}   \* add_removal skips self-removal
Delegs(B) == {o \in B : DelegatedTo(o) # NoActor}

AuthEdges(B) ==
    LET R == Removals(B)
        D == Delegs(B)
    IN  {<< <<ops[o].author, o>>, <<RemovedBy(o), o>> >> : o \in R}
        \cup {<< <<ops[o].author, o>>, <<DelegatedTo(o), o>> >> : o \in D}
        \* concurrent removals chain: removed of one is the remover of the other
        \cup {<< <<RemovedBy(p[1]), p[1]>>, <<ops[p[2]].author, p[2]>> >> :
                p \in {q \in R \X R : Conc(q[1], q[2]) /\ RemovedBy(q[1]) = ops[q[2]].author}}
        \* removal -> delegation by the removed member, unless the removal is a successor of the delegation
        \cup {<< <<RemovedBy(p[2]), p[2]>>, <<ops[p[1]].author, p[1]>> >> :
                p \in {q \in D \X R : RemovedBy(q[2]) = ops[q[1]].author /\ ~Before(q[1], q[2])}}
        \* delegation -> removal by the delegate, if the removal is a successor of the delegation
        \cup {<< <<DelegatedTo(p[1]), p[1]>>, <<ops[p[2]].author, p[2]>> >> :
                p \in {q \in D \X R : DelegatedTo(q[1]) = ops[q[2]].author /\ Before(q[1], q[2])}}
        \* delegation -> later delegation by the delegate (only inside `if let (Some(removals), Some(delegations))`)
        \cup (IF R = {} THEN {} ELSE
              {<< <<DelegatedTo(p[1]), p[1]>>, <<ops[p[2]].author, p[2]>> >> :
                p \in {q \in D \X D : DelegatedTo(q[1]) = ops[q[2]].author /\ Before(q[1], q[2])}})

RECURSIVE ReachFrom(_, _)
ReachFrom(E, S) ==
    LET S2 == S \cup {e[2] : e \in {f \in E : f[1] \in S}}
    IN IF S2 = S THEN S ELSE ReachFrom(E, S2)

\* authority_graphs.rs:259-281 compute_cycles: operations of the nodes in an SCC of size >= 2
CycleOps(B) ==
    LET E == AuthEdges(B)
        N == {e[1] : e \in E} \cup {e[2] : e \in E}
        Succ(n) == ReachFrom(E, {e[2] : e \in {f \in E : f[1] = n}})    \* reachable in >= 1 step
    IN {n[2] : n \in {m \in N : \E k \in N : k # m /\ k \in Succ(m) /\ m \in Succ(k)}}

\* resolver.rs:153-162, 206-209: only removals / demotions are ever registered as mutual removes
MutualOf(B) == {o \in B : RemovedBy(o) # NoActor /\ o \in CycleOps(B)}

---------------------------------------------------------------------------
(* mod.rs:690-760 apply_action for one group, on an operation record        *)
(*                                                                         *)
(* A create replaces whatever state the group has (`members_y = default`,  *)
(* then `state::create`), and validation never refuses it: ANYBODY can     *)
(* publish a second create for an existing group and take it over.  That   *)
(* is the code (Defect_RecreateAccepted = TRUE, a known finding); with the *)
(* constant off a create is valid only as the root of the graph.           *)
CONSTANT Defect_RecreateAccepted

ApplyRec(s, op) ==
    CASE op.kind = "create" -> IF op.deps = {} \/ Defect_RecreateAccepted
                               THEN Ok(Create(op.init))      \* replaces whatever was there
                               ELSE Err(s)
      [] op.kind = "add" -> Add(s, op.author, op.member, op.acc)
      [] op.kind = "remove" -> Remove(s, op.author, op.member)
      [] op.kind = "promote" -> Promote(s, op.author, op.member, op.acc)
      [] op.kind = "demote" -> Demote(s, op.author, op.member, op.acc)
ApplyAction(s, o) == ApplyRec(s, ops[o])

\* apply_remove_unsafe: only the member counter moves (the access counter is NOT reset)
RemoveUnsafe(s, m) ==
    IF m \in DOMAIN s /\ IsMember(s[m]) THEN [s EXCEPT ![m] = [@ EXCEPT !.mc = @ + 1]] ELSE s

\* mod.rs:169-196 merge_states over a set of operation ids, for one group.  The fold order is the
\* HashSet's; Merge is commutative/associative/idempotent (C32), so any order gives the same value.
RECURSIVE MergeSet(_)
MergeSet(S) ==
    IF S = {} THEN EmptyState
    ELSE LET x == CHOOSE y \in S : TRUE IN Merge(x, MergeSet(S \ {x}))

Min(S) == CHOOSE x \in S : \A y \in S : x <= y

(* resolver.rs:71-110 StrongRemove::process on the graph G (a down-closed   *)
(* set of accepted operations): the state at every operation.  Operation   *)
(* ids are a topological order, so a fold in id order sees dependencies    *)
(* first (resolver.rs:266-307 apply_operation).                            *)
Resolve(G) ==
    LET filter == UNION {FilterOf(B) : B \in Bubbles(G)}
        mutual == UNION {MutualOf(B) : B \in Bubbles(G)}
        RECURSIVE F(_, _)
        F(acc, rest) ==
            IF rest = {} THEN acc
            ELSE LET o == Min(rest)
                     base == MergeSet({acc[d] : d \in ops[o].deps})
                     new == IF o \in mutual THEN RemoveUnsafe(base, RemovedBy(o))
                            ELSE IF o \in filter THEN base
                            ELSE ApplyAction(base, o).st
                 IN F([x \in DOMAIN acc \cup {o} |-> IF x = o THEN new ELSE acc[x]], rest \ {o})
    IN F([x \in {} |-> EmptyState], G)

\* mod.rs:152-157 current_state
CurrentOf(states, G) == MergeSet({states[h] : h \in Heads(G)})
View(states, G) == AccessLevels(CurrentOf(states, G))      \* members() / root_members()

---------------------------------------------------------------------------
(* Publishing.  An actor publishes from a view D (a down-closed set of     *)
(* accepted operations containing the create): deps = heads of D.  The     *)
(* verdict is what validation yields on the causal history of the          *)
(* operation (mod.rs:568-669 validate).                                    *)
Views == {D \in SUBSET OkIds : D # {} /\ DownClosed(D)}

Init ==
    /\ ops = <<CreateOp(Creator, Initial)>>
    /\ anc = <<{}>>
    /\ delivered = [r \in Replica |-> {}]
    /\ rejected = [r \in Replica |-> {}]
    /\ st = [r \in Replica |-> [x \in {} |-> EmptyState]]

(* An operation for a group that does not exist in the state at its        *)
(* dependencies (mod.rs:705-722 apply_action): nobody can act in it, only  *)
(* a create is possible.  (Until the fix commit the code panicked there.)  *)
VerdictForeignGroup(kind) == kind = "create"

\* the state validation checks an operation published from view D against (mod.rs:598-650)
StateOfView(D) == CurrentOf(Resolve(D), D)
\* ... and its verdict, given that state
VerdictIn(cur, author, kind, member, acc) ==
    ApplyRec(cur, Op(author, {1}, kind, member, acc, TRUE)).ok

\* a second create for the group, published from view D by `author` with itself as manager
Recreate(D, author) ==
    /\ ops' = Append(ops, [CreateOp(author, [m \in {author} |-> Acc(NoC, Manage)])
                             EXCEPT !.deps = Heads(D), !.ok = Defect_RecreateAccepted])
    /\ anc' = Append(anc, D)
    /\ UNCHANGED <<delivered, rejected, st>>

Publish(D, cur, author, kind, member, acc) ==
    /\ ops' = Append(ops, Op(author, Heads(D), kind, member, acc, VerdictIn(cur, author, kind, member, acc)))
    /\ anc' = Append(anc, D)
    /\ UNCHANGED <<delivered, rejected, st>>

(* GroupCrdt::process (mod.rs:480-541) at replica r for operation o whose  *)
(* dependencies the replica has.                                           *)
Process(r, o) ==
    LET G == delivered[r]
        rebuild == Heads(G) # ops[o].deps                        \* resolver.rs:64-67
        \* validate (mod.rs:598-634): the state the action is checked against
        valState == IF rebuild
                    THEN LET P == Closure(ops[o].deps)                          \* pruned graph
                         IN CurrentOf(Resolve(P), P)
                    ELSE CurrentOf(st[r], G)
        ok == ApplyAction(valState, o).ok
    IN IF ok
       THEN /\ delivered' = [delivered EXCEPT ![r] = G \cup {o}]
            /\ st' = [st EXCEPT ![r] =
                        IF rebuild
                        THEN Resolve(G \cup {o})                   \* RS::process on everything
                        ELSE LET base == MergeSet({st[r][d] : d \in ops[o].deps})   \* state_at(deps)
                                 new == ApplyAction(base, o).st
                             IN [x \in DOMAIN st[r] \cup {o} |-> IF x = o THEN new ELSE st[r][x]]]
            /\ UNCHANGED rejected
       ELSE /\ rejected' = [rejected EXCEPT ![r] = @ \cup {o}]
            /\ UNCHANGED <<delivered, st>>

Deliver(r, o) ==
    /\ o \in Ids /\ o \notin delivered[r] /\ o \notin rejected[r]
    /\ ops[o].deps \subseteq delivered[r]
    /\ Process(r, o)
    /\ UNCHANGED <<ops, anc>>

---------------------------------------------------------------------------
(* C31                                                                     *)
ViewOf(r) == View(st[r], delivered[r])

Convergence ==
    \A r1, r2 \in Replica : delivered[r1] = delivered[r2] => ViewOf(r1) = ViewOf(r2)

\* the incrementally maintained states are the states a full rebuild yields
IncrementalEqualsRebuild ==
    \A r \in Replica : st[r] = Resolve(delivered[r])

\* replicas reach the publisher's verdict, whatever they had delivered before
VerdictsAgree ==
    \A r \in Replica : /\ \A o \in delivered[r] : ops[o].ok
                       /\ \A o \in rejected[r] : ~ops[o].ok

---------------------------------------------------------------------------
(* C33                                                                     *)
\* the state at the declared dependencies of o
StateAtDeps(o) ==
    LET P == Closure(ops[o].deps) IN CurrentOf(Resolve(P), P)

ActiveIn(s, a) == a \in DOMAIN s /\ IsMember(s[a])

Authorized(o) ==
    LET s == StateAtDeps(o) a == ops[o].author m == ops[o].member IN
    CASE ops[o].kind = "create" -> ops[o].deps = {}
      [] ops[o].kind = "add" -> ActorIsActiveManager(s, a) /\ ~ActiveIn(s, m)
      [] ops[o].kind = "remove" -> /\ ActiveIn(s, m)
                                   /\ (ActorIsActiveManager(s, a) \/ (a = m /\ ActiveIn(s, a)))
      [] OTHER -> ActorIsActiveManager(s, a) /\ ActiveIn(s, m)      \* promote / demote

OnlyAuthorized == \A r \in Replica : \A o \in delivered[r] : Authorized(o)
OnlyAuthorizedPublished == \A o \in OkIds : Authorized(o)

\* nobody is a member unless an accepted create or add named them
MembersHaveOrigin ==
    \A r \in Replica : \A m \in Members(CurrentOf(st[r], delivered[r])) :
        \E o \in delivered[r] : \/ ops[o].kind = "create" /\ m \in DOMAIN ops[o].init
                                \/ ops[o].kind = "add" /\ ops[o].member = m

\* a refused operation leaves the replica as it was (action property)
RejectLeavesUnchanged ==
    [][\A r \in Replica : rejected'[r] # rejected[r] => (delivered'[r] = delivered[r] /\ st'[r] = st[r])]_vars
===========================================================================
