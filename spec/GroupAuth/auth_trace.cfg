SPECIFICATION TraceSpec
CONSTANTS
  Actor = {}
  Creator = "-"
  Initial = 0
  Kinds = {}
  AccessArgs = {}
  Replica = {"r1", "r2", "r3"}
  Defect_TieBreakByPartialCmp = FALSE
  Defect_NoopModifyUnchecked = FALSE
  Defect_RecreateAccepted = FALSE
INVARIANTS
  C31_Convergence
  C31_IncrementalEqualsRebuild
  C31_VerdictsAgree
  C33_OnlyAuthorized
  C33_MembersHaveOrigin
PROPERTIES
  C33_RejectLeavesUnchanged
POSTCONDITION TraceAccepted
CHECK_DEADLOCK FALSE
