SPECIFICATION MergeSpec
CONSTANTS
  Member = {"a"}
  MCs = {1, 2}
  ACs = {0, 1}
  Levels = {0, 1, 2, 3}
  CondVals = {0, 1, 2}
  Arity = 3
  Defect_TieBreakByPartialCmp = FALSE
  Defect_NoopModifyUnchecked = FALSE
INVARIANTS
  C32_Commutative
  C32_Associative
  C32_Idempotent
  C32_MergeIsUpperBound
CHECK_DEADLOCK FALSE
