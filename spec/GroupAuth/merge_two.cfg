SPECIFICATION MergeSpec
CONSTANTS
  Member = {"a", "b"}
  MCs = {1, 2}
  ACs = {0, 1}
  Levels = {1, 3}
  CondVals = {}
  Arity = 2
  Defect_TieBreakByPartialCmp = FALSE
  Defect_NoopModifyUnchecked = FALSE
INVARIANTS
  C32_Commutative
  C32_Associative
  C32_Idempotent
  C32_MergeIsUpperBound
CHECK_DEADLOCK FALSE
