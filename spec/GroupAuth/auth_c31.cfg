SPECIFICATION MCSpec
CONSTANTS
  Actor = {"a", "b", "c", "x"}
  Creator = "a"
  Initial <- InitialABC
  Kinds = {"add", "remove", "promote", "demote"}
  AccessArgs <- ArgsPlain
  Replica = {r1, r2}
  MaxOps = 3
  MaxRejected = 0
  ShapeAttempts = FALSE
  ShapeTail = "none"
  Defect_TieBreakByPartialCmp = FALSE
  Defect_NoopModifyUnchecked = FALSE
  Defect_RecreateAccepted = FALSE
INVARIANTS
  C31_Convergence
  C31_IncrementalEqualsRebuild
  C31_VerdictsAgree
SYMMETRY ReplicaSymmetry
