SPECIFICATION NestSpec
CONSTANTS
  GroupSeq <- Seq3
  Indiv = {"a", "b"}
  LeafOnly = {"b"}
  ILevels = {1, 3}
  GLevels = {0, 1, 2}
  RevisitSubgroups = TRUE
INVARIANTS
  C31_QueryOrderIndependent
  C31_QuerySane
CHECK_DEADLOCK FALSE
