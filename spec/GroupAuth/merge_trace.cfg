SPECIFICATION TraceSpec
CONSTANTS
  Defect_TieBreakByPartialCmp = FALSE
INVARIANTS
  C32_BranchesCommute
  C32_BranchIdempotent
POSTCONDITION TraceAccepted
CHECK_DEADLOCK FALSE
