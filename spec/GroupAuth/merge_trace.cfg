SPECIFICATION TraceSpec
CONSTANTS
  Defect_TieBreakByPartialCmp = FALSE
  Defect_NoopModifyUnchecked = FALSE
INVARIANTS
  C32_BranchesCommute
  C32_BranchIdempotent
POSTCONDITION TraceAccepted
CHECK_DEADLOCK FALSE
