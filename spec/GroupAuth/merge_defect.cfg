SPECIFICATION MergeSpec
CONSTANTS
  Member = {"a"}
  MCs = {1}
  ACs = {0, 1}
  Levels = {1, 3}
  CondVals = {0, 1}
  Arity = 3
  Defect_TieBreakByPartialCmp = TRUE
  Defect_NoopModifyUnchecked = FALSE
INVARIANTS
  C32_Commutative
  C32_Associative
  C32_Idempotent
  C32_MergeIsUpperBound
CHECK_DEADLOCK FALSE
