SPECIFICATION NestSpec
CONSTANTS
  GroupSeq <- Seq3
  Indiv = {"a"}
  LeafOnly = {"a"}
  ILevels = {3}
  GLevels = {1, 2}
  RevisitSubgroups = FALSE
INVARIANTS
  C31_QueryOrderIndependent
  C31_QuerySane
CHECK_DEADLOCK FALSE
