------------------------- MODULE Trace_GroupMerge -------------------------
(* Trace validation for C32: events recorded from the real                 *)
(* `state::{create, add, remove, promote, demote, merge}` (harness         *)
(* `vh-auth groupmerge record`) must be behaviours of GroupMerge; the      *)
(* three laws are evaluated on the implementation's own answers.           *)
EXTENDS GroupMerge, Sequences, TLC, Json, IOUtils

Rec == ndJsonDeserialize(IOEnv.TRACE)

VARIABLES i,        \* next event
          b1, b2    \* the two branch states of the current run
tvars == <<i, b1, b2>>

Ev == Rec[i]

\* JSON state {"id": {"mc","ac","c","l"}} -> spec state
FromJson(j) == [id \in DOMAIN j |-> [mc |-> j[id].mc, acc |-> Acc(j[id].c, j[id].l), ac |-> j[id].ac]]
InitialFromJson(j) == [id \in DOMAIN j |-> Acc(j[id].c, j[id].l)]

StepReset ==
    /\ Ev.ev = "Reset"
    /\ b1' = EmptyState /\ b2' = EmptyState

StepCreate ==
    /\ Ev.ev = "Create"
    /\ b1' = Create(InitialFromJson(Ev.initial))
    /\ b2' = b1'
    /\ b1' = FromJson(Ev.after)

Apply(s) ==
    LET a == Acc(Ev.c, Ev.l) IN
    CASE Ev.kind = "add" -> Add(s, Ev.actor, Ev.member, a)
      [] Ev.kind = "remove" -> Remove(s, Ev.actor, Ev.member)
      [] Ev.kind = "promote" -> Promote(s, Ev.actor, Ev.member, a)
      [] Ev.kind = "demote" -> Demote(s, Ev.actor, Ev.member, a)

StepOp ==
    /\ Ev.ev = "Op"
    /\ LET cur == IF Ev.b = "b1" THEN b1 ELSE b2
           r == Apply(cur)
       IN /\ r.ok = Ev.ok                       \* same verdict
          /\ r.st = FromJson(Ev.after)          \* same state (unchanged on error)
          /\ IF Ev.b = "b1" THEN b1' = r.st /\ b2' = b2 ELSE b2' = r.st /\ b1' = b1

StepMergeBranches ==
    /\ Ev.ev = "MergeBranches"
    /\ FromJson(Ev.m12) = Merge(b1, b2)         \* impl = transcription
    /\ FromJson(Ev.m21) = Merge(b2, b1)
    /\ Ev.m12 = Ev.m21                           \* C32 commutativity on the impl's answers
    /\ b1' = Merge(b1, b2) /\ b2' = b1'

StepMerge3 ==
    /\ Ev.ev = "Merge3"
    /\ LET s1 == FromJson(Ev.s1) s2 == FromJson(Ev.s2) s3 == FromJson(Ev.s3) IN
       /\ FromJson(Ev.m12) = Merge(s1, s2)
       /\ FromJson(Ev.m21) = Merge(s2, s1)
       /\ FromJson(Ev.m12_3) = Merge(Merge(s1, s2), s3)
       /\ FromJson(Ev.m1_23) = Merge(s1, Merge(s2, s3))
       /\ FromJson(Ev.m11) = Merge(s1, s1)
       /\ Ev.m12 = Ev.m21 /\ Ev.m12_3 = Ev.m1_23 /\ Ev.m11 = Ev.s1      \* the three laws
    /\ UNCHANGED <<b1, b2>>

TraceInit == i = 1 /\ b1 = EmptyState /\ b2 = EmptyState
TraceNext ==
    /\ i <= Len(Rec)
    /\ i' = i + 1
    /\ (StepReset \/ StepCreate \/ StepOp \/ StepMergeBranches \/ StepMerge3)
TraceSpec == TraceInit /\ [][TraceNext]_tvars

\* the laws on the branch states the run reached (reachable states of the real functions)
C32_BranchesCommute == Commutative(b1, b2)
C32_BranchIdempotent == Idempotent(b1) /\ Idempotent(b2)

TraceAccepted ==
    LET d == TLCGet("stats").diameter IN
    IF d - 1 = Len(Rec) THEN TRUE
    ELSE Print(<<"TRACE_REJECTED", d - 1, Len(Rec), ToJson(Rec[d])>>, FALSE)
===========================================================================
