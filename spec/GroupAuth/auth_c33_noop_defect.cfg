SPECIFICATION MCSpec
CONSTANTS
  Actor = {"a", "b", "c", "x"}
  Creator = "a"
  Initial <- InitialABC
  Kinds = {"add", "remove", "promote", "demote"}
  AccessArgs <- ArgsPlain
  Replica = {r1}
  MaxOps = 2
  MaxRejected = 0
  ShapeAttempts = FALSE
  ShapeTail = "none"
  Defect_TieBreakByPartialCmp = FALSE
  Defect_NoopModifyUnchecked = TRUE
  Defect_RecreateAccepted = FALSE
INVARIANTS
  C33_OnlyAuthorized
