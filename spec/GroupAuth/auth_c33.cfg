SPECIFICATION MCSpec
CONSTANTS
  Actor = {"a", "b", "c", "x"}
  Creator = "a"
  Initial <- InitialABC
  Kinds = {"add", "remove", "promote", "demote"}
  AccessArgs <- ArgsPlain
  Replica = {r1}
  MaxOps = 3
  MaxRejected = 1
  ShapeAttempts = FALSE
  ShapeTail = "none"
  Defect_TieBreakByPartialCmp = FALSE
  Defect_NoopModifyUnchecked = FALSE
  Defect_RecreateAccepted = FALSE
INVARIANTS
  C33_OnlyAuthorized
  C33_MembersHaveOrigin
  C31_VerdictsAgree
PROPERTIES
  C33_RejectLeavesUnchanged
