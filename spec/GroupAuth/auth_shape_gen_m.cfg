SPECIFICATION ShapeSpec
CONSTANTS
  Actor = {"a", "b", "c", "e"}
  Creator = "a"
  Initial <- InitialACbm
  Kinds = {"add", "remove", "promote", "demote"}
  AccessArgs <- ArgsAll4
  Replica = {}
  MaxOps = 5
  MaxRejected = 1
  ShapeAttempts = FALSE
  ShapeTail = "none"
  Defect_TieBreakByPartialCmp = FALSE
  Defect_NoopModifyUnchecked = FALSE
  Defect_RecreateAccepted = FALSE
INVARIANTS
  ExportHistory
CHECK_DEADLOCK FALSE
