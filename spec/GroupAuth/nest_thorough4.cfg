SPECIFICATION NestSpec
CONSTANTS
  GroupSeq <- Seq4
  Indiv = {"a"}
  LeafOnly = {"a"}
  ILevels = {3}
  GLevels = {1, 2}
  RevisitSubgroups = TRUE
INVARIANTS
  C31_QueryOrderIndependent
  C31_QuerySane
CHECK_DEADLOCK FALSE
