--------------------------- MODULE MC_GroupAuth ---------------------------
(* Bounded instance of GroupAuth for TLC.                                  *)
(*                                                                         *)
(* Publishing does not depend on the replicas (an operation is published   *)
(* from an arbitrary down-closed view), and the replica invariants depend  *)
(* only on the operations a replica has seen, so the model first publishes *)
(* a history (phase "pub") and then lets the replicas deliver it in every  *)
(* causal order (phase "dlv"): the same (history, delivered, delivered)    *)
(* combinations as the interleaved model, without the interleavings.       *)
EXTENDS GroupAuth, Json

CONSTANTS MaxOps,        \* operations per history, including the create
          MaxRejected    \* at most this many refused operations per history

VARIABLE phase

\* constant values that a cfg file cannot express
InitialABC == ("a" :> Acc(NoC, Manage)) @@ ("b" :> Acc(NoC, Manage)) @@ ("c" :> Acc(NoC, Read))
InitialABCm == ("a" :> Acc(NoC, Manage)) @@ ("b" :> Acc(NoC, Manage)) @@ ("c" :> Acc(NoC, Manage))
ArgsPlain == {Acc(NoC, Read), Acc(NoC, Manage)}
ArgsManage == {Acc(NoC, Manage)}
ArgsCond == {Acc(NoC, Manage), Acc(0, Read), Acc(1, Read)}
mcvars == <<ops, anc, delivered, rejected, st, phase>>

NumRejected == Cardinality({o \in Ids : ~ops[o].ok})

MCInit == Init /\ phase = "pub"

\* the access argument is irrelevant for removes: fix it so that equal operations are not enumerated twice
ArgsOf(kind) == IF kind = "remove" THEN {Acc(NoC, Pull)} ELSE AccessArgs

\* a refused operation is a leaf of the DAG (nobody can depend on it): it is published last
PublishAccepted ==
    /\ phase = "pub" /\ Len(ops) < MaxOps /\ NumRejected = 0
    /\ \E D \in Views :
         LET cur == StateOfView(D) IN
         \E author \in Actor, kind \in Kinds, member \in Actor :
           \E acc \in ArgsOf(kind) :
              /\ VerdictIn(cur, author, kind, member, acc)
              /\ Publish(D, cur, author, kind, member, acc)
    /\ UNCHANGED phase

PublishRejected ==
    /\ phase = "pub" /\ Len(ops) < MaxOps /\ NumRejected = 0 /\ MaxRejected > 0
    /\ \E D \in Views :
         LET cur == StateOfView(D) IN
         \E author \in Actor, kind \in Kinds, member \in Actor :
           \E acc \in ArgsOf(kind) :
              /\ ~VerdictIn(cur, author, kind, member, acc)
              /\ Publish(D, cur, author, kind, member, acc)
    /\ UNCHANGED phase

\* only in the faithful model of the known finding (with the constant off the operation is a refused leaf)
PublishRecreate ==
    /\ Defect_RecreateAccepted
    /\ phase = "pub" /\ Len(ops) < MaxOps /\ NumRejected = 0
    /\ \E D \in Views, author \in Actor : Recreate(D, author)
    /\ UNCHANGED phase

StartDelivery ==
    /\ phase = "pub" /\ phase' = "dlv" /\ Replica # {}
    /\ UNCHANGED vars

DeliverAccepted ==
    /\ phase = "dlv"
    /\ \E r \in Replica, o \in Ids : Deliver(r, o) /\ delivered'[r] # delivered[r]
    /\ UNCHANGED phase

DeliverRejected ==
    /\ phase = "dlv"
    /\ \E r \in Replica, o \in Ids : Deliver(r, o) /\ rejected'[r] # rejected[r]
    /\ UNCHANGED phase

\* explicit termination (deadlock checking stays on)
Terminated ==
    /\ \/ phase = "dlv" /\ \A r \in Replica : delivered[r] \cup rejected[r] = Ids
       \/ phase = "pub" /\ Replica = {} /\ (Len(ops) = MaxOps \/ NumRejected > 0)
    /\ UNCHANGED mcvars

MCNext == PublishAccepted \/ PublishRejected \/ PublishRecreate \/ StartDelivery \/ DeliverAccepted \/ DeliverRejected \/ Terminated
MCSpec == MCInit /\ [][MCNext]_mcvars

---------------------------------------------------------------------------
(* A targeted family of 5-operation histories ("re-add concurrent with a   *)
(* change of access"), beyond the general bound MaxOps:                    *)
(*                                                                         *)
(*      1 create {a: Manage, c: Manage, b: <level>}                         *)
(*      branch 1 (deps 1):  a promotes / demotes b to some level  (optional)*)
(*      branch 2 (deps 1):  c removes b;  then c re-adds b with some level  *)
(*      attempt (deps = both branches): any action by b                     *)
(*                                                                         *)
(* remove and re-add reset b's access counter while branch 1 raised it on  *)
(* the OLD membership: the state at the attempt's dependencies is a merge  *)
(* in which the newer membership (higher member counter) must win.         *)
ShapeTarget == "b"
ShapeOther == "c"
InitialACb == ("a" :> Acc(NoC, Manage)) @@ ("c" :> Acc(NoC, Manage)) @@ ("b" :> Acc(NoC, Read))
InitialACbm == ("a" :> Acc(NoC, Manage)) @@ ("c" :> Acc(NoC, Manage)) @@ ("b" :> Acc(NoC, Manage))
ArgsAll4 == {Acc(NoC, Pull), Acc(NoC, Read), Acc(NoC, Write), Acc(NoC, Manage)}
ArgsPRM == {Acc(NoC, Pull), Acc(NoC, Read), Acc(NoC, Manage)}

CONSTANT ShapeAttempts     \* TRUE: the model also publishes b's attempt and delivers the history

ShapeInit == Init /\ phase = "s1"

ShapeModify ==
    /\ phase = "s1" /\ phase' = "s2"
    /\ \/ UNCHANGED vars                                   \* no branch 1
       \/ LET cur == StateOfView({1}) IN
          \E kind \in {"promote", "demote"}, acc \in AccessArgs :
             /\ VerdictIn(cur, Creator, kind, ShapeTarget, acc)
             /\ Publish({1}, cur, Creator, kind, ShapeTarget, acc)

ShapeRemove ==
    /\ phase = "s2" /\ phase' = "s3"
    /\ LET cur == StateOfView({1}) IN
       /\ VerdictIn(cur, ShapeOther, "remove", ShapeTarget, Acc(NoC, Pull))
       /\ Publish({1}, cur, ShapeOther, "remove", ShapeTarget, Acc(NoC, Pull))

ShapeReadd ==
    /\ phase = "s3" /\ phase' = "s4"
    /\ LET D == {1, Len(ops)}                              \* the create and the remove
           cur == StateOfView(D) IN
       \E acc \in AccessArgs :
          /\ VerdictIn(cur, ShapeOther, "add", ShapeTarget, acc)
          /\ Publish(D, cur, ShapeOther, "add", ShapeTarget, acc)

\* b's attempt from the view of everything (accepted or refused), then delivery
ShapeAttempt ==
    /\ phase = "s4" /\ ShapeAttempts /\ phase' = "s5"
    /\ LET cur == StateOfView(OkIds) IN
       \E kind \in Kinds, member \in Actor : \E acc \in ArgsOf(kind) :
          Publish(OkIds, cur, ShapeTarget, kind, member, acc)

(* C31 tails of the family: two CONCURRENT promotions of the re-added b, to any levels, by a and by c,  *)
(* either both depending on both branches ("join2": the stale access counter of b's old membership  *)
(* must not leak into the merged state they start from) or both depending on the re-add only        *)
(* ("fork3": three heads - the old branch and the two promotions - merged in any order by queries). *)
CONSTANT ShapeTail         \* "none" | "join2" | "fork3"

TailView(n) == IF ShapeTail = "join2" THEN 1..n ELSE anc[n] \cup {n}     \* n = id of the re-add

ShapeTail1 ==
    /\ phase = "s4" /\ ShapeTail # "none" /\ phase' = "t2"
    /\ LET D == TailView(Len(ops)) cur == StateOfView(D) IN
       \E acc \in AccessArgs :
          /\ VerdictIn(cur, Creator, "promote", ShapeTarget, acc)
          /\ Publish(D, cur, Creator, "promote", ShapeTarget, acc)

ShapeTail2 ==
    /\ phase = "t2" /\ phase' = "t3"
    /\ LET D == TailView(Len(ops) - 1) cur == StateOfView(D) IN
       \E acc \in AccessArgs :
          /\ VerdictIn(cur, ShapeOther, "promote", ShapeTarget, acc)
          /\ Publish(D, cur, ShapeOther, "promote", ShapeTarget, acc)

ShapeStartDelivery == phase \in {"s5", "t3"} /\ Replica # {} /\ phase' = "dlv" /\ UNCHANGED vars

ShapeTerminated ==
    /\ \/ phase = "dlv" /\ \A r \in Replica : delivered[r] \cup rejected[r] = Ids
       \/ phase = "s4" /\ ~ShapeAttempts /\ ShapeTail = "none"
       \/ phase = "t3" /\ Replica = {}
    /\ UNCHANGED mcvars

ShapeNext == ShapeTail1 \/ ShapeTail2 \/ ShapeModify \/ ShapeRemove \/ ShapeReadd \/ ShapeAttempt \/ ShapeStartDelivery \/ DeliverAccepted \/ DeliverRejected \/ ShapeTerminated
ShapeSpec == ShapeInit /\ [][ShapeNext]_mcvars

\* vacuity: the family contains a history in which b's access was changed concurrently with its re-add
\* and an attempt by b that the specification refuses
ShapeReachedRefusedAttempt == phase = "dlv" /\ Len(ops) = 5 /\ ~ops[5].ok
ShapeNeverRefusedAttempt == ~ShapeReachedRefusedAttempt

---------------------------------------------------------------------------
C31_Convergence == Convergence
C31_IncrementalEqualsRebuild == IncrementalEqualsRebuild
C31_VerdictsAgree == VerdictsAgree
\* operations do not change during delivery, and earlier operations were checked in the predecessor state
C33_OnlyAuthorized == (phase # "dlv" /\ ops[Len(ops)].ok) => Authorized(Len(ops))
C33_OnlyAuthorizedAll == OnlyAuthorizedPublished
C33_MembersHaveOrigin == MembersHaveOrigin
C33_RejectLeavesUnchanged ==
    [][\A r \in Replica : rejected'[r] # rejected[r] => (delivered'[r] = delivered[r] /\ st'[r] = st[r])]_mcvars

\* vacuity guards: the interesting branches are reached by some history
ReplicaSymmetry == Permutations(Replica)

ReachedBubble == \E D \in Views : Bubbles(D) # {}
ReachedFilter == \E D \in Views : \E B \in Bubbles(D) : FilterOf(B) # {}
ReachedMutual == \E D \in Views : \E B \in Bubbles(D) : MutualOf(B) # {}
NeverBubble == ~ReachedBubble
NeverFilter == ~ReachedFilter
NeverMutual == ~ReachedMutual

---------------------------------------------------------------------------
(* Export of histories: the operations, and for every down-closed view D   *)
(* of the accepted operations the members the specification computes and   *)
(* the set of attempts (author, kind, member, access) validation accepts   *)
(* when published from D.                                                  *)
SetToSeq(S) ==
    LET RECURSIVE F(_)
        F(T) == IF T = {} THEN <<>> ELSE LET x == Min(T) IN <<x>> \o F(T \ {x})
    IN F(S)

OpJson(o) == [id |-> o, author |-> ops[o].author, deps |-> SetToSeq(ops[o].deps), kind |-> ops[o].kind,
              member |-> ops[o].member, c |-> ops[o].acc.c, l |-> ops[o].acc.l, ok |-> ops[o].ok]

ViewJson(D) ==
    LET cur == StateOfView(D)
    IN [d |-> SetToSeq(D),
        members |-> {[m |-> m, c |-> cur[m].acc.c, l |-> cur[m].acc.l] : m \in Members(cur)}]

\* the attempts validation accepts when published from the view of ALL operations of the history
\* (the table for a smaller view D is the table of the history that consists of D only, which is
\* exported as well: the harness looks it up by the renumbered operations of D)
AcceptsJson ==
    LET cur == StateOfView(OkIds)
    IN {[a |-> t[1], k |-> t[2], m |-> t[3], c |-> t[4].c, l |-> t[4].l] :
           t \in {u \in Actor \X Kinds \X Actor \X (AccessArgs \cup {Acc(NoC, Pull)}) :
                    /\ u[4] \in ArgsOf(u[2])
                    /\ VerdictIn(cur, u[1], u[2], u[3], u[4])}}

ExportHistory ==
    phase # "dlv" =>
    PrintT(<<"REPLAY",
             ToJson([kind |-> "history",
                     initial |-> {[m |-> m, c |-> Initial[m].c, l |-> Initial[m].l] : m \in DOMAIN Initial},
                     creator |-> Creator,
                     actors |-> Actor, kinds |-> Kinds,
                     accs |-> {[c |-> a.c, l |-> a.l] : a \in AccessArgs},
                     ops |-> [o \in Ids |-> OpJson(o)],
                     views |-> {ViewJson(D) : D \in Views},
                     accepts |-> AcceptsJson,
                     foreign |-> [k \in Kinds \cup {"create"} |-> VerdictForeignGroup(k)],
                     recreate |-> Defect_RecreateAccepted])>>)
===========================================================================
