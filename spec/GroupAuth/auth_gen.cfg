SPECIFICATION MCSpec
CONSTANTS
  Actor = {"a", "b", "c", "x"}
  Creator = "a"
  Initial <- InitialABC
  Kinds = {"add", "remove", "promote", "demote"}
  AccessArgs <- ArgsPlain
  Replica = {}
  MaxOps = 3
  MaxRejected = 0
  ShapeAttempts = FALSE
  ShapeTail = "none"
  Defect_TieBreakByPartialCmp = FALSE
  Defect_NoopModifyUnchecked = FALSE
  Defect_RecreateAccepted = FALSE
INVARIANTS
  ExportHistory
CHECK_DEADLOCK FALSE
