SPECIFICATION MCSpec
CONSTANTS
  Actor = {"a", "b", "c", "x"}
  Creator = "a"
  Initial <- InitialABC
  Kinds = {"add", "remove", "promote", "demote"}
  AccessArgs <- ArgsPlain
  Replica = {}
  MaxOps = 3
  MaxRejected = 0
  Defect_TieBreakByPartialCmp = FALSE
  Defect_NoopModifyUnchecked = TRUE
INVARIANTS
  ExportHistory
CHECK_DEADLOCK FALSE
