-------------------------- MODULE Trace_GroupAuth --------------------------
(* Trace validation for C31 / C33: histories recorded from the real        *)
(* `GroupCrdt<.., StrongRemove>` (harness `vh-auth groupcrdt record`: several *)
(* replicas, authorized and unauthorized attempts, every replica delivering *)
(* in its own causal order) must be behaviours of GroupAuth.  Verdicts and *)
(* the members/access each replica reports after every step are bound to   *)
(* the specification's; the C31/C33 invariants are evaluated in every      *)
(* state.                                                                  *)
EXTENDS GroupAuth, Json, IOUtils

Rec == ndJsonDeserialize(IOEnv.TRACE)

VARIABLE i
tvars == <<ops, anc, delivered, rejected, st, i>>

Ev == Rec[i]

ToSet(seq) == {seq[k] : k \in 1..Len(seq)}
InitialFromJson(j) == [m \in DOMAIN j |-> Acc(j[m].c, j[m].l)]
ViewFromJson(seq) == {<<e.m, Acc(e.c, e.l)>> : e \in ToSet(seq)}

StepReset ==
    /\ Ev.ev = "Reset"
    /\ ops' = <<CreateOp(Ev.creator, InitialFromJson(Ev.initial))>>
    /\ anc' = <<{}>>
    /\ delivered' = [r \in Replica |-> {}]
    /\ rejected' = [r \in Replica |-> {}]
    /\ st' = [r \in Replica |-> [x \in {} |-> EmptyState]]

\* the publisher's replica had exactly the causal history of the logged dependencies
StepPublish ==
    /\ Ev.ev = "Publish"
    /\ Ev.id = Len(ops) + 1
    /\ LET deps == ToSet(Ev.deps)
           D == Closure(deps)
       IN /\ D \subseteq OkIds /\ Heads(D) = deps
          /\ Publish(D, StateOfView(D), Ev.author, Ev.kind, Ev.member, Acc(Ev.c, Ev.l))
    /\ ops'[Len(ops')].ok = Ev.ok                   \* the publisher's verdict

StepDeliver ==
    /\ Ev.ev = "Deliver"
    /\ Deliver(Ev.r, Ev.o)
    /\ Ev.ok = (Ev.o \in delivered'[Ev.r])          \* this replica's verdict
    /\ View(st'[Ev.r], delivered'[Ev.r]) = ViewFromJson(Ev.members)   \* members() after the call

TraceInit ==
    /\ i = 1
    /\ ops = <<CreateOp("-", [x \in {} |-> 0])>> /\ anc = <<{}>>
    /\ delivered = [r \in Replica |-> {}] /\ rejected = [r \in Replica |-> {}]
    /\ st = [r \in Replica |-> [x \in {} |-> EmptyState]]
TraceNext ==
    /\ i <= Len(Rec)
    /\ i' = i + 1
    /\ (StepReset \/ StepPublish \/ StepDeliver)
TraceSpec == TraceInit /\ [][TraceNext]_tvars

C31_Convergence == Convergence
C31_IncrementalEqualsRebuild == IncrementalEqualsRebuild
C31_VerdictsAgree == VerdictsAgree
C33_OnlyAuthorized == ops[Len(ops)].ok => Authorized(Len(ops))
C33_MembersHaveOrigin == MembersHaveOrigin
C33_RejectLeavesUnchanged ==
    \* (a Reset empties `rejected`; only growth is a refusal)
    [][\A r \in Replica : (rejected'[r] # rejected[r] /\ rejected[r] \subseteq rejected'[r])
                              => (delivered'[r] = delivered[r] /\ st'[r] = st[r])]_tvars

TraceAccepted ==
    LET d == TLCGet("stats").diameter IN
    IF d - 1 = Len(Rec) THEN TRUE
    ELSE Print(<<"TRACE_REJECTED", d - 1, Len(Rec), ToJson(Rec[d])>>, FALSE)
===========================================================================
