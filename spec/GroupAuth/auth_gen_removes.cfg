SPECIFICATION MCSpec
CONSTANTS
  Actor = {"a", "b", "c"}
  Creator = "a"
  Initial <- InitialABCm
  Kinds = {"add", "remove"}
  AccessArgs <- ArgsManage
  Replica = {}
  MaxOps = 4
  MaxRejected = 0
  ShapeAttempts = FALSE
  Defect_TieBreakByPartialCmp = FALSE
  Defect_NoopModifyUnchecked = FALSE
  Defect_RecreateAccepted = FALSE
INVARIANTS
  ExportHistory
CHECK_DEADLOCK FALSE
