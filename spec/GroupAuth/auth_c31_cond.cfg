SPECIFICATION MCSpec
CONSTANTS
  Actor = {"a", "b", "c"}
  Creator = "a"
  Initial <- InitialABC
  Kinds = {"add", "promote", "demote"}
  AccessArgs <- ArgsCond
  Replica = {r1, r2}
  MaxOps = 3
  MaxRejected = 0
  ShapeAttempts = FALSE
  Defect_TieBreakByPartialCmp = FALSE
  Defect_NoopModifyUnchecked = FALSE
  Defect_RecreateAccepted = FALSE
INVARIANTS
  C31_Convergence
  C31_IncrementalEqualsRebuild
  C31_VerdictsAgree
SYMMETRY ReplicaSymmetry
