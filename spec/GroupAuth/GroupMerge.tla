---------------------------- MODULE GroupMerge ----------------------------
(***************************************************************************)
(* The membership-state algebra of p2panda-auth, transcribed AS CODED.     *)
(*                                                                         *)
(*   AccessCmp / AccessLt      p2panda-auth/src/access.rs:124-150          *)
(*                             (`impl PartialOrd for Access<C>`)           *)
(*   Create/Add/Remove/        p2panda-auth/src/group/crdt/state.rs        *)
(*   Promote/Demote            :161-376                                    *)
(*   MergeMember / Merge       p2panda-auth/src/group/crdt/state.rs:386-432 *)
(*                                                                         *)
(* An access is a record [c, l]: l is the level 0..3                       *)
(* (Pull < Read < Write < Manage), c the condition: NoC (-1) for `None`,   *)
(* otherwise an integer of a TOTALLY ordered condition type (the harness   *)
(* uses `struct Cond(u8)` with the derived order).                         *)
(* A member state is [mc, acc, ac] = (member_counter, access,              *)
(* access_counter); a group state is a function from the set of KNOWN      *)
(* members (the keys of the HashMap) to member states.                     *)
(***************************************************************************)
EXTENDS Integers, FiniteSets

NoC == -1
Pull == 0
Read == 1
Write == 2
Manage == 3

Acc(c, l) == [c |-> c, l |-> l]

(* access.rs:124-150.  Result of `a.partial_cmp(&b)` for a total condition  *)
(* order: "Less" | "Equal" | "Greater".                                    *)
LevelCmp(x, y) == IF x < y THEN "Less" ELSE IF x = y THEN "Equal" ELSE "Greater"

AccessCmp(a, b) ==
    IF a.c # NoC /\ b.c # NoC
    THEN \* (Some, Some): conditions first (access.rs:127-140)
         IF a.c >= b.c
         THEN (IF a.l < b.l THEN "Less" ELSE "Greater")   \* Equal level -> Greater (sic)
         ELSE "Less"
    ELSE IF a.c = NoC /\ b.c # NoC
    THEN \* (None, Some) (access.rs:142-145)
         (IF a.l < b.l THEN "Less" ELSE "Greater")
    ELSE \* (Some, None) and (None, None): levels only (access.rs:146)
         LevelCmp(a.l, b.l)

AccessLt(a, b) == AccessCmp(a, b) = "Less"          \* `a < b`
AccessLe(a, b) == AccessCmp(a, b) \in {"Less", "Equal"}   \* `a <= b`

---------------------------------------------------------------------------
(* The tie-break of `merge` for equal member and access counters.          *)
(*                                                                         *)
(* Until the fix commit the code read                                      *)
(*     if ac1 == ac && member_state_1.access < member_state.access {take 1} *)
(* i.e. TakeFirstCoded below, which depends on the argument order whenever *)
(* `<` is not antisymmetric / not total on distinct values (conditions).   *)
(* Defect_TieBreakByPartialCmp = TRUE selects that historical behaviour    *)
(* (kept to show that the machinery finds it); FALSE is the repaired code: *)
(* the lower LEVEL wins, for equal levels the more restrictive condition   *)
(* (Some(_) before None, smaller condition first).                         *)
CONSTANT Defect_TieBreakByPartialCmp

TakeFirstCoded(a1, a) == AccessLt(a1, a)

\* canonical: strict total order on distinct accesses (for totally ordered conditions)
CanonLt(a1, a) ==
    \/ a1.l < a.l
    \/ /\ a1.l = a.l
       /\ \/ a1.c # NoC /\ a.c = NoC
          \/ a1.c # NoC /\ a.c # NoC /\ a1.c < a.c

TakeFirst(a1, a) ==
    IF Defect_TieBreakByPartialCmp THEN TakeFirstCoded(a1, a) ELSE CanonLt(a1, a)

(* state.rs:399-424, the body of the loop for a member present in both     *)
(* states; m1 from state_1, m from next_state (= state_2).  The three      *)
(* `if`s are sequential in the code and are kept sequential here.          *)
MergeMember(m1, m) ==
    LET ma == IF m1.mc > m.mc THEN m1 ELSE m
    IN  IF m1.mc = ma.mc
        THEN LET mb == IF m1.ac > ma.ac
                       THEN [ma EXCEPT !.acc = m1.acc, !.ac = m1.ac]
                       ELSE ma
             IN  IF m1.ac = mb.ac /\ TakeFirst(m1.acc, mb.acc)
                 THEN [mb EXCEPT !.acc = m1.acc]
                 ELSE mb
        ELSE ma

(* state.rs:393-432 *)
Merge(s1, s2) ==
    [id \in DOMAIN s1 \cup DOMAIN s2 |->
        IF id \notin DOMAIN s1 THEN s2[id]
        ELSE IF id \notin DOMAIN s2 THEN s1[id]
        ELSE MergeMember(s1[id], s2[id])]

---------------------------------------------------------------------------
(* C32                                                                     *)
Commutative(s1, s2) == Merge(s1, s2) = Merge(s2, s1)
Associative(s1, s2, s3) == Merge(Merge(s1, s2), s3) = Merge(s1, Merge(s2, s3))
Idempotent(s) == Merge(s, s) = s

---------------------------------------------------------------------------
(* state.rs:161-376.  Every operation returns [ok, st]: ok = FALSE is an   *)
(* `Err(GroupMembershipError)`, in which case st is the unchanged input.   *)

IsMember(m) == m.mc % 2 = 1
IsManager(m) == m.acc.l = Manage
IsPuller(m) == m.acc.l = Pull

EmptyState == [x \in {} |-> 0]

Members(s) == {id \in DOMAIN s : IsMember(s[id])}
Managers(s) == {id \in DOMAIN s : IsMember(s[id]) /\ IsManager(s[id])}
\* access_levels(): the set of (member, access) pairs of the active members
AccessLevels(s) == {<<id, s[id].acc>> : id \in Members(s)}

Ok(s) == [ok |-> TRUE, st |-> s]
Err(s) == [ok |-> FALSE, st |-> s]

\* state.rs:161-176; `initial` is a function member -> access
Create(initial) == [id \in DOMAIN initial |-> [mc |-> 1, acc |-> initial[id], ac |-> 0]]

\* common actor check of add / modify (state.rs:193-203, 298-308)
ActorIsActiveManager(s, actor) ==
    actor \in DOMAIN s /\ IsMember(s[actor]) /\ IsManager(s[actor])

\* state.rs:185-231
Add(s, adder, added, access) ==
    IF ~ActorIsActiveManager(s, adder) THEN Err(s)
    ELSE IF added \in DOMAIN s /\ IsMember(s[added]) THEN Err(s)          \* AlreadyAdded
    ELSE Ok([id \in DOMAIN s \cup {added} |->
               IF id # added THEN s[id]
               ELSE IF added \in DOMAIN s
                    THEN [mc |-> s[added].mc + 1, acc |-> access, ac |-> 0]
                    ELSE [mc |-> 1, acc |-> access, ac |-> 0]])

\* state.rs:238-278
Remove(s, remover, removed) ==
    IF remover \notin DOMAIN s THEN Err(s)                                 \* UnrecognisedActor
    ELSE IF ~IsMember(s[remover]) THEN Err(s)                              \* InactiveActor
    ELSE IF ~IsManager(s[remover]) /\ remover # removed THEN Err(s)        \* InsufficientAccess
    ELSE IF removed \notin DOMAIN s THEN Err(s)                            \* UnrecognisedMember
    ELSE IF ~IsMember(s[removed]) THEN Err(s)                              \* AlreadyRemoved
    ELSE Ok([s EXCEPT ![removed] = [@ EXCEPT !.mc = @ + 1, !.ac = 0]])

\* state.rs:286-326
ModifyAllowed(s, modifier, modified) ==
    /\ ActorIsActiveManager(s, modifier)
    /\ modified \in DOMAIN s                                               \* else UnrecognisedMember
    /\ IsMember(s[modified])                                               \* else InactiveMember

Modify(s, modifier, modified, access) ==
    IF ~ModifyAllowed(s, modifier, modified) THEN Err(s)
    ELSE IF s[modified].acc = access THEN Ok(s)
    ELSE Ok([s EXCEPT ![modified] = [@ EXCEPT !.acc = access, !.ac = @ + 1]])

(* promote / demote return the state unchanged when the target already has  *)
(* Manage / Pull access.  Until the fix commit that shortcut was taken     *)
(* BEFORE any check of the actor or of the target's membership             *)
(* (Defect_NoopModifyUnchecked = TRUE): anybody's promote of a manager and *)
(* anybody's demote of a puller was accepted.  Repaired code: the checks   *)
(* of `modify` apply to the shortcut as well.                              *)
CONSTANT Defect_NoopModifyUnchecked

Shortcut(s, actor, target) ==
    IF Defect_NoopModifyUnchecked \/ ModifyAllowed(s, actor, target) THEN Ok(s) ELSE Err(s)

\* state.rs:337-356
Promote(s, promoter, promoted, access) ==
    IF promoted \notin DOMAIN s THEN Err(s)
    ELSE IF IsManager(s[promoted]) THEN Shortcut(s, promoter, promoted)
    ELSE Modify(s, promoter, promoted, access)

\* state.rs:367-386
Demote(s, demoter, demoted, access) ==
    IF demoted \notin DOMAIN s THEN Err(s)
    ELSE IF IsPuller(s[demoted]) THEN Shortcut(s, demoter, demoted)
    ELSE Modify(s, demoter, demoted, access)
===========================================================================
