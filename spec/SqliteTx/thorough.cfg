SPECIFICATION MCSpec
CONSTANTS
  Writers = {"w1", "w2", "w3"}
  MaxTx = 1
  MaxWrites = 2
  Keys = {"k1", "k2"}
  MaxReads = 1
  CancelBudget = 1000
  ExportCuts = TRUE
INVARIANTS
  TypeOK
  MutualExclusion
  Serial
  NoTrace
  OwnSlot
  NeverBroken
  FreeMeansEmpty
VIEW NoHistView
CHECK_DEADLOCK TRUE
