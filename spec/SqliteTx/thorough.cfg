SPECIFICATION MCSpec
CONSTANTS
  Writers = {"w1", "w2", "w3"}
  MaxTx = 2
  MaxWrites = 1
  Keys = {"k1", "k2"}
  CancelBudget = 1000
  ExportCuts = TRUE
INVARIANTS
  TypeOK
  MutualExclusion
  Serial
  NoTrace
  OwnSlot
  NeverBroken
VIEW NoHistView
CHECK_DEADLOCK TRUE
