SPECIFICATION Spec
CONSTANTS
  Writers = {"w1", "w2"}
  MaxTx = 2
  MaxWrites = 1
  Keys = {"k1"}
INVARIANTS
  MutualExclusion
  Serial
  NoTrace
  NeverBroken
PROPERTIES
  EventuallyBegins
  WaitingGetsPermit
CHECK_DEADLOCK TRUE
