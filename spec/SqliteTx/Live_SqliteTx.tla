-------------------------- MODULE Live_SqliteTx --------------------------
(* Liveness instance: the plain specification (no history variable, no     *)
(* VIEW, no CONSTRAINT - bounded by MaxTx / MaxWrites) under its fairness. *)
EXTENDS SqliteTx

\* sanity variant for the vacuity check of the liveness formula (run by hand, see NOTES.md):
\* without fairness of the spawned rollback task a waiting writer can wait forever
SpecNoRbFairness == Init /\ [][Next]_vars /\ \A w \in Writers : WF_vars(WriterStep(w))
===========================================================================
