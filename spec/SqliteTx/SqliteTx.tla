----------------------------- MODULE SqliteTx -----------------------------
(***************************************************************************)
(* Transaction permit protocol of `SqliteStore` (C10).                     *)
(*                                                                         *)
(* p2panda-store/src/sqlite.rs                                             *)
(*   `begin`    :325-350  semaphore(1).acquire_owned().await; tx.lock();   *)
(*                        assert!(slot is None); pool.begin().await;       *)
(*                        slot.replace(tx); return TransactionPermit       *)
(*   `tx`       :284-292  lock the slot, run the closure on the slot's     *)
(*                        transaction (whoever put it there)               *)
(*   `commit`   :374-388  slot.take(); tx.commit().await; drop the permit  *)
(*   `rollback` :356-370  slot.take(); tx.rollback().await; drop permit    *)
(*   `impl Drop for TransactionPermit` :424-441  if not committed: clone   *)
(*                        the Arc'd semaphore permit and the slot into a    *)
(*                        spawned task that takes + rolls back whatever is  *)
(*                        in the slot and only then drops the permit        *)
(* p2panda-store/src/macros.rs `tx!`: begin, body, commit; a `?` in the    *)
(*                        body leaves the scope and drops the permit        *)
(*                                                                         *)
(* Processes: writers (each runs up to MaxTx transactions: begin, up to    *)
(* MaxWrites writes, then ONE of commit | rollback | drop the permit; the  *)
(* abort point and kind is TLC's choice at every step) and the rollback    *)
(* tasks spawned by dropped permits.                                       *)
(*                                                                         *)
(* The semaphore is tokio's fair semaphore: waiters queue in FIFO order    *)
(* and a released permit is handed to the head of the queue at release     *)
(* time (Fifo = TRUE).  Trace validation cannot see the enqueue points and *)
(* uses Fifo = FALSE (nobody is ever enqueued, see Trace_SqliteTx).        *)
(***************************************************************************)
EXTENDS Integers, Sequences, FiniteSets

CONSTANTS Writers,     \* set of strings
          MaxTx,       \* transactions per writer
          MaxWrites,   \* writes per transaction
          Keys         \* set of strings: keys of the key-value table (last writer wins)

VARIABLES
    sem,        \* available permits of the Semaphore(1)
    queue,      \* writers suspended in acquire_owned(), FIFO
    slot,       \* "none" or the writer whose sqlx transaction sits in Arc<Mutex<Option<Tx>>>
    dirty,      \* writes executed on the transaction in the slot, not yet committed
    db,         \* committed writes, in commit order (the database)
    order,      \* committed transactions [w, t] in commit order
    expected,   \* what `order` must have produced: concatenation of the committed writers' OWN writes
    mine,       \* [w] -> writes writer w issued in its current transaction
    pc,         \* [w] -> "idle" | "waiting" | "acquired" | "in_tx" | "taken_c" | "taken_r" | "done"
    txn,        \* [w] -> index of the current / next transaction of w
    rbSpawned,  \* rollback tasks spawned by a dropped permit, not yet run: set of [w, t]
    rbTaken,    \* rollback tasks that took + rolled back the slot and still hold the permit clone
    aborted,    \* transactions that ended without commit
    broken      \* a panic!/assert! of sqlite.rs fired ("none" or its name)

vars == <<sem, queue, slot, dirty, db, order, expected, mine, pc, txn, rbSpawned, rbTaken, aborted, broken>>

TxId(w) == [w |-> w, t |-> txn[w]]
Write(w, k) == [w |-> w, t |-> txn[w], j |-> Len(mine[w]), k |-> k]

Init ==
    /\ sem = 1 /\ queue = <<>> /\ slot = "none" /\ dirty = <<>>
    /\ db = <<>> /\ order = <<>> /\ expected = <<>>
    /\ mine = [w \in Writers |-> <<>>]
    /\ pc = [w \in Writers |-> "idle"]
    /\ txn = [w \in Writers |-> 0]
    /\ rbSpawned = {} /\ rbTaken = {} /\ aborted = {}
    /\ broken = "none"

\* drop(OwnedSemaphorePermit): tokio hands the permit to the first queued waiter, else makes it available
ReleaseSem(pc0) ==
    IF queue # <<>>
    THEN /\ pc' = [pc0 EXCEPT ![Head(queue)] = "acquired"]
         /\ queue' = Tail(queue)
         /\ sem' = sem
    ELSE /\ pc' = pc0
         /\ queue' = queue
         /\ sem' = sem + 1

\* the writer is through with this transaction
NextTx(w) == IF txn[w] + 1 >= MaxTx THEN "done" ELSE "idle"

---------------------------------------------------------------------------
(* begin()                                                                 *)

\* first poll of acquire_owned(): take the permit if it is free, else queue up   (sqlite.rs:329-334)
WantBegin(w) ==
    /\ pc[w] = "idle" /\ broken = "none"
    /\ IF sem > 0 /\ queue = <<>>
       THEN sem' = sem - 1 /\ pc' = [pc EXCEPT ![w] = "acquired"] /\ queue' = queue
       ELSE sem' = sem /\ pc' = [pc EXCEPT ![w] = "waiting"] /\ queue' = Append(queue, w)
    /\ mine' = [mine EXCEPT ![w] = <<>>]
    /\ UNCHANGED <<slot, dirty, db, order, expected, txn, rbSpawned, rbTaken, aborted, broken>>

\* lock the slot, assert it is empty, pool.begin(), replace   (sqlite.rs:339-347)
SetSlot(w) ==
    /\ pc[w] = "acquired" /\ broken = "none"
    /\ IF slot # "none"
       THEN /\ broken' = "assert: existing transaction after a just-acquired permit"
            /\ UNCHANGED <<slot, dirty, pc>>
       ELSE /\ slot' = w /\ dirty' = <<>>
            /\ pc' = [pc EXCEPT ![w] = "in_tx"]
            /\ UNCHANGED broken
    /\ UNCHANGED <<sem, queue, db, order, expected, mine, txn, rbSpawned, rbTaken, aborted>>

\* the begin() future is dropped while it waits for the permit: tokio unlinks the waiter
CancelWaiting(w) ==
    /\ pc[w] = "waiting" /\ broken = "none"
    /\ queue' = SelectSeq(queue, LAMBDA x : x # w)
    /\ pc' = [pc EXCEPT ![w] = NextTx(w)]
    /\ txn' = [txn EXCEPT ![w] = @ + 1]
    /\ aborted' = aborted \cup {TxId(w)}
    /\ UNCHANGED <<sem, slot, dirty, db, order, expected, mine, rbSpawned, rbTaken, broken>>

\* the begin() future is dropped after the permit was acquired, before the slot is set:
\* the bare OwnedSemaphorePermit is dropped, there is nothing to roll back
CancelAcquired(w) ==
    /\ pc[w] = "acquired" /\ broken = "none"
    /\ ReleaseSem([pc EXCEPT ![w] = NextTx(w)])
    /\ txn' = [txn EXCEPT ![w] = @ + 1]
    /\ aborted' = aborted \cup {TxId(w)}
    /\ UNCHANGED <<slot, dirty, db, order, expected, mine, rbSpawned, rbTaken, broken>>

---------------------------------------------------------------------------
(* inside the transaction                                                  *)

\* store.tx(|tx| INSERT ..): executes on whatever transaction is in the slot   (sqlite.rs:284-292)
TxWrite(w, k) ==
    /\ pc[w] = "in_tx" /\ broken = "none"
    /\ Len(mine[w]) < MaxWrites
    /\ slot # "none"                      \* else Err(TransactionMissing); cannot happen, see OwnSlot
    /\ dirty' = Append(dirty, Write(w, k))
    /\ mine' = [mine EXCEPT ![w] = Append(@, Write(w, k))]
    /\ UNCHANGED <<sem, queue, slot, db, order, expected, pc, txn, rbSpawned, rbTaken, aborted, broken>>

\* commit(permit): slot.take(), tx.commit().await   (sqlite.rs:375-379)
TakeCommit(w) ==
    /\ pc[w] = "in_tx" /\ broken = "none"
    /\ IF slot = "none"
       THEN /\ broken' = "panic: no transaction without dropping permit first"
            /\ UNCHANGED <<slot, dirty, db, order, expected, pc>>
       ELSE /\ db' = db \o dirty                     \* everything executed on the slot's transaction
            /\ order' = Append(order, TxId(w))
            /\ expected' = expected \o mine[w]
            /\ dirty' = <<>> /\ slot' = "none"
            /\ pc' = [pc EXCEPT ![w] = "taken_c"]
            /\ UNCHANGED broken
    /\ UNCHANGED <<sem, queue, mine, txn, rbSpawned, rbTaken, aborted>>

\* rollback(permit): slot.take(), tx.rollback().await   (sqlite.rs:357-361)
TakeRollback(w) ==
    /\ pc[w] = "in_tx" /\ broken = "none"
    /\ IF slot = "none"
       THEN /\ broken' = "panic: no transaction without dropping permit first"
            /\ UNCHANGED <<slot, dirty, pc, aborted>>
       ELSE /\ dirty' = <<>> /\ slot' = "none"
            /\ pc' = [pc EXCEPT ![w] = "taken_r"]
            /\ aborted' = aborted \cup {TxId(w)}
            /\ UNCHANGED broken
    /\ UNCHANGED <<sem, queue, db, order, expected, mine, txn, rbSpawned, rbTaken>>

\* permit.mark_committed_and_drop(): committed = true, the permit is released at once   (:367, :385)
ReleasePermit(w) ==
    /\ pc[w] \in {"taken_c", "taken_r"} /\ broken = "none"
    /\ ReleaseSem([pc EXCEPT ![w] = NextTx(w)])
    /\ txn' = [txn EXCEPT ![w] = @ + 1]
    /\ UNCHANGED <<slot, dirty, db, order, expected, mine, rbSpawned, rbTaken, aborted, broken>>

\* the TransactionPermit is dropped uncommitted (explicit drop, `?` in tx!, panic, cancelled task):
\* Drop clones permit + slot into a spawned task; the writer goes on   (sqlite.rs:424-441)
DropPermit(w) ==
    /\ pc[w] = "in_tx" /\ broken = "none"
    /\ rbSpawned' = rbSpawned \cup {TxId(w)}
    /\ aborted' = aborted \cup {TxId(w)}
    /\ pc' = [pc EXCEPT ![w] = NextTx(w)]
    /\ txn' = [txn EXCEPT ![w] = @ + 1]
    /\ UNCHANGED <<sem, queue, slot, dirty, db, order, expected, mine, rbTaken, broken>>

\* commit(permit) / rollback(permit) is cancelled after `slot.take()`, while `tx.commit().await` /
\* `tx.rollback().await` is in flight: the sqlx transaction is dropped (COMMIT went through or it is
\* rolled back - all or nothing), the permit, still uncommitted, is dropped with it and spawns the
\* rollback task, which finds the slot empty   (sqlite.rs:375-379 cut at the await)
CutCommit(w, wentThrough) ==
    /\ pc[w] = "in_tx" /\ broken = "none"
    /\ slot # "none"
    /\ IF wentThrough
       THEN /\ db' = db \o dirty
            /\ order' = Append(order, TxId(w))
            /\ expected' = expected \o mine[w]
            /\ UNCHANGED aborted
       ELSE /\ aborted' = aborted \cup {TxId(w)}
            /\ UNCHANGED <<db, order, expected>>
    /\ dirty' = <<>> /\ slot' = "none"
    /\ rbSpawned' = rbSpawned \cup {TxId(w)}
    /\ pc' = [pc EXCEPT ![w] = NextTx(w)]
    /\ txn' = [txn EXCEPT ![w] = @ + 1]
    /\ UNCHANGED <<sem, queue, mine, rbTaken, broken>>

---------------------------------------------------------------------------
(* the spawned rollback task                                               *)

\* `if let Some(tx) = tx.lock().await.take() { tx.rollback().await }`: whatever is in the slot
RbTake(r) ==
    /\ r \in rbSpawned /\ broken = "none"
    /\ rbSpawned' = rbSpawned \ {r}
    /\ rbTaken' = rbTaken \cup {r}
    /\ slot' = "none" /\ dirty' = <<>>
    /\ UNCHANGED <<sem, queue, db, order, expected, mine, pc, txn, aborted, broken>>

\* `drop(permit)`: released only after the rollback
RbRelease(r) ==
    /\ r \in rbTaken /\ broken = "none"
    /\ rbTaken' = rbTaken \ {r}
    /\ ReleaseSem(pc)
    /\ UNCHANGED <<slot, dirty, db, order, expected, mine, txn, rbSpawned, aborted, broken>>

---------------------------------------------------------------------------

AllDone == (\A w \in Writers : pc[w] = "done") /\ rbSpawned = {} /\ rbTaken = {}
Terminated == AllDone /\ UNCHANGED vars

WriterStep(w) ==
    \/ SetSlot(w)
    \/ \E k \in Keys : TxWrite(w, k)
    \/ TakeCommit(w) \/ TakeRollback(w) \/ ReleasePermit(w) \/ DropPermit(w)
    \/ \E c \in BOOLEAN : CutCommit(w, c)
RbStep == \E r \in rbSpawned \cup rbTaken : RbTake(r) \/ RbRelease(r)

Next ==
    \/ \E w \in Writers : WantBegin(w) \/ WriterStep(w) \/ CancelWaiting(w) \/ CancelAcquired(w)
    \/ RbStep
    \/ Terminated

\* Fairness: a writer that called begin() and got the permit goes on to the end of its
\* transaction, the runtime runs spawned tasks. Nobody is obliged to start (or to cancel).
Fairness ==
    /\ \A w \in Writers : WF_vars(WriterStep(w))
    /\ WF_vars(RbStep)

Spec == Init /\ [][Next]_vars /\ Fairness

---------------------------------------------------------------------------
(* C10                                                                     *)

Holding(w) == pc[w] \in {"acquired", "in_tx", "taken_c", "taken_r"}
Holders == {w \in Writers : Holding(w)}

TypeOK ==
    /\ sem \in 0..1
    /\ slot \in Writers \cup {"none"}
    /\ \A w \in Writers : pc[w] \in {"idle", "waiting", "acquired", "in_tx", "taken_c", "taken_r", "done"}

\* one permit: available, or held by exactly one writer or rollback task
MutualExclusion == sem + Cardinality(Holders) + Cardinality(rbSpawned \cup rbTaken) = 1

\* the database is exactly the committed transactions' own writes, one after another
Serial == db = expected

\* nothing of a transaction that did not commit is in the database
CommittedSet == {order[i] : i \in 1..Len(order)}
NoTrace == \A i \in 1..Len(db) : [w |-> db[i].w, t |-> db[i].t] \in CommittedSet
                                 /\ [w |-> db[i].w, t |-> db[i].t] \notin aborted

\* a writer inside its transaction finds its own transaction in the slot (never TransactionMissing,
\* never somebody else's) and only its own writes in it
OwnSlot == \A w \in Writers : pc[w] = "in_tx" => slot = w /\ dirty = mine[w]

\* the assert! in begin and the panics in commit / rollback never fire
NeverBroken == broken = "none"

\* aborted transactions never prevent later ones from starting:
\* whoever waits in begin() eventually is inside its transaction (or gave up waiting)
Waits(w) == pc[w] \in {"waiting", "acquired"}
EventuallyBegins == \A w \in Writers : Waits(w) ~> ~Waits(w)
WaitingGetsPermit == \A w \in Writers : (pc[w] = "waiting") ~> (pc[w] # "waiting")

\* key-value view of the database (last writer wins)
KV(log) == [k \in {log[i].k : i \in 1..Len(log)} |->
              LET last == CHOOSE i \in 1..Len(log) : log[i].k = k /\ \A j \in (i+1)..Len(log) : log[j].k # k
              IN [w |-> log[last].w, t |-> log[last].t, j |-> log[last].j]]
===========================================================================
