----------------------------- MODULE SqliteTx -----------------------------
(***************************************************************************)
(* Transaction permit protocol of `SqliteStore` (C10).                     *)
(*                                                                         *)
(* p2panda-store/src/sqlite.rs                                             *)
(*   `begin`    :325-350  semaphore(1).acquire_owned().await; tx.lock();   *)
(*                        assert!(slot is None); pool.begin().await;       *)
(*                        slot.replace(tx); return TransactionPermit       *)
(*   `tx`       :284-292  lock the slot, run the closure on the slot's     *)
(*                        transaction (whoever put it there); the slot     *)
(*                        lock is held until the call returns or its       *)
(*                        future is dropped                                *)
(*   `commit`   :374-388  slot.take(); tx.commit().await; drop the permit  *)
(*   `rollback` :356-370  slot.take(); tx.rollback().await; drop permit    *)
(*   `impl Drop for TransactionPermit` :424-441  if not committed: clone   *)
(*                        the Arc'd semaphore permit and the slot into a    *)
(*                        spawned task that takes + rolls back whatever is  *)
(*                        in the slot and only then drops the permit        *)
(* p2panda-store/src/macros.rs `tx!`: begin, body, commit; a `?` in the    *)
(*                        body leaves the scope and drops the permit        *)
(*                                                                         *)
(* Processes: writers (each runs up to MaxTx transactions: begin, up to    *)
(* MaxWrites writes - each a tx(..) call that holds the slot lock while it *)
(* is in flight - then ONE of commit | rollback | drop the permit, also    *)
(* while a tx(..) call of the transaction is still in flight; the abort    *)
(* point and kind is TLC's choice at every step) and the rollback tasks    *)
(* spawned by dropped permits, which wait for the slot lock.               *)
(*                                                                         *)
(* The semaphore is tokio's fair semaphore: waiters queue in FIFO order    *)
(* and a released permit is handed to the head of the queue at release     *)
(* time (Fifo = TRUE).  Trace validation cannot see the enqueue points and *)
(* uses Fifo = FALSE (nobody is ever enqueued, see Trace_SqliteTx).        *)
(***************************************************************************)
EXTENDS Integers, Sequences, FiniteSets

CONSTANTS Writers,     \* set of strings
          MaxTx,       \* transactions per writer
          MaxWrites,   \* writes per transaction
          Keys,        \* set of strings: keys of the key-value table (last writer wins)
          MaxReads     \* tx(..) calls without effect (failing statement, read) per transaction

VARIABLES
    sem,        \* available permits of the Semaphore(1)
    queue,      \* writers suspended in acquire_owned(), FIFO
    slot,       \* "none" or the writer whose sqlx transaction sits in Arc<Mutex<Option<Tx>>>
    slotLock,   \* "free" or the writer whose tx(..) call holds the tokio Mutex around the slot
    reads,      \* [w] -> effect-free tx(..) calls of the current transaction (bounds the model)
    pending,    \* [w] -> key the tx(..) call in flight of w will have written ("none": no effect)
    dirty,      \* writes executed on the transaction in the slot, not yet committed
    db,         \* committed writes, in commit order (the database)
    order,      \* committed transactions [w, t] in commit order
    expected,   \* what `order` must have produced: concatenation of the committed writers' OWN writes
    mine,       \* [w] -> writes writer w issued in its current transaction
    pc,         \* [w] -> "idle" | "waiting" | "acquired" | "in_tx" | "writing" (tx(..) in flight) |
                \*        "orphan" (permit dropped, its tx(..) call still in flight) | "taken_c" | "taken_r" | "done"
    txn,        \* [w] -> index of the current / next transaction of w
    rbSpawned,  \* rollback tasks spawned by a dropped permit, not yet run: set of [w, t]
    rbWaiting,  \* rollback tasks suspended in `tx.lock().await` (the slot lock is held by a tx(..) call)
    rbTaken,    \* rollback tasks that took + rolled back the slot and still hold the permit clone
    aborted,    \* transactions that ended without commit
    broken      \* a panic!/assert! of sqlite.rs fired ("none" or its name)

vars == <<sem, queue, slot, slotLock, reads, pending, dirty, db, order, expected, mine, pc, txn, rbSpawned, rbWaiting, rbTaken, aborted, broken>>

TxId(w) == [w |-> w, t |-> txn[w]]
Write(w, k) == [w |-> w, t |-> txn[w], j |-> Len(mine[w]), k |-> k]

Init ==
    /\ sem = 1 /\ queue = <<>> /\ slot = "none" /\ dirty = <<>>
    /\ slotLock = "free" /\ pending = [w \in Writers |-> "none"] /\ rbWaiting = {}
    /\ reads = [w \in Writers |-> 0]
    /\ db = <<>> /\ order = <<>> /\ expected = <<>>
    /\ mine = [w \in Writers |-> <<>>]
    /\ pc = [w \in Writers |-> "idle"]
    /\ txn = [w \in Writers |-> 0]
    /\ rbSpawned = {} /\ rbTaken = {} /\ aborted = {}
    /\ broken = "none"

\* drop(OwnedSemaphorePermit): tokio hands the permit to the first queued waiter, else makes it available
ReleaseSem(pc0) ==
    IF queue # <<>>
    THEN /\ pc' = [pc0 EXCEPT ![Head(queue)] = "acquired"]
         /\ queue' = Tail(queue)
         /\ sem' = sem
    ELSE /\ pc' = pc0
         /\ queue' = queue
         /\ sem' = sem + 1

\* the writer is through with this transaction
NextTx(w) == IF txn[w] + 1 >= MaxTx THEN "done" ELSE "idle"

---------------------------------------------------------------------------
(* begin()                                                                 *)

\* first poll of acquire_owned(): take the permit if it is free, else queue up   (sqlite.rs begin)
WantBegin(w) ==
    /\ pc[w] = "idle" /\ broken = "none"
    /\ IF sem > 0 /\ queue = <<>>
       THEN sem' = sem - 1 /\ pc' = [pc EXCEPT ![w] = "acquired"] /\ queue' = queue
       ELSE sem' = sem /\ pc' = [pc EXCEPT ![w] = "waiting"] /\ queue' = Append(queue, w)
    /\ mine' = [mine EXCEPT ![w] = <<>>]
    /\ reads' = [reads EXCEPT ![w] = 0]
    /\ UNCHANGED <<slot, slotLock, pending, dirty, db, order, expected, txn, rbSpawned, rbWaiting, rbTaken, aborted, broken>>

\* lock the slot, assert it is empty, pool.begin(), replace, unlock
SetSlot(w) ==
    /\ pc[w] = "acquired" /\ broken = "none"
    /\ slotLock = "free"
    /\ IF slot # "none"
       THEN /\ broken' = "assert: existing transaction after a just-acquired permit"
            /\ UNCHANGED <<slot, dirty, pc>>
       ELSE /\ slot' = w /\ dirty' = <<>>
            /\ pc' = [pc EXCEPT ![w] = "in_tx"]
            /\ UNCHANGED broken
    /\ UNCHANGED <<sem, queue, slotLock, reads, pending, db, order, expected, mine, txn, rbSpawned, rbWaiting, rbTaken, aborted>>

\* the begin() future is dropped while it waits for the permit: tokio unlinks the waiter
CancelWaiting(w) ==
    /\ pc[w] = "waiting" /\ broken = "none"
    /\ queue' = SelectSeq(queue, LAMBDA x : x # w)
    /\ pc' = [pc EXCEPT ![w] = NextTx(w)]
    /\ txn' = [txn EXCEPT ![w] = @ + 1]
    /\ aborted' = aborted \cup {TxId(w)}
    /\ UNCHANGED <<sem, slot, slotLock, reads, pending, dirty, db, order, expected, mine, rbSpawned, rbWaiting, rbTaken, broken>>

\* the begin() future is dropped after the permit was acquired, before the slot is set:
\* the bare OwnedSemaphorePermit is dropped, there is nothing to roll back
CancelAcquired(w) ==
    /\ pc[w] = "acquired" /\ broken = "none"
    /\ ReleaseSem([pc EXCEPT ![w] = NextTx(w)])
    /\ txn' = [txn EXCEPT ![w] = @ + 1]
    /\ aborted' = aborted \cup {TxId(w)}
    /\ UNCHANGED <<slot, slotLock, reads, pending, dirty, db, order, expected, mine, rbSpawned, rbWaiting, rbTaken, broken>>

---------------------------------------------------------------------------
(* inside the transaction: store.tx(|tx| ..)                               *)

\* What the spawned rollback task does once it owns the slot lock: take + roll back whatever is
\* in the slot. `tokio::sync::Mutex` is fair: a task suspended in `lock().await` gets the lock
\* the moment it is released.
HandOverLock ==
    IF rbWaiting # {}
    THEN LET r == CHOOSE x \in rbWaiting : TRUE IN
         /\ rbWaiting' = rbWaiting \ {r}
         /\ rbTaken' = rbTaken \cup {r}
         /\ slot' = "none" /\ dirty' = <<>>
    ELSE UNCHANGED <<rbWaiting, rbTaken, slot>> /\ dirty' = dirty

\* `self.tx.lock().await` inside tx(..), then the closure starts its query: the call is in flight
\* and holds the slot lock. k = "none": a call without effect (a failing statement, a read).
LockSlot(w, k) ==
    /\ pc[w] = "in_tx" /\ broken = "none"
    /\ slotLock = "free"
    /\ IF k = "none" THEN reads[w] < MaxReads ELSE Len(mine[w]) < MaxWrites
    /\ reads' = [reads EXCEPT ![w] = IF k = "none" THEN @ + 1 ELSE @]
    /\ slot # "none"                      \* else Err(TransactionMissing); cannot happen, see OwnSlot
    /\ slotLock' = w
    /\ pending' = [pending EXCEPT ![w] = k]
    /\ pc' = [pc EXCEPT ![w] = "writing"]
    /\ UNCHANGED <<sem, queue, slot, dirty, db, order, expected, mine, txn, rbSpawned, rbWaiting, rbTaken, aborted, broken>>

\* the call returns: its writes are part of the transaction in the slot, the lock is released
UnlockSlot(w) ==
    /\ pc[w] = "writing" /\ broken = "none"
    /\ slotLock' = "free"
    /\ IF pending[w] # "none"
       THEN /\ dirty' = Append(dirty, Write(w, pending[w]))
            /\ mine' = [mine EXCEPT ![w] = Append(@, Write(w, pending[w]))]
       ELSE UNCHANGED <<dirty, mine>>
    /\ pending' = [pending EXCEPT ![w] = "none"]
    /\ pc' = [pc EXCEPT ![w] = "in_tx"]
    /\ UNCHANGED <<sem, queue, slot, reads, db, order, expected, txn, rbSpawned, rbWaiting, rbTaken, aborted, broken>>

\* commit(permit): slot.take(), tx.commit().await
TakeCommit(w) ==
    /\ pc[w] = "in_tx" /\ broken = "none"
    /\ slotLock = "free"
    /\ IF slot = "none"
       THEN /\ broken' = "panic: no transaction without dropping permit first"
            /\ UNCHANGED <<slot, dirty, db, order, expected, pc>>
       ELSE /\ db' = db \o dirty                     \* everything executed on the slot's transaction
            /\ order' = Append(order, TxId(w))
            /\ expected' = expected \o mine[w]
            /\ dirty' = <<>> /\ slot' = "none"
            /\ pc' = [pc EXCEPT ![w] = "taken_c"]
            /\ UNCHANGED broken
    /\ UNCHANGED <<sem, queue, slotLock, reads, pending, mine, txn, rbSpawned, rbWaiting, rbTaken, aborted>>

\* rollback(permit): slot.take(), tx.rollback().await
TakeRollback(w) ==
    /\ pc[w] = "in_tx" /\ broken = "none"
    /\ slotLock = "free"
    /\ IF slot = "none"
       THEN /\ broken' = "panic: no transaction without dropping permit first"
            /\ UNCHANGED <<slot, dirty, pc, aborted>>
       ELSE /\ dirty' = <<>> /\ slot' = "none"
            /\ pc' = [pc EXCEPT ![w] = "taken_r"]
            /\ aborted' = aborted \cup {TxId(w)}
            /\ UNCHANGED broken
    /\ UNCHANGED <<sem, queue, slotLock, reads, pending, db, order, expected, mine, txn, rbSpawned, rbWaiting, rbTaken>>

\* permit.mark_committed_and_drop(): committed = true, the permit is released at once
ReleasePermit(w) ==
    /\ pc[w] \in {"taken_c", "taken_r"} /\ broken = "none"
    /\ ReleaseSem([pc EXCEPT ![w] = NextTx(w)])
    /\ txn' = [txn EXCEPT ![w] = @ + 1]
    /\ UNCHANGED <<slot, slotLock, reads, pending, dirty, db, order, expected, mine, rbSpawned, rbWaiting, rbTaken, aborted, broken>>

\* the TransactionPermit is dropped uncommitted (explicit drop, `?` in tx!, panic, cancelled task):
\* Drop clones permit + slot into a spawned task; the writer goes on   (impl Drop for TransactionPermit)
DropPermit(w) ==
    /\ pc[w] = "in_tx" /\ broken = "none"
    /\ rbSpawned' = rbSpawned \cup {TxId(w)}
    /\ aborted' = aborted \cup {TxId(w)}
    /\ pc' = [pc EXCEPT ![w] = NextTx(w)]
    /\ txn' = [txn EXCEPT ![w] = @ + 1]
    /\ UNCHANGED <<sem, queue, slot, slotLock, reads, pending, dirty, db, order, expected, mine, rbWaiting, rbTaken, broken>>

\* ... dropped while a tx(..) call of this transaction is still in flight and holds the slot lock
\* (a query future kept alive by the writer, or a second task working in the same transaction)
DropPermitInFlight(w) ==
    /\ pc[w] = "writing" /\ broken = "none"
    /\ rbSpawned' = rbSpawned \cup {TxId(w)}
    /\ aborted' = aborted \cup {TxId(w)}
    /\ pc' = [pc EXCEPT ![w] = "orphan"]
    /\ UNCHANGED <<sem, queue, slot, slotLock, reads, pending, dirty, db, order, expected, mine, txn, rbWaiting, rbTaken, broken>>

\* the call in flight of the abandoned transaction comes to its end - it is driven to completion
\* (finished = TRUE: its write lands in the doomed transaction) or its future is dropped - and
\* releases the slot lock; a rollback task waiting for the lock gets it at once
OrphanEnds(w, finished) ==
    /\ pc[w] = "orphan" /\ broken = "none"
    /\ slotLock' = "free"
    /\ pending' = [pending EXCEPT ![w] = "none"]
    /\ pc' = [pc EXCEPT ![w] = NextTx(w)]
    /\ txn' = [txn EXCEPT ![w] = @ + 1]
    /\ IF rbWaiting # {}
       THEN HandOverLock
       ELSE /\ dirty' = IF finished /\ pending[w] # "none" THEN Append(dirty, Write(w, pending[w])) ELSE dirty
            /\ UNCHANGED <<rbWaiting, rbTaken, slot>>
    /\ UNCHANGED <<sem, queue, reads, db, order, expected, mine, rbSpawned, aborted, broken>>

\* commit(permit) / rollback(permit) is cancelled after `slot.take()`, while `tx.commit().await` /
\* `tx.rollback().await` is in flight: the sqlx transaction is dropped (COMMIT went through or it is
\* rolled back - all or nothing), the permit, still uncommitted, is dropped with it and spawns the
\* rollback task, which finds the slot empty
CutCommit(w, wentThrough) ==
    /\ pc[w] = "in_tx" /\ broken = "none"
    /\ slotLock = "free"
    /\ slot # "none"
    /\ IF wentThrough
       THEN /\ db' = db \o dirty
            /\ order' = Append(order, TxId(w))
            /\ expected' = expected \o mine[w]
            /\ UNCHANGED aborted
       ELSE /\ aborted' = aborted \cup {TxId(w)}
            /\ UNCHANGED <<db, order, expected>>
    /\ dirty' = <<>> /\ slot' = "none"
    /\ rbSpawned' = rbSpawned \cup {TxId(w)}
    /\ pc' = [pc EXCEPT ![w] = NextTx(w)]
    /\ txn' = [txn EXCEPT ![w] = @ + 1]
    /\ UNCHANGED <<sem, queue, slotLock, reads, pending, mine, rbWaiting, rbTaken, broken>>

---------------------------------------------------------------------------
(* the spawned rollback task                                               *)

\* the task runs: `tx.lock().await` - it gets the slot lock at once and takes + rolls back whatever
\* is in the slot, or it is suspended while a tx(..) call holds the lock
RbStart(r) ==
    /\ r \in rbSpawned /\ broken = "none"
    /\ rbSpawned' = rbSpawned \ {r}
    /\ IF slotLock = "free"
       THEN /\ rbTaken' = rbTaken \cup {r}
            /\ slot' = "none" /\ dirty' = <<>>
            /\ UNCHANGED rbWaiting
       ELSE /\ rbWaiting' = rbWaiting \cup {r}
            /\ UNCHANGED <<rbTaken, slot, dirty>>
    /\ UNCHANGED <<sem, queue, slotLock, reads, pending, db, order, expected, mine, pc, txn, aborted, broken>>

\* `drop(permit)`: released only after the rollback
RbRelease(r) ==
    /\ r \in rbTaken /\ broken = "none"
    /\ rbTaken' = rbTaken \ {r}
    /\ ReleaseSem(pc)
    /\ UNCHANGED <<slot, slotLock, reads, pending, dirty, db, order, expected, mine, txn, rbSpawned, rbWaiting, aborted, broken>>

---------------------------------------------------------------------------

AllDone == (\A w \in Writers : pc[w] = "done") /\ rbSpawned = {} /\ rbWaiting = {} /\ rbTaken = {}
Terminated == AllDone /\ UNCHANGED vars

WriterStep(w) ==
    \/ SetSlot(w)
    \/ \E k \in Keys \cup {"none"} : LockSlot(w, k)
    \/ UnlockSlot(w)
    \/ TakeCommit(w) \/ TakeRollback(w) \/ ReleasePermit(w) \/ DropPermit(w)
    \/ DropPermitInFlight(w)
    \/ \E f \in BOOLEAN : OrphanEnds(w, f)
    \/ \E c \in BOOLEAN : CutCommit(w, c)
RbStep == \E r \in rbSpawned \cup rbTaken : RbStart(r) \/ RbRelease(r)

Next ==
    \/ \E w \in Writers : WantBegin(w) \/ WriterStep(w) \/ CancelWaiting(w) \/ CancelAcquired(w)
    \/ RbStep
    \/ Terminated

\* Fairness: a writer that called begin() and got the permit goes on to the end of its
\* transaction (a tx(..) call in flight comes to an end), the runtime runs spawned tasks.
\* Nobody is obliged to start (or to cancel).
Fairness ==
    /\ \A w \in Writers : WF_vars(WriterStep(w))
    /\ WF_vars(RbStep)

Spec == Init /\ [][Next]_vars /\ Fairness

---------------------------------------------------------------------------
(* C10                                                                     *)

Holding(w) == pc[w] \in {"acquired", "in_tx", "writing", "taken_c", "taken_r"}
Holders == {w \in Writers : Holding(w)}

TypeOK ==
    /\ sem \in 0..1
    /\ slot \in Writers \cup {"none"}
    /\ slotLock \in Writers \cup {"free"}
    /\ \A w \in Writers : pc[w] \in {"idle", "waiting", "acquired", "in_tx", "writing", "orphan", "taken_c", "taken_r", "done"}

\* one permit: available, or held by exactly one writer or rollback task
MutualExclusion == sem + Cardinality(Holders) + Cardinality(rbSpawned \cup rbWaiting \cup rbTaken) = 1

\* the database is exactly the committed transactions' own writes, one after another
Serial == db = expected

\* nothing of a transaction that did not commit is in the database
CommittedSet == {order[i] : i \in 1..Len(order)}
NoTrace == \A i \in 1..Len(db) : [w |-> db[i].w, t |-> db[i].t] \in CommittedSet
                                 /\ [w |-> db[i].w, t |-> db[i].t] \notin aborted

\* a writer inside its transaction finds its own transaction in the slot (never TransactionMissing,
\* never somebody else's) and only its own writes in it
OwnSlot == \A w \in Writers : pc[w] \in {"in_tx", "writing"} => slot = w /\ dirty = mine[w]

\* while the permit is free the slot is empty (else the next begin() hits its assert!)
FreeMeansEmpty == sem = 1 => slot = "none" /\ slotLock = "free"

\* the assert! in begin and the panics in commit / rollback never fire
NeverBroken == broken = "none"

\* aborted transactions never prevent later ones from starting:
\* whoever waits in begin() eventually is inside its transaction (or gave up waiting)
Waits(w) == pc[w] \in {"waiting", "acquired"}
EventuallyBegins == \A w \in Writers : Waits(w) ~> ~Waits(w)
WaitingGetsPermit == \A w \in Writers : (pc[w] = "waiting") ~> (pc[w] # "waiting")

\* key-value view of the database (last writer wins)
KV(log) == [k \in {log[i].k : i \in 1..Len(log)} |->
              LET last == CHOOSE i \in 1..Len(log) : log[i].k = k /\ \A j \in (i+1)..Len(log) : log[j].k # k
              IN [w |-> log[last].w, t |-> log[last].t, j |-> log[last].j]]
===========================================================================
