SPECIFICATION MCSpec
CONSTANTS
  Writers = {"w1", "w2", "w3"}
  MaxTx = 2
  MaxWrites = 2
  Keys = {"k1", "k2"}
  MaxReads = 1
  CancelBudget = 2
  ExportCuts = FALSE
INVARIANTS
  Export
CHECK_DEADLOCK FALSE
