SPECIFICATION TraceSpec
CONSTANTS
  Writers = {"w1", "w2", "w3", "w4", "w5", "w6", "main"}
  MaxTx = 1000000
  MaxWrites = 1000000
  Keys = {}
  MaxReads = 1000000
INVARIANTS
  TypeOK
  MutualExclusion
  Serial
  NoTrace
  OwnSlot
  NeverBroken
POSTCONDITION TraceAccepted
CHECK_DEADLOCK FALSE
