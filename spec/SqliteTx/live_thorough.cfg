SPECIFICATION Spec
CONSTANTS
  Writers = {"w1", "w2", "w3"}
  MaxTx = 2
  MaxWrites = 1
  Keys = {"k1"}
  MaxReads = 0
INVARIANTS
  MutualExclusion
  Serial
  NoTrace
  NeverBroken
  FreeMeansEmpty
PROPERTIES
  EventuallyBegins
  WaitingGetsPermit
CHECK_DEADLOCK TRUE
