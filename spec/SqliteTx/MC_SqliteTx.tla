--------------------------- MODULE MC_SqliteTx ---------------------------
(* Bounded instance of SqliteTx for TLC + JSON export of schedules with    *)
(* the state the real store must be in after every step.                   *)
EXTENDS SqliteTx, TLC, Json

CONSTANT CancelBudget   \* export runs: at most this many transactions end by cancelling begin()
                        \* (uniform simulation would otherwise spend most steps on them); large = no limit

CONSTANT ExportCuts     \* FALSE in export runs: the outcome of a commit cut in the middle cannot be forced

VARIABLE hist   \* exported steps (history; hidden by VIEW in the exhaustive configs)

mcvars == <<sem, queue, slot, slotLock, reads, pending, dirty, db, order, expected, mine, pc, txn, rbSpawned, rbWaiting, rbTaken, aborted, broken, hist>>

DbJson(log) == [i \in 1..Len(log) |-> [w |-> log[i].w, t |-> log[i].t, j |-> log[i].j, k |-> log[i].k]]

\* what the harness can observe / must compare after a step
Obs == [sem |-> sem', queue |-> queue', slot |-> slot', slot_lock |-> slotLock', rb_waiting |-> Cardinality(rbWaiting'),
        pc |-> pc', ndirty |-> Len(dirty'), ndb |-> Len(db'), db |-> DbJson(db'),
        rb_spawned |-> Cardinality(rbSpawned'), rb_taken |-> Cardinality(rbTaken')]

Step(a, w, k, why) == hist' = Append(hist, [a |-> a, w |-> w, k |-> k, why |-> why, after |-> Obs])

\* the ways a permit gets dropped uncommitted in real code (same protocol step, different Rust mechanism)
DropKinds == {"drop", "error", "panic", "cancel"}

MCInit == Init /\ hist = <<>>

CancelCount == Cardinality({n \in 1..Len(hist) : hist[n].a \in {"CancelWaiting", "CancelAcquired"}})

\* one named action per specification action (TLC reports coverage under these names)
MCWantBegin(w)      == WantBegin(w)      /\ Step("WantBegin", w, "", "")
MCSetSlot(w)        == SetSlot(w)        /\ Step("SetSlot", w, "", "")
MCCancelWaiting(w)  == CancelCount < CancelBudget /\ CancelWaiting(w)  /\ Step("CancelWaiting", w, "", "")
MCCancelAcquired(w) == CancelCount < CancelBudget /\ CancelAcquired(w) /\ Step("CancelAcquired", w, "", "")
MCLockSlot(w, k)    == LockSlot(w, k)    /\ Step("LockSlot", w, k, "")
MCUnlockSlot(w)     == UnlockSlot(w)     /\ Step("UnlockSlot", w, "", "")
MCDropPermitInFlight(w) == DropPermitInFlight(w) /\ Step("DropPermitInFlight", w, "", "")
MCOrphanEnds(w, f)  == OrphanEnds(w, f)  /\ Step("OrphanEnds", w, "", IF f THEN "finished" ELSE "dropped")
MCTakeCommit(w)     == TakeCommit(w)     /\ Step("TakeCommit", w, "", "")
MCTakeRollback(w)   == TakeRollback(w)   /\ Step("TakeRollback", w, "", "")
MCReleasePermit(w)  == ReleasePermit(w)  /\ Step("ReleasePermit", w, "", "")
MCDropPermit(w, why) == DropPermit(w)    /\ Step("DropPermit", w, "", why)
MCCutCommit(w, c)   == ExportCuts /\ CutCommit(w, c) /\ Step("CutCommit", w, "", IF c THEN "committed" ELSE "rolled back")
MCRbStart(r)        == RbStart(r)        /\ Step("RbStart", r.w, "", "")
MCRbRelease(r)      == RbRelease(r)      /\ Step("RbRelease", r.w, "", "")
MCTerminated        == Terminated /\ UNCHANGED hist

MCWriterStep(w) ==
    \/ MCSetSlot(w) \/ MCTakeCommit(w) \/ MCTakeRollback(w) \/ MCReleasePermit(w)
    \/ \E k \in Keys \cup {"none"} : MCLockSlot(w, k)
    \/ MCUnlockSlot(w) \/ MCDropPermitInFlight(w)
    \/ \E f \in BOOLEAN : MCOrphanEnds(w, f)
    \/ \E why \in DropKinds : MCDropPermit(w, why)
    \/ \E c \in BOOLEAN : MCCutCommit(w, c)
MCRbStep == \E r \in rbSpawned \cup rbTaken : MCRbStart(r) \/ MCRbRelease(r)

MCNext ==
    \/ \E w \in Writers : MCWantBegin(w) \/ MCWriterStep(w) \/ MCCancelWaiting(w) \/ MCCancelAcquired(w)
    \/ MCRbStep            \* (reported as one action: RbStart and RbRelease always come in pairs)
    \/ MCTerminated

MCFairness ==
    /\ \A w \in Writers : WF_mcvars(MCWriterStep(w))
    /\ WF_mcvars(MCRbStep)

MCSpec == MCInit /\ [][MCNext]_mcvars
MCLiveSpec == MCInit /\ [][MCNext]_mcvars /\ MCFairness

NoHistView == <<sem, queue, slot, slotLock, reads, pending, dirty, db, order, expected, mine, pc, txn, rbSpawned, rbWaiting, rbTaken, aborted, broken>>

Export ==
    AllDone => PrintT(<<"REPLAY", ToJson([kind |-> "sqlitetx", writers |-> Cardinality(Writers),
                                          steps |-> hist, db |-> DbJson(db)])>>)

\* vacuity guards: states the quick configuration must reach (checked as violated invariants by hand,
\* and through the action coverage of the registered run)
ReachCommitAfterAbort == ~(Len(order) > 0 /\ aborted # {})
ReachQueueOfTwo == Len(queue) < 2
===========================================================================
