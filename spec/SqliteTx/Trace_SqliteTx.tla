------------------------- MODULE Trace_SqliteTx -------------------------
(* Trace validation: the event log of concurrent writers on the real       *)
(* SqliteStore (harness `vh-sqlitetx sqlitetx record`, hooks in            *)
(* p2panda-store/src/sqlite.rs) must be a behaviour of SqliteTx, with the  *)
(* C10 invariants evaluated at every step and the final SELECT equal to    *)
(* the specification's database.                                           *)
(*                                                                         *)
(* Events (in the order of p2panda_core::verif::emit's sequence numbers):  *)
(*   Reset{writers}                         a new run                      *)
(*   Spawn{w, task}       harness: tokio task `task` runs a transaction    *)
(*                        of writer w                                      *)
(*   Acquired{task}       hook: permit acquired in begin()                 *)
(*   Begin{task}          hook: transaction put into the slot              *)
(*   BeginRet{w, t}       harness: begin() returned to writer w            *)
(*   WriteCall{w, t, j, k}    harness: about to call tx(..)                *)
(*   TxLocked{task} TxUnlocked{task}   hook: the call holds / is about to  *)
(*                        release the slot lock                            *)
(*   Write{w, t, j, k, seen}  harness: the write returned to the writer    *)
(*   Commit{task} Release{task}      hook sqlite.commit.ok (one hook event, *)
(*   Rollback{task} Release{task}    two protocol steps without an await    *)
(*                        point in between: the harness writes two lines)  *)
(*   PermitDrop{w, t, why}    harness: about to drop the permit uncommitted *)
(*   TaskGone{w}          harness: the task of w is being cancelled while  *)
(*                        it is inside begin() (emitted before the future  *)
(*                        is dropped)                                      *)
(*   CommitCut{w, t} RollbackCut{w, t}   harness: the task is being cancelled *)
(*                        while commit / rollback is in flight              *)
(*   AutoRollback{} AutoRelease{}    hook sqlite.auto_rollback.* (spawned   *)
(*                        rollback task; again one event, two steps)       *)
(*   Final{log, kv}       harness: SELECT of all rows after everything     *)
(*                                                                         *)
(* The enqueue points inside tokio's semaphore are not observable: a writer *)
(* appears when it acquires the permit (WantBegin with the permit free), so *)
(* the queue of the specification stays empty here.                        *)
EXTENDS SqliteTx, TLC, Json, IOUtils

Rec == ndJsonDeserialize(IOEnv.TRACE)

VARIABLES i,        \* next event
          taskOf,   \* tokio task id -> writer (from Spawn events)
          callK     \* writer -> key announced by its last WriteCall event
tvars == <<sem, queue, slot, slotLock, reads, pending, dirty, db, order, expected, mine, pc, txn,
           rbSpawned, rbWaiting, rbTaken, aborted, broken, i, taskOf, callK>>
aux == <<taskOf, callK>>

Ev == Rec[i]
W == taskOf[Ev.task]
Known == Ev.task \in DOMAIN taskOf

StepReset ==
    /\ Ev.ev = "Reset"
    /\ sem' = 1 /\ queue' = <<>> /\ slot' = "none" /\ dirty' = <<>>
    /\ slotLock' = "free" /\ pending' = [w \in Writers |-> "none"] /\ rbWaiting' = {}
    /\ reads' = [w \in Writers |-> 0]
    /\ callK' = [w \in Writers |-> "none"]
    /\ db' = <<>> /\ order' = <<>> /\ expected' = <<>>
    /\ mine' = [w \in Writers |-> <<>>]
    /\ pc' = [w \in Writers |-> "idle"]
    /\ txn' = [w \in Writers |-> 0]
    /\ rbSpawned' = {} /\ rbTaken' = {} /\ aborted' = {}
    /\ broken' = "none"
    /\ taskOf' = [x \in {} |-> ""]

StepSpawn ==
    /\ Ev.ev = "Spawn"
    /\ Ev.w \in Writers
    /\ taskOf' = [x \in DOMAIN taskOf \cup {Ev.task} |-> IF x = Ev.task THEN Ev.w ELSE taskOf[x]]
    /\ UNCHANGED vars /\ UNCHANGED callK

StepAcquired ==
    /\ Ev.ev = "Acquired" /\ Known
    /\ WantBegin(W)
    /\ pc'[W] = "acquired"            \* the implementation HAS the permit: it must have been free
    /\ UNCHANGED aux

StepBegin ==
    /\ Ev.ev = "Begin" /\ Known
    /\ SetSlot(W)
    /\ UNCHANGED aux

StepBeginRet ==
    /\ Ev.ev = "BeginRet"
    /\ pc[Ev.w] = "in_tx" /\ slot = Ev.w /\ txn[Ev.w] = Ev.t
    /\ UNCHANGED vars /\ UNCHANGED aux

\* harness: writer w (or a helper task working in w's transaction) is about to call tx(..) for
\* its j-th write on key k ("none": a statement without effect)
StepWriteCall ==
    /\ Ev.ev = "WriteCall"
    /\ Ev.t = txn[Ev.w] /\ (Ev.k # "none" => Ev.j = Len(mine[Ev.w]))
    /\ callK' = [callK EXCEPT ![Ev.w] = Ev.k]
    /\ UNCHANGED vars /\ UNCHANGED taskOf

\* hook: the tx(..) call holds the slot lock
StepTxLocked ==
    /\ Ev.ev = "TxLocked" /\ Known
    /\ LockSlot(W, callK[W])
    /\ UNCHANGED aux

\* hook: the tx(..) call is over (returned, or its future is being dropped); emitted right before
\* the slot lock is released
StepTxUnlocked ==
    /\ Ev.ev = "TxUnlocked" /\ Known
    /\ \/ UnlockSlot(W)
       \/ \E f \in BOOLEAN : OrphanEnds(W, f)
    /\ UNCHANGED aux

\* harness: the write returned to a writer that still holds its permit
StepWrite ==
    /\ Ev.ev = "Write"
    /\ pc[Ev.w] = "in_tx" /\ Ev.t = txn[Ev.w]
    /\ Len(mine[Ev.w]) = Ev.j + 1 /\ mine[Ev.w][Ev.j + 1].k = Ev.k
    /\ Ev.seen = Len(db) + Len(dirty)      \* rows visible inside the transaction
    /\ UNCHANGED vars /\ UNCHANGED aux

StepCommit ==
    /\ Ev.ev = "Commit" /\ Known
    /\ TakeCommit(W)
    /\ UNCHANGED aux

StepRollback ==
    /\ Ev.ev = "Rollback" /\ Known
    /\ TakeRollback(W)
    /\ UNCHANGED aux

StepRelease ==
    /\ Ev.ev = "Release" /\ Known
    /\ ReleasePermit(W)
    /\ UNCHANGED aux

\* the permit is (about to be) dropped uncommitted - possibly while a tx(..) call of the
\* transaction is in flight and holds the slot lock
StepPermitDrop ==
    /\ Ev.ev = "PermitDrop"
    /\ Ev.t = txn[Ev.w]
    /\ DropPermit(Ev.w) \/ DropPermitInFlight(Ev.w)
    /\ UNCHANGED aux

\* the cancelled task was inside begin(): waiting for the permit (invisible here), or it had
\* acquired the permit and not yet set the slot; once begin() returned the guard is disarmed
StepTaskGone ==
    /\ Ev.ev = "TaskGone"
    /\ pc[Ev.w] \in {"idle", "acquired"}
    /\ IF pc[Ev.w] = "acquired"
       THEN CancelAcquired(Ev.w)
       ELSE \* net effect of WantBegin(w) (queued, not observable here) followed by CancelWaiting(w):
            \* this attempt of w is over, nothing else changed
            /\ txn' = [txn EXCEPT ![Ev.w] = @ + 1]
            /\ aborted' = aborted \cup {TxId(Ev.w)}
            /\ UNCHANGED <<sem, queue, slot, slotLock, reads, pending, dirty, db, order, expected, mine, pc,
                           rbSpawned, rbWaiting, rbTaken, broken>>
    /\ UNCHANGED aux

\* the task of w is being cancelled while commit(permit) / rollback(permit) is in flight (emitted
\* before the call's future is dropped): whether a cut COMMIT went through shows only in later
\* reads, so both outcomes are followed
StepCommitCut ==
    /\ Ev.ev = "CommitCut"
    /\ Ev.t = txn[Ev.w]
    /\ \E c \in BOOLEAN : CutCommit(Ev.w, c)
    /\ UNCHANGED aux

StepRollbackCut ==
    /\ Ev.ev = "RollbackCut"
    /\ Ev.t = txn[Ev.w]
    /\ CutCommit(Ev.w, FALSE)
    /\ UNCHANGED aux

\* hook: the spawned task owned the slot lock and took + rolled back what was in the slot. It
\* cannot have done so while a tx(..) call holds the lock.
StepAutoRollback ==
    /\ Ev.ev = "AutoRollback"
    /\ \E r \in rbSpawned :
          /\ RbStart(r)
          /\ r \in rbTaken'
          \* the hook says whether there was a transaction in the slot
          /\ (Ev.hook = "sqlite.auto_rollback.some") = (slot # "none")
    /\ UNCHANGED aux

StepAutoRelease ==
    /\ Ev.ev = "AutoRelease"
    /\ \E r \in rbTaken : RbRelease(r)
    /\ UNCHANGED aux

\* JSON side of the final SELECT
SameLog(rows) ==
    /\ Len(rows) = Len(db)
    /\ \A n \in 1..Len(db) :
          rows[n].w = db[n].w /\ rows[n].t = db[n].t /\ rows[n].j = db[n].j /\ rows[n].k = db[n].k
SameKV(kv) ==
    LET m == KV(db) IN
    /\ DOMAIN kv = DOMAIN m
    /\ \A k \in DOMAIN m : kv[k].w = m[k].w /\ kv[k].t = m[k].t /\ kv[k].j = m[k].j

StepFinal ==
    /\ Ev.ev = "Final"
    /\ SameLog(Ev.log) /\ SameKV(Ev.kv)
    /\ sem = 1 /\ slot = "none" /\ slotLock = "free"                  \* nothing left behind
    /\ rbSpawned = {} /\ rbWaiting = {} /\ rbTaken = {}
    /\ \A w \in Writers : ~Holding(w)
    /\ UNCHANGED vars /\ UNCHANGED aux

TraceInit == Init /\ i = 1 /\ taskOf = [x \in {} |-> ""] /\ callK = [w \in Writers |-> "none"]

TraceNext ==
    /\ i <= Len(Rec)
    /\ i' = i + 1
    /\ \/ StepReset \/ StepSpawn \/ StepAcquired \/ StepBegin \/ StepBeginRet
       \/ StepWriteCall \/ StepTxLocked \/ StepTxUnlocked \/ StepWrite
       \/ StepCommit \/ StepRollback \/ StepRelease \/ StepPermitDrop \/ StepTaskGone
       \/ StepCommitCut \/ StepRollbackCut
       \/ StepAutoRollback \/ StepAutoRelease \/ StepFinal

TraceSpec == TraceInit /\ [][TraceNext]_tvars

TraceAccepted ==
    LET d == TLCGet("stats").diameter IN
    IF d - 1 = Len(Rec) THEN TRUE
    ELSE Print(<<"TRACE_REJECTED", d - 1, Len(Rec), ToJson(Rec[d])>>, FALSE)
===========================================================================
