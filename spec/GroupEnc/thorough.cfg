SPECIFICATION MCSpec
CONSTANTS
  Member = {0, 1, 2}
  MaxOps = 4
  MaxConc = 1
  Creators = {0, 1, 2}
  WelcomeAddsSelf = TRUE
  Defect_ConcurrentAdd = FALSE
  Reduce = FALSE
  KeepHist = FALSE
INVARIANTS
  TypeOK
  C35_MembersAgree
  C35_RemovedCutOff
  ViewsAgree
  NoLeak
VIEW NoHistView
CHECK_DEADLOCK TRUE
