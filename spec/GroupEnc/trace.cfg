SPECIFICATION TraceSpec
CONSTANTS
  Member = {0, 1, 2, 3}
  MaxOps = 1000
  MaxConc = 3
  Creators = {0, 1, 2, 3}
  WelcomeAddsSelf = TRUE
  Defect_ConcurrentAdd = FALSE
INVARIANTS
  C35_MembersAgree
  C35_RemovedCutOff
  ViewsAgree
  NoLeak
POSTCONDITION TraceAccepted
CHECK_DEADLOCK FALSE
