SPECIFICATION MCSpec
CONSTANTS
  Member = {0, 1, 2}
  MaxOps = 4
  MaxConc = 1
  Creators = {0}
  WelcomeAddsSelf = TRUE
  Defect_ConcurrentAdd = TRUE
  Reduce = TRUE
  KeepHist = TRUE
INVARIANTS
  Export
CHECK_DEADLOCK FALSE
