----------------------------- MODULE GroupEnc -----------------------------
(***************************************************************************)
(* "Data encryption" groups of p2panda-encryption:                         *)
(*   p2panda-encryption/src/data_scheme/group.rs   (EncryptionGroup)       *)
(*   p2panda-encryption/src/data_scheme/dcgka.rs   (Dcgka)                 *)
(* with the crate's own test_utils collaborators: `TestDgm` (membership =  *)
(* a plain set, add/remove applied in processing order, `from_welcome`     *)
(* copies the adder's set) and `MessageOrderer` (a message names the last  *)
(* control message of every member its author has processed).              *)
(*                                                                         *)
(* One action per public call: `Op*` = create / add / remove / update of   *)
(* a member (the control message is appended to the global log `msgs`),    *)
(* `Deliver(m, k)` = EncryptionGroup::receive(state of m, message k).      *)
(* Delivery is causal: k is handed to m only after all its ancestors.      *)
(*                                                                         *)
(* CRYPTOGRAPHY IS ABSTRACTED.  A group secret is identified by the id of  *)
(* the control message that minted it; "m can decrypt what was encrypted   *)
(* with s" is `s \in knows[m]`; the pairwise 2SM channels that carry the   *)
(* secrets are assumed to deliver (that is C37, spec/TwoParty).  The       *)
(* harness runs real EncryptionGroup instances (X3DH, HPKE, XChaCha20) and *)
(* compares `knows` with the ids in each member's SecretBundle and does    *)
(* real encrypt/decrypt round trips.                                       *)
(***************************************************************************)
EXTENDS Integers, FiniteSets, Sequences

CONSTANTS
    Member,                \* e.g. {0, 1, 2}
    MaxOps,                \* number of group operations (bound by construction)
    MaxConc,               \* number of concurrent pairs of operations allowed
    Creators,              \* who may create the group (members are interchangeable: {0} loses nothing)
    WelcomeAddsSelf,       \* TRUE: process_welcome adds the welcomed member to the DGM state it
                           \* received (repaired code); FALSE: the code before the fix
    Defect_ConcurrentAdd   \* TRUE: an `add` may be concurrent with a key rotation (update);
                           \* the added member then never receives that secret (known finding).
                           \* FALSE: such schedules are not generated.

VARIABLES
    msgs,       \* global log of control messages; index = message id = id of the secret it mints
    dlv,        \* dlv[m]: ids handed to m's `receive`
    held,       \* held[m]: ids received while not welcomed, in arrival order (orderer queue)
    procd,      \* procd[m]: ids m has processed (remote ones)
    welcomed,   \* is_welcomed
    view,       \* members(y): the DGM view of m
    knows       \* ids of the secrets in m's SecretBundle

vars == <<msgs, dlv, held, procd, welcomed, view, knows>>

Ids == 1..Len(msgs)
Own(m) == {k \in Ids : msgs[k].by = m}
Mints(k) == msgs[k].op \in {"Create", "Update", "Remove"}
\* i happened before j / i and j are concurrent
Before(i, j) == i \in msgs[j].anc
Conc(i, j) == i # j /\ ~Before(i, j) /\ ~Before(j, i)
ConcPairs == {p \in Ids \X Ids : p[1] < p[2] /\ Conc(p[1], p[2])}

Init ==
    /\ msgs = <<>>
    /\ dlv = [m \in Member |-> {}]
    /\ held = [m \in Member |-> <<>>]
    /\ procd = [m \in Member |-> {}]
    /\ welcomed = [m \in Member |-> FALSE]
    /\ view = [m \in Member |-> {}]
    /\ knows = [m \in Member |-> {}]

---------------------------------------------------------------------------
(* Processing one control message at member m (group.rs:360-436 process_ready / process_remote,  *)
(* dcgka.rs:93-116 process).  st = [w, v, k] = (is_welcomed, view, knows) of m.                   *)

ProcOne(m, st, msg) ==
    LET gets == IF msg.sec # 0 /\ m \in msg.rcp THEN {msg.sec} ELSE {}   \* process_secret
        v2 == CASE msg.op = "Create" -> msg.mem                          \* DGM::create
                [] msg.op = "Update" -> st.v
                [] msg.op = "Remove" -> st.v \ {msg.arg}                 \* DGM::remove
                [] msg.op = "Add" ->
                     IF msg.arg = m
                     THEN \* process_add + process_welcome (dcgka.rs:282-338): the state is REPLACED by
                          \* the adder's DGM state from before the add
                          IF WelcomeAddsSelf THEN msg.hist \cup {m} ELSE msg.hist
                     ELSE st.v \cup {msg.arg}                            \* DGM::add
        k2 == IF msg.op = "Add" /\ msg.arg = m THEN st.k \cup msg.wel    \* welcome bundle
              ELSE st.k \cup gets
    IN [w |-> st.w \/ (m \in v2),                                        \* group.rs:380-383
        v |-> v2, k |-> k2]

RECURSIVE ProcSeq(_, _, _)
ProcSeq(m, st, ids) ==
    IF ids = <<>> THEN st ELSE ProcSeq(m, ProcOne(m, st, msgs[Head(ids)]), Tail(ids))

St(m) == [w |-> welcomed[m], v |-> view[m], k |-> knows[m]]

\* EncryptionGroup::receive (group.rs:179-271)
Deliver(m, k) ==
    /\ k \in Ids /\ k \notin dlv[m] /\ msgs[k].by # m
    /\ (msgs[k].anc \ Own(m)) \subseteq dlv[m]                 \* causal delivery
    /\ dlv' = [dlv EXCEPT ![m] = @ \cup {k}]
    /\ LET msg == msgs[k]
           joins == \/ (msg.op = "Create" /\ m \in msg.mem)
                    \/ (msg.op = "Add" /\ msg.arg = m)
       IN IF ~welcomed[m] /\ ~joins
          THEN \* kept by the orderer for later (group.rs:212-217)
               /\ held' = [held EXCEPT ![m] = Append(@, k)]
               /\ UNCHANGED <<procd, welcomed, view, knows>>
          ELSE \* everything that is ready is processed now, in arrival order
               LET ids == IF welcomed[m] THEN <<k>> ELSE Append(held[m], k)
                   st == ProcSeq(m, St(m), ids)
               IN /\ held' = [held EXCEPT ![m] = <<>>]
                  /\ procd' = [procd EXCEPT ![m] = @ \cup {ids[x] : x \in DOMAIN ids}]
                  /\ welcomed' = [welcomed EXCEPT ![m] = st.w]
                  /\ view' = [view EXCEPT ![m] = st.v]
                  /\ knows' = [knows EXCEPT ![m] = st.k]
    /\ UNCHANGED msgs

---------------------------------------------------------------------------
(* Local operations (group.rs:86-170, process_local 328-357; dcgka.rs create/update/remove/add). *)

\* what the new message of m causally depends on: everything m processed, and its own messages
AncOf(m) == procd[m] \cup Own(m)

\* bounds on concurrency, evaluated for a new operation `op` (argument x, -1 if none) of m
ConcOk(m, op, x) ==
    LET others == Ids \ AncOf(m)        \* existing messages the new one is concurrent with
    IN /\ Cardinality(ConcPairs) + Cardinality(others) <= MaxConc
       \* An add concurrent with another membership change is the business of the DGM: the crate's
       \* TestDgm is not a CRDT and `from_welcome` REPLACES whatever the new member processed before
       \* (GroupMembership::from_welcome does not even see the local state).  Allowed: several adds of
       \* the same member; and, as the recorded known finding, an add concurrent with an update.
       /\ \A k \in others :
            (msgs[k].op = "Add" \/ op = "Add") =>
                \/ (msgs[k].op = "Add" /\ op = "Add" /\ msgs[k].arg = x)
                \/ (Defect_ConcurrentAdd /\ {msgs[k].op, op} = {"Add", "Update"})

Publish(m, msg) ==
    /\ msgs' = Append(msgs, [msg EXCEPT !.id = Len(msgs) + 1,
                                        !.sec = IF msg.sec # 0 THEN Len(msgs) + 1 ELSE 0,
                                        !.anc = AncOf(m)])
    /\ UNCHANGED <<dlv, held, procd>>

Blank == [id |-> 0, by |-> 0, op |-> "", arg |-> -1, mem |-> {}, sec |-> 0, rcp |-> {}, wel |-> {},
          hist |-> {}, anc |-> {}]

OpCreate(m, S) ==
    /\ msgs = <<>> /\ ~welcomed[m] /\ m \in S /\ m \in Creators
    /\ Publish(m, [Blank EXCEPT !.by = m, !.op = "Create", !.mem = S, !.sec = 1, !.rcp = S \ {m}])
    /\ welcomed' = [welcomed EXCEPT ![m] = TRUE]
    /\ view' = [view EXCEPT ![m] = S]
    /\ knows' = [knows EXCEPT ![m] = @ \cup {Len(msgs) + 1}]

CanAct(m) == Len(msgs) < MaxOps /\ welcomed[m] /\ m \in view[m]

OpUpdate(m) ==
    /\ CanAct(m) /\ ConcOk(m, "Update", -1)
    /\ Publish(m, [Blank EXCEPT !.by = m, !.op = "Update", !.sec = 1, !.rcp = view[m] \ {m}])
    /\ knows' = [knows EXCEPT ![m] = @ \cup {Len(msgs) + 1}]
    /\ UNCHANGED <<welcomed, view>>

OpRemove(m, x) ==
    /\ CanAct(m) /\ x \in view[m] /\ x # m /\ ConcOk(m, "Remove", x)
    /\ Publish(m, [Blank EXCEPT !.by = m, !.op = "Remove", !.arg = x, !.sec = 1, !.rcp = view[m] \ {m, x}])
    /\ view' = [view EXCEPT ![m] = @ \ {x}]
    /\ knows' = [knows EXCEPT ![m] = @ \cup {Len(msgs) + 1}]
    /\ UNCHANGED welcomed

OpAdd(m, x) ==
    /\ CanAct(m) /\ x \notin view[m] /\ ConcOk(m, "Add", x)
    /\ Publish(m, [Blank EXCEPT !.by = m, !.op = "Add", !.arg = x, !.wel = knows[m], !.hist = view[m]])
    /\ view' = [view EXCEPT ![m] = @ \cup {x}]
    /\ UNCHANGED <<welcomed, knows>>

Quiescent == \A m \in Member : \A k \in Ids : k \in dlv[m] \/ msgs[k].by = m
OpEnabled ==
    \/ msgs = <<>>
    \/ \E m \in Member :
          /\ CanAct(m)
          /\ \/ ConcOk(m, "Update", -1)
             \/ \E x \in Member : \/ (x \in view[m] /\ x # m /\ ConcOk(m, "Remove", x))
                                  \/ (x \notin view[m] /\ ConcOk(m, "Add", x))
Done == msgs # <<>> /\ Quiescent /\ (Len(msgs) = MaxOps \/ ~OpEnabled)
Terminated == Done /\ UNCHANGED vars

Next ==
    \/ \E m \in Member : \E S \in SUBSET Member : OpCreate(m, S)
    \/ \E m \in Member : OpUpdate(m)
    \/ \E m \in Member : \E x \in Member : OpRemove(m, x) \/ OpAdd(m, x)
    \/ \E m \in Member : \E k \in 1..MaxOps : Deliver(m, k)
    \/ Terminated

Spec == Init /\ [][Next]_vars

---------------------------------------------------------------------------
(* C35                                                                     *)

Joins(m) == {k \in Ids : (msgs[k].op = "Create" /\ m \in msgs[k].mem) \/ (msgs[k].op = "Add" /\ msgs[k].arg = m)}
Removes(m) == {k \in Ids : msgs[k].op = "Remove" /\ msgs[k].arg = m}

\* membership as the history defines it (independent of any member's DGM view): m joined and every
\* removal of m happened before that join
Current == {m \in Member : \E j \in Joins(m) : \A r \in Removes(m) : Before(r, j)}

\* the secrets `latest()` may pick at m: timestamps grow along causality (SecretBundle::generate),
\* so it is one of the causally maximal secrets m knows
MaxSecrets(m) == {s \in knows[m] : ~\E t \in knows[m] : Before(s, t)}

MembersAgree ==
    Quiescent =>
        \A m1 \in Current, m2 \in Current :
            /\ welcomed[m1]                              \* m1 can send
            /\ welcomed[m2]                              \* m2 processes what it receives
            /\ MaxSecrets(m1) \subseteq knows[m2]        \* and decrypts whatever m1 encrypts with

\* a secret minted by, or causally after, Remove(m) is not known to m unless m was added again
\* after that removal (the welcome hands the whole bundle over, by design)
RemovedCutOff ==
    \A m \in Member : \A s \in knows[m] :
        \A r \in Removes(m) :
            (r = s \/ Before(r, s)) => \E a \in Joins(m) \cap procd[m] : Before(r, a)

(* Beyond the listed property                                              *)
TypeOK ==
    /\ \A m \in Member : dlv[m] \subseteq Ids /\ procd[m] \subseteq dlv[m]
    /\ \A m \in Member : knows[m] \subseteq {k \in Ids : Mints(k)}
    /\ Cardinality(ConcPairs) <= MaxConc
\* at quiescence the DGM views of the current members are the history's membership
ViewsAgree == Quiescent => \A m \in Current : welcomed[m] => view[m] = Current
\* nobody holds a secret that was never addressed to it (directly or through a welcome bundle)
NoLeak ==
    \A m \in Member : \A s \in knows[m] :
        \/ msgs[s].by = m \/ m \in msgs[s].rcp
        \/ \E a \in Joins(m) \cap procd[m] : msgs[a].op = "Add" /\ s \in msgs[a].wel
===========================================================================
