--------------------------- MODULE MC_GroupEnc ---------------------------
(* Bounded instance of GroupEnc for TLC + JSON export of every behaviour.  *)
EXTENDS GroupEnc, TLC, Json

CONSTANTS Reduce,   \* TRUE (exhaustive export runs): partial-order reduction, see Allowed
          KeepHist  \* TRUE (export runs): build the history

VARIABLES hist,     \* steps with the expected observable (hidden by VIEW in exhaustive runs)
          last      \* the previous step: [m |-> member, pub |-> id it published or 0]

mcvars == <<vars, hist, last>>

(* What a member ends up with depends only on its OWN sequence of calls (and on the messages, i.e.  *)
(* on what their authors had processed); the global interleaving of calls of different members   *)
(* is irrelevant.  Two adjacent steps of different members are independent unless both are        *)
(* operations (message ids are global) or the second delivers the message the first published.   *)
(* Export runs skip every schedule with an adjacent independent pair in descending member order: *)
(* the lexicographically least schedule of every equivalence class has none, so every class keeps *)
(* at least one representative.  Exhaustive (VIEW) runs do not need this.                         *)
Allowed(m, isOp, k) ==
    \/ ~Reduce
    \/ last.m = -1
    \/ ~(m < last.m)
    \/ (isOp /\ last.pub # 0)
    \/ (~isOp /\ last.pub # 0 /\ k = last.pub)

StJson(m) == [w |-> welcomed[m], v |-> view[m], k |-> knows[m], max |-> MaxSecrets(m)]
MsgJson(msg) == [id |-> msg.id, by |-> msg.by, op |-> msg.op, arg |-> msg.arg, mem |-> msg.mem,
                 sec |-> msg.sec, rcp |-> msg.rcp, wel |-> msg.wel, anc |-> msg.anc]

\* what the harness checks when everything sent so far has been delivered everywhere
QJson == [q |-> Quiescent, cur |-> Current]

MCInit == Init /\ hist = <<>> /\ last = [m |-> -1, pub |-> 0]

\* (the history is only built in export runs; exhaustive runs hide it anyway)
Log(m, a, k) ==
    hist' = IF KeepHist
            THEN Append(hist, [a |-> a, m |-> m, msg |-> MsgJson(msgs'[k]), st |-> StJson(m)', qs |-> QJson'])
            ELSE hist

Pub(m) == last' = [m |-> m, pub |-> Len(msgs')]
MCCreate(m, S) == Allowed(m, TRUE, 0) /\ OpCreate(m, S) /\ Log(m, "Op", Len(msgs')) /\ Pub(m)
MCUpdate(m) == Allowed(m, TRUE, 0) /\ OpUpdate(m) /\ Log(m, "Op", Len(msgs')) /\ Pub(m)
MCRemove(m, x) == Allowed(m, TRUE, 0) /\ OpRemove(m, x) /\ Log(m, "Op", Len(msgs')) /\ Pub(m)
MCAdd(m, x) == Allowed(m, TRUE, 0) /\ OpAdd(m, x) /\ Log(m, "Op", Len(msgs')) /\ Pub(m)
MCDeliver(m, k) == Allowed(m, FALSE, k) /\ Deliver(m, k) /\ Log(m, "Deliver", k) /\ last' = [m |-> m, pub |-> 0]
MCTerminated == Done /\ UNCHANGED mcvars

MCNext ==
    \/ \E m \in Member : \E S \in SUBSET Member : MCCreate(m, S)
    \/ \E m \in Member : MCUpdate(m)
    \/ \E m \in Member : \E x \in Member : MCRemove(m, x) \/ MCAdd(m, x)
    \/ \E m \in Member : \E k \in 1..MaxOps : MCDeliver(m, k)
    \/ MCTerminated

MCSpec == MCInit /\ [][MCNext]_mcvars

NoHistView == vars

C35_MembersAgree == MembersAgree
C35_RemovedCutOff == RemovedCutOff

Export ==
    Done => PrintT(<<"REPLAY", ToJson([kind |-> "groupenc", fixed |-> WelcomeAddsSelf,
                                       defect |-> Defect_ConcurrentAdd, steps |-> hist])>>)
===========================================================================
