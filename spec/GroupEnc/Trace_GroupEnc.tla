-------------------------- MODULE Trace_GroupEnc --------------------------
(* Trace validation: events recorded from real EncryptionGroup states       *)
(* (harness `vh-enc2 groupenc record`: 4 members, random histories) must be *)
(* behaviours of GroupEnc; the C35 invariants are evaluated in every state. *)
EXTENDS GroupEnc, TLC, Json, IOUtils

Rec == ndJsonDeserialize(IOEnv.TRACE)

VARIABLE i
tvars == <<vars, i>>

Ev == Rec[i]

SeqRange(q) == {q[x] : x \in DOMAIN q}

\* the implementation's (is_welcomed, members(), secret ids) of member m after the call
StMatches(m) ==
    /\ welcomed'[m] = Ev.st.w
    /\ view'[m] = SeqRange(Ev.st.v)
    /\ knows'[m] = SeqRange(Ev.st.k)

StepReset ==
    /\ Ev.ev = "Reset"
    /\ msgs' = <<>>
    /\ dlv' = [m \in Member |-> {}]
    /\ held' = [m \in Member |-> <<>>]
    /\ procd' = [m \in Member |-> {}]
    /\ welcomed' = [m \in Member |-> FALSE]
    /\ view' = [m \in Member |-> {}]
    /\ knows' = [m \in Member |-> {}]

\* what the real control message shows: id, recipients of its direct messages, the ancestors it
\* names, whether a secret was minted
MsgMatches ==
    LET msg == msgs'[Len(msgs')] IN
        /\ msg.id = Ev.id
        /\ msg.anc = SeqRange(Ev.anc)
        /\ (msg.sec # 0) = Ev.mints
        /\ (IF msg.op = "Add" THEN {msg.arg} ELSE msg.rcp) = SeqRange(Ev.rcp)

StepOp ==
    /\ Ev.ev = "Op"
    /\ CASE Ev.op = "Create" -> OpCreate(Ev.m, SeqRange(Ev.mem))
         [] Ev.op = "Update" -> OpUpdate(Ev.m)
         [] Ev.op = "Remove" -> OpRemove(Ev.m, Ev.arg)
         [] Ev.op = "Add" -> OpAdd(Ev.m, Ev.arg)
    /\ MsgMatches
    /\ StMatches(Ev.m)

StepDeliver ==
    /\ Ev.ev = "Deliver"
    /\ Deliver(Ev.m, Ev.id)
    /\ StMatches(Ev.m)

TraceInit == Init /\ i = 1
TraceNext ==
    /\ i <= Len(Rec)
    /\ i' = i + 1
    /\ (StepReset \/ StepOp \/ StepDeliver)
TraceSpec == TraceInit /\ [][TraceNext]_tvars

C35_MembersAgree == MembersAgree
C35_RemovedCutOff == RemovedCutOff

TraceAccepted ==
    LET d == TLCGet("stats").diameter IN
    IF d - 1 = Len(Rec) THEN TRUE
    ELSE Print(<<"TRACE_REJECTED", d - 1, Len(Rec), ToJson(Rec[d])>>, FALSE)
===========================================================================
