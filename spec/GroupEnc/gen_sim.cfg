SPECIFICATION MCSpec
CONSTANTS
  Member = {0, 1, 2}
  MaxOps = 5
  MaxConc = 2
  Creators = {0, 1, 2}
  WelcomeAddsSelf = TRUE
  Defect_ConcurrentAdd = FALSE
  Reduce = FALSE
  KeepHist = TRUE
INVARIANTS
  Export
CHECK_DEADLOCK FALSE
