SPECIFICATION MCSpec
CONSTANTS
  MaxGen = 8
  Windows = {0, 1, 2, 3, 4}
  MaxReq = 0
  FixedWindows = TRUE
INVARIANTS
  C34_KeyIsSenders
  C34_AtMostOnce
  C34_WindowsEnforced
  C34_CacheBounded
  C34_NoOutOfBounds
PROPERTIES
  C34_Complete
VIEW NoHistView
CHECK_DEADLOCK FALSE
