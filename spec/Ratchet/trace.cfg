SPECIFICATION TraceSpec
INVARIANTS
  C34_KeyIsSenders
  C34_AtMostOnce
  C34_WindowsEnforced
  C34_CacheBounded
POSTCONDITION TraceAccepted
CHECK_DEADLOCK FALSE
