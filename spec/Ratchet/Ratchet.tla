------------------------------- MODULE Ratchet -------------------------------
(***************************************************************************)
(* Decryption ratchet of the message encryption scheme                     *)
(*   p2panda-encryption/src/message_scheme/ratchet.rs                      *)
(*   DecryptionRatchet::secret_for_decryption (:124-188)                   *)
(*                                                                         *)
(* The sender's chain (RatchetSecret::ratchet_forward) yields key material *)
(* K(0), K(1), ... ; "key n" below is K(n), the material the sender used   *)
(* for generation n.  The receiver's state is                              *)
(*   head   ratchet_head.generation: the next chain position               *)
(*   past   past_secrets: VecDeque<Option<KeyMaterial>>, front first;      *)
(*          an entry is the NUMBER n of the chain key K(n) it holds, or     *)
(*          None (-1).  Which n sits where is what the code's index        *)
(*          arithmetic decides - KeyIsSenders checks it.                   *)
(***************************************************************************)
EXTENDS Integers, Sequences, FiniteSets

None == -1

VARIABLES head, past,
          res,      \* outcome of the last call: [kind, g, key, head0, fwd, ooo]
          handed,   \* generations whose key was returned at least once
          twice     \* generations whose key was returned more than once

vars == <<head, past, res, handed, twice>>

NoRes == [kind |-> "Init", g |-> 0, key |-> None, head0 |-> 0, fwd |-> 0, ooo |-> 0]

Init == head = 0 /\ past = <<>> /\ res = NoRes /\ handed = {} /\ twice = {}

Truncate(s, n) == IF Len(s) <= n THEN s ELSE SubSeq(s, 1, n)

\* RatchetSecret::ratchet_forward (:47-62): returns the material of the current position, moves on
\* (the k-th call on a chain returns K(k-1))

Reject(kind, g, fwd, ooo) ==
    /\ res' = [kind |-> kind, g |-> g, key |-> None, head0 |-> head, fwd |-> fwd, ooo |-> ooo]
    /\ UNCHANGED <<head, past, handed, twice>>

Return(k, g, fwd, ooo) ==
    /\ res' = [kind |-> "Key", g |-> g, key |-> k, head0 |-> head, fwd |-> fwd, ooo |-> ooo]
    /\ handed' = handed \cup {k}
    /\ twice' = IF k \in handed THEN twice \cup {k} ELSE twice

(* secret_for_decryption(y, generation = g, maximum_forward_distance = fwd, ooo_tolerance = ooo) *)
(* (the u32::MAX guard of the first test is outside the modelled range, see NOTES)              *)
Request(g, fwd, ooo) ==
    IF g > head + fwd THEN Reject("TooFuture", g, fwd, ooo)                           \* :137-141
    ELSE IF g < head /\ head - g > ooo THEN Reject("TooPast", g, fwd, ooo)            \* :144-146
    ELSE IF g >= head THEN                                                            \* :149-166
        \* for _ in 0..(g - head): ratchet_forward, push_front(Some(material))  -> K(head) .. K(g-1)
        \* ratchet_forward -> K(g) is returned; push_front(None); truncate(ooo)
        LET skipped == [k \in 1..(g - head) |-> g - k]         \* front first: K(g-1), ..., K(head)
        IN /\ past' = Truncate(<<None>> \o skipped \o past, ooo)
           /\ head' = g + 1
           /\ Return(g, g, fwd, ooo)                           \* the chain was at position g: K(g)
    ELSE                                                                              \* :167-186
        LET index == (head - g) - 1 IN                         \* 0-based window_index
        IF index + 1 > Len(past) THEN Reject("OutOfBounds", g, fwd, ooo)
        ELSE IF past[index + 1] = None THEN Reject("Reuse", g, fwd, ooo)
        ELSE /\ past' = [past EXCEPT ![index + 1] = None]      \* .take()
             /\ head' = head
             /\ Return(past[index + 1], g, fwd, ooo)

---------------------------------------------------------------------------
(* C34 *)

\* the material returned for generation g is the sender's material of generation g
KeyIsSenders == res.kind = "Key" => res.key = res.g

\* each generation's key is handed out at most once
AtMostOnce == twice = {}

\* a key is only returned for a generation inside the windows of that call
InWindow(g, h, fwd, ooo) == g <= h + fwd /\ (g >= h \/ h - g <= ooo)
WindowsEnforced == res.kind = "Key" => InWindow(res.g, res.head0, res.fwd, res.ooo)

\* and (for window sizes that stay the same over the ratchet's life) every generation inside the
\* windows that was not handed out yet IS derived: no order, loss or duplication inside the
\* windows makes the ratchet lose a key.   Stated on the step:
CompleteStep(g, fwd, ooo) ==
    (InWindow(g, head, fwd, ooo) /\ g \notin handed) => res'.kind = "Key"

\* the out-of-order cache never holds more than the tolerance allows, and only unused keys
CacheBounded == \A k \in 1..Len(past) : past[k] # None => (past[k] = head - k /\ past[k] \notin handed)
=============================================================================
