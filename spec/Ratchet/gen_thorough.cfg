SPECIFICATION MCSpec
CONSTANTS
  MaxGen = 5
  Windows = {0, 1, 2, 3}
  MaxReq = 5
  FixedWindows = TRUE
INVARIANTS
  Export
CHECK_DEADLOCK FALSE
