----------------------------- MODULE MC_Ratchet -----------------------------
(* Bounded instance of Ratchet for TLC + JSON export of request sequences.  *)
EXTENDS Ratchet, TLC, Json

CONSTANTS MaxGen,        \* requested generations 0..MaxGen
          Windows,       \* window sizes (maximum_forward_distance and ooo_tolerance)
          MaxReq,        \* requests per behaviour (0: unbounded - the state space is finite)
          FixedWindows   \* TRUE: one (fwd, ooo) per ratchet; FALSE: any window sizes on every call

VARIABLES cfwd, cooo, n, hist
mcvars == <<head, past, res, handed, twice, cfwd, cooo, n, hist>>

MCInit ==
    /\ Init /\ n = 0 /\ hist = <<>>
    /\ cfwd \in (IF FixedWindows THEN Windows ELSE {0})
    /\ cooo \in (IF FixedWindows THEN Windows ELSE {0})

Fwds == IF FixedWindows THEN {cfwd} ELSE Windows
Ooos == IF FixedWindows THEN {cooo} ELSE Windows

\* which branch a call takes, read off the current state (only used to split MCNext into named
\* actions cheaply; Request does not use it and `res'.kind = kind` cross-checks it)
Branch(g, f, o) ==
    IF g > head + f THEN "TooFuture"
    ELSE IF g < head /\ head - g > o THEN "TooPast"
    ELSE IF g >= head THEN "Forward"
    ELSE IF head - g > Len(past) THEN "OutOfBounds"
    ELSE IF past[head - g] = None THEN "Reuse" ELSE "Cached"

Call(branch, kind) ==
    /\ MaxReq = 0 \/ n < MaxReq
    /\ \E g \in 0..MaxGen, f \in Fwds, o \in Ooos :
          /\ Branch(g, f, o) = branch
          /\ Request(g, f, o)
          /\ Assert(res'.kind = kind, <<"branch and result disagree", g, f, o>>)
          /\ hist' = Append(hist, [g |-> g, fwd |-> f, ooo |-> o, kind |-> res'.kind, key |-> res'.key, branch |-> branch])
    /\ n' = (IF MaxReq = 0 THEN 0 ELSE n + 1)
    /\ UNCHANGED <<cfwd, cooo>>

\* one named action per branch of secret_for_decryption (vacuity: each must be taken)
ReqForward == Call("Forward", "Key") /\ head' > head          \* current or future generation: chain moves
ReqCached == Call("Cached", "Key") /\ head' = head           \* out-of-order: served from past_secrets
ReqTooFuture == Call("TooFuture", "TooFuture") /\ head' = head
ReqTooPast == Call("TooPast", "TooPast") /\ head' = head
ReqReuse == Call("Reuse", "Reuse") /\ head' = head
ReqOutOfBounds == Call("OutOfBounds", "OutOfBounds") /\ head' = head

MCNext == ReqForward \/ ReqCached \/ ReqTooFuture \/ ReqTooPast \/ ReqReuse \/ ReqOutOfBounds
MCSpec == MCInit /\ [][MCNext]_mcvars

NoHistView == <<head, past, res, handed, twice, cfwd, cooo, n>>

C34_KeyIsSenders == KeyIsSenders
C34_AtMostOnce == AtMostOnce
C34_WindowsEnforced == WindowsEnforced
C34_CacheBounded == CacheBounded /\ (FixedWindows => Len(past) <= cooo)
\* only meaningful with FixedWindows (a smaller tolerance on an earlier call discards keys for good)
C34_Complete == [][CompleteStep(res'.g, res'.fwd, res'.ooo)]_mcvars
\* with one window configuration the index is always inside the queue
C34_NoOutOfBounds == FixedWindows => res.kind # "OutOfBounds"

Export ==
    n = MaxReq => PrintT(<<"REPLAY", ToJson([kind |-> "ratchet", steps |-> hist])>>)
=============================================================================
