--------------------------- MODULE Trace_Ratchet ---------------------------
(* Trace validation: requests recorded from the real DecryptionRatchet       *)
(* (harness `vh-enc ratchet record`) must be behaviours of Ratchet.  An      *)
(* event carries the request, whether key material was returned and the      *)
(* generation of the real sender chain whose material it equals byte-wise.   *)
EXTENDS Ratchet, TLC, Json, IOUtils

Rec == ndJsonDeserialize(IOEnv.TRACE)

VARIABLE i
tvars == <<head, past, res, handed, twice, i>>

Ev == Rec[i]

StepReset ==
    /\ Ev.ev = "Reset"
    /\ head' = 0 /\ past' = <<>> /\ res' = NoRes /\ handed' = {} /\ twice' = {}

StepRequest ==
    /\ Ev.ev = "Request"
    /\ Request(Ev.g, Ev.fwd, Ev.ooo)
    /\ (res'.kind = "Key") = Ev.ok          \* accept / reject (not the error kind)
    /\ Ev.ok => res'.key = Ev.key           \* the material is the sender's of that chain position

TraceInit == Init /\ i = 1
TraceNext ==
    /\ i <= Len(Rec)
    /\ i' = i + 1
    /\ (StepReset \/ StepRequest)
TraceSpec == TraceInit /\ [][TraceNext]_tvars

C34_KeyIsSenders == KeyIsSenders
C34_AtMostOnce == AtMostOnce
C34_WindowsEnforced == WindowsEnforced
C34_CacheBounded == CacheBounded

TraceAccepted ==
    LET d == TLCGet("stats").diameter IN
    IF d - 1 = Len(Rec) THEN TRUE
    ELSE Print(<<"TRACE_REJECTED", d - 1, Len(Rec), ToJson(Rec[d])>>, FALSE)
===========================================================================
