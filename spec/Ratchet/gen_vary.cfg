SPECIFICATION MCSpec
CONSTANTS
  MaxGen = 6
  Windows = {0, 1, 2, 3}
  MaxReq = 6
  FixedWindows = FALSE
INVARIANTS
  Export
CHECK_DEADLOCK FALSE
