SPECIFICATION MCSpec
CONSTANTS
  MaxGen = 4
  Windows = {0, 1, 3}
  MaxReq = 0
  FixedWindows = FALSE
INVARIANTS
  C34_KeyIsSenders
  C34_AtMostOnce
  C34_WindowsEnforced
  C34_CacheBounded
VIEW NoHistView
CHECK_DEADLOCK FALSE
