--------------------------- MODULE Trace_Dedup ---------------------------
(* Trace validation: calls recorded from the real DeduplicationBuffer      *)
(* (harness `vh-topicsync dedup record`) must be behaviours of Dedup, with *)
(* the C24 predicates evaluated at every step.                             *)
EXTENDS Dedup, TLC, Json, IOUtils

Rec == ndJsonDeserialize(IOEnv.TRACE)

VARIABLE i
tvars == <<cap, buf, set, res, last, acc, calls, i>>

Ev == Rec[i]

\* the implementation's observable after the call = the spec's state after the action
SameObs ==
    /\ res' = Ev.res
    /\ set' = Range(Ev.has)
    /\ Len(buf') = Ev.len
    /\ Cardinality(set') = Ev.setlen

StepReset ==
    /\ Ev.ev = "Reset"
    /\ cap' = Ev.cap
    /\ buf' = <<>> /\ set' = {}
    /\ res' = "none" /\ last' = [op |-> "new", x |-> "-"]
    /\ acc' = <<>> /\ calls' = 0

StepInsert ==
    /\ Ev.ev = "Insert"
    /\ Insert(Ev.x)
    /\ SameObs

StepContains ==
    /\ Ev.ev = "Contains"
    /\ Contains(Ev.x)
    /\ SameObs

TraceInit ==
    /\ cap = 1 /\ buf = <<>> /\ set = {}
    /\ res = "none" /\ last = [op |-> "new", x |-> "-"]
    /\ acc = <<>> /\ calls = 0
    /\ i = 1
TraceNext ==
    /\ i <= Len(Rec)
    /\ i' = i + 1
    /\ (StepReset \/ StepInsert \/ StepContains)
TraceSpec == TraceInit /\ [][TraceNext]_tvars

C24_RemembersExactlyWindow == RemembersExactlyWindow
C24_NeverMoreThanCapacity == NeverMoreThanCapacity
C24_RingConsistent == RingConsistent
C24_ReportsDuplicateIffInWindow ==
    [][ Ev.ev # "Reset" =>
        /\ (last'.op = "insert"   => (res' = "false") = (last'.x \in Window))
        /\ (last'.op = "contains" => (res' = "true")  = (last'.x \in Window)) ]_tvars

TraceAccepted ==
    LET d == TLCGet("stats").diameter IN
    IF d - 1 = Len(Rec) THEN TRUE
    ELSE Print(<<"TRACE_REJECTED", d - 1, Len(Rec), ToJson(Rec[d])>>, FALSE)
===========================================================================
