SPECIFICATION MCSpec
CONSTANTS
  Item = {"a", "b", "c", "d"}
  Caps = {1, 2, 3}
  Slack = 0
  MaxN = 7
INVARIANTS
  TypeOK
  C24_RemembersExactlyWindow
  C24_NeverMoreThanCapacity
  C24_RingConsistent
  C24_WindowDistinct
  C24_RingIsTailOfAccepted
PROPERTIES
  C24_ReportsDuplicateIffInWindow
VIEW NoHistView
CHECK_DEADLOCK FALSE
