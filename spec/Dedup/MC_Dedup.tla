---------------------------- MODULE MC_Dedup ----------------------------
(* Bounded instance of Dedup for TLC + JSON export of every insertion     *)
(* sequence (gen).                                                        *)
EXTENDS Dedup, TLC, Json

CONSTANTS MaxN          \* number of calls per behaviour

VARIABLES n,            \* calls made so far (insert + contains)
          hist          \* history of calls with the expected observable after each

mcvars == <<cap, buf, set, res, last, acc, calls, n, hist>>

\* what the harness compares after a call: the result, the exact content (asked through
\* contains() for every item of the alphabet) and the sizes of both internal collections
Obs == [op |-> last'.op, x |-> last'.x, res |-> res', has |-> set', len |-> Len(buf'), setlen |-> Cardinality(set')]

MCInit == Init /\ n = 0 /\ hist = <<>>

MCInsert ==
    /\ n < MaxN
    /\ \E x \in Item : Insert(x)
    /\ n' = n + 1 /\ hist' = Append(hist, Obs)

MCContains ==
    /\ n < MaxN
    /\ \E x \in Item : Contains(x)
    /\ n' = n + 1 /\ hist' = Append(hist, Obs)

MCNext == MCInsert \/ MCContains
MCSpec == MCInit /\ [][MCNext]_mcvars

\* export runs: insert calls only (the replayer asks contains() for the whole alphabet after
\* every call anyway)
GenSpec == MCInit /\ [][MCInsert]_mcvars

NoHistView == <<cap, buf, set, res, last, acc, calls, n>>

C24_RemembersExactlyWindow == RemembersExactlyWindow
C24_NeverMoreThanCapacity == NeverMoreThanCapacity
C24_RingConsistent == RingConsistent
C24_WindowDistinct == WindowDistinct
C24_RingIsTailOfAccepted == RingIsTailOfAccepted
C24_ReportsDuplicateIffInWindow ==
    [][ /\ (last'.op = "insert"   => (res' = "false") = (last'.x \in Window))
        /\ (last'.op = "contains" => (res' = "true")  = (last'.x \in Window)) ]_mcvars

\* vacuity guards (negated in a separate run would be overkill: they are reachable iff TLC
\* reports them violated; here they are used as "branch reached" counters via coverage of the
\* actions InsertDuplicate / InsertNew and the eviction predicate below)
EvictionHappened == Len(acc) > cap
DuplicateReported == res = "false" /\ last.op = "insert"

Export ==
    n = MaxN => PrintT(<<"REPLAY", ToJson([kind |-> "dedup", cap |-> cap, steps |-> hist])>>)
===========================================================================
