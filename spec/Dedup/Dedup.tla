------------------------------ MODULE Dedup ------------------------------
(***************************************************************************)
(* De-duplication ring buffer of p2panda-sync (C24).                       *)
(*                                                                         *)
(*   p2panda-sync/src/dedup.rs:10-67  struct DeduplicationBuffer<T>        *)
(*       buffer : VecDeque<T>    -> `buf`  (front = Head, back = last)     *)
(*       set    : HashSet<T>     -> `set`                                  *)
(*       new(capacity)           -> Init with cap = capacity               *)
(*       insert(item) -> bool    -> Insert(x), result in `res`             *)
(*       contains(&item) -> bool -> Contains(x), result in `res`           *)
(*                                                                         *)
(* The code bounds the ring by `self.buffer.capacity()`, i.e. by what      *)
(* `VecDeque::with_capacity(capacity)` really allocated.  The standard     *)
(* library only promises "at least `capacity`"; `Slack` is the surplus     *)
(* (0 on the pinned toolchain for non-zero-sized T - the harness observes  *)
(* it).  With Slack = 0 the ring is exact.                                 *)
(*                                                                         *)
(* The property is phrased on history variables that the implementation    *)
(* does not have:                                                          *)
(*   acc  = the sequence of items whose insert() returned TRUE             *)
(*          ("an insertion occurred", dedup.rs:43); these are pairwise     *)
(*          distinct inside every window of `cap` - see WindowDistinct     *)
(*   calls = number of calls so far                                        *)
(***************************************************************************)
EXTENDS Integers, Sequences, FiniteSets

CONSTANTS Item,     \* alphabet
          Caps,     \* capacities to instantiate (subset of 1..)
          Slack     \* VecDeque::capacity() - requested capacity

VARIABLES cap,      \* requested capacity of this instance
          buf,      \* VecDeque contents, oldest first
          set,      \* HashSet contents
          res,      \* result of the last call: "none" | "true" | "false"
          last,     \* the last call: [op |-> "insert"|"contains"|"new", x |-> item]
          acc,      \* history: accepted items, oldest first
          calls     \* history: number of insert calls

vars == <<cap, buf, set, res, last, acc, calls>>

Range(s) == {s[k] : k \in 1..Len(s)}
Bool(b) == IF b THEN "true" ELSE "false"

\* the last n elements of a sequence
LastN(s, n) == IF Len(s) <= n THEN s ELSE SubSeq(s, Len(s) - n + 1, Len(s))

RingCap == cap + Slack          \* self.buffer.capacity()

Init ==
    /\ cap \in Caps
    /\ buf = <<>> /\ set = {}
    /\ res = "none" /\ last = [op |-> "new", x |-> "-"]
    /\ acc = <<>> /\ calls = 0

---------------------------------------------------------------------------
(* dedup.rs:44-62                                                          *)

\* `if self.set.contains(&item) { return false; }`
InsertDuplicate(x) ==
    /\ x \in set
    /\ res' = "false"
    /\ last' = [op |-> "insert", x |-> x]
    /\ calls' = calls + 1
    /\ UNCHANGED <<cap, buf, set, acc>>

\* `if self.buffer.len() + 1 > self.buffer.capacity() { pop_front; set.remove }`
\* then `push_back`, `set.insert`, `true`
InsertNew(x) ==
    /\ x \notin set
    /\ LET evict   == Len(buf) + 1 > RingCap /\ Len(buf) > 0     \* pop_front() returned Some
           kept    == IF evict THEN Tail(buf) ELSE buf
           keptSet == IF evict THEN set \ {Head(buf)} ELSE set
       IN /\ buf' = Append(kept, x)
          /\ set' = keptSet \cup {x}
    /\ res' = "true"
    /\ last' = [op |-> "insert", x |-> x]
    /\ acc' = Append(acc, x)
    /\ calls' = calls + 1
    /\ UNCHANGED cap

Insert(x) == InsertDuplicate(x) \/ InsertNew(x)

\* dedup.rs:65-67
Contains(x) ==
    /\ res' = Bool(x \in set)
    /\ last' = [op |-> "contains", x |-> x]
    /\ UNCHANGED <<cap, buf, set, acc, calls>>

Next == \E x \in Item : Insert(x) \/ Contains(x)

Spec == Init /\ [][Next]_vars

---------------------------------------------------------------------------
(* C24                                                                     *)

\* "the last `capacity` distinct items inserted": the window of the last `cap` accepted items
Window == Range(LastN(acc, cap))

\* the buffer remembers exactly the window (both internal collections agree with it) ...
RemembersExactlyWindow == set = Window /\ Range(buf) = Window

\* ... so a call reports "duplicate" exactly for the items of the window *before* the call.
\* Checked as an action property: result of insert(x) / contains(x) against the old window.
ReportsDuplicateIffInWindow ==
    [][ /\ (last'.op = "insert"   => (res' = "false") = (last'.x \in Window))
        /\ (last'.op = "contains" => (res' = "true")  = (last'.x \in Window)) ]_vars

\* never more than `capacity` items (in either collection)
NeverMoreThanCapacity == Len(buf) <= cap /\ Cardinality(set) <= cap

\* the two collections describe the same items, without repetition in the ring
RingConsistent == Cardinality(set) = Len(buf) /\ Range(buf) = set

\* accepted items are pairwise distinct inside every window of `cap`
WindowDistinct == Cardinality(Window) = Len(LastN(acc, cap))

\* the ring keeps insertion order: buf is literally the tail of the accepted history
RingIsTailOfAccepted == buf = LastN(acc, cap)

TypeOK ==
    /\ cap \in Caps /\ buf \in Seq(Item) /\ set \subseteq Item
    /\ res \in {"none", "true", "false"} /\ calls \in Nat
===========================================================================
