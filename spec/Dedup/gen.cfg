SPECIFICATION GenSpec
CONSTANTS
  Item = {"a", "b", "c", "d"}
  Caps = {1, 2, 3}
  Slack = 0
  MaxN = 6
INVARIANTS
  Export
CHECK_DEADLOCK FALSE
