SPECIFICATION TraceSpec
CONSTANTS
  Item = {}
  Caps = {}
  Slack = 0
INVARIANTS
  C24_RemembersExactlyWindow
  C24_NeverMoreThanCapacity
  C24_RingConsistent
PROPERTIES
  C24_ReportsDuplicateIffInWindow
POSTCONDITION TraceAccepted
CHECK_DEADLOCK FALSE
