------------------------------ MODULE Spaces ------------------------------
(***************************************************************************)
(* p2panda-spaces: message processing of one `Manager` replica per peer.   *)
(*                                                                         *)
(* Deliberately thin (DESIGN 5.19) but explicit:                           *)
(*                                                                         *)
(*   * a replica's state is a FUNCTION OF THE SET of message ids it has    *)
(*     processed successfully (`applied[p]`); the incremental views        *)
(*     `gview` / `sview` (what `Group::members` / `Space::members` show)   *)
(*     are updated message by message like the code does                   *)
(*     (group.rs `Group::process`, space.rs `handle_membership_message`)   *)
(*     and the invariant StateIsFunctionOfSet says they equal the fold     *)
(*     over the set;                                                       *)
(*   * `Process(p, m, v)` of an id already in `applied[p]` changes nothing *)
(*     and emits no events (manager.rs:222-296: Auth ->                    *)
(*     group.rs `operations.contains_key`, SpaceMembership / Application   *)
(*     -> space.rs `orderer.has_seen`, KeyBundle -> identity.rs);          *)
(*   * `Process` is total: for every message kind (kb, auth, member,       *)
(*     update, app) and every adversarial content class a remote peer can  *)
(*     choose the outcome is "ok" or "err", never "panic".                 *)
(*                                                                         *)
(* The verdict v (ok / err) of a first processing is an INPUT of the       *)
(* action: the specification does not say which well-typed messages the    *)
(* code accepts, only what follows from the verdict.  What the bytes of a  *)
(* class look like is the harness's business (vh-spaces); the              *)
(* specification carries the class name and its case structure.            *)
(*                                                                         *)
(* Faithful models of defects: PanicClasses (content classes on which the  *)
(* code panics) and ReEmitKinds (message kinds whose re-delivery emits     *)
(* events again).  Both are {} in the repaired / claimed behaviour.        *)
(***************************************************************************)
EXTENDS Integers, FiniteSets, Sequences

CONSTANTS Peers,         \* replica names, strings
          Manager,       \* the peer that creates the space and authors all auth operations
          Access,        \* access levels handed out by the manager: subset of {"read","write","pull"}
          Classes,       \* adversarial content classes that may be forged
          PanicClasses,  \* defect model: classes on which Process panics
          ReEmitKinds    \* defect model: kinds whose re-delivery emits events again

VARIABLES msgs,      \* sequence of all messages created so far; the id of a message is its index
          applied,   \* [Peers -> SUBSET ids]   successfully processed (or authored) ids
          gview,     \* [Peers -> [Peers -> access]]  members of the space's group in the shared auth state
          sview,     \* [Peers -> [Peers -> access]]  members of the space (auth state inside the space)
          tainted,   \* [Peers -> BOOLEAN]  an adversarial message was accepted: views no longer predicted
          oob,       \* key bundles were exchanged out of band (Manager::register_member) at start
          last       \* outcome of the most recent Process step

vars == <<msgs, applied, gview, sview, tainted, oob, last>>

Ids == 1..Len(msgs)
None == "none"
NoView == [x \in Peers |-> None]
NoLast == [res |-> "ok", again |-> FALSE, nev |-> 0, changed |-> FALSE]

Kinds == {"kb", "auth", "member", "update", "app"}

Min(S) == CHOOSE x \in S : \A y \in S : x <= y

(* kind of message each adversarial class produces (manager.rs routing is by kind) *)
ClassKind(c) ==
    CASE c \in {"update", "update_unknown"} -> "update"
      [] c \in {"auth_promote", "auth_demote", "auth_unknown_group", "auth_no_deps", "auth_unknown_dep",
                "auth_non_manager", "auth_dup_create", "auth_remove_nonmember", "auth_add_group_manage",
                "auth_add_self_group"} -> "auth"
      [] c \in {"member_unknown_auth", "member_ptr_not_auth", "member_unknown_space", "member_new_space",
                "member_wrong_group", "member_dup_pointer", "member_ptr_promote"} -> "member"
      [] c \in {"app_unknown_space", "app_wrong_secret", "app_garbage", "app_unknown_dep"} -> "app"
      [] c \in {"kb_other_identity", "kb_bad_signature", "kb_expired"} -> "kb"
      [] OTHER -> "update"

---------------------------------------------------------------------------
(* Views: what the membership queries return, as a function of the auth    *)
(* operations applied (single manager => the auth history is linear)       *)

ApplyAuth(view, a) ==
    CASE a.act = "create" -> [x \in Peers |-> IF x = Manager THEN "manage"
                                               ELSE IF x = a.q THEN a.acc ELSE None]
      [] a.act = "add"    -> [view EXCEPT ![a.q] = a.acc]
      [] a.act = "remove" -> [view EXCEPT ![a.q] = None]
      [] OTHER            -> view

RECURSIVE FoldAuth(_, _)
FoldAuth(view, ids) ==
    IF ids = {} THEN view
    ELSE LET k == Min(ids) IN FoldAuth(ApplyAuth(view, msgs[k]), ids \ {k})

RECURSIVE FoldMember(_, _)
FoldMember(view, ids) ==
    IF ids = {} THEN view
    ELSE LET k == Min(ids) IN FoldMember(ApplyAuth(view, msgs[msgs[k].ref]), ids \ {k})

Valid(k) == msgs[k].cls = "valid"
GViewOf(S) == FoldAuth(NoView, {k \in S : msgs[k].kind = "auth" /\ Valid(k)})
SViewOf(S) == FoldMember(NoView, {k \in S : msgs[k].kind = "member" /\ Valid(k)})

SpaceCreated == \E k \in Ids : msgs[k].kind = "auth" /\ Valid(k)

(* the peer has been welcomed to the encryption group at some point
   (data_scheme/group.rs `is_welcomed` is never reset) *)
WelcomedOf(p, S) ==
    \E k \in S : /\ msgs[k].kind = "member" /\ Valid(k)
                 /\ LET a == msgs[msgs[k].ref]
                    IN \/ a.act = "create" /\ (p = Manager \/ (a.q = p /\ a.acc # "pull"))
                       \/ a.act = "add" /\ a.q = p /\ a.acc # "pull"

HasBundle(p, q) == oob \/ p = q \/ \E k \in applied[p] : msgs[k].kind = "kb" /\ Valid(k) /\ msgs[k].by = q

(* dependencies the author gives a new message: a superset of the real ones
   (auth: heads of the author's auth graph; member / app: heads of the space graph
   plus the referenced auth message), message.rs `SpacesArgs::dependencies` *)
DepsFor(p, kind) ==
    IF kind = "kb" THEN {}
    ELSE IF kind = "auth" THEN {k \in applied[p] : msgs[k].kind = "auth" /\ Valid(k)}
    ELSE {k \in applied[p] : msgs[k].kind # "kb" /\ Valid(k)}

Msg(kind, by, act, q, acc, ref, cls, deps) ==
    [kind |-> kind, by |-> by, act |-> act, q |-> q, acc |-> acc, ref |-> ref, cls |-> cls, deps |-> deps]

---------------------------------------------------------------------------
Init ==
    /\ msgs = <<>>
    /\ applied = [p \in Peers |-> {}]
    /\ gview = [p \in Peers |-> NoView]
    /\ sview = [p \in Peers |-> NoView]
    /\ tainted = [p \in Peers |-> FALSE]
    /\ oob \in BOOLEAN
    /\ last = NoLast

(* Manager::key_bundle_message (manager.rs:335) *)
KeyBundle(p) ==
    LET id == Len(msgs) + 1 IN
    /\ msgs' = Append(msgs, Msg("kb", p, "", "", "", 0, "valid", {}))
    /\ applied' = [applied EXCEPT ![p] = @ \cup {id}]
    /\ UNCHANGED <<gview, sview, tainted, oob, last>>

(* an auth operation of the manager and the space message that points at it:
   Space::create / Space::add / Space::remove (space.rs:94-187) *)
AuthPair(act, q, acc) ==
    LET a == Len(msgs) + 1
        s == Len(msgs) + 2
        am == Msg("auth", Manager, act, q, acc, 0, "valid", DepsFor(Manager, "auth"))
        sm == Msg("member", Manager, "", "", "", a, "valid", DepsFor(Manager, "member") \cup {a})
    IN /\ msgs' = msgs \o <<am, sm>>
       /\ applied' = [applied EXCEPT ![Manager] = @ \cup {a, s}]
       /\ gview' = [gview EXCEPT ![Manager] = ApplyAuth(@, am)]
       /\ sview' = [sview EXCEPT ![Manager] = ApplyAuth(@, am)]
       /\ UNCHANGED <<tainted, oob, last>>

CreateSpace(q, acc) ==
    /\ ~SpaceCreated
    /\ ~tainted[Manager]
    /\ q # Manager => HasBundle(Manager, q)
    /\ AuthPair("create", q, acc)

AddMember(q, acc) ==
    /\ SpaceCreated /\ ~tainted[Manager]
    /\ q # Manager /\ gview[Manager][q] = None
    /\ HasBundle(Manager, q)
    /\ AuthPair("add", q, acc)

RemoveMember(q) ==
    /\ SpaceCreated /\ ~tainted[Manager]
    /\ q # Manager /\ gview[Manager][q] # None
    /\ AuthPair("remove", q, "")

(* Space::publish (space.rs:628) *)
Publish(p) ==
    LET id == Len(msgs) + 1 IN
    /\ ~tainted[p]
    /\ WelcomedOf(p, applied[p])
    /\ msgs' = Append(msgs, Msg("app", p, "", "", "", 0, "valid", DepsFor(p, "app")))
    /\ applied' = [applied EXCEPT ![p] = @ \cup {id}]
    /\ UNCHANGED <<gview, sview, tainted, oob, last>>

(* A remote peer forges a message of adversarial content class c.  The forged message is
   never applied by its author.  Who can forge what, and what must exist for the class to be
   constructible, is part of the case structure; the bytes are the harness's business. *)
NoDepClasses == {"update_unknown", "auth_no_deps", "auth_unknown_dep", "member_unknown_auth",
                 "app_unknown_space", "app_unknown_dep", "kb_other_identity", "kb_bad_signature", "kb_expired"}
AnyForger == {"update_unknown", "app_unknown_space", "app_wrong_secret", "app_garbage", "app_unknown_dep",
              "kb_other_identity", "kb_bad_signature", "kb_expired"}
OutsiderOnly == {"auth_non_manager", "member_dup_pointer"}
Forger(c) == IF c \in AnyForger THEN Peers
             ELSE IF c \in OutsiderOnly THEN Peers \ {Manager} ELSE {Manager}

ForgePre(by, c) ==
    CASE c \in {"auth_promote", "auth_demote", "member_ptr_promote"} ->
             \E q \in Peers \ {Manager} : gview[Manager][q] # None
      [] c = "member_ptr_not_auth" -> \E k \in Ids : Valid(k) /\ msgs[k].kind \in {"kb", "app"}
      [] c = "member_unknown_space" -> \E k \in Ids : Valid(k) /\ msgs[k].kind = "auth" /\ msgs[k].act # "create"
      [] c = "member_dup_pointer" -> \E k \in applied[by] : Valid(k) /\ msgs[k].kind = "auth"
      [] c = "app_unknown_dep" -> \E k \in Ids : Valid(k) /\ msgs[k].kind = "app"
      [] OTHER -> TRUE

Forge(by, c) ==
    /\ c \in Classes
    /\ by \in Forger(c)
    /\ SpaceCreated /\ ~tainted[Manager]
    /\ ForgePre(by, c)
    /\ msgs' = Append(msgs, Msg(ClassKind(c), by, "", "", "", 0, c,
                                IF c \in NoDepClasses THEN {} ELSE DepsFor(by, ClassKind(c))))
    /\ UNCHANGED <<applied, gview, sview, tainted, oob, last>>

---------------------------------------------------------------------------
(* Manager::process (manager.rs:222) followed by persisting the returned states *)

Ready(p, m) == msgs[m].deps \subseteq applied[p]

\* re-delivery of an id the replica has already processed
ProcessAgain(p, m, v) ==
    /\ m \in applied[p]
    /\ v \in {"ok", "err"}
    /\ last' = [again |-> TRUE, changed |-> FALSE,
                res |-> IF msgs[m].cls \in PanicClasses THEN "panic" ELSE v,
                nev |-> IF msgs[m].kind \in ReEmitKinds THEN 1 ELSE 0]
    /\ UNCHANGED <<msgs, applied, gview, sview, tainted, oob>>

\* first processing, accepted
ProcessOk(p, m) ==
    /\ m \notin applied[p]
    /\ Ready(p, m)
    /\ msgs[m].cls \notin PanicClasses
    /\ applied' = [applied EXCEPT ![p] = @ \cup {m}]
    /\ IF Valid(m)
       THEN /\ gview' = [gview EXCEPT ![p] = IF msgs[m].kind = "auth" THEN ApplyAuth(@, msgs[m]) ELSE @]
            /\ sview' = [sview EXCEPT ![p] = IF msgs[m].kind = "member" THEN ApplyAuth(@, msgs[msgs[m].ref]) ELSE @]
            /\ UNCHANGED tainted
       ELSE /\ tainted' = [tainted EXCEPT ![p] = TRUE]
            /\ UNCHANGED <<gview, sview>>
    /\ last' = [again |-> FALSE, changed |-> TRUE, res |-> "ok", nev |-> -1]
    /\ UNCHANGED <<msgs, oob>>

\* first processing, rejected: nothing is persisted
ProcessErr(p, m) ==
    /\ m \notin applied[p]
    /\ Ready(p, m)
    /\ msgs[m].cls \notin PanicClasses
    /\ last' = [again |-> FALSE, changed |-> FALSE, res |-> "err", nev |-> 0]
    /\ UNCHANGED <<msgs, applied, gview, sview, tainted, oob>>

\* defect model: the code panics on this content class
ProcessPanic(p, m) ==
    /\ m \notin applied[p]
    /\ msgs[m].cls \in PanicClasses
    /\ last' = [again |-> FALSE, changed |-> FALSE, res |-> "panic", nev |-> 0]
    /\ UNCHANGED <<msgs, applied, gview, sview, tainted, oob>>

Process(p, m, v) ==
    \/ ProcessAgain(p, m, v)
    \/ v = "ok" /\ ProcessOk(p, m)
    \/ v = "err" /\ ProcessErr(p, m)
    \/ v = "panic" /\ ProcessPanic(p, m)

Next ==
    \/ \E p \in Peers : KeyBundle(p) \/ Publish(p)
    \/ \E q \in Peers, acc \in Access : CreateSpace(q, acc) \/ AddMember(q, acc)
    \/ \E q \in Peers : RemoveMember(q)
    \/ \E by \in Peers, c \in Classes : Forge(by, c)
    \/ \E p \in Peers, m \in Ids, v \in {"ok", "err", "panic"} : Process(p, m, v)

Spec == Init /\ [][Next]_vars

---------------------------------------------------------------------------
(* C39 *)

\* processing is total: a result or an error, never a panic
Total == last.res \in {"ok", "err"}

\* a second processing changes nothing and emits nothing
Idempotent == last.again => (last.nev = 0 /\ ~last.changed)

\* the replica state is a function of the set of processed ids
StateIsFunctionOfSet ==
    \A p \in Peers : ~tainted[p] =>
        /\ gview[p] = GViewOf(applied[p])
        /\ sview[p] = SViewOf(applied[p])

\* processed sets are causally closed
CausallyClosed == \A p \in Peers : \A m \in applied[p] : msgs[m].deps \subseteq applied[p]

\* re-delivery never changes the processed set (action property)
AgainIsStutter ==
    [][(last' # last /\ last'.again) => (applied' = applied /\ gview' = gview /\ sview' = sview)]_vars
===========================================================================
