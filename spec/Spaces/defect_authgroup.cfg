SPECIFICATION MCSpecOpen
CONSTANTS
  Peers = {"p1", "p2"}
  Manager = "p1"
  Access = {"write"}
  Classes = {"auth_unknown_group", "auth_no_deps", "auth_unknown_dep", "auth_non_manager"}
  PanicClasses = {"auth_unknown_group", "auth_no_deps", "auth_unknown_dep"}
  ReEmitKinds = {}
  OkClasses = {}
  MaxOps = 2
  MaxForge = 1
  MaxAgain = 1
  MaxSteps = 99
  ExportOn = FALSE
INVARIANTS
  Idempotent
  StateIsFunctionOfSet
  Total
VIEW NoHistView
CHECK_DEADLOCK FALSE
