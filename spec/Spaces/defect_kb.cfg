SPECIFICATION MCSpecOpen
CONSTANTS
  Peers = {"p1", "p2"}
  Manager = "p1"
  Access = {"write"}
  Classes = {}
  PanicClasses = {}
  ReEmitKinds = {"kb"}
  OkClasses = {}
  MaxOps = 2
  MaxForge = 0
  MaxAgain = 1
  MaxSteps = 99
  ExportOn = FALSE
INVARIANTS
  Total
  Idempotent
  StateIsFunctionOfSet
VIEW NoHistView
CHECK_DEADLOCK FALSE
