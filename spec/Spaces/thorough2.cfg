SPECIFICATION MCSpecOpen
CONSTANTS
  Peers = {"p1", "p2"}
  Manager = "p1"
  Access = {"write", "pull"}
  Classes = {"update", "auth_promote", "app_wrong_secret", "member_new_space"}
  PanicClasses = {}
  ReEmitKinds = {}
  OkClasses = {"member_new_space"}
  MaxOps = 3
  MaxForge = 1
  MaxAgain = 1
  MaxSteps = 99
  ExportOn = FALSE
INVARIANTS
  Total
  Idempotent
  StateIsFunctionOfSet
  CausallyClosed
PROPERTIES
  MC_AgainIsStutter
VIEW NoHistView
CHECK_DEADLOCK FALSE
