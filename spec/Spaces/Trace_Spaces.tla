--------------------------- MODULE Trace_Spaces ---------------------------
(* Trace validation: events recorded from real p2panda_spaces::Manager      *)
(* replicas (harness `vh-spaces spaces record`) must be behaviours of       *)
(* Spaces, with the C39 predicates evaluated on what the implementation     *)
(* reported (events emitted, state changed, verdict) at every step.         *)
EXTENDS Spaces, TLC, Json, IOUtils

Rec == ndJsonDeserialize(IOEnv.TRACE)

VARIABLES i,     \* index of the next event
          obs    \* what the implementation reported for the last Process event

tvars == <<vars, i, obs>>

Ev == Rec[i]

NoObs == [res |-> "ok", again |-> FALSE, nev |-> 0, changed |-> FALSE, changedAbs |-> FALSE]

Has(f) == f \in DOMAIN Ev

StepReset ==
    /\ Ev.ev = "Reset"
    /\ msgs' = <<>>
    /\ applied' = [p \in Peers |-> {}]
    /\ gview' = [p \in Peers |-> NoView]
    /\ sview' = [p \in Peers |-> NoView]
    /\ tainted' = [p \in Peers |-> FALSE]
    /\ oob' = Ev.oob
    /\ last' = NoLast
    /\ obs' = NoObs

\* the ids the implementation's messages got are the next free ones, in order
IdsMatch == Ev.ids = [k \in 1..(Len(msgs') - Len(msgs)) |-> Len(msgs) + k]

StepLocal ==
    /\ Ev.ev = "Local"
    /\ \/ Ev.op = "kb" /\ KeyBundle(Ev.p)
       \/ Ev.op = "publish" /\ Publish(Ev.p)
       \/ Ev.op = "create" /\ Ev.p = Manager /\ CreateSpace(Ev.q, Ev.acc)
       \/ Ev.op = "add" /\ Ev.p = Manager /\ AddMember(Ev.q, Ev.acc)
       \/ Ev.op = "remove" /\ Ev.p = Manager /\ RemoveMember(Ev.q)
    /\ IdsMatch
    /\ UNCHANGED obs

StepForge ==
    /\ Ev.ev = "Forge"
    /\ Forge(Ev.by, Ev.cls)
    /\ Ev.id = Len(msgs')
    /\ UNCHANGED obs

\* logged membership views: JSON object member -> access (absent = not a member)
ViewMatches(view, logged) ==
    /\ DOMAIN logged \subseteq Peers
    /\ \A x \in Peers : view[x] = (IF x \in DOMAIN logged THEN logged[x] ELSE None)

Observed == [res |-> Ev.res, again |-> Ev.again, nev |-> Ev.nev, changed |-> Ev.changed, changedAbs |-> Ev.changedAbs]

StepProcess ==
    /\ Ev.ev = "Process" /\ ~Has("skip")
    /\ Ev.m \in Ids
    /\ msgs[Ev.m].kind = Ev.kind /\ msgs[Ev.m].cls = Ev.cls
    /\ Ev.again = (Ev.m \in applied[Ev.p])
    /\ IF Ev.res = "panic"
       THEN UNCHANGED vars                      \* no action of the specification panics: TraceTotal fails
       ELSE /\ Process(Ev.p, Ev.m, Ev.res)
            /\ ~tainted'[Ev.p] => /\ ViewMatches(sview'[Ev.p], Ev.smem)
                                  /\ ViewMatches(gview'[Ev.p], Ev.gmem)
    /\ obs' = Observed

\* events that show exactly a defect listed in known_findings.json: reported by the harness under
\* its narrow signature, skipped here - but only if they have exactly that shape
StepKnownDefect ==
    /\ Ev.ev = "Process" /\ Has("skip")
    /\ Ev.m \in Ids
    /\ Ev.skip = "redelivery-emits-events:kb"
    /\ msgs[Ev.m].kind = "kb" /\ Ev.m \in applied[Ev.p]
    /\ Ev.again /\ Ev.res = "ok" /\ ~Ev.changed
    /\ UNCHANGED <<vars, obs>>

TraceInit == Init /\ i = 1 /\ obs = NoObs
TraceNext ==
    /\ i <= Len(Rec)
    /\ i' = i + 1
    /\ (StepReset \/ StepLocal \/ StepForge \/ StepProcess \/ StepKnownDefect)
TraceSpec == TraceInit /\ [][TraceNext]_tvars

(* C39 on what the implementation reported *)
TraceTotal == obs.res \in {"ok", "err"}
TraceIdempotent == obs.again => (obs.nev = 0 /\ ~obs.changed)
TraceErrorChangesNothing == obs.res = "err" => ~obs.changedAbs

TraceAccepted ==
    LET d == TLCGet("stats").diameter IN
    IF d - 1 = Len(Rec) THEN TRUE
    ELSE Print(<<"TRACE_REJECTED", d - 1, Len(Rec), ToJson(Rec[d])>>, FALSE)
===========================================================================
