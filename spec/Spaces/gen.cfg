SPECIFICATION MCSpec
CONSTANTS
  Peers = {"p1", "p2", "p3"}
  Manager = "p1"
  Access = {"write", "read", "pull"}
  Classes = {"update", "update_unknown", "auth_promote", "auth_demote", "auth_unknown_group", "auth_no_deps", "auth_unknown_dep", "auth_non_manager", "auth_dup_create", "auth_remove_nonmember", "auth_add_group_manage", "auth_add_self_group", "member_unknown_auth", "member_ptr_not_auth", "member_unknown_space", "member_new_space", "member_wrong_group", "member_dup_pointer", "member_ptr_promote", "app_unknown_space", "app_wrong_secret", "app_garbage", "app_unknown_dep", "kb_other_identity", "kb_bad_signature", "kb_expired"}
  PanicClasses = {}
  ReEmitKinds = {}
  OkClasses = {"member_new_space", "auth_dup_create"}
  MaxOps = 4
  MaxForge = 2
  MaxAgain = 3
  MaxSteps = 16
  ExportOn = TRUE
INVARIANTS
  Export
CHECK_DEADLOCK FALSE
