----------------------------- MODULE MC_Spaces -----------------------------
(* Bounded instance of Spaces for TLC + JSON export of behaviours for the   *)
(* replay harness (vh-spaces spaces replay).                                *)
EXTENDS Spaces, TLC, Json

CONSTANTS MaxOps,      \* local operations (each creates 1-2 messages)
          MaxForge,    \* forged adversarial messages
          MaxAgain,    \* re-deliveries scheduled by the model
          MaxSteps,    \* length of an exported behaviour
          OkClasses,   \* adversarial classes the repaired code is expected to accept (export oracle only)
          ExportOn     \* keep the step history (export configs) or not (exhaustive configs)

VARIABLES hist,        \* steps taken, with the expected observable after each step
          nops, nforge, nagain

mcvars == <<vars, hist, nops, nforge, nagain>>

ViewJson(v) == {x \o ":" \o v[x] : x \in {y \in Peers : v[y] # None}}

Step(rec) == hist' = IF ExportOn THEN Append(hist, rec) ELSE <<>>

MCInit ==
    /\ Init
    /\ hist = <<>> /\ nops = 0 /\ nforge = 0 /\ nagain = 0

Local(p, op, q, acc, n) ==
    /\ nops < MaxOps
    /\ nops' = nops + 1
    /\ Step([a |-> "Local", p |-> p, op |-> op, q |-> q, acc |-> acc,
             ids |-> [i \in 1..n |-> Len(msgs) + i]])
    /\ UNCHANGED <<nforge, nagain>>

\* verdict oracle for exported behaviours: what the repaired code is expected to answer.
\* Only an expectation: the harness stops following a behaviour whose verdict the code does
\* not share (counted, never a violation).
Likely(m) == IF Valid(m) \/ msgs[m].cls \in OkClasses THEN "ok" ELSE "err"

ProcStep(p, m, v) ==
    /\ Process(p, m, v)
    /\ Step([a |-> "Process", p |-> p, m |-> m, v |-> last'.res, again |-> last'.again,
             known |-> ~tainted'[p],
             smem |-> ViewJson(sview'[p]), gmem |-> ViewJson(gview'[p])])

MCNext ==
    /\ (ExportOn => Len(hist) < MaxSteps)
    /\ \/ \E p \in Peers : KeyBundle(p) /\ Local(p, "kb", p, "", 1)
       \/ \E p \in Peers : Publish(p) /\ Local(p, "publish", p, "", 1)
       \/ \E q \in Peers, acc \in Access : CreateSpace(q, acc) /\ Local(Manager, "create", q, acc, 2)
       \/ \E q \in Peers, acc \in Access : AddMember(q, acc) /\ Local(Manager, "add", q, acc, 2)
       \/ \E q \in Peers : RemoveMember(q) /\ Local(Manager, "remove", q, "", 2)
       \/ \E by \in Peers, c \in Classes :
             /\ nforge < MaxForge /\ nforge' = nforge + 1
             /\ Forge(by, c)
             /\ Step([a |-> "Forge", by |-> by, cls |-> c, id |-> Len(msgs) + 1])
             /\ UNCHANGED <<nops, nagain>>
       \* first delivery, in causal order, with the verdict the oracle expects (or the modelled panic)
       \/ \E p \in Peers, m \in Ids :
             /\ m \notin applied[p]
             /\ ProcStep(p, m, IF msgs[m].cls \in PanicClasses THEN "panic" ELSE Likely(m))
             /\ UNCHANGED <<nops, nforge, nagain>>
       \* re-delivery
       \/ \E p \in Peers, m \in Ids :
             /\ m \in applied[p]
             /\ nagain < MaxAgain /\ nagain' = nagain + 1
             /\ ProcStep(p, m, "ok")
             /\ UNCHANGED <<nops, nforge>>

MCSpec == MCInit /\ [][MCNext]_mcvars

\* the unconstrained verdict (both answers to every first delivery) for the exhaustive check
MCNextOpen ==
    /\ (ExportOn => Len(hist) < MaxSteps)
    /\ \/ MCNext
       \/ \E p \in Peers, m \in Ids :
             /\ m \notin applied[p]
             /\ \E v \in {"ok", "err"} : ProcStep(p, m, v)
             /\ UNCHANGED <<nops, nforge, nagain>>
MCSpecOpen == MCInit /\ [][MCNextOpen]_mcvars

NoHistView == <<vars, nops, nforge, nagain>>

MC_AgainIsStutter ==
    [][(last' # last /\ last'.again) => (applied' = applied /\ gview' = gview /\ sview' = sview)]_mcvars

Export ==
    (ExportOn /\ Len(hist) = MaxSteps) =>
        PrintT(<<"REPLAY", ToJson([kind |-> "spaces", oob |-> oob, peers |-> Cardinality(Peers), steps |-> hist])>>)
===========================================================================
