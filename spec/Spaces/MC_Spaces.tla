----------------------------- MODULE MC_Spaces -----------------------------
(* Bounded instance of Spaces for TLC + JSON export of behaviours for the   *)
(* replay harness (vh-spaces spaces replay).                                *)
EXTENDS Spaces, TLC, Json

CONSTANTS MaxOps,      \* local operations (each creates 1-2 messages)
          MaxForge,    \* forged adversarial messages
          MaxAgain,    \* re-deliveries scheduled by the model
          MaxSteps,    \* length of an exported behaviour
          OkClasses,   \* adversarial classes the repaired code is expected to accept (export oracle only)
          ExportOn     \* keep the step history (export configs) or not (exhaustive configs)

VARIABLES hist,        \* steps taken, with the expected observable after each step
          nops, nforge, nagain

mcvars == <<vars, hist, nops, nforge, nagain>>

Step(rec) == hist' = IF ExportOn THEN Append(hist, rec) ELSE <<>>

MCInit ==
    /\ Init
    /\ hist = <<>> /\ nops = 0 /\ nforge = 0 /\ nagain = 0

Local(p, op, q, acc, n) ==
    /\ nops < MaxOps
    /\ nops' = nops + 1
    /\ Step([a |-> "Local", p |-> p, op |-> op, q |-> q, acc |-> acc,
             ids |-> [i \in 1..n |-> Len(msgs) + i]])
    /\ UNCHANGED <<nforge, nagain>>

\* verdict oracle for exported behaviours: what the repaired code is expected to answer.
\* Only an expectation: the harness stops following a behaviour whose verdict the code does
\* not share (counted, never a violation; a replay that cannot follow most behaviours is a
\* tool error).
Likely(p, m) ==
    LET x == msgs[m] IN
    IF x.cls \in {"app_wrong_secret", "app_garbage", "app_unknown_dep"} THEN
        \* unknown space: refused; not welcomed yet: queued unseen; welcomed: decrypted (or not)
        IF ~\E k \in applied[p] : msgs[k].kind = "member" /\ Valid(k) THEN "err"
        ELSE IF ~WelcomedOf(p, applied[p]) THEN "ok"
        ELSE IF x.cls = "app_unknown_dep" /\ sview[p][p] # None THEN "ok" ELSE "err"
    \* a first identity key for an unknown author is accepted
    ELSE IF x.cls = "kb_other_identity" THEN (IF HasBundle(p, x.by) THEN "err" ELSE "ok")
    ELSE IF ~Valid(m) THEN (IF x.cls \in OkClasses THEN "ok" ELSE "err")
    \* a pull member cannot process the pointer to its own "add" (no welcome message for it)
    ELSE IF x.kind = "member" /\ msgs[x.ref].act = "add" /\ msgs[x.ref].q = p /\ msgs[x.ref].acc = "pull" THEN "err"
    \* a removed member does not get the group secret later messages are encrypted with
    ELSE IF /\ x.kind = "app" /\ WelcomedOf(p, applied[p]) /\ sview[p][p] = None
            /\ \E k \in x.deps : msgs[k].kind = "member" /\ msgs[msgs[k].ref].act = "remove" /\ msgs[msgs[k].ref].q = p
         THEN "err"
    ELSE "ok"

ProcStep(p, m, v) ==
    /\ Process(p, m, v)
    /\ Step([a |-> "Process", p |-> p, m |-> m, v |-> last'.res, again |-> last'.again,
             known |-> ~tainted'[p],
             smem |-> sview'[p], gmem |-> gview'[p]])

Ended == Len(hist) > 0 /\ hist[Len(hist)].a = "End"

\* export runs end with an explicit step so that exactly the behaviour TLC walked is printed
\* (in simulation mode invariants are also evaluated on the successors that are not taken)
Finish ==
    /\ ExportOn /\ Len(hist) = MaxSteps
    /\ hist' = Append(hist, [a |-> "End"])
    /\ UNCHANGED <<vars, nops, nforge, nagain>>

Bounded == ExportOn => Len(hist) < MaxSteps

DoKeyBundle == Bounded /\ \E p \in Peers : KeyBundle(p) /\ Local(p, "kb", p, "", 1)
DoPublish == Bounded /\ \E p \in Peers : Publish(p) /\ Local(p, "publish", p, "", 1)
DoCreateSpace == Bounded /\ \E q \in Peers, acc \in Access : CreateSpace(q, acc) /\ Local(Manager, "create", q, acc, 2)
DoAddMember == Bounded /\ \E q \in Peers, acc \in Access : AddMember(q, acc) /\ Local(Manager, "add", q, acc, 2)
DoRemoveMember == Bounded /\ \E q \in Peers : RemoveMember(q) /\ Local(Manager, "remove", q, "", 2)
DoForge ==
    /\ Bounded
    /\ \E by \in Peers, c \in Classes :
          /\ nforge < MaxForge /\ nforge' = nforge + 1
          /\ Forge(by, c)
          /\ Step([a |-> "Forge", by |-> by, cls |-> c, id |-> Len(msgs) + 1])
          /\ UNCHANGED <<nops, nagain>>
\* first delivery, in causal order, with the verdict the oracle expects (or the modelled panic)
DoFirst ==
    /\ Bounded
    /\ \E p \in Peers, m \in Ids :
          /\ m \notin applied[p]
          /\ ProcStep(p, m, IF msgs[m].cls \in PanicClasses THEN "panic" ELSE Likely(p, m))
          /\ UNCHANGED <<nops, nforge, nagain>>
\* first delivery with the verdict the oracle does not expect (exhaustive configs only)
DoFirstOther ==
    /\ ~ExportOn
    /\ \E p \in Peers, m \in Ids :
          /\ m \notin applied[p]
          /\ msgs[m].cls \notin PanicClasses
          /\ ProcStep(p, m, IF Likely(p, m) = "ok" THEN "err" ELSE "ok")
          /\ UNCHANGED <<nops, nforge, nagain>>
\* re-delivery
DoAgain ==
    /\ Bounded
    /\ \E p \in Peers, m \in Ids :
          /\ m \in applied[p]
          /\ nagain < MaxAgain /\ nagain' = nagain + 1
          /\ ProcStep(p, m, "ok")
          /\ UNCHANGED <<nops, nforge>>

MCSteps == DoKeyBundle \/ DoPublish \/ DoCreateSpace \/ DoAddMember \/ DoRemoveMember \/ DoForge \/ DoFirst \/ DoAgain

MCNext == MCSteps \/ Finish
MCSpec == MCInit /\ [][MCNext]_mcvars

\* both answers to every first delivery: the specification does not choose the verdict
MCNextOpen == MCSteps \/ DoFirstOther
MCSpecOpen == MCInit /\ [][MCNextOpen]_mcvars

NoHistView == <<vars, nops, nforge, nagain>>

MC_AgainIsStutter ==
    [][(last' # last /\ last'.again) => (applied' = applied /\ gview' = gview /\ sview' = sview)]_mcvars

Export ==
    (ExportOn /\ Ended) =>
        PrintT(<<"REPLAY", ToJson([kind |-> "spaces", oob |-> oob, peers |-> Cardinality(Peers),
                                   steps |-> SubSeq(hist, 1, Len(hist) - 1)])>>)
===========================================================================
