SPECIFICATION MCSpec
CONSTANTS
  NAuthor = 2
  NLog = 1
  MaxSeq = 1
  Caps = {0}
  StoreChoices <- AllPrefixes
  LogsChoices <- LogsAll
  MaxMut = 0
  MutKinds = {}
  Faults = FALSE
  Defect_SendBlocksRecv = TRUE
  Fix_DoneOnce = TRUE
  Fix_StreamClosure = TRUE
INVARIANTS
  TypeOK
  C21_NoSpin
  C21_NoOtherStuck
  C21_NoHandshakeDeadlock
CHECK_DEADLOCK FALSE
