--------------------------- MODULE Trace_LogSync ---------------------------
(* Trace validation: the events recorded from two real LogSync sessions     *)
(* (harness `vh-logsync logsync record`) must be a behaviour of LogSync.   *)
(* Every event is one action of the specification with all its logged      *)
(* arguments bound; there are no silent steps.  The invariants of C19, C20 *)
(* and C21 are evaluated on every state of the recorded execution.         *)
EXTENDS LogSync, TLC, Json, IOUtils

Rec == ndJsonDeserialize(IOEnv.TRACE)

VARIABLE i
tvars == <<store, store0, slogs, cap, pc, local, needs, todo, acc, logsLeft, outq, sendLogsLen,
           doneSent, doneRecv, dedup, chan, sent, events, nmut, i>>

Ev == Rec[i]
P == Ev.p
Q == Other(Ev.p)

\* values for the constants that only shape Init of the bounded model
NoChoices(k) == {}

---------------------------------------------------------------------------
(* JSON side: stores [[a, l, [seq ..]] ..], key lists [[a, l] ..],           *)
(* heights [[a, l, h] ..], messages {"t": ..}                              *)

StoreFromJson(rows) ==
    [k \in Key |->
        LET m == {r \in Range(rows) : r[1] = k[1] /\ r[2] = k[2]}
        IN IF m = {} THEN {} ELSE Range((CHOOSE r \in m : TRUE)[3])]

KeysFromJson(rows) == {<<r[1], r[2]>> : r \in Range(rows)}

HeightRows(h) == {<<k[1], k[2], h[k]>> : k \in DOMAIN h}

MsgMatches(m, j) ==
    /\ m.t = j.t
    /\ CASE j.t = "Have" -> HeightRows(m.h) = Range(j.h)
         [] j.t = "PreSync" -> m.n = j.n
         [] j.t = "Op" -> m.o = <<j.a, j.l, j.s>>
         [] OTHER -> TRUE

SeqsOf(oq) == [n \in 1..Len(oq) |-> oq[n][3]]

---------------------------------------------------------------------------
StepReset ==
    /\ Ev.ev = "Reset"
    /\ store' = [p \in Peer |-> StoreFromJson(IF p = "A" THEN Ev.storeA ELSE Ev.storeB)]
    /\ store0' = store'
    /\ slogs' = [p \in Peer |-> KeysFromJson(IF p = "A" THEN Ev.logsA ELSE Ev.logsB)]
    /\ cap' = Ev.cap
    /\ pc' = [p \in Peer |-> "Start"]
    /\ local' = [p \in Peer |-> EmptyFn]
    /\ needs' = [p \in Peer |-> EmptyFn]
    /\ todo' = [p \in Peer |-> <<>>]
    /\ acc' = [p \in Peer |-> 0]
    /\ logsLeft' = [p \in Peer |-> <<>>]
    /\ outq' = [p \in Peer |-> <<>>]
    /\ sendLogsLen' = [p \in Peer |-> 0]
    /\ doneSent' = [p \in Peer |-> FALSE]
    /\ doneRecv' = [p \in Peer |-> FALSE]
    /\ dedup' = [p \in Peer |-> {}]
    /\ chan' = [p \in Peer |-> <<>>]
    /\ sent' = [p \in Peer |-> <<>>]
    /\ events' = [p \in Peer |-> <<>>]
    /\ nmut' = 0

StepStart == Ev.ev = "Start" /\ Start(P)

StepReadHeights ==
    /\ Ev.ev = "ReadHeights"
    /\ ReadHeights(P)
    /\ Head(todo[P]) = Ev.a
    /\ HeightRows(HeightsOfAuthor(P, Ev.a)) = Range(Ev.h)       \* the rows SQLite returned

StepReadSize ==
    /\ Ev.ev = "ReadSize"
    /\ ReadSize(P)
    /\ Head(todo[P]) = <<Ev.a, Ev.l>>
    /\ needs[P][<<Ev.a, Ev.l>>] = <<Ev.after, Ev.until>>
    /\ SizeOf(P, <<Ev.a, Ev.l>>) = Ev.n
    /\ (Ev.n = 0) = (Ev.bytes = 0)

StepReadEntries ==
    /\ Ev.ev = "ReadEntries"
    /\ \/ SyncNextAuthor(P) /\ Head(LogsOfAuthor(DOMAIN needs[P], Head(todo[P]))) = <<Ev.a, Ev.l>>
       \/ BurstReadLog(P) /\ Head(logsLeft[P]) = <<Ev.a, Ev.l>>
    /\ needs[P][<<Ev.a, Ev.l>>] = <<Ev.after, Ev.until>>
    /\ SeqsOf(EntriesOf(P, <<Ev.a, Ev.l>>)) = Ev.seqs

StepSend ==
    /\ Ev.ev = "Send"
    /\ PutHave(P) \/ PutPreSync(P) \/ BurstSendOp(P) \/ SendDone(P)
    /\ MsgMatches(Last(sent'[P]), Ev.m)

StepRecv ==
    /\ Ev.ev = "Recv"
    /\ chan[Q] # <<>>
    /\ MsgMatches(Head(chan[Q]), Ev.m)
    /\ ReceiveHave(P) \/ ReceivePreSyncOrDone(P) \/ SyncRecv(P)
    /\ Len(chan'[Q]) < Len(chan[Q])

\* the inbound stream returned None for the first time
StepEos ==
    /\ Ev.ev = "Eos"
    /\ StreamEnded(P)
    /\ \/ ReceiveHave(P) \/ ReceivePreSyncOrDone(P) \/ SyncRecvClosed(P)
       \/ ~Fix_StreamClosure /\ pc[P] = "Sync" /\ ~doneRecv[P] /\ UNCHANGED vars     \* branch 1 disabled

\* LogSyncEvent::OperationReceived seen on the broadcast channel (the idx-th of this peer)
StepEvent ==
    /\ Ev.ev = "Event"
    /\ Ev.idx <= Len(events[P])
    /\ events[P][Ev.idx] = <<Ev.op[1], Ev.op[2], Ev.op[3]>>
    /\ UNCHANGED vars

\* LogSyncEvent::MetricsExchanged: the announced outbound operation count is the summed size
StepMetrics ==
    /\ Ev.ev = "Metrics"
    /\ pc[P] \notin {"Start", "SendHave", "ReceiveHave", "SendPreSync", "ReceivePreSyncOrDone"}
    /\ Ev.out = acc[P]
    /\ UNCHANGED vars

\* `run` returned
StepEnd ==
    /\ Ev.ev = "End"
    /\ IF Ev.ok THEN SyncElse(P) /\ pc'[P] = "End"
       ELSE IF Ev.spin THEN SyncElse(P) /\ pc'[P] = "Spin"
       ELSE \/ pc[P] = "Failed" /\ UNCHANGED vars
            \/ SinkFail(P)

StepMutate ==
    /\ Ev.ev = "Mutate"
    /\ LET k == <<Ev.a, Ev.l>> IN
       /\ CASE Ev.kind = "prune" -> ConcurrentPrune(P, k, Ev.arg)
            [] Ev.kind = "delete" -> ConcurrentDelete(P, k, Ev.arg)
            [] OTHER -> ConcurrentAppend(P, k) /\ Ev.arg = MaxOrNone(store[P][k]) + 1
       /\ store'[P][k] = Range(Ev.now)                               \* the rows left in SQLite

StepCrash == Ev.ev = "Crash" /\ Crash(P)

\* the harness found both sessions blocked
StepStuck == Ev.ev = "Stuck" /\ Stuck /\ UNCHANGED vars

---------------------------------------------------------------------------
TraceInit ==
    /\ i = 1
    /\ store = [p \in Peer |-> [k \in Key |-> {}]]
    /\ store0 = store
    /\ slogs = [p \in Peer |-> {}]
    /\ cap = 0
    /\ pc = [p \in Peer |-> "Crashed"]          \* nothing runs before the first Reset
    /\ local = [p \in Peer |-> EmptyFn]
    /\ needs = [p \in Peer |-> EmptyFn]
    /\ todo = [p \in Peer |-> <<>>]
    /\ acc = [p \in Peer |-> 0]
    /\ logsLeft = [p \in Peer |-> <<>>]
    /\ outq = [p \in Peer |-> <<>>]
    /\ sendLogsLen = [p \in Peer |-> 0]
    /\ doneSent = [p \in Peer |-> FALSE]
    /\ doneRecv = [p \in Peer |-> FALSE]
    /\ dedup = [p \in Peer |-> {}]
    /\ chan = [p \in Peer |-> <<>>]
    /\ sent = [p \in Peer |-> <<>>]
    /\ events = [p \in Peer |-> <<>>]
    /\ nmut = 0

TraceNext ==
    /\ i <= Len(Rec)
    /\ i' = i + 1
    /\ \/ StepReset \/ StepStart \/ StepReadHeights \/ StepReadSize \/ StepReadEntries
       \/ StepSend \/ StepRecv \/ StepEos \/ StepEvent \/ StepMetrics \/ StepEnd
       \/ StepMutate \/ StepCrash \/ StepStuck

TraceSpec == TraceInit /\ [][TraceNext]_tvars

\* C21 on a recorded execution: a blocked pair of sessions is a violation unless it is one of the
\* two recorded classes (which the harness reports under their own signatures)
C21_TraceNoOtherStuck == C21_NoOtherStuck

TraceAccepted ==
    LET d == TLCGet("stats").diameter IN
    IF d - 1 = Len(Rec) THEN TRUE
    ELSE Print(<<"TRACE_REJECTED", d - 1, Len(Rec), ToJson(Rec[d])>>, FALSE)
===========================================================================
