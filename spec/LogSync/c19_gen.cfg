SPECIFICATION GenDetSpec
CONSTANTS
  NAuthor = 2
  NLog = 2
  MaxSeq = 1
  Caps = {99, 2}
  StoreChoices <- TwoLogsFew
  LogsChoices <- LogsAll
  MaxMut = 0
  MutKinds = {}
  Faults = FALSE
  Defect_SendBlocksRecv = TRUE
  Fix_DoneOnce = TRUE
  Fix_StreamClosure = TRUE
INVARIANTS
  Export
CHECK_DEADLOCK FALSE
