SPECIFICATION GenDetSpec
CONSTANTS
  NAuthor = 2
  NLog = 1
  MaxSeq = 1
  Caps = {0, 1, 2, 99}
  StoreChoices <- AllPrefixes
  LogsChoices <- LogsAll
  MaxMut = 1
  MutKinds = {"prune", "delete"}
  Faults = TRUE
  Defect_SendBlocksRecv = TRUE
  Fix_DoneOnce = TRUE
  Fix_StreamClosure = TRUE
INVARIANTS
  Export
CHECK_DEADLOCK FALSE
