SPECIFICATION TraceSpec
CONSTANTS
  NAuthor = 8
  NLog = 3
  MaxSeq = 100000
  Caps = {}
  StoreChoices <- NoChoices
  LogsChoices = {}
  MaxMut = 1000000
  MutKinds = {"prune", "delete", "append"}
  Faults = TRUE
  Defect_SendBlocksRecv = TRUE
  Fix_DoneOnce = TRUE
  Fix_StreamClosure = TRUE
INVARIANTS
  C19_ExactDelivery
  C19_HeightsEqualAfterIngest
  C20_DoneOnce
  C20_NothingAfterDone
  C20_Grammar
  C20_DoneAtEnd
  C20_NoStrayMessage
  C21_TraceNoOtherStuck
  C21_NoSpin
POSTCONDITION TraceAccepted
CHECK_DEADLOCK FALSE
