SPECIFICATION GenDetSpec
CONSTANTS
  NAuthor = 2
  NLog = 1
  MaxSeq = 2
  Caps = {0, 1, 2, 3, 99}
  StoreChoices <- AllPrefixes
  LogsChoices <- LogsAll
  MaxMut = 0
  MutKinds = {}
  Faults = TRUE
  Defect_SendBlocksRecv = TRUE
  Fix_DoneOnce = TRUE
  Fix_StreamClosure = TRUE
INVARIANTS
  Export
CHECK_DEADLOCK FALSE
