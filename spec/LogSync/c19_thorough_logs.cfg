SPECIFICATION MCSpec
CONSTANTS
  NAuthor = 2
  NLog = 2
  MaxSeq = 1
  Caps = {99, 1}
  StoreChoices <- TwoLogs
  LogsChoices <- LogsSome
  MaxMut = 0
  MutKinds = {}
  Faults = FALSE
  Defect_SendBlocksRecv = TRUE
  Fix_DoneOnce = TRUE
  Fix_StreamClosure = TRUE
INVARIANTS
  TypeOK
  C19_DeliveredPrefix
  C19_ExactDelivery
  C19_HeightsEqualAfterIngest
CHECK_DEADLOCK FALSE
