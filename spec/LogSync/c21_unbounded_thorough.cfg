SPECIFICATION MCFairSpec
CONSTANTS
  NAuthor = 2
  NLog = 1
  MaxSeq = 1
  Caps = {99}
  StoreChoices <- AllPrefixes
  LogsChoices <- LogsAll
  MaxMut = 1
  MutKinds = {"prune", "delete"}
  Faults = TRUE
  Defect_SendBlocksRecv = TRUE
  Fix_DoneOnce = TRUE
  Fix_StreamClosure = TRUE
INVARIANTS
  TypeOK
  C21_NoSpin
  C21_NeverStuck
PROPERTIES
  C21_Terminates
CHECK_DEADLOCK TRUE
