SPECIFICATION MCFairSpec
CONSTANTS
  NAuthor = 2
  NLog = 1
  MaxSeq = 1
  Caps = {0, 1, 2, 99}
  StoreChoices <- EmptyOrFull
  LogsChoices <- LogsAll
  MaxMut = 1
  MutKinds = {"prune", "delete"}
  Faults = TRUE
  Defect_SendBlocksRecv = FALSE
  Fix_DoneOnce = TRUE
  Fix_StreamClosure = TRUE
INVARIANTS
  TypeOK
  C21_NoSpin
  C21_NeverStuck
PROPERTIES
  C21_Terminates
CHECK_DEADLOCK TRUE
