SPECIFICATION MCSpec
CONSTANTS
  NAuthor = 2
  NLog = 1
  MaxSeq = 2
  Caps = {99, 1, 2}
  StoreChoices <- AllIntervals
  LogsChoices <- LogsAll
  MaxMut = 0
  MutKinds = {}
  Faults = FALSE
  Defect_SendBlocksRecv = TRUE
  Fix_DoneOnce = TRUE
  Fix_StreamClosure = TRUE
INVARIANTS
  TypeOK
  C19_DeliveredPrefix
  C19_ExactDelivery
  C19_HeightsEqualAfterIngest
CHECK_DEADLOCK FALSE
