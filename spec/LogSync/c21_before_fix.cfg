SPECIFICATION MCSpec
CONSTANTS
  NAuthor = 2
  NLog = 1
  MaxSeq = 1
  Caps = {99}
  StoreChoices <- AllPrefixes
  LogsChoices <- LogsAll
  MaxMut = 0
  MutKinds = {}
  Faults = TRUE
  Defect_SendBlocksRecv = TRUE
  Fix_DoneOnce = TRUE
  Fix_StreamClosure = FALSE
INVARIANTS
  TypeOK
  C21_NoSpin
CHECK_DEADLOCK FALSE
