---------------------------- MODULE MC_LogSync ----------------------------
(* Bounded instances of LogSync for TLC, history variable `hist` (one      *)
(* record per step with the observable the harness compares) and the JSON  *)
(* export of complete behaviours.                                          *)
EXTENDS LogSync, TLC, Json

VARIABLES hist,    \* one record per step (export)
          plan     \* export runs only: at which step the store change / the crash happens
mcvars == <<store, store0, slogs, cap, pc, local, needs, todo, acc, logsLeft, outq, sendLogsLen,
            doneSent, doneRecv, dedup, chan, sent, events, nmut, hist, plan>>

---------------------------------------------------------------------------
(* Values for LogsChoices (sets of tuples cannot be written in a .cfg)      *)
LogsAll == {Key}
\* both sessions may be configured with all logs or without the last author's last log
LogsSome == {Key, Key \ {<<NAuthor, NLog>>}}

\* typical StoreChoices
Intervals == {{}} \cup {lo..hi : lo \in SeqNum, hi \in SeqNum}          \* incl. pruned prefixes
Prefixes == {{}} \cup {0..hi : hi \in SeqNum}
AllIntervals(k) == Intervals
AllPrefixes(k) == Prefixes
\* first log of the first author: every interval; the other logs: empty, full, or pruned to the top
FewElsewhere(k) == IF k = <<1, 1>> THEN Intervals ELSE {{}, 0..MaxSeq, {MaxSeq}}

\* two authors x two logs, seq 0..1: every interval for the first log, less elsewhere
TwoLogs(k) == CASE k = <<1, 1>> -> Intervals
                [] k = <<1, 2>> -> {{}, 0..MaxSeq}
                [] k = <<2, 1>> -> {{}, 0..MaxSeq, {MaxSeq}}
                [] OTHER -> {{}}
\* the same with fewer choices for the second author (quick tier)
TwoLogsFew(k) == CASE k = <<1, 1>> -> Intervals
                   [] k = <<1, 2>> -> {{}, 0..MaxSeq}
                   [] k = <<2, 1>> -> {{}, {MaxSeq}}
                   [] OTHER -> {{}}

\* one log per author, each empty or full (smallest configuration with traffic in both directions)
EmptyOrFull(k) == {{}, 0..MaxSeq}

CanStepIsEnabled == \A p \in Peer : CanStep(p) <=> ENABLED PeerNext(p)

---------------------------------------------------------------------------
(* Checking specifications (hist stays empty)                               *)
MCInit == Init /\ hist = <<>> /\ plan = [mut |-> 0, crash |-> 0]
\* one named action per action of the specification (TLC reports coverage per name)
M_Start(p) == Start(p) /\ UNCHANGED <<hist, plan>>
M_ReadHeights(p) == ReadHeights(p) /\ UNCHANGED <<hist, plan>>
M_PutHave(p) == PutHave(p) /\ UNCHANGED <<hist, plan>>
M_ReceiveHave(p) == ReceiveHave(p) /\ UNCHANGED <<hist, plan>>
M_ReadSize(p) == ReadSize(p) /\ UNCHANGED <<hist, plan>>
M_PutPreSync(p) == PutPreSync(p) /\ UNCHANGED <<hist, plan>>
M_ReceivePreSyncOrDone(p) == ReceivePreSyncOrDone(p) /\ UNCHANGED <<hist, plan>>
M_SyncRecv(p) == SyncRecv(p) /\ UNCHANGED <<hist, plan>>
M_SyncRecvClosed(p) == SyncRecvClosed(p) /\ UNCHANGED <<hist, plan>>
M_SyncNextAuthor(p) == SyncNextAuthor(p) /\ UNCHANGED <<hist, plan>>
M_BurstReadLog(p) == BurstReadLog(p) /\ UNCHANGED <<hist, plan>>
M_BurstSendOp(p) == BurstSendOp(p) /\ UNCHANGED <<hist, plan>>
M_SendDone(p) == SendDone(p) /\ UNCHANGED <<hist, plan>>
M_SyncElse(p) == SyncElse(p) /\ UNCHANGED <<hist, plan>>
M_SinkFail(p) == SinkFail(p) /\ UNCHANGED <<hist, plan>>
M_Crash(p) == Crash(p) /\ UNCHANGED <<hist, plan>>
M_Mutate == Mutate /\ UNCHANGED <<hist, plan>>
M_Terminated == Terminated /\ UNCHANGED <<hist, plan>>
MCNext ==
    \/ \E p \in Peer :
          \/ M_Start(p)
          \/ M_ReadHeights(p)
          \/ M_PutHave(p)
          \/ M_ReceiveHave(p)
          \/ M_ReadSize(p)
          \/ M_PutPreSync(p)
          \/ M_ReceivePreSyncOrDone(p)
          \/ M_SyncRecv(p)
          \/ M_SyncRecvClosed(p)
          \/ M_SyncNextAuthor(p)
          \/ M_BurstReadLog(p)
          \/ M_BurstSendOp(p)
          \/ M_SendDone(p)
          \/ M_SyncElse(p)
          \/ M_SinkFail(p)
          \/ M_Crash(p)
    \/ M_Mutate
    \/ M_Terminated
MCSpec == MCInit /\ [][MCNext]_mcvars
MCFairSpec == MCSpec /\ \A p \in Peer : WF_mcvars(PeerNext(p) /\ UNCHANGED <<hist, plan>>)

\* vacuity witnesses: the interesting branches are reachable (used as "must be violated" probes
\* by hand, see NOTES.md; not part of the registered configs)
W_NeverDuplicate == \A p \in Peer : \A i, j \in 1..Len(events[p]) : i # j => events[p][i] # events[p][j]

---------------------------------------------------------------------------
(* JSON projections                                                        *)
HeightsJson(h) == LET ks == SortKeys(DOMAIN h) IN [i \in 1..Len(ks) |-> <<ks[i][1], ks[i][2], h[ks[i]]>>]

MsgJson(m) ==
    CASE m.t = "Have" -> [t |-> "Have", h |-> HeightsJson(m.h)]
      [] m.t = "PreSync" -> [t |-> "PreSync", n |-> m.n]
      [] m.t = "Op" -> [t |-> "Op", a |-> m.o[1], l |-> m.o[2], s |-> m.o[3]]
      [] OTHER -> [t |-> "Done"]

StoreJson(st) == LET ks == SortKeys(Key) IN [i \in 1..Len(ks) |-> <<ks[i][1], ks[i][2], AscSeq(st[ks[i]])>>]
KeysJson(K) == LET ks == SortKeys(K) IN [i \in 1..Len(ks) |-> <<ks[i][1], ks[i][2]>>]
SeqsOf(oq) == [i \in 1..Len(oq) |-> oq[i][3]]

RangeObs(p, k) == [a |-> k[1], l |-> k[2], after |-> needs[p][k][1], until |-> needs[p][k][2]]

ReadObs(p, act) ==
    CASE act = "ReadHeights" ->
            <<[a |-> Head(todo[p]), h |-> HeightsJson(HeightsOfAuthor(p, Head(todo[p])))]>>
      [] act = "ReadSize" ->
            <<[r |-> RangeObs(p, Head(todo[p])), n |-> SizeOf(p, Head(todo[p]))]>>
      [] act = "SyncNextAuthor" ->
            LET k == Head(LogsOfAuthor(DOMAIN needs[p], Head(todo[p])))
            IN <<[r |-> RangeObs(p, k), seqs |-> SeqsOf(EntriesOf(p, k))]>>
      [] act = "BurstReadLog" ->
            <<[r |-> RangeObs(p, Head(logsLeft[p])), seqs |-> SeqsOf(EntriesOf(p, Head(logsLeft[p])))]>>
      [] OTHER -> <<>>

\* one step of peer p: what it read, wrote, took and emitted, and where it is afterwards
Obs(p, act) ==
    [p |-> p, act |-> act, pc |-> pc'[p],
     read |-> ReadObs(p, act),
     put |-> IF Len(sent'[p]) > Len(sent[p]) THEN <<MsgJson(Last(sent'[p]))>> ELSE <<>>,
     took |-> IF Len(chan'[Other(p)]) < Len(chan[Other(p)]) THEN <<MsgJson(Head(chan[Other(p)]))>> ELSE <<>>,
     ev |-> IF Len(events'[p]) > Len(events[p]) THEN <<Last(events'[p])>> ELSE <<>>]

Log(p, act) == hist' = Append(hist, Obs(p, act)) /\ UNCHANGED plan

\* bf = TRUE: "burst first" - SyncRecv only when no author is left (every such behaviour can be
\* forced on the real select!, which picks a ready branch at random: the harness withholds the
\* inbound message while the model sends)
HPeer(p, bf) ==
    \/ Start(p) /\ Log(p, "Start")
    \/ ReadHeights(p) /\ Log(p, "ReadHeights")
    \/ PutHave(p) /\ Log(p, "PutHave")
    \/ ReceiveHave(p) /\ Log(p, "ReceiveHave")
    \/ ReadSize(p) /\ Log(p, "ReadSize")
    \/ PutPreSync(p) /\ Log(p, "PutPreSync")
    \/ ReceivePreSyncOrDone(p) /\ Log(p, "ReceivePreSyncOrDone")
    \/ (bf => todo[p] = <<>>) /\ SyncRecv(p) /\ Log(p, "SyncRecv")
    \/ (bf => todo[p] = <<>>) /\ SyncRecvClosed(p) /\ Log(p, "SyncRecvClosed")
    \/ SyncNextAuthor(p) /\ Log(p, "SyncNextAuthor")
    \/ BurstReadLog(p) /\ Log(p, "BurstReadLog")
    \/ BurstSendOp(p) /\ Log(p, "BurstSendOp")
    \/ SendDone(p) /\ Log(p, "SendDone")
    \/ SyncElse(p) /\ Log(p, "SyncElse")
    \/ SinkFail(p) /\ Log(p, "SinkFail")

MutObs(p, k, kind, arg) ==
    [p |-> p, act |-> "Mutate", kind |-> kind, a |-> k[1], l |-> k[2], arg |-> arg,
     now |-> AscSeq(store'[p][k])]

\* the k-th store change happens exactly at step plan.mut + 4k, the crash at step plan.crash
HMutate == Len(hist) = plan.mut + 4 * nmut /\ UNCHANGED plan /\ \E p \in Peer, k \in Key :
    \/ \E n \in 1..(MaxSeq + 1) : ConcurrentPrune(p, k, n) /\ hist' = Append(hist, MutObs(p, k, "prune", n))
    \/ \E s \in SeqNum : ConcurrentDelete(p, k, s) /\ hist' = Append(hist, MutObs(p, k, "delete", s))
    \/ ConcurrentAppend(p, k) /\ hist' = Append(hist, MutObs(p, k, "append", MaxOrNone(store[p][k]) + 1))

\* (not between the last event of a session and its return: SyncElse and SinkFail have no await
\* of their own, the real session cannot be stopped there)
HCrash == Len(hist) = plan.crash /\ UNCHANGED plan
          /\ \E p \in Peer : ~G_SyncElse(p) /\ ~G_SinkFail(p) /\ Crash(p)
                              /\ hist' = Append(hist, [p |-> p, act |-> "Crash"])

---------------------------------------------------------------------------
(* Export specifications (no Terminated stuttering: a behaviour ends where  *)
(* no peer can step)                                                        *)

\* The step numbers of the environment actions are part of the initial state, so that an
\* exhaustive export enumerates every point and a simulation (which draws the initial state
\* uniformly but would otherwise take an enabled environment action almost at once) spreads them.
MaxAt == 45
Never == 1000
MutPoints == IF MaxMut = 0 THEN {Never} ELSE 1..MaxAt
CrashPoints == IF Faults THEN (1..MaxAt) \cup {Never} ELSE {Never}
\* exhaustive exports: one environment action per behaviour where both kinds are switched on
PlanChoices == IF MaxMut > 0 /\ Faults
               THEN [mut : MutPoints, crash : {Never}] \cup [mut : {Never}, crash : 1..MaxAt]
               ELSE [mut : MutPoints, crash : CrashPoints]
GenInit == Init /\ hist = <<>> /\ plan \in PlanChoices
\* one random plan per configuration (for big domains under -simulate)
GenInitRandom == Init /\ hist = <<>>
                 /\ plan = [mut |-> RandomElement(MutPoints), crash |-> RandomElement(CrashPoints)]

\* all interleavings, all select! choices (for -simulate)
GenAllNext == (\E p \in Peer : HPeer(p, FALSE)) \/ HMutate \/ HCrash
GenAllSpec == GenInitRandom /\ [][GenAllNext]_mcvars

\* one schedule per configuration: A runs whenever it can, bursts first; mutations and crashes
\* at every point
GenDetNext ==
    \/ IF ENABLED HPeer("A", TRUE) THEN HPeer("A", TRUE) ELSE HPeer("B", TRUE)
    \/ HMutate \/ HCrash
GenDetSpec == GenInit /\ [][GenDetNext]_mcvars

Quiescent == \A p \in Peer : ~CanStep(p)

Export ==
    Quiescent =>
        PrintT(<<"REPLAY", ToJson([kind |-> "run", cap |-> cap,
                                   storeA |-> StoreJson(store0["A"]), storeB |-> StoreJson(store0["B"]),
                                   logsA |-> KeysJson(slogs["A"]), logsB |-> KeysJson(slogs["B"]),
                                   steps |-> hist,
                                   final |-> [A |-> pc["A"], B |-> pc["B"], stuck |-> Stuck,
                                              burst |-> Stuck /\ SendBurstDeadlock,
                                              handshake |-> Stuck /\ HandshakeDeadlock]])>>)
===========================================================================
