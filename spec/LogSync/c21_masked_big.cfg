SPECIFICATION MCSpec
CONSTANTS
  NAuthor = 2
  NLog = 1
  MaxSeq = 2
  Caps = {0, 1, 2, 99}
  StoreChoices <- AllPrefixes
  LogsChoices <- LogsAll
  MaxMut = 0
  MutKinds = {}
  Faults = TRUE
  Defect_SendBlocksRecv = FALSE
  Fix_DoneOnce = TRUE
  Fix_StreamClosure = TRUE
INVARIANTS
  TypeOK
  C21_NoSpin
  C21_NeverStuck
CHECK_DEADLOCK TRUE
