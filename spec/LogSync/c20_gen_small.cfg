SPECIFICATION GenDetSpec
CONSTANTS
  NAuthor = 2
  NLog = 1
  MaxSeq = 1
  Caps = {99}
  StoreChoices <- EmptyOrFull
  LogsChoices <- LogsAll
  MaxMut = 1
  MutKinds = {"prune", "delete", "append"}
  Faults = FALSE
  Defect_SendBlocksRecv = TRUE
  Fix_DoneOnce = TRUE
  Fix_StreamClosure = TRUE
INVARIANTS
  Export
CHECK_DEADLOCK FALSE
