------------------------------ MODULE LogSync ------------------------------
(***************************************************************************)
(* Two-party log sync: p2panda-sync/src/protocols/log_sync.rs `LogSync::run`*)
(*                                                                         *)
(* Two peers "A" and "B" run the SAME state machine (there is no initiator *)
(* role in LogSync) over two FIFO channels chan[p] (written by p, read by  *)
(* the other peer).  One action per await point of `run`:                  *)
(*                                                                         *)
(*   Start                State::Start                    log_sync.rs:117  *)
(*   ReadHeights          store.get_log_heights per author  :123 / :456    *)
(*   PutHave              sink.send(Have)                   :127           *)
(*   ReceiveHave          stream.next() + compare           :138-153       *)
(*   ReadSize             store.get_log_size per range      :169           *)
(*   PutPreSync           sink.send(PreSync | Done)         :188-202       *)
(*   ReceivePreSyncOrDone stream.next()                     :227-283       *)
(*   SyncRecv             select! branch 1                  :300-353       *)
(*   SyncNextAuthor       select! branch 2 + first get_log_entries :354-362*)
(*   BurstReadLog         get_log_entries of the next log   :355-372       *)
(*   BurstSendOp          sink.send(Operation)              :395           *)
(*   SendDone             sink.send(Done) after last author :405-419       *)
(*   SyncElse             select! else arm                  :421-429       *)
(*                                                                         *)
(* A `sink.send(m).await` is "put m into the transport, then wait until    *)
(* the transport has flushed": the message is appended to chan[p] at once  *)
(* and the NEXT step of p waits for Flushed(p), i.e. Len(chan[p]) <= cap   *)
(* (futures mpsc `channel(cap)` + `SinkExt::send` behaves exactly so; cap  *)
(* 0 is a rendezvous).  In the code as written a peer that waits for a     *)
(* flush does nothing else (Defect_SendBlocksRecv = TRUE); the constant    *)
(* FALSE gives the repaired DESIGN in which receiving never waits for the  *)
(* own flush (used to show that no OTHER non-termination exists).          *)
(*                                                                         *)
(* Stores are sets of sequence numbers per (author, log) key; operations   *)
(* are <<author, log, seq>>.  Authors and logs are 1..N in BTreeMap order. *)
(* Concurrent store changes (another session ingesting or pruning) are the *)
(* Mutate actions, enabled between any two steps.  A crash of a peer       *)
(* (connection loss) is the Crash action, only with Faults = TRUE.         *)
(***************************************************************************)
EXTENDS Integers, Sequences, FiniteSets

CONSTANTS
    NAuthor, NLog,           \* authors 1..NAuthor, logs 1..NLog
    MaxSeq,                  \* sequence numbers 0..MaxSeq
    Caps,                    \* channel capacities explored (99 = unbounded)
    StoreChoices(_),         \* key -> allowed initial contents of that log (sets of seq nums)
    LogsChoices,             \* allowed `logs` arguments of a session (sets of keys)
    MaxMut,                  \* bound on concurrent store mutations per run
    MutKinds,                \* subset of {"prune", "delete", "append"}
    Faults,                  \* TRUE: a peer may crash (close its channel ends) at any time
    Defect_SendBlocksRecv,   \* TRUE: as coded - while a send waits for the flush nothing is read
    Fix_DoneOnce,            \* TRUE: after `fix:` ranges are skipped once Done was sent in SendPreSync
    Fix_StreamClosure        \* TRUE: after `fix:` end of stream in Sync is UnexpectedStreamClosure

VARIABLES
    store,        \* [Peer -> [Key -> SUBSET SeqNum]]  current store
    store0,       \* initial stores (never changes; C19 is phrased over it)
    slogs,        \* [Peer -> SUBSET Key]  the `logs` argument of each session
    cap,          \* channel capacity of this run
    pc,           \* [Peer -> state name]
    local,        \* [Peer -> heights]    snapshot sent in Have
    needs,        \* [Peer -> ranges]     remote_needs = compare(local, remote)
    todo,         \* [Peer -> Seq]        cursor of the current phase (authors / keys / authors)
    acc,          \* [Peer -> Nat]        outbound operation count summed in SendPreSync
    logsLeft,     \* [Peer -> Seq(Key)]   logs of the current author still to be read
    outq,         \* [Peer -> Seq(Op)]    entries of the current log still to be sent
    sendLogsLen,  \* [Peer -> Nat]        send_logs_len
    doneSent, doneRecv,   \* sync_done_sent / sync_done_received
    dedup,        \* [Peer -> SUBSET Op]  deduplication buffer (eviction not modelled)
    chan,         \* [Peer -> Seq(Msg)]   transport p -> Other(p)
    sent,         \* [Peer -> Seq(Msg)]   history: everything p wrote to its sink
    events,       \* [Peer -> Seq(Op)]    history: LogSyncEvent::OperationReceived
    nmut          \* number of Mutate steps so far

vars == <<store, store0, slogs, cap, pc, local, needs, todo, acc, logsLeft, outq, sendLogsLen,
          doneSent, doneRecv, dedup, chan, sent, events, nmut>>

Unbounded == 99          \* a capacity no run can fill (writable in a .cfg, unlike -1)
Peer == {"A", "B"}
Other(p) == IF p = "A" THEN "B" ELSE "A"
Key == (1..NAuthor) \X (1..NLog)
SeqNum == 0..MaxSeq
NoneH == -1
EmptyFn == [x \in {} |-> 0]

Max(S) == CHOOSE x \in S : \A y \in S : y <= x
Min(S) == CHOOSE x \in S : \A y \in S : x <= y
MaxOrNone(S) == IF S = {} THEN NoneH ELSE Max(S)

RECURSIVE AscSeq(_)
AscSeq(S) == IF S = {} THEN <<>> ELSE <<Min(S)>> \o AscSeq(S \ {Min(S)})

KeyLeq(k1, k2) == k1[1] < k2[1] \/ (k1[1] = k2[1] /\ k1[2] <= k2[2])
RECURSIVE SortKeys(_)
SortKeys(S) == IF S = {} THEN <<>>
               ELSE LET m == CHOOSE k \in S : \A j \in S : KeyLeq(k, j)
                    IN <<m>> \o SortKeys(S \ {m})

Range(s) == {s[i] : i \in 1..Len(s)}
Last(s) == s[Len(s)]

---------------------------------------------------------------------------
(* Messages                                                                *)

HaveMsg(h) == [t |-> "Have", h |-> h]
PreSyncMsg(n) == [t |-> "PreSync", n |-> n]
OpMsg(o) == [t |-> "Op", o |-> o]
DoneMsg == [t |-> "Done"]

---------------------------------------------------------------------------
(* Store queries (p2panda-store/src/logs/sqlite/mod.rs)                    *)

\* get_log_heights(author, logs): MAX(seq_num) per log that has at least one row
HeightsOfAuthor(p, a) ==
    LET K == {k \in slogs[p] : k[1] = a /\ store[p][k] # {}}
    IN [k \in K |-> Max(store[p][k])]

\* rows of a range: seq > after (>= 0 when after is None) and seq <= until
RangeRows(p, k, r) == {s \in store[p][k] : s > r[1] /\ s <= r[2]}

\* get_log_size -> operation count (bytes are > 0 iff the count is > 0: headers are never empty)
SizeOf(p, k) == Cardinality(RangeRows(p, k, needs[p][k]))

\* get_log_entries -> entries in ascending seq order
EntriesOf(p, k) == LET ss == AscSeq(RangeRows(p, k, needs[p][k]))
                   IN [i \in 1..Len(ss) |-> <<k[1], k[2], ss[i]>>]

\* p2panda-core/src/logs.rs `compare` (flat form; equality with the nested transcription and with
\* the declarative diff is property C06, decided by spec/StateVector)
Compare(lo, re) ==
    LET K == {k \in DOMAIN lo : k \notin DOMAIN re \/ re[k] < lo[k]}
    IN [k \in K |-> <<IF k \in DOMAIN re THEN re[k] ELSE NoneH, lo[k]>>]

AuthorsOf(K) == AscSeq({k[1] : k \in K})
LogsOfAuthor(K, a) == SortKeys({k \in K : k[1] = a})

---------------------------------------------------------------------------
(* Transport                                                               *)

Active(p) == pc[p] \notin {"End", "Failed", "Crashed", "Spin"}
Gone(p) == pc[p] \in {"Failed", "Crashed"}          \* p's sink and stream are dropped
Flushed(p) == cap = Unbounded \/ Len(chan[p]) <= cap
\* the inbound stream of p yields None
StreamEnded(p) == chan[Other(p)] = <<>> /\ Gone(Other(p))

Put(p, m) == /\ chan' = [chan EXCEPT ![p] = Append(@, m)]
             /\ sent' = [sent EXCEPT ![p] = Append(@, m)]

Take(p) == chan' = [chan EXCEPT ![Other(p)] = Tail(@)]

\* may p run a step that is not a receive / may p run a receive step
MaySend(p) == Active(p) /\ Flushed(p) /\ ~Gone(Other(p))
MayProceed(p) == Active(p) /\ Flushed(p)
MayRecv(p) == Active(p) /\ (Flushed(p) \/ ~Defect_SendBlocksRecv)

---------------------------------------------------------------------------
Init ==
    /\ store \in [Peer -> {f \in [Key -> SUBSET SeqNum] : \A k \in Key : f[k] \in StoreChoices(k)}]
    /\ store0 = store
    /\ slogs \in [Peer -> LogsChoices]
    /\ cap \in Caps
    /\ pc = [p \in Peer |-> "Start"]
    /\ local = [p \in Peer |-> EmptyFn]
    /\ needs = [p \in Peer |-> EmptyFn]
    /\ todo = [p \in Peer |-> <<>>]
    /\ acc = [p \in Peer |-> 0]
    /\ logsLeft = [p \in Peer |-> <<>>]
    /\ outq = [p \in Peer |-> <<>>]
    /\ sendLogsLen = [p \in Peer |-> 0]
    /\ doneSent = [p \in Peer |-> FALSE]
    /\ doneRecv = [p \in Peer |-> FALSE]
    /\ dedup = [p \in Peer |-> {}]
    /\ chan = [p \in Peer |-> <<>>]
    /\ sent = [p \in Peer |-> <<>>]
    /\ events = [p \in Peer |-> <<>>]
    /\ nmut = 0

---------------------------------------------------------------------------
(* State::Start -> State::SendHave                                         *)
G_Start(p) == pc[p] = "Start"
Start(p) ==
    /\ G_Start(p)
    /\ pc' = [pc EXCEPT ![p] = "SendHave"]
    /\ todo' = [todo EXCEPT ![p] = AuthorsOf(slogs[p])]
    /\ UNCHANGED <<store, store0, slogs, cap, local, needs, acc, logsLeft, outq, sendLogsLen,
                   doneSent, doneRecv, dedup, chan, sent, events, nmut>>

(* get_log_heights for the next author of `logs` (log_sync.rs:456-464): an author without any   *)
(* stored entry is left out of the Have message                                                *)
G_ReadHeights(p) == pc[p] = "SendHave" /\ MayProceed(p) /\ todo[p] # <<>>
ReadHeights(p) ==
    /\ G_ReadHeights(p)
    /\ LET h == HeightsOfAuthor(p, Head(todo[p]))
       IN local' = [local EXCEPT ![p] = [k \in DOMAIN @ \cup DOMAIN h |->
                                            IF k \in DOMAIN h THEN h[k] ELSE @[k]]]
    /\ todo' = [todo EXCEPT ![p] = Tail(@)]
    /\ UNCHANGED <<store, store0, slogs, cap, pc, needs, acc, logsLeft, outq, sendLogsLen,
                   doneSent, doneRecv, dedup, chan, sent, events, nmut>>

G_PutHave(p) == pc[p] = "SendHave" /\ MaySend(p) /\ todo[p] = <<>>
PutHave(p) ==
    /\ G_PutHave(p)
    /\ Put(p, HaveMsg(local[p]))
    /\ pc' = [pc EXCEPT ![p] = "ReceiveHave"]
    /\ UNCHANGED <<store, store0, slogs, cap, local, needs, todo, acc, logsLeft, outq, sendLogsLen,
                   doneSent, doneRecv, dedup, events, nmut>>

(* a receive state meets the end of the stream, an unexpected message type, or a sink error:     *)
(* `run` returns Err                                                                            *)
Fail(p) == /\ pc' = [pc EXCEPT ![p] = "Failed"]
           /\ UNCHANGED <<store, store0, slogs, cap, local, needs, todo, acc, logsLeft, outq,
                          sendLogsLen, doneSent, doneRecv, dedup, sent, events, nmut>>

G_ReceiveHave(p) == pc[p] = "ReceiveHave" /\ MayRecv(p) /\ (chan[Other(p)] # <<>> \/ StreamEnded(p))
ReceiveHave(p) ==
    /\ G_ReceiveHave(p)
    /\ \/ /\ chan[Other(p)] # <<>>
          /\ LET m == Head(chan[Other(p)]) IN
             IF m.t = "Have"
             THEN /\ Take(p)
                  /\ needs' = [needs EXCEPT ![p] = Compare(local[p], m.h)]
                  /\ todo' = [todo EXCEPT ![p] = SortKeys(DOMAIN Compare(local[p], m.h))]
                  /\ acc' = [acc EXCEPT ![p] = 0]
                  /\ local' = [local EXCEPT ![p] = EmptyFn]     \* not used again
                  /\ pc' = [pc EXCEPT ![p] = "SendPreSync"]
                  /\ UNCHANGED <<store, store0, slogs, cap, logsLeft, outq, sendLogsLen,
                                 doneSent, doneRecv, dedup, sent, events, nmut>>
             ELSE Take(p) /\ Fail(p)
       \/ StreamEnded(p) /\ Fail(p) /\ UNCHANGED chan

(* get_log_size of the next range (log_sync.rs:167-183)                                         *)
G_ReadSize(p) == pc[p] = "SendPreSync" /\ MayProceed(p) /\ todo[p] # <<>>
ReadSize(p) ==
    /\ G_ReadSize(p)
    /\ acc' = [acc EXCEPT ![p] = @ + SizeOf(p, Head(todo[p]))]
    /\ todo' = [todo EXCEPT ![p] = Tail(@)]
    /\ UNCHANGED <<store, store0, slogs, cap, pc, local, needs, logsLeft, outq, sendLogsLen,
                   doneSent, doneRecv, dedup, chan, sent, events, nmut>>

(* log_sync.rs:188-202: PreSync when outbound_bytes > 0, else Done with sync_done_sent = true   *)
G_PutPreSync(p) == pc[p] = "SendPreSync" /\ MaySend(p) /\ todo[p] = <<>>
PutPreSync(p) ==
    /\ G_PutPreSync(p)
    /\ IF acc[p] > 0
       THEN Put(p, PreSyncMsg(acc[p])) /\ UNCHANGED doneSent
       ELSE Put(p, DoneMsg) /\ doneSent' = [doneSent EXCEPT ![p] = TRUE]
    /\ pc' = [pc EXCEPT ![p] = "ReceivePreSyncOrDone"]
    /\ UNCHANGED <<store, store0, slogs, cap, local, needs, todo, acc, logsLeft, outq, sendLogsLen,
                   doneRecv, dedup, events, nmut>>

(* log_sync.rs:211-286 and the head of State::Sync (:291-294)                                   *)
SyncTodo(p) == IF Fix_DoneOnce /\ doneSent[p] THEN <<>> ELSE AuthorsOf(DOMAIN needs[p])

G_ReceivePreSyncOrDone(p) ==
    pc[p] = "ReceivePreSyncOrDone" /\ MayRecv(p) /\ (chan[Other(p)] # <<>> \/ StreamEnded(p))
ReceivePreSyncOrDone(p) ==
    /\ G_ReceivePreSyncOrDone(p)
    /\ \/ /\ chan[Other(p)] # <<>>
          /\ LET m == Head(chan[Other(p)]) IN
             IF m.t \in {"PreSync", "Done"}
             THEN /\ Take(p)
                  /\ doneRecv' = [doneRecv EXCEPT ![p] = (m.t = "Done")]
                  /\ todo' = [todo EXCEPT ![p] = SyncTodo(p)]
                  /\ sendLogsLen' = [sendLogsLen EXCEPT ![p] = Len(SyncTodo(p))]
                  /\ pc' = [pc EXCEPT ![p] = "Sync"]
                  /\ UNCHANGED <<store, store0, slogs, cap, local, needs, acc, logsLeft, outq,
                                 doneSent, dedup, sent, events, nmut>>
             ELSE Take(p) /\ Fail(p)
       \/ StreamEnded(p) /\ Fail(p) /\ UNCHANGED chan

(* select! branch 1 (log_sync.rs:300-353): one message from the remote.  In the code as written *)
(* this branch is only polled between two send bursts (pc = "Sync" and the last send flushed).  *)
InSyncHandler(p) == pc[p] \in {"Sync", "Burst", "SendDone"}

G_SyncRecv(p) ==
    /\ IF Defect_SendBlocksRecv THEN pc[p] = "Sync" ELSE InSyncHandler(p)
    /\ MayRecv(p)
    /\ ~doneRecv[p]
    /\ chan[Other(p)] # <<>>
SyncRecv(p) ==
    /\ G_SyncRecv(p)
    /\ LET m == Head(chan[Other(p)]) IN
       CASE m.t = "Op" ->
              /\ Take(p)
              /\ IF m.o \in dedup[p]
                 THEN UNCHANGED <<dedup, events>>                   \* :318-321 duplicate ignored
                 ELSE /\ dedup' = [dedup EXCEPT ![p] = @ \cup {m.o}]
                      /\ events' = [events EXCEPT ![p] = Append(@, m.o)]
              /\ UNCHANGED <<store, store0, slogs, cap, pc, local, needs, todo, acc, logsLeft, outq,
                             sendLogsLen, doneSent, doneRecv, sent, nmut>>
         [] m.t = "Done" ->
              /\ Take(p)
              /\ doneRecv' = [doneRecv EXCEPT ![p] = TRUE]
              /\ UNCHANGED <<store, store0, slogs, cap, pc, local, needs, todo, acc, logsLeft, outq,
                             sendLogsLen, doneSent, dedup, sent, events, nmut>>
         [] OTHER -> Take(p) /\ Fail(p)

(* after the fix: the end of the stream before the remote's Done is an error                    *)
G_SyncRecvClosed(p) ==
    Fix_StreamClosure /\ pc[p] = "Sync" /\ MayRecv(p) /\ ~doneRecv[p] /\ StreamEnded(p)
SyncRecvClosed(p) ==
    /\ G_SyncRecvClosed(p)
    /\ Fail(p) /\ UNCHANGED chan

(* the current log is exhausted: next log, or the author is finished (log_sync.rs:405-419)      *)
AfterLog(p, oq, ll) ==
    IF oq = <<>> /\ ll = <<>>
    THEN /\ sendLogsLen' = [sendLogsLen EXCEPT ![p] = @ - 1]
         /\ pc' = [pc EXCEPT ![p] = IF sendLogsLen[p] - 1 = 0 THEN "SendDone" ELSE "Sync"]
    ELSE /\ UNCHANGED sendLogsLen
         /\ pc' = [pc EXCEPT ![p] = "Burst"]

(* select! branch 2 (log_sync.rs:354): next author of remote_needs and, without an await in     *)
(* between, get_log_entries of the author's first range.  Always ready while authors are left.  *)
G_SyncNextAuthor(p) == pc[p] = "Sync" /\ MayProceed(p) /\ todo[p] # <<>>
SyncNextAuthor(p) ==
    /\ G_SyncNextAuthor(p)
    /\ LET ls == LogsOfAuthor(DOMAIN needs[p], Head(todo[p]))
           oq == EntriesOf(p, Head(ls))
       IN /\ outq' = [outq EXCEPT ![p] = oq]
          /\ logsLeft' = [logsLeft EXCEPT ![p] = Tail(ls)]
          /\ AfterLog(p, oq, Tail(ls))
    /\ todo' = [todo EXCEPT ![p] = Tail(@)]
    /\ UNCHANGED <<store, store0, slogs, cap, local, needs, acc, doneSent, doneRecv, dedup, chan,
                   sent, events, nmut>>

G_BurstReadLog(p) == pc[p] = "Burst" /\ MayProceed(p) /\ outq[p] = <<>> /\ logsLeft[p] # <<>>
BurstReadLog(p) ==
    /\ G_BurstReadLog(p)
    /\ LET oq == EntriesOf(p, Head(logsLeft[p]))
       IN /\ outq' = [outq EXCEPT ![p] = oq]
          /\ logsLeft' = [logsLeft EXCEPT ![p] = Tail(@)]
          /\ AfterLog(p, oq, Tail(logsLeft[p]))
    /\ UNCHANGED <<store, store0, slogs, cap, local, needs, todo, acc, doneSent, doneRecv, dedup,
                   chan, sent, events, nmut>>

G_BurstSendOp(p) == pc[p] = "Burst" /\ MaySend(p) /\ outq[p] # <<>>
BurstSendOp(p) ==
    /\ G_BurstSendOp(p)
    /\ Put(p, OpMsg(Head(outq[p])))
    /\ dedup' = [dedup EXCEPT ![p] = @ \cup {Head(outq[p])}]          \* :402
    /\ outq' = [outq EXCEPT ![p] = Tail(@)]
    /\ AfterLog(p, Tail(outq[p]), logsLeft[p])
    /\ UNCHANGED <<store, store0, slogs, cap, local, needs, todo, acc, logsLeft, doneSent, doneRecv,
                   events, nmut>>

G_SendDone(p) == pc[p] = "SendDone" /\ MaySend(p)
SendDone(p) ==
    /\ G_SendDone(p)
    /\ Put(p, DoneMsg)
    /\ doneSent' = [doneSent EXCEPT ![p] = TRUE]
    /\ pc' = [pc EXCEPT ![p] = "Sync"]
    /\ UNCHANGED <<store, store0, slogs, cap, local, needs, todo, acc, logsLeft, outq, sendLogsLen,
                   doneRecv, dedup, events, nmut>>

(* select! else arm (log_sync.rs:421-429): reached when branch 1 is disabled (Done received, or *)
(* - before the fix - the stream yielded None) and branch 2 is disabled (no author left).  It   *)
(* breaks only if both Done flags are set; otherwise the loop runs again at once: a busy spin   *)
(* without an await ("Spin" is absorbing).                                                      *)
Branch1Disabled(p) == doneRecv[p] \/ (~Fix_StreamClosure /\ StreamEnded(p))

G_SyncElse(p) == pc[p] = "Sync" /\ MayProceed(p) /\ todo[p] = <<>> /\ Branch1Disabled(p)
SyncElse(p) ==
    /\ G_SyncElse(p)
    /\ pc' = [pc EXCEPT ![p] = IF doneRecv[p] /\ doneSent[p] THEN "End" ELSE "Spin"]
    /\ UNCHANGED <<store, store0, slogs, cap, local, needs, todo, acc, logsLeft, outq, sendLogsLen,
                   doneSent, doneRecv, dedup, chan, sent, events, nmut>>

(* the remote dropped its stream: the pending flush or the next send returns an error           *)
AtPutPoint(p) == \/ pc[p] \in {"SendHave", "SendPreSync"} /\ todo[p] = <<>>
                 \/ pc[p] = "Burst" /\ outq[p] # <<>>
                 \/ pc[p] = "SendDone"
G_SinkFail(p) ==
    /\ Active(p) /\ pc[p] # "Start"
    /\ Gone(Other(p))
    /\ ~Flushed(p) \/ AtPutPoint(p)
SinkFail(p) ==
    /\ G_SinkFail(p)
    /\ Fail(p) /\ UNCHANGED chan

PeerNext(p) ==
    \/ Start(p) \/ ReadHeights(p) \/ PutHave(p) \/ ReceiveHave(p)
    \/ ReadSize(p) \/ PutPreSync(p) \/ ReceivePreSyncOrDone(p)
    \/ SyncRecv(p) \/ SyncRecvClosed(p) \/ SyncNextAuthor(p) \/ BurstReadLog(p) \/ BurstSendOp(p)
    \/ SendDone(p) \/ SyncElse(p) \/ SinkFail(p)

---------------------------------------------------------------------------
(* Environment: another task changes the local store while the session runs *)

MutateStore(p, k, S) ==
    /\ nmut < MaxMut
    /\ Active(p) /\ pc[p] # "Start"
    /\ S # store[p][k]
    /\ store' = [store EXCEPT ![p][k] = S]
    /\ nmut' = nmut + 1
    /\ UNCHANGED <<store0, slogs, cap, pc, local, needs, todo, acc, logsLeft, outq, sendLogsLen,
                   doneSent, doneRecv, dedup, chan, sent, events>>

\* LogStore::prune_entries(author, log, n): DELETE ... WHERE seq_num < n
ConcurrentPrune(p, k, n) == "prune" \in MutKinds /\ MutateStore(p, k, {s \in store[p][k] : s >= n})
\* OperationStore::delete_operation(hash)
ConcurrentDelete(p, k, s) == "delete" \in MutKinds /\ s \in store[p][k] /\ MutateStore(p, k, store[p][k] \ {s})
\* another session ingests the next operation of the log
ConcurrentAppend(p, k) ==
    /\ "append" \in MutKinds
    /\ MaxOrNone(store[p][k]) < MaxSeq
    /\ MutateStore(p, k, store[p][k] \cup {MaxOrNone(store[p][k]) + 1})

Mutate == \E p \in Peer, k \in Key :
             \/ \E n \in 1..(MaxSeq + 1) : ConcurrentPrune(p, k, n)
             \/ \E s \in SeqNum : ConcurrentDelete(p, k, s)
             \/ ConcurrentAppend(p, k)

(* connection loss / crash of p: its sink and stream are dropped                                *)
Crash(p) ==
    /\ Faults
    /\ Active(p)
    /\ \A r \in Peer : pc[r] # "Crashed"
    /\ pc' = [pc EXCEPT ![p] = "Crashed"]
    /\ UNCHANGED <<store, store0, slogs, cap, local, needs, todo, acc, logsLeft, outq, sendLogsLen,
                   doneSent, doneRecv, dedup, chan, sent, events, nmut>>

AllDone == \A p \in Peer : pc[p] \in {"End", "Failed", "Crashed"}
BothEnd == \A p \in Peer : pc[p] = "End"
Terminated == AllDone /\ UNCHANGED vars

\* PeerNext(p) is enabled (every action is enabled exactly when its guard G_x holds; checked by
\* the invariant CanStepIsEnabled in MC_LogSync)
CanStep(p) ==
    \/ G_Start(p) \/ G_ReadHeights(p) \/ G_PutHave(p) \/ G_ReceiveHave(p)
    \/ G_ReadSize(p) \/ G_PutPreSync(p) \/ G_ReceivePreSyncOrDone(p)
    \/ G_SyncRecv(p) \/ G_SyncRecvClosed(p) \/ G_SyncNextAuthor(p) \/ G_BurstReadLog(p)
    \/ G_BurstSendOp(p) \/ G_SendDone(p) \/ G_SyncElse(p) \/ G_SinkFail(p)

PeersNext == \E p \in Peer : PeerNext(p)
Next == PeersNext \/ Mutate \/ (\E p \in Peer : Crash(p)) \/ Terminated

Spec == Init /\ [][Next]_vars
FairSpec == Spec /\ \A p \in Peer : WF_vars(PeerNext(p))

---------------------------------------------------------------------------
(* C19: exact delivery                                                     *)

Undisturbed == nmut = 0 /\ \A p \in Peer : pc[p] \notin {"Failed", "Crashed"}

\* height p announces for key k in its Have message (from the initial store)
Announced(p, k) == IF k \in slogs[p] THEN MaxOrNone(store0[p][k]) ELSE NoneH

\* what p must be given: the other side's stored operations of its session logs above p's height
Expected(p, k) ==
    IF k \in slogs[Other(p)]
    THEN AscSeq({s \in store0[Other(p)][k] : s > Announced(p, k)})
    ELSE <<>>

DeliveredOf(p, k) ==
    LET es == SelectSeq(events[p], LAMBDA o : o[1] = k[1] /\ o[2] = k[2])
    IN [i \in 1..Len(es) |-> es[i][3]]

IsPrefix(s, t) == Len(s) <= Len(t) /\ \A i \in 1..Len(s) : s[i] = t[i]

\* at every moment: per log, what was emitted is an initial piece of what must be emitted
\* (each once, in log order, nothing else)
C19_DeliveredPrefix ==
    Undisturbed => \A p \in Peer, k \in Key : IsPrefix(DeliveredOf(p, k), Expected(p, k))

\* a completed session has emitted all of it
C19_ExactDelivery ==
    (Undisturbed /\ BothEnd) => \A p \in Peer, k \in Key : DeliveredOf(p, k) = Expected(p, k)

HeightAfter(p, k) == MaxOrNone(store0[p][k] \cup Range(DeliveredOf(p, k)))

C19_HeightsEqualAfterIngest ==
    (Undisturbed /\ BothEnd) =>
        \A k \in slogs["A"] \cap slogs["B"] : HeightAfter("A", k) = HeightAfter("B", k)

---------------------------------------------------------------------------
(* C20: message grammar  Have (Done | PreSync Op* Done), also under Mutate  *)

CountDone(s) == Cardinality({i \in 1..Len(s) : s[i].t = "Done"})

C20_DoneOnce == \A p \in Peer : CountDone(sent[p]) <= 1

C20_NothingAfterDone ==
    \A p \in Peer : \A i \in 1..Len(sent[p]) : sent[p][i].t = "Done" => i = Len(sent[p])

C20_Grammar ==
    \A p \in Peer :
        LET s == sent[p] IN
        /\ Len(s) >= 1 => s[1].t = "Have"
        /\ Len(s) >= 2 => s[2].t \in {"PreSync", "Done"}
        /\ \A i \in 3..Len(s) : s[2].t = "PreSync" /\ s[i].t \in {"Op", "Done"}

C20_DoneAtEnd == \A p \in Peer : pc[p] = "End" => (sent[p] # <<>> /\ Last(sent[p]).t = "Done")

\* nothing is left in the transport for a following live-mode phase
C20_NoStrayMessage == BothEnd => \A p \in Peer : chan[p] = <<>>

---------------------------------------------------------------------------
(* C21: termination                                                        *)

Spinning == \E p \in Peer : pc[p] = "Spin"
\* no session can take a step although one is unfinished (a spinning session is reported by NoSpin)
Stuck == ~AllDone /\ ~Spinning /\ \A p \in Peer : ~CanStep(p)

BlockedInSend(p) == Active(p) /\ ~Flushed(p)

\* both peers wait inside a Sync send burst for a flush that needs the other side to read
SendBurstDeadlock == \A p \in Peer : BlockedInSend(p) /\ InSyncHandler(p)
\* rendezvous transport: both peers wait in sink.send(Have)
HandshakeDeadlock == cap = 0 /\ \A p \in Peer : BlockedInSend(p) /\ pc[p] = "ReceiveHave"

C21_NoSendBurstDeadlock == ~(Stuck /\ SendBurstDeadlock)
C21_NoHandshakeDeadlock == ~(Stuck /\ HandshakeDeadlock)
C21_NoOtherStuck == Stuck => (SendBurstDeadlock \/ HandshakeDeadlock)
C21_NoSpin == \A p \in Peer : pc[p] # "Spin"
C21_NeverStuck == ~Stuck
C21_Terminates == <>AllDone

---------------------------------------------------------------------------
TypeOK ==
    /\ \A p \in Peer : pc[p] \in {"Start", "SendHave", "ReceiveHave", "SendPreSync",
                                  "ReceivePreSyncOrDone", "Sync", "Burst", "SendDone",
                                  "End", "Failed", "Crashed", "Spin"}
    /\ \A p \in Peer : \A k \in Key : store[p][k] \subseteq SeqNum
    /\ \A p \in Peer : DOMAIN needs[p] \subseteq Key /\ DOMAIN local[p] \subseteq Key
    /\ \A p \in Peer : sendLogsLen[p] >= 0 /\ acc[p] >= 0
    /\ nmut \in 0..MaxMut
    /\ cap \in Caps
===========================================================================
