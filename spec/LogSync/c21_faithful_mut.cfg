SPECIFICATION MCSpec
CONSTANTS
  NAuthor = 2
  NLog = 1
  MaxSeq = 1
  Caps = {0, 1, 2, 3, 99}
  StoreChoices <- EmptyOrFull
  LogsChoices <- LogsAll
  MaxMut = 1
  MutKinds = {"prune", "delete"}
  Faults = TRUE
  Defect_SendBlocksRecv = TRUE
  Fix_DoneOnce = TRUE
  Fix_StreamClosure = TRUE
INVARIANTS
  TypeOK
  C21_NoSpin
  C21_NoOtherStuck
CHECK_DEADLOCK FALSE
