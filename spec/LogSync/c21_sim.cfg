SPECIFICATION GenAllSpec
CONSTANTS
  NAuthor = 2
  NLog = 2
  MaxSeq = 2
  Caps = {1, 2, 3, 99}
  StoreChoices <- TwoLogs
  LogsChoices <- LogsAll
  MaxMut = 1
  MutKinds = {"prune", "delete"}
  Faults = TRUE
  Defect_SendBlocksRecv = TRUE
  Fix_DoneOnce = TRUE
  Fix_StreamClosure = TRUE
INVARIANTS
  Export
CHECK_DEADLOCK FALSE
