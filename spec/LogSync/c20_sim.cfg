SPECIFICATION GenAllSpec
CONSTANTS
  NAuthor = 2
  NLog = 2
  MaxSeq = 2
  Caps = {99, 3}
  StoreChoices <- TwoLogs
  LogsChoices <- LogsAll
  MaxMut = 2
  MutKinds = {"prune", "delete", "append"}
  Faults = FALSE
  Defect_SendBlocksRecv = TRUE
  Fix_DoneOnce = TRUE
  Fix_StreamClosure = TRUE
INVARIANTS
  Export
CHECK_DEADLOCK FALSE
