SPECIFICATION MCSpec
CONSTANTS
  NAuthor = 2
  NLog = 1
  MaxSeq = 1
  Caps = {99}
  StoreChoices <- AllPrefixes
  LogsChoices <- LogsAll
  MaxMut = 1
  MutKinds = {"prune", "delete", "append"}
  Faults = FALSE
  Defect_SendBlocksRecv = TRUE
  Fix_DoneOnce = FALSE
  Fix_StreamClosure = TRUE
INVARIANTS
  TypeOK
  C20_DoneOnce
  C20_NothingAfterDone
  C20_Grammar
  C20_DoneAtEnd
  C20_NoStrayMessage
CHECK_DEADLOCK FALSE
