SPECIFICATION MCSpec
CONSTANTS
  Topics = {"t1", "t2", "t3"}
  MaxFaults = 3
INVARIANTS
  C25_HonestRunCompletes
  C25_NoWrongTopic
  C25_OutputOnlyWhenOk
  C25_FaultGivesError
  C25_NoHang
  X_EventsWellFormed
VIEW NoHistView
CHECK_DEADLOCK FALSE
