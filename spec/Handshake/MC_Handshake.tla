-------------------------- MODULE MC_Handshake --------------------------
(* Bounded instance of Handshake for TLC + JSON export of every schedule  *)
(* (party polls interleaved with adversary actions) up to quiescence.     *)
EXTENDS Handshake, TLC, Json

VARIABLES hist
mcvars == <<ini, acc, flight, cut, faults, hist>>

\* what the harness compares after every step, for both processes
ObsP(p) == [res |-> p.res, out |-> p.out, sent |-> p.sent, ev |-> p.ev]
Obs == [i |-> ObsP(ini'), a |-> ObsP(acc')]
Step(name, d, m) == hist' = Append(hist, [act |-> name, d |-> d, m |-> m, obs |-> Obs])

MCInit == Init /\ hist = <<>>

MCRunInitiator == RunInitiator /\ Step("RunI", "-", DoneMsg)
MCRunAcceptor  == RunAcceptor  /\ Step("RunA", "-", DoneMsg)
MCDeliverD(d)    == Deliver(d)  /\ Step("Deliver", d, Head(flight[d]))
MCTruncateD(d)   == Truncate(d) /\ Step("Truncate", d, DoneMsg)
MCTeardownD(d)   == Teardown(d) /\ Step("Teardown", d, DoneMsg)
MCSubstituteDM(d, m) == Substitute(d, m) /\ Step("Substitute", d, m)
MCSubstituteD(d) == \E m \in Msgs : MCSubstituteDM(d, m)
MCDeliver      == \E d \in Dirs : MCDeliverD(d)
MCTruncate     == \E d \in Dirs : MCTruncateD(d)
MCTeardown     == \E d \in Dirs : MCTeardownD(d)
MCSubstitute   == \E d \in Dirs : MCSubstituteD(d)
MCNetProgress(d) == MCDeliverD(d) \/ MCTruncateD(d) \/ MCTeardownD(d) \/ MCSubstituteD(d)

MCNext == MCRunInitiator \/ MCRunAcceptor \/ MCDeliver \/ MCTruncate \/ MCTeardown \/ MCSubstitute
MCTerminated == AllFinished /\ UNCHANGED mcvars
MCSpec == MCInit /\ [][MCNext \/ MCTerminated]_mcvars
MCFairSpec ==
    /\ MCSpec
    /\ WF_mcvars(MCRunInitiator) /\ WF_mcvars(MCRunAcceptor)
    /\ \A d \in Dirs : WF_mcvars(MCNetProgress(d))

NoHistView == <<ini, acc, flight, cut, faults>>

C25_HonestRunCompletes == HonestRunCompletes
C25_NoWrongTopic == NoWrongTopic
C25_OutputOnlyWhenOk == OutputOnlyWhenOk
C25_FaultGivesError == FaultGivesError
C25_NoHang == NoHang
C25_EventuallyFinished == EventuallyFinished
X_EventsWellFormed == EventsWellFormed

Export ==
    Quiescent => PrintT(<<"REPLAY", ToJson([kind |-> "handshake", topic |-> ini.topic,
                                             failI |-> ini.failAt, failA |-> acc.failAt,
                                             steps |-> hist])>>)
===========================================================================
