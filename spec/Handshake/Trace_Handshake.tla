------------------------- MODULE Trace_Handshake -------------------------
(* Trace validation: schedules recorded from the real handshake parties    *)
(* (harness `vh-topicsync handshake record`) must be behaviours of         *)
(* Handshake, with the C25 invariants evaluated at every step.             *)
EXTENDS Handshake, TLC, Json, IOUtils

Rec == ndJsonDeserialize(IOEnv.TRACE)

VARIABLE i
tvars == <<ini, acc, flight, cut, faults, i>>

Ev == Rec[i]

\* the implementation's observables after the step = the spec's state after the action
\* (events are logged but not bound: they are not part of C25's statement)
SameP(p, o) == p.res = o.res /\ p.out = o.out /\ p.sent = o.sent
SameObs == SameP(ini', Ev.i) /\ SameP(acc', Ev.a)

StepReset ==
    /\ Ev.ev = "Reset"
    /\ ini' = Proc("EvInitiate", Ev.topic, Ev.failI)
    /\ acc' = Proc("EvAccept", NoTopic, Ev.failA)
    /\ faults' = (IF Ev.failI # 0 THEN 1 ELSE 0) + (IF Ev.failA # 0 THEN 1 ELSE 0)
    /\ flight' = [d \in Dirs |-> <<>>]
    /\ cut' = [d \in Dirs |-> FALSE]

StepRunI == Ev.ev = "RunI" /\ RunInitiator /\ SameObs
StepRunA == Ev.ev = "RunA" /\ RunAcceptor /\ SameObs
StepDeliver == Ev.ev = "Deliver" /\ Deliver(Ev.d) /\ Head(flight[Ev.d]) = Ev.m /\ SameObs
StepSubstitute == Ev.ev = "Substitute" /\ Substitute(Ev.d, Ev.m) /\ SameObs
StepTruncate == Ev.ev = "Truncate" /\ Truncate(Ev.d) /\ SameObs
StepTeardown == Ev.ev = "Teardown" /\ Teardown(Ev.d) /\ SameObs

TraceInit ==
    /\ ini = Proc("EvInitiate", "t0", 0) /\ acc = Proc("EvAccept", NoTopic, 0)
    /\ faults = 0
    /\ flight = [d \in Dirs |-> <<>>] /\ cut = [d \in Dirs |-> FALSE]
    /\ i = 1
TraceNext ==
    /\ i <= Len(Rec)
    /\ i' = i + 1
    /\ (StepReset \/ StepRunI \/ StepRunA \/ StepDeliver \/ StepSubstitute \/ StepTruncate \/ StepTeardown)
TraceSpec == TraceInit /\ [][TraceNext]_tvars

C25_NoWrongTopic == NoWrongTopic
C25_OutputOnlyWhenOk == OutputOnlyWhenOk
C25_FaultGivesError == FaultGivesError
\* the recorder stops a run only when no action of the spec is enabled any more: the state
\* before every Reset (and the last state) is quiescent and must have both parties finished
C25_NoHangAtEndOfRun ==
    (i > Len(Rec) \/ (i > 1 /\ i <= Len(Rec) /\ Rec[i].ev = "Reset")) => (Quiescent => AllFinished)
\* an untampered, failure-free run completes with the initiator's topic
C25_HonestRunCompletes == HonestRunCompletes

TraceAccepted ==
    LET d == TLCGet("stats").diameter IN
    IF d - 1 = Len(Rec) THEN TRUE
    ELSE Print(<<"TRACE_REJECTED", d - 1, Len(Rec), ToJson(Rec[d])>>, FALSE)
===========================================================================
