---------------------------- MODULE Handshake ----------------------------
(***************************************************************************)
(* Two-party topic handshake of p2panda-sync (C25).                        *)
(*                                                                         *)
(*   p2panda-sync/src/protocols/topic_handshake.rs                         *)
(*     TopicHandshakeInitiator::run   :41-83   -> record `ini`, MicroI     *)
(*     TopicHandshakeAcceptor::run    :116-160 -> record `acc`, MicroA     *)
(*                                                                         *)
(* Each party is a sequential process; one *micro step* per await point    *)
(* of `run` (MicroI / MicroA, the `pc` values name the awaits).  A party   *)
(* is scheduled by `Run(p)`: it executes micro steps until it blocks on an *)
(* empty, still open inbound stream or returns - exactly what one poll of  *)
(* the real future does when sink, stream and event channel never return   *)
(* Pending on their own.                                                   *)
(*                                                                         *)
(* The two directions of the connection ("ia": initiator -> acceptor,      *)
(* "ai": acceptor -> initiator) are under the control of an adversary that *)
(* may deliver the next message in flight, substitute it by any other      *)
(* message (including an undecodable one, "Bad"), or truncate the          *)
(* direction (everything in flight and everything sent later is lost, the  *)
(* receiver's stream ends).  Independently the k-th operation on a party's *)
(* sink (send / flush) may fail.                                           *)
(*                                                                         *)
(* Environment assumption (Teardown): when a party's `run` has returned    *)
(* (Ok or Err) its caller drops the connection, so the other side's        *)
(* inbound stream ends once the messages still in flight were delivered.   *)
(* The event channel has room and a live receiver.                         *)
(***************************************************************************)
EXTENDS Integers, Sequences, FiniteSets

CONSTANTS Topics,       \* topic names
          MaxFaults     \* adversary budget per behaviour

NoTopic == "-"
DoneMsg == [k |-> "Done", t |-> NoTopic]
TopicMsg(t) == [k |-> "Topic", t |-> t]
BadMsg == [k |-> "Bad", t |-> NoTopic]          \* the stream yields Err(_) (undecodable frame)
Msgs == {DoneMsg, BadMsg} \cup {TopicMsg(t) : t \in Topics}

Dirs == {"ia", "ai"}

VARIABLES ini,      \* initiator process
          acc,      \* acceptor process
          flight,   \* [Dirs -> Seq(Msgs)]  written to the sender's sink, not yet delivered
          cut,      \* [Dirs -> BOOLEAN]    direction truncated by the adversary
          faults    \* faults injected so far (incl. a configured sink failure)

vars == <<ini, acc, flight, cut, faults>>

(* A process record:
     pc      next await point
     topic   initiator: its topic; acceptor: the topic it received ("-" before)
     inbox   messages delivered to its stream, not yet consumed
     eos     its stream ends after `inbox`
     sinkOps operations performed on its sink so far (send, flush)
     failAt  the sink operation that fails (0 = none)
     res     "run" | "ok" | "err"
     out     Protocol::Output of the acceptor ("-" otherwise)
     sent    everything it wrote to its sink (history)
     ev      events it emitted (history)
     got     messages it consumed (history)
     sawEos, sinkFailed   what went wrong from its point of view (history)          *)

Proc(pc, topic, failAt) ==
    [pc |-> pc, topic |-> topic, inbox |-> <<>>, eos |-> FALSE, sinkOps |-> 0, failAt |-> failAt,
     res |-> "run", out |-> NoTopic, sent |-> <<>>, ev |-> <<>>, got |-> <<>>,
     sawEos |-> FALSE, sinkFailed |-> FALSE]

RecvPcs == {"RecvDone", "RecvTopic"}

Blocked(p) == p.res = "run" /\ p.pc \in RecvPcs /\ p.inbox = <<>> /\ ~p.eos
Runnable(p) == p.res = "run" /\ ~Blocked(p)

---------------------------------------------------------------------------
(* building blocks: one await each                                         *)

Fail(p) == [p EXCEPT !.res = "err", !.pc = "End"]

\* self.event_tx.send(e).await?
Emit(p, e, next) == [p EXCEPT !.ev = Append(@, e), !.pc = next]

\* sink.send(m).await.map_err(..)?
Send(p, m, next) ==
    IF p.sinkOps + 1 = p.failAt
    THEN [Fail(p) EXCEPT !.sinkOps = @ + 1, !.sinkFailed = TRUE]
    ELSE [p EXCEPT !.sinkOps = @ + 1, !.sent = Append(@, m), !.pc = next]

\* sink.flush().await.map_err(..)?  followed by  self.event_tx.flush().await?  and the return
Flush(p, out) ==
    IF p.sinkOps + 1 = p.failAt
    THEN [Fail(p) EXCEPT !.sinkOps = @ + 1, !.sinkFailed = TRUE]
    ELSE [p EXCEPT !.sinkOps = @ + 1, !.res = "ok", !.out = out, !.pc = "End"]

\* let Some(message) = stream.next().await else { return Err(UnexpectedStreamClosure) };
\* let message = message.map_err(..)?;
\* let <pattern> = message else { return Err(UnexpectedMessage) };
\* (only called when the process is not blocked: inbox non-empty or eos)
Recv(p, kind, next) ==
    IF p.inbox = <<>>
    THEN [Fail(p) EXCEPT !.sawEos = TRUE]
    ELSE LET m == Head(p.inbox)
             q == [p EXCEPT !.inbox = Tail(@), !.got = Append(@, m)]
         IN IF m.k = kind
            THEN [q EXCEPT !.pc = next, !.topic = IF kind = "Topic" THEN m.t ELSE @]
            ELSE Fail(q)

---------------------------------------------------------------------------
(* topic_handshake.rs:41-83                                                *)
MicroI(p) ==
    CASE p.pc = "EvInitiate" -> Emit(p, [e |-> "Initiate", t |-> p.topic], "SendTopic")     \* :46-49
      [] p.pc = "SendTopic"  -> Send(p, TopicMsg(p.topic), "RecvDone")                       \* :52-54
      [] p.pc = "RecvDone"   -> Recv(p, "Done", "SendDone")                                  \* :57-64
      [] p.pc = "SendDone"   -> Send(p, DoneMsg, "EvDone")                                   \* :67-69
      [] p.pc = "EvDone"     -> Emit(p, [e |-> "Done", t |-> p.topic], "Flush")              \* :72-74
      [] p.pc = "Flush"      -> Flush(p, NoTopic)                                            \* :76-81

(* topic_handshake.rs:116-160                                              *)
MicroA(p) ==
    CASE p.pc = "EvAccept"        -> Emit(p, [e |-> "Accept", t |-> NoTopic], "RecvTopic")         \* :121-124
      [] p.pc = "RecvTopic"       -> Recv(p, "Topic", "EvTopicReceived")                           \* :127-134
      [] p.pc = "EvTopicReceived" -> Emit(p, [e |-> "TopicReceived", t |-> p.topic], "SendDone")   \* :137-139
      [] p.pc = "SendDone"        -> Send(p, DoneMsg, "RecvDone")                                  \* :142-144
      [] p.pc = "RecvDone"        -> Recv(p, "Done", "EvDone")                                     \* :147-154
      [] p.pc = "EvDone"          -> Emit(p, [e |-> "Done", t |-> p.topic], "Flush")               \* :157-159
      [] p.pc = "Flush"           -> Flush(p, p.topic)                                             \* :161-166

RECURSIVE RunI(_), RunA(_)
RunI(p) == IF Runnable(p) THEN RunI(MicroI(p)) ELSE p
RunA(p) == IF Runnable(p) THEN RunA(MicroA(p)) ELSE p

\* the suffix of `after.sent` that is new with respect to `before.sent`
NewlySent(before, after) == SubSeq(after.sent, Len(before.sent) + 1, Len(after.sent))

---------------------------------------------------------------------------
Init ==
    /\ \E t \in Topics, fi \in 0..3, fa \in 0..2 :
          /\ (fi # 0 /\ fa # 0) => MaxFaults >= 2
          /\ (fi # 0 \/ fa # 0) => MaxFaults >= 1
          /\ ini = Proc("EvInitiate", t, fi)
          /\ acc = Proc("EvAccept", NoTopic, fa)
          /\ faults = (IF fi # 0 THEN 1 ELSE 0) + (IF fa # 0 THEN 1 ELSE 0)
    /\ flight = [d \in Dirs |-> <<>>]
    /\ cut = [d \in Dirs |-> FALSE]

\* one poll of the initiator's / acceptor's future
RunInitiator ==
    /\ Runnable(ini)
    /\ LET p == RunI(ini) IN
          /\ ini' = p
          /\ flight' = [flight EXCEPT !["ia"] = IF cut["ia"] THEN <<>> ELSE @ \o NewlySent(ini, p)]
    /\ UNCHANGED <<acc, cut, faults>>

RunAcceptor ==
    /\ Runnable(acc)
    /\ LET p == RunA(acc) IN
          /\ acc' = p
          /\ flight' = [flight EXCEPT !["ai"] = IF cut["ai"] THEN <<>> ELSE @ \o NewlySent(acc, p)]
    /\ UNCHANGED <<ini, cut, faults>>

\* the receiving process of a direction, with message m appended to its inbox / its stream ended
GiveTo(d, m) ==
    IF d = "ia" THEN /\ acc' = [acc EXCEPT !.inbox = Append(@, m)] /\ UNCHANGED ini
                ELSE /\ ini' = [ini EXCEPT !.inbox = Append(@, m)] /\ UNCHANGED acc
EndStream(d) ==
    IF d = "ia" THEN /\ acc' = [acc EXCEPT !.eos = TRUE] /\ UNCHANGED ini
                ELSE /\ ini' = [ini EXCEPT !.eos = TRUE] /\ UNCHANGED acc
Sender(d) == IF d = "ia" THEN ini ELSE acc
Receiver(d) == IF d = "ia" THEN acc ELSE ini

Deliver(d) ==
    /\ flight[d] # <<>>
    /\ GiveTo(d, Head(flight[d]))
    /\ flight' = [flight EXCEPT ![d] = Tail(@)]
    /\ UNCHANGED <<cut, faults>>

Substitute(d, m) ==
    /\ flight[d] # <<>> /\ faults < MaxFaults
    /\ m # Head(flight[d])
    /\ GiveTo(d, m)
    /\ flight' = [flight EXCEPT ![d] = Tail(@)]
    /\ faults' = faults + 1
    /\ UNCHANGED cut

Truncate(d) ==
    /\ ~cut[d] /\ ~Receiver(d).eos /\ faults < MaxFaults
    /\ cut' = [cut EXCEPT ![d] = TRUE]
    /\ flight' = [flight EXCEPT ![d] = <<>>]
    /\ EndStream(d)
    /\ faults' = faults + 1

\* the sender's `run` returned: the connection is dropped after the data in flight
Teardown(d) ==
    /\ Sender(d).res # "run" /\ flight[d] = <<>> /\ ~Receiver(d).eos
    /\ EndStream(d)
    /\ UNCHANGED <<flight, cut, faults>>

Next ==
    \/ RunInitiator \/ RunAcceptor
    \/ \E d \in Dirs : \/ Deliver(d) \/ Truncate(d) \/ Teardown(d)
                       \/ \E m \in Msgs : Substitute(d, m)

AllFinished == ini.res # "run" /\ acc.res # "run"
Terminated == AllFinished /\ UNCHANGED vars

Spec == Init /\ [][Next \/ Terminated]_vars

\* the network makes progress on every message in flight, closed connections are noticed,
\* runnable processes are polled
NetProgress(d) == Deliver(d) \/ Truncate(d) \/ Teardown(d) \/ \E m \in Msgs : Substitute(d, m)
FairSpec ==
    /\ Spec
    /\ WF_vars(RunInitiator) /\ WF_vars(RunAcceptor)
    /\ \A d \in Dirs : WF_vars(NetProgress(d))

---------------------------------------------------------------------------
(* C25                                                                     *)

\* from p's point of view the peer misbehaved / the stream closed / its sink failed
Deviates(p, expected) ==
    \/ \E k \in 1..Len(p.got) : k > Len(expected) \/ p.got[k].k # expected[k]
    \/ p.sawEos
    \/ p.sinkFailed

NoFault == faults = 0

\* nothing can happen any more (no message in flight, nobody runnable, connections torn down)
Quiescent == ~ENABLED Next

\* (a) honest run: both complete, the acceptor outputs exactly the initiator's topic
HonestRunCompletes ==
    (NoFault /\ Quiescent) => /\ ini.res = "ok" /\ acc.res = "ok"
                              /\ acc.out = ini.topic

\* (b) the acceptor never outputs a topic other than the one carried by the Topic message it
\*     was given first (with an untampered "ia" direction: the initiator's topic)
NoWrongTopic ==
    acc.res = "ok" => /\ Len(acc.got) >= 1 /\ acc.got[1].k = "Topic" /\ acc.out = acc.got[1].t
                      /\ (ini.sent # <<>> /\ acc.got[1] = ini.sent[1] => acc.out = ini.topic)
OutputOnlyWhenOk ==
    /\ acc.res # "ok" => acc.out = NoTopic
    /\ ini.out = NoTopic

\* (c) the affected side returns an error (and only an affected side does)
FaultGivesError ==
    /\ ini.res = "ok"  => ~Deviates(ini, <<"Done">>)
    /\ acc.res = "ok"  => ~Deviates(acc, <<"Topic", "Done">>)
    /\ ini.res = "err" => Deviates(ini, <<"Done">>)
    /\ acc.res = "err" => Deviates(acc, <<"Topic", "Done">>)

\* (d) nobody hangs: when nothing can happen any more, both `run`s have returned
NoHang == Quiescent => AllFinished
EventuallyFinished == <>AllFinished

\* events follow the documented order (beyond C25's statement; checked because it is cheap)
EventsWellFormed ==
    /\ ini.res = "ok" => ini.ev = <<[e |-> "Initiate", t |-> ini.topic], [e |-> "Done", t |-> ini.topic]>>
    /\ acc.res = "ok" => acc.ev = <<[e |-> "Accept", t |-> NoTopic], [e |-> "TopicReceived", t |-> acc.out],
                                    [e |-> "Done", t |-> acc.out]>>

\* "branch reached" predicates (vacuity): negate as invariants by hand to see them violated
ReachedAcceptorWrongKind == acc.res = "err" /\ Len(acc.got) >= 1 /\ acc.got[1].k = "Done"
ReachedInitiatorEos == ini.res = "err" /\ ini.sawEos
===========================================================================
