SPECIFICATION TraceSpec
CONSTANTS
  Topics = {"t0", "t1", "t2", "t3", "t4", "t5", "t6", "t7", "t8", "t9"}
  MaxFaults = 1000000
INVARIANTS
  C25_NoWrongTopic
  C25_OutputOnlyWhenOk
  C25_FaultGivesError
  C25_NoHangAtEndOfRun
  C25_HonestRunCompletes
POSTCONDITION TraceAccepted
CHECK_DEADLOCK FALSE
