SPECIFICATION MCSpec
CONSTANTS
  Topics = {"t1", "t2", "t3"}
  MaxFaults = 2
INVARIANTS
  Export
CHECK_DEADLOCK FALSE
