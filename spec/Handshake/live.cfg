SPECIFICATION MCFairSpec
CONSTANTS
  Topics = {"t1", "t2"}
  MaxFaults = 1
PROPERTIES
  C25_EventuallyFinished
VIEW NoHistView
CHECK_DEADLOCK FALSE
