SPECIFICATION MCSpec
CONSTANTS
  Member = {"m1"}
  Start = 2
  Bounds = {1, 2, 3, 4}
  MaxBundles = 2
  MaxGets = 2
  MaxTicks = 2
  TickLen = 1
  UseShapes = FALSE
INVARIANTS
  C38_NeverAcceptsInvalid
  C38_AcceptsValid
  C38_NeverReturnsInvalid
  C38_StoredSigned
  LongTermLatest
VIEW NoHistView
CHECK_DEADLOCK FALSE
