------------------------- MODULE Trace_KeyRegistry -------------------------
(* Trace validation: calls recorded from the real KeyRegistry (harness       *)
(* `vh-enc keyregistry record`, lifetimes laid around the real clock, ticks  *)
(* = real sleeps) must be behaviours of KeyRegistry.  Times are spec times   *)
(* (the harness's affine image of real seconds).                             *)
EXTENDS KeyRegistry, TLC, Json, IOUtils

Rec == ndJsonDeserialize(IOEnv.TRACE)

VARIABLE i
tvars == <<now, ot, lt, res, i>>

Ev == Rec[i]

StepReset ==
    /\ Ev.ev = "Reset"
    /\ now' = Start /\ ot' = [m \in Member |-> <<>>] /\ lt' = [m \in Member |-> <<>>] /\ res' = NoRes

Lens == Len(ot'[Ev.m]) = Ev.ot_len /\ Len(lt'[Ev.m]) = Ev.lt_len

StepAddOneTime == Ev.ev = "AddOneTime" /\ AddOneTime(Ev.m, Ev.b) /\ res'.ok = Ev.ok /\ Lens
StepAddLongTerm == Ev.ev = "AddLongTerm" /\ AddLongTerm(Ev.m, Ev.b) /\ res'.ok = Ev.ok /\ Lens
\* the bundle handed out (NoB = none) is the one the spec hands out, and its own verify() passed
StepGetOneTime == Ev.ev = "GetOneTime" /\ GetOneTime(Ev.m) /\ res'.b = Ev.b /\ Ev.verifies /\ Lens
StepGetLongTerm == Ev.ev = "GetLongTerm" /\ GetLongTerm(Ev.m) /\ res'.ok = Ev.ok /\ res'.b = Ev.b /\ Ev.verifies /\ Lens
StepRemoveExpired == Ev.ev = "RemoveExpired" /\ RemoveExpired
StepTick == Ev.ev = "Tick" /\ Tick(Ev.d)

TraceInit == Init /\ i = 1
TraceNext ==
    /\ i <= Len(Rec)
    /\ i' = i + 1
    /\ (StepReset \/ StepAddOneTime \/ StepAddLongTerm \/ StepGetOneTime \/ StepGetLongTerm \/ StepRemoveExpired \/ StepTick)
TraceSpec == TraceInit /\ [][TraceNext]_tvars

C38_NeverAcceptsInvalid == NeverAcceptsInvalid
C38_AcceptsValid == AcceptsValid
C38_NeverReturnsInvalid == NeverReturnsInvalid
C38_StoredSigned == StoredSigned
LongTermLatest == LongTermIsLatest

TraceAccepted ==
    LET d == TLCGet("stats").diameter IN
    IF d - 1 = Len(Rec) THEN TRUE
    ELSE Print(<<"TRACE_REJECTED", d - 1, Len(Rec), ToJson(Rec[d])>>, FALSE)
===========================================================================
