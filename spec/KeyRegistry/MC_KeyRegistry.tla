--------------------------- MODULE MC_KeyRegistry ---------------------------
(* Bounded instance of KeyRegistry for TLC + JSON export of behaviours.     *)
EXTENDS KeyRegistry, TLC, Json

CONSTANTS Bounds,      \* values of not_before / not_after
          MaxBundles,  \* add calls per behaviour
          MaxGets,     \* get / remove_expired calls per behaviour
          MaxTicks,    \* clock steps per behaviour
          TickLen,     \* length of a clock step
          UseShapes    \* TRUE: bundles from Shapes (export configs), FALSE: all of Bounds x Bounds x BOOLEAN

VARIABLES adds, gets, ticks, hist
mcvars == <<now, ot, lt, res, adds, gets, ticks, hist>>

AllBundles == {[nb |-> x, na |-> y, sig |-> s] : x \in Bounds, y \in Bounds, s \in BOOLEAN}
\* the shapes that matter around Start (= S): bounds are odd, the clock is even
B(x, y, s) == [nb |-> Start + x, na |-> Start + y, sig |-> s]
Shapes == {B(-1, 1, TRUE),      \* valid now, expired after one tick
           B(-1, 3, TRUE),      \* valid now, expired after two ticks
           B(-1, 7, TRUE),      \* valid throughout
           B(1, 7, TRUE),       \* not yet valid now, valid after one tick
           B(-1, 1, FALSE),     \* lifetime fine, signature bad
           B(-1, 7, FALSE),
           B(3, 1, TRUE)}       \* never valid
Bundles == IF UseShapes THEN Shapes ELSE AllBundles

MCInit == Init /\ adds = 0 /\ gets = 0 /\ ticks = 0 /\ hist = <<>>

Log(e) == hist' = Append(hist, e @@ [now |-> now, ok |-> res'.ok, b |-> res'.b])

DoAddOneTime ==
    /\ adds < MaxBundles
    /\ \E m \in Member, b \in Bundles : AddOneTime(m, b) /\ Log([op |-> "add_onetime", m |-> m, arg |-> b])
    /\ adds' = adds + 1 /\ UNCHANGED <<gets, ticks>>
DoAddLongTerm ==
    /\ adds < MaxBundles
    /\ \E m \in Member, b \in Bundles : AddLongTerm(m, b) /\ Log([op |-> "add_longterm", m |-> m, arg |-> b])
    /\ adds' = adds + 1 /\ UNCHANGED <<gets, ticks>>
DoGetOneTime ==
    /\ gets < MaxGets
    /\ \E m \in Member : GetOneTime(m) /\ Log([op |-> "get_onetime", m |-> m, arg |-> NoB])
    /\ gets' = gets + 1 /\ UNCHANGED <<adds, ticks>>
DoGetLongTerm ==
    /\ gets < MaxGets
    /\ \E m \in Member : GetLongTerm(m) /\ Log([op |-> "get_longterm", m |-> m, arg |-> NoB])
    /\ gets' = gets + 1 /\ UNCHANGED <<adds, ticks>>
DoRemoveExpired ==
    /\ gets < MaxGets
    /\ RemoveExpired /\ Log([op |-> "remove_expired", m |-> "", arg |-> NoB])
    /\ gets' = gets + 1 /\ UNCHANGED <<adds, ticks>>
DoTick ==
    /\ ticks < MaxTicks
    /\ Tick(TickLen)
    /\ hist' = Append(hist, [op |-> "tick", m |-> "", arg |-> NoB, now |-> now, ok |-> TRUE, b |-> NoB])
    /\ ticks' = ticks + 1 /\ UNCHANGED <<adds, gets>>

MCNext == DoAddOneTime \/ DoAddLongTerm \/ DoGetOneTime \/ DoGetLongTerm \/ DoRemoveExpired \/ DoTick
MCSpec == MCInit /\ [][MCNext]_mcvars

NoHistView == <<now, ot, lt, res, adds, gets, ticks>>

C38_NeverAcceptsInvalid == NeverAcceptsInvalid
C38_AcceptsValid == AcceptsValid
C38_NeverReturnsInvalid == NeverReturnsInvalid
C38_StoredSigned == StoredSigned
LongTermLatest == LongTermIsLatest

\* vacuity: a bundle that was valid when added and is expired now is still stored (the interesting state)
ExpiredStored == \E m \in Member : \E k \in 1..Len(ot[m]) : ~Valid(ot[m][k], now)

Done == adds = MaxBundles /\ gets = MaxGets /\ ticks = MaxTicks
Export == Done => PrintT(<<"REPLAY", ToJson([kind |-> "registry", start |-> Start, tick |-> TickLen, steps |-> hist])>>)
=============================================================================
