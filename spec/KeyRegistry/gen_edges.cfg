SPECIFICATION MCSpec
CONSTANTS
  Member = {"m1"}
  Start = 2
  Bounds = {1, 2, 3, 4}
  MaxBundles = 1
  MaxGets = 1
  MaxTicks = 1
  TickLen = 1
  UseShapes = FALSE
INVARIANTS
  Export
CHECK_DEADLOCK FALSE
