SPECIFICATION MCSpec
CONSTANTS
  Member = {"m1", "m2"}
  Start = 2
  Bounds = {1, 3, 5, 7}
  MaxBundles = 3
  MaxGets = 3
  MaxTicks = 2
  TickLen = 2
  UseShapes = TRUE
INVARIANTS
  C38_NeverAcceptsInvalid
  C38_AcceptsValid
  C38_NeverReturnsInvalid
  C38_StoredSigned
  LongTermLatest
VIEW NoHistView
CHECK_DEADLOCK FALSE
