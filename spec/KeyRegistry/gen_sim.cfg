SPECIFICATION MCSpec
CONSTANTS
  Member = {"m1", "m2"}
  Start = 2
  Bounds = {1, 3, 5, 9}
  MaxBundles = 3
  MaxGets = 3
  MaxTicks = 2
  TickLen = 2
  UseShapes = TRUE
INVARIANTS
  Export
CHECK_DEADLOCK FALSE
