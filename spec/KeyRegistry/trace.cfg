SPECIFICATION TraceSpec
CONSTANTS
  Member = {"m1", "m2"}
  Start = 10
INVARIANTS
  C38_NeverAcceptsInvalid
  C38_AcceptsValid
  C38_NeverReturnsInvalid
  C38_StoredSigned
  LongTermLatest
POSTCONDITION TraceAccepted
CHECK_DEADLOCK FALSE
