----------------------------- MODULE KeyRegistry -----------------------------
(***************************************************************************)
(* Key registry: public key bundles of other members                        *)
(*   p2panda-encryption/src/key_registry.rs                                 *)
(*   p2panda-encryption/src/key_bundle/{key_bundle,lifetime}.rs             *)
(*                                                                         *)
(* A bundle is [nb, na, sig]: lifetime (not_before, not_after) of its       *)
(* signed pre-key and whether the pre-key signature verifies under the      *)
(* bundle's identity key.  `now` is the system clock in seconds as          *)
(* Lifetime::verify reads it (lifetime.rs:44-60):                           *)
(*     valid  <=>  not_before < now /\ now < not_after     (both strict)    *)
(* KeyBundle::verify (key_bundle.rs:63-76, :131-144) = lifetime /\ signature *)
(*                                                                         *)
(*   ot[m]  onetime_bundles[m]:  Vec<OneTimeKeyBundle>  (push at the end)   *)
(*   lt[m]  longterm_bundles[m]: Vec<LongTermKeyBundle>                     *)
(* A member without map entry and a member with an empty Vec are both <<>>  *)
(* (the code treats them alike, key_registry.rs:163-176).                   *)
(***************************************************************************)
EXTENDS Integers, Sequences, FiniteSets

CONSTANTS Member,
          Start       \* clock reading at the beginning

VARIABLES now, ot, lt,
          res      \* outcome of the last call: [op, m, ok, b, at]; b = NoB when no bundle is involved

vars == <<now, ot, lt, res>>

NoB == [nb |-> 0, na |-> 0, sig |-> FALSE]        \* never valid: stands for "none"
NoRes == [op |-> "Init", m |-> "", ok |-> TRUE, b |-> NoB, at |-> 0]

LifetimeOk(b, t) == b.nb < t /\ t < b.na
Valid(b, t) == LifetimeOk(b, t) /\ b.sig

Init ==
    /\ now = Start
    /\ ot = [m \in Member |-> <<>>] /\ lt = [m \in Member |-> <<>>]
    /\ res = NoRes

Result(op, m, ok, b) == res' = [op |-> op, m |-> m, ok |-> ok, b |-> b, at |-> now]

(* add_onetime_bundle, key_registry.rs:115-131: key_bundle.verify()? then push *)
AddOneTime(m, b) ==
    /\ IF Valid(b, now)
       THEN ot' = [ot EXCEPT ![m] = Append(@, b)] /\ Result("AddOneTime", m, TRUE, b)
       ELSE UNCHANGED ot /\ Result("AddOneTime", m, FALSE, b)
    /\ UNCHANGED <<now, lt>>

(* add_longterm_bundle, :79-96 *)
AddLongTerm(m, b) ==
    /\ IF Valid(b, now)
       THEN lt' = [lt EXCEPT ![m] = Append(@, b)] /\ Result("AddLongTerm", m, TRUE, b)
       ELSE UNCHANGED lt /\ Result("AddLongTerm", m, FALSE, b)
    /\ UNCHANGED <<now, ot>>

(* PreKeyRegistry<ID, OneTimeKeyBundle>::key_bundle, :141-157:                   *)
(* bundles are popped from the end; a popped bundle that is no longer valid is   *)
(* dropped and the next one is tried                                             *)
RECURSIVE PopValid(_, _)
\* <<rest of the Vec, bundle or NoB>>
PopValid(s, t) ==
    IF s = <<>> THEN <<s, NoB>>
    ELSE LET b == s[Len(s)]
             rest == SubSeq(s, 1, Len(s) - 1)
         IN IF Valid(b, t) THEN <<rest, b>> ELSE PopValid(rest, t)

GetOneTime(m) ==
    /\ LET r == PopValid(ot[m], now)
       IN /\ ot' = [ot EXCEPT ![m] = r[1]]
          /\ Result("GetOneTime", m, TRUE, r[2])
    /\ UNCHANGED <<now, lt>>

(* PreKeyRegistry<ID, LongTermKeyBundle>::key_bundle, :160-176, with             *)
(* latest_key_bundle, key_bundle.rs:150-196: among the bundles whose LIFETIME is *)
(* valid now, the first one with the largest not_after; Err when there are       *)
(* bundles but none is valid                                                     *)
RECURSIVE Latest(_, _, _)
Latest(s, t, cur) ==
    IF s = <<>> THEN cur
    ELSE LET b == Head(s)
         IN IF ~LifetimeOk(b, t) THEN Latest(Tail(s), t, cur)
            ELSE IF cur = NoB \/ b.na > cur.na THEN Latest(Tail(s), t, b)
            ELSE Latest(Tail(s), t, cur)

GetLongTerm(m) ==
    /\ LET b == Latest(lt[m], now, NoB)
       IN Result("GetLongTerm", m, ~(lt[m] # <<>> /\ b = NoB), b)
    /\ UNCHANGED <<now, ot, lt>>

(* remove_expired, :51-76: keeps the bundles with verify().is_ok() *)
Filter(s, t) == SelectSeq(s, LAMBDA b : Valid(b, t))
RemoveExpired ==
    /\ ot' = [m \in Member |-> Filter(ot[m], now)]
    /\ lt' = [m \in Member |-> Filter(lt[m], now)]
    /\ Result("RemoveExpired", "", TRUE, NoB)
    /\ UNCHANGED now

(* the system clock moves on *)
Tick(d) == now' = now + d /\ UNCHANGED <<ot, lt, res>>

---------------------------------------------------------------------------
(* C38 *)

\* a bundle is only accepted if it is valid (lifetime and signature) at that moment
NeverAcceptsInvalid ==
    (res.op \in {"AddOneTime", "AddLongTerm"} /\ res.ok) => Valid(res.b, res.at)
\* ... and a valid one is not refused
AcceptsValid ==
    (res.op \in {"AddOneTime", "AddLongTerm"} /\ ~res.ok) => ~Valid(res.b, res.at)

\* a bundle handed out for a member is valid at that moment
NeverReturnsInvalid ==
    (res.op \in {"GetOneTime", "GetLongTerm"} /\ res.b # NoB) => Valid(res.b, res.at)

\* what is stored passed verification once: signatures never need re-checking
StoredSigned == \A m \in Member : /\ \A k \in 1..Len(ot[m]) : ot[m][k].sig /\ ot[m][k].nb < now
                                  /\ \A k \in 1..Len(lt[m]) : lt[m][k].sig /\ lt[m][k].nb < now

\* beyond C38: the long-term bundle handed out expires last among the valid ones
LongTermIsLatest ==
    (res.op = "GetLongTerm" /\ res.at = now) =>
        \A k \in 1..Len(lt[res.m]) : Valid(lt[res.m][k], now) => (res.b # NoB /\ lt[res.m][k].na <= res.b.na)
=============================================================================
