SPECIFICATION MCSpec
CONSTANTS
  Member = {"m1"}
  Start = 2
  Bounds = {1, 3, 5, 9}
  MaxBundles = 2
  MaxGets = 1
  MaxTicks = 1
  TickLen = 2
  UseShapes = TRUE
INVARIANTS
  Export
CHECK_DEADLOCK FALSE
