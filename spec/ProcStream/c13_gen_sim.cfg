SPECIFICATION MCSpec
CONSTANTS
  MC_Ns = {2, 3, 4}
  MC_Topos <- ToposAll
  MC_MaxFail = 1
  Defect_HandoffLost = FALSE
  YieldTransparent = FALSE
  KeepHist = TRUE
  RunToCompletion = TRUE
INVARIANTS
  Export
