SPECIFICATION MCLiveSpec
CONSTANTS
  MC_Ns = {1, 2, 3, 4}
  MC_Topos <- ToposAll
  MC_MaxFail = 1
  Defect_HandoffLost = FALSE
  YieldTransparent = FALSE
  KeepHist = FALSE
  RunToCompletion = FALSE
INVARIANTS
  C13_OnePlace
  C13_HandoffShape
  C13_NoDrop
  C13_FIFO
  C13_ErrIffFails
  C13_QueuesInOrder
  C13_ExactlyOnce
PROPERTIES
  C13_Live
