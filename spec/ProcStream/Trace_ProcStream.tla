------------------------- MODULE Trace_ProcStream -------------------------
(* Trace validation: events recorded from the real ProcessorStream / Buffer / *)
(* ComposedProcessors / Pipeline over the harness's leaf processors           *)
(* (`vh-orderer procstream record`, and the schedule-directed runs of         *)
(* `replay`) must be a behaviour of ProcStream.  Events are logged by the     *)
(* leaves (process started / finished / future dropped, item popped), by the  *)
(* glue between stacked streams and by the consumer; a pop together with the  *)
(* `process` call (or the output) it leads to and the future it drops is one  *)
(* event, as it is one step in the code.                                      *)
EXTENDS ProcStream, TLC, Json, IOUtils

Rec == ndJsonDeserialize(IOEnv.TRACE)

VARIABLE i
tvars == <<vars, i>>
Ev == Rec[i]

StepReset ==
    /\ Ev.ev = "Reset"
    /\ N' = Ev.n /\ Groups' = Ev.groups /\ failAt' = Ev.fail
    /\ nextIn' = 1
    /\ chan' = [g \in 1..Len(Ev.groups) |-> <<>>] /\ out' = [g \in 1..Len(Ev.groups) |-> <<>>]
    /\ buf' = [g \in 1..Len(Ev.groups) |-> "select"]
    /\ busy' = [l \in 1..Ev.leaves |-> 0] /\ q' = [l \in 1..Ev.leaves |-> <<>>]
    /\ hs' = [g \in 1..Len(Ev.groups) |-> NoHs]
    /\ yielded' = <<>> /\ lost' = {}

StepArrive   == Ev.ev = "Arrive"   /\ nextIn = Ev.x /\ Arrive
StepXfer     == Ev.ev = "Xfer"     /\ GXfer(Ev.g) /\ Head(out[Ev.g - 1]) = Ev.x /\ Xfer(Ev.g)
StepYield    == Ev.ev = "Yield"    /\ GYield /\ Head(out[NG]) = Ev.x /\ Yield
StepInput    == Ev.ev = "Input"    /\ GSelectInput(Ev.g) /\ Head(chan[Ev.g]) = Ev.x /\ Aborted(Ev.g) = Ev.ab /\ SelectInput(Ev.g)
StepBufDone  == Ev.ev = "BufDone"  /\ GBufDone(Ev.g) /\ busy[FirstOf(Ev.g)] = Ev.x /\ ~Fails(FirstOf(Ev.g), Ev.x) /\ BufDone(Ev.g)
StepBufFail  == Ev.ev = "BufFail"  /\ GBufDone(Ev.g) /\ busy[FirstOf(Ev.g)] = Ev.x /\ Fails(FirstOf(Ev.g), Ev.x) /\ BufDone(Ev.g)
StepTake     == Ev.ev = "Take"     /\ GTake(Ev.g, Ev.j) /\ Head(q[Ev.j]) = Ev.x /\ Aborted(Ev.g) = Ev.ab /\ Take(Ev.g, Ev.j)
StepHandDone == Ev.ev = "HandDone" /\ GHandDone(Ev.g) /\ hs[Ev.g].x = Ev.x /\ hs[Ev.g].j + 1 = Ev.l /\ ~Fails(Ev.l, Ev.x) /\ HandDone(Ev.g)
StepHandFail == Ev.ev = "HandFail" /\ GHandDone(Ev.g) /\ hs[Ev.g].x = Ev.x /\ hs[Ev.g].j + 1 = Ev.l /\ Fails(Ev.l, Ev.x) /\ HandDone(Ev.g)
StepOutput   == Ev.ev = "Output"   /\ GOutput(Ev.g) /\ Head(q[LastOf(Ev.g)]) = Ev.x /\ Aborted(Ev.g) = Ev.ab /\ Output(Ev.g)

TraceInit == N = 0 /\ Groups = <<>> /\ failAt = <<>> /\ Init /\ i = 1
TraceNext ==
    /\ i <= Len(Rec)
    /\ i' = i + 1
    /\ \/ StepReset \/ StepArrive \/ StepXfer \/ StepYield \/ StepInput
       \/ StepBufDone \/ StepTake \/ StepHandDone \/ StepOutput \/ StepBufFail \/ StepHandFail
TraceSpec == TraceInit /\ [][TraceNext]_tvars

TraceAccepted ==
    LET d == TLCGet("stats").diameter IN
    IF d - 1 = Len(Rec) THEN TRUE
    ELSE Print(<<"TRACE_REJECTED", d - 1, Len(Rec), ToJson(Rec[d])>>, FALSE)
=============================================================================
