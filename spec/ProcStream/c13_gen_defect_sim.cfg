SPECIFICATION MCSpec
CONSTANTS
  MC_Ns = {2, 3, 4}
  MC_Topos <- ToposAll
  Defect_HandoffLost = TRUE
  YieldTransparent = FALSE
  KeepHist = TRUE
  RunToCompletion = TRUE
INVARIANTS
  Export
