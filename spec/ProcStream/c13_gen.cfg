SPECIFICATION MCSpec
CONSTANTS
  MC_Ns = {1, 2}
  MC_Topos <- ToposSmall
  MC_MaxFail = 1
  Defect_HandoffLost = FALSE
  YieldTransparent = FALSE
  KeepHist = TRUE
  RunToCompletion = TRUE
INVARIANTS
  Export
