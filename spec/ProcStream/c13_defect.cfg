SPECIFICATION MCSpec
CONSTANTS
  MC_Ns = {2}
  MC_Topos <- ToposPair
  MC_MaxFail = 1
  Defect_HandoffLost = TRUE
  YieldTransparent = FALSE
  KeepHist = FALSE
  RunToCompletion = FALSE
INVARIANTS
  C13_OnePlace
  C13_HandoffShape
  C13_NoDrop
  C13_FIFO
  C13_QueuesInOrder
  C13_ExactlyOnce
