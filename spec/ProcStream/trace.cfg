SPECIFICATION TraceSpec
CONSTANTS
  Defect_HandoffLost = TRUE
  YieldTransparent = TRUE
INVARIANTS
  C13_OnePlace
  C13_HandoffShape
  C13_FIFO
  C13_ErrIffFails
  C13_QueuesInOrder
  C13_Accounted
  C13_NoDropStacked
POSTCONDITION TraceAccepted
CHECK_DEADLOCK FALSE
