SPECIFICATION MCLiveSpec
CONSTANTS
  MC_Ns = {1, 2, 3}
  MC_Topos <- ToposSmall
  MC_MaxFail = 1
  Defect_HandoffLost = TRUE
  YieldTransparent = FALSE
  KeepHist = FALSE
  RunToCompletion = FALSE
INVARIANTS
  C13_OnePlace
  C13_HandoffShape
  C13_FIFO
  C13_ErrIffFails
  C13_QueuesInOrder
  C13_Accounted
  C13_NoDropStacked
PROPERTIES
  C13_LiveDefect
