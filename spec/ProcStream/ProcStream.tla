----------------------------- MODULE ProcStream -----------------------------
(***************************************************************************)
(* Processor streams of p2panda-stream: ProcessorStream + Buffer +          *)
(* ComposedProcessors / Pipeline over leaf processors.                      *)
(*                                                                         *)
(*   p2panda-stream/src/processors/stream.rs:74-113   ProcessorStream::    *)
(*        poll_next: poll the input stream (<= 1 item) and forward it to    *)
(*        the Buffer's input channel (Arrive / Xfer), then poll the output  *)
(*        channel (Xfer / Yield)                                            *)
(*   p2panda-stream/src/processors/buffered.rs:28-52  Buffer task:          *)
(*        loop { select! { input => process(input).await   (SelectInput,    *)
(*                                                           BufDone)        *)
(*                         out = processor.next() => send  (Output) } }     *)
(*        the `next` future is created per iteration and DROPPED when the   *)
(*        input branch wins                                                 *)
(*   p2panda-stream/src/processors/composed.rs:27-52  ComposedProcessors::  *)
(*        next: loop { select! { i = first.next() => { second.process(i)    *)
(*                                   .await; yield_now().await }  (Take,    *)
(*                                                  HandDone, YieldDone)    *)
(*                               o = second.next() => return o } }          *)
(*   p2panda-stream/src/processors/pipeline.rs        LayeredBuilder::layer *)
(*        nests to the left: Composed(Composed(L1, L2), L3)                 *)
(*                                                                         *)
(* A pipeline is a chain of leaf processors 1..NL cut into groups: the      *)
(* leaves of one group are composed (one Buffer, hand-over inside           *)
(* ComposedProcessors::next), consecutive groups are stacked                *)
(* (`.layer(..).layer(..)`: one Buffer each, a channel in between).         *)
(* A leaf has the shape of Ingest / LogPrune: `process` awaits something    *)
(* that really suspends (a timer) and then pushes to its queue, `next` pops *)
(* the queue or waits on a Notify (dropping it loses nothing).              *)
(*                                                                         *)
(* State of a group's `next` future.  Because ComposedProcessors nests to   *)
(* the left, the future of a group is a spine of select! states; at most    *)
(* ONE junction j (between leaf j and j+1) is inside its handler:           *)
(*   hs.ph = "handoff": `second.process(x).await` pending (x is owned by    *)
(*                       that future and by nobody else)                    *)
(*   hs.ph = "yield"  : `yield_now().await`                                 *)
(* Level j+1 (= Composed(.., leaf j+1)) polls leaf j+1's `next` only while  *)
(* it is in its select!, i.e. while no junction >= j is in its handler.     *)
(* When a select! completes, its other branch futures are dropped - and     *)
(* with them everything nested in them.                                     *)
(***************************************************************************)
EXTENDS Integers, Sequences, FiniteSets

CONSTANTS
    Defect_HandoffLost,  \* TRUE = as coded: dropping a `next` future that is inside
                         \*        `second.process(x).await` drops x
                         \* FALSE = masked model: such a future is never dropped
    YieldTransparent     \* TRUE (trace validation only): the completion of `yield_now().await` is
                         \* not observable, a group in its yield phase is treated as if the
                         \* (always enabled) YieldDone step had happened already

VARIABLES
    N,         \* number of inputs (items are 1..N, arriving in this order); never changes
    Groups,    \* sequence of group sizes, e.g. <<2>> composed pair, <<1, 1>> stacked, <<3>>; never changes
    failAt,    \* failAt[x] = leaf whose `process` returns Err for item x (0 = none); never changes
    nextIn,    \* next input to arrive (N + 1 = all arrived)
    chan,      \* chan[g]: input channel of group g's Buffer
    out,       \* out[g]:  output channel of group g's Buffer
    buf,       \* buf[g]:  "select" | "proc"  (Buffer loop: at the select! / inside process(input).await)
    busy,      \* busy[l]: item inside leaf l's `process` future (0 = none)
    q,         \* q[l]:    leaf l's output queue
    hs,        \* hs[g]:   [j, ph, x] handler state of group g's `next` future (see above)
    yielded,   \* items the consumer received from the last stream
    lost       \* items dropped together with a future

vars == <<N, Groups, failAt, nextIn, chan, out, buf, busy, q, hs, yielded, lost>>
topo == <<N, Groups, failAt>>

NG == Len(Groups)
RECURSIVE SumTo(_)
SumTo(g) == IF g = 0 THEN 0 ELSE SumTo(g - 1) + Groups[g]
NL == SumTo(NG)
FirstOf(g) == SumTo(g - 1) + 1
LastOf(g)  == SumTo(g)
GroupOf(l) == CHOOSE g \in 1..NG : FirstOf(g) <= l /\ l <= LastOf(g)
NoHs == [j |-> 0, ph |-> "none", x |-> 0]

Init ==
    /\ nextIn = 1
    /\ chan = [g \in 1..NG |-> <<>>] /\ out = [g \in 1..NG |-> <<>>]
    /\ buf = [g \in 1..NG |-> "select"]
    /\ busy = [l \in 1..NL |-> 0] /\ q = [l \in 1..NL |-> <<>>]
    /\ hs = [g \in 1..NG |-> NoHs]
    /\ yielded = <<>> /\ lost = {}

----------------------------------------------------------------------------
(* guards *)

Eff(g) == IF YieldTransparent /\ hs[g].ph = "yield" THEN NoHs ELSE hs[g]
\* the select! that polls leaf l's `next` is alive: no junction at or right of l-1 is in its handler
Polled(g, l) == Eff(g).ph = "none" \/ Eff(g).j < l - 1
\* completing it drops a future that is in the middle of a hand-over
DropsHandoff(g) == hs[g].ph = "handoff"
MayDrop(g) == Defect_HandoffLost \/ ~DropsHandoff(g)

GArrive        == nextIn <= N
GXfer(g)       == g >= 2 /\ out[g - 1] # <<>>
GYield         == out[NG] # <<>>
GSelectInput(g) == buf[g] = "select" /\ chan[g] # <<>> /\ MayDrop(g)
GBufDone(g)    == buf[g] = "proc"
GTake(g, j)    == /\ FirstOf(g) <= j /\ j < LastOf(g)
                  /\ buf[g] = "select" /\ q[j] # <<>> /\ Polled(g, j) /\ MayDrop(g)
GHandDone(g)   == hs[g].ph = "handoff"
GYieldDone(g)  == hs[g].ph = "yield"
GOutput(g)     == /\ buf[g] = "select" /\ q[LastOf(g)] # <<>> /\ Polled(g, LastOf(g)) /\ MayDrop(g)

\* effect of dropping group g's `next` future on the tables
BusyAfterDrop(g) == IF DropsHandoff(g) THEN [busy EXCEPT ![hs[g].j + 1] = 0] ELSE busy
LostAfterDrop(g) == IF DropsHandoff(g) THEN lost \cup {hs[g].x} ELSE lost
Aborted(g)       == IF DropsHandoff(g) THEN hs[g].x ELSE 0

----------------------------------------------------------------------------
(* actions *)

\* the source yields the next item to ProcessorStream::poll_next, which sends it to Buffer 1
Arrive ==
    /\ GArrive
    /\ chan' = [chan EXCEPT ![1] = Append(@, nextIn)]
    /\ nextIn' = nextIn + 1
    /\ UNCHANGED <<out, buf, busy, q, hs, yielded, lost>> /\ UNCHANGED topo

\* stream g's poll_next takes an output of stream g-1 and sends it to Buffer g
\* (an Err item of stream g-1 is a final output: it is delivered there, not fed to layer g)
Xfer(g) ==
    /\ GXfer(g)
    /\ IF Head(out[g - 1]) < 0
       THEN yielded' = Append(yielded, Head(out[g - 1])) /\ UNCHANGED chan
       ELSE chan' = [chan EXCEPT ![g] = Append(@, Head(out[g - 1]))] /\ UNCHANGED yielded
    /\ out' = [out EXCEPT ![g - 1] = Tail(@)]
    /\ UNCHANGED <<nextIn, buf, busy, q, hs, lost>> /\ UNCHANGED topo

\* the consumer receives an item of the last stream
Yield ==
    /\ GYield
    /\ yielded' = Append(yielded, Head(out[NG]))
    /\ out' = [out EXCEPT ![NG] = Tail(@)]
    /\ UNCHANGED <<nextIn, chan, buf, busy, q, hs, lost>> /\ UNCHANGED topo

\* buffered.rs:31-40 the input branch wins: the pending `next` future is dropped, then
\* `processor.process(input).await` = first leaf's process
SelectInput(g) ==
    /\ GSelectInput(g)
    /\ busy' = [BusyAfterDrop(g) EXCEPT ![FirstOf(g)] = Head(chan[g])]
    /\ lost' = LostAfterDrop(g)
    /\ hs' = [hs EXCEPT ![g] = NoHs]
    /\ chan' = [chan EXCEPT ![g] = Tail(@)]
    /\ buf' = [buf EXCEPT ![g] = "proc"]
    /\ UNCHANGED <<nextIn, out, q, yielded>> /\ UNCHANGED topo

\* An item whose `process` fails leaves the pipeline as an Err output, written -x.
Fails(l, x) == failAt[x] = l

\* the first leaf's process completes inside the Buffer's handler; next loop iteration.
\* buffered.rs:36-39: an Err is sent to the output channel as that item's result (it does not go
\* through the processor's queue, so it may overtake earlier items still inside), and the loop
\* carries on
BufDone(g) ==
    /\ GBufDone(g)
    /\ IF Fails(FirstOf(g), busy[FirstOf(g)])
       THEN /\ out' = [out EXCEPT ![g] = Append(@, 0 - busy[FirstOf(g)])]
            /\ UNCHANGED q
       ELSE /\ q' = [q EXCEPT ![FirstOf(g)] = Append(@, busy[FirstOf(g)])]
            /\ UNCHANGED out
    /\ busy' = [busy EXCEPT ![FirstOf(g)] = 0]
    /\ buf' = [buf EXCEPT ![g] = "select"]
    /\ UNCHANGED <<nextIn, chan, hs, yielded, lost>> /\ UNCHANGED topo

\* composed.rs:30-38 leaf j's `next` completes in the select! of level j+1 (as first.next();
\* for j > first leaf: after completing level j's select! as second.next(), which drops level
\* j's other branch and everything in it); handler: `second.process(intermediate)` starts
Take(g, j) ==
    /\ GTake(g, j)
    /\ busy' = [BusyAfterDrop(g) EXCEPT ![j + 1] = Head(q[j])]
    /\ lost' = LostAfterDrop(g)
    /\ q' = [q EXCEPT ![j] = Tail(@)]
    /\ hs' = [hs EXCEPT ![g] = [j |-> j, ph |-> "handoff", x |-> Head(q[j])]]
    /\ UNCHANGED <<nextIn, chan, out, buf, yielded>> /\ UNCHANGED topo

\* `second.process(intermediate).await` completes.  composed.rs:33-36: an Err makes every
\* enclosing ComposedProcessors::next return it (`?`, `Err(err) => return ..First(err)`), the
\* Buffer sends it as that item's result and starts the next loop iteration
HandDone(g) ==
    /\ GHandDone(g)
    /\ IF Fails(hs[g].j + 1, hs[g].x)
       THEN /\ out' = [out EXCEPT ![g] = Append(@, 0 - hs[g].x)]
            /\ hs' = [hs EXCEPT ![g] = NoHs]
            /\ UNCHANGED q
       ELSE /\ q' = [q EXCEPT ![hs[g].j + 1] = Append(@, hs[g].x)]
            /\ hs' = [hs EXCEPT ![g].ph = "yield"]
            /\ UNCHANGED out
    /\ busy' = [busy EXCEPT ![hs[g].j + 1] = 0]
    /\ UNCHANGED <<nextIn, chan, buf, yielded, lost>> /\ UNCHANGED topo

\* `yield_now().await` completes; loop: new select!
YieldDone(g) ==
    /\ GYieldDone(g)
    /\ hs' = [hs EXCEPT ![g] = NoHs]
    /\ UNCHANGED <<nextIn, chan, out, buf, busy, q, yielded, lost>> /\ UNCHANGED topo

\* the group's `next` completes with the last leaf's output (dropping the other branch of the
\* outermost select!); buffered.rs:42-46 sends it; next loop iteration
Output(g) ==
    /\ GOutput(g)
    /\ busy' = BusyAfterDrop(g)
    /\ lost' = LostAfterDrop(g)
    /\ out' = [out EXCEPT ![g] = Append(@, Head(q[LastOf(g)]))]
    /\ q' = [q EXCEPT ![LastOf(g)] = Tail(@)]
    /\ hs' = [hs EXCEPT ![g] = NoHs]
    /\ UNCHANGED <<nextIn, chan, buf, yielded>> /\ UNCHANGED topo

Quiet ==
    /\ nextIn = N + 1
    /\ \A g \in 1..NG : chan[g] = <<>> /\ out[g] = <<>> /\ buf[g] = "select" /\ Eff(g) = NoHs
    /\ \A l \in 1..NL : busy[l] = 0 /\ q[l] = <<>>
Stutter == Quiet /\ UNCHANGED vars

\* steps that wait for a timer (item arrival, a leaf's processing delay) ...
TimerStep == Arrive \/ \E g \in 1..NG : BufDone(g) \/ HandDone(g)
\* ... and steps that happen as soon as they can
AnyInternal ==
    \/ GYield
    \/ \E g \in 1..NG : GXfer(g) \/ GSelectInput(g) \/ GYieldDone(g) \/ GOutput(g)
                        \/ \E j \in 1..NL : GTake(g, j)
InternalStep ==
    \/ Yield
    \/ \E g \in 1..NG : Xfer(g) \/ SelectInput(g) \/ YieldDone(g) \/ Output(g)
                        \/ \E j \in FirstOf(g)..(LastOf(g) - 1) : Take(g, j)

Next == TimerStep \/ InternalStep \/ Stutter
Spec == Init /\ [][Next]_vars /\ WF_vars(TimerStep \/ InternalStep)

----------------------------------------------------------------------------
(* C13 *)

Range(s) == {s[i] : i \in DOMAIN s}
Arrived == 1..(nextIn - 1)

\* where an item is (every arrived item is in exactly one place; `lost` counts as a place here,
\* NoDrop says it stays empty)
Has(s, x) == x \in Range(s) \/ (0 - x) \in Range(s)
Places(x) ==
    Cardinality({g \in 1..NG : x \in Range(chan[g])}) + Cardinality({g \in 1..NG : Has(out[g], x)})
    + Cardinality({l \in 1..NL : busy[l] = x}) + Cardinality({l \in 1..NL : x \in Range(q[l])})
    + Cardinality({i \in DOMAIN yielded : yielded[i] = x \/ yielded[i] = 0 - x}) + (IF x \in lost THEN 1 ELSE 0)
C13_OnePlace == \A x \in Arrived : Places(x) = 1
\* a hand-over in progress is exactly "second.process holds x"
C13_HandoffShape ==
    \A g \in 1..NG : hs[g].ph = "handoff" =>
        /\ FirstOf(g) <= hs[g].j /\ hs[g].j < LastOf(g) /\ busy[hs[g].j + 1] = hs[g].x /\ buf[g] = "select"

\* never drops an intermediate item
C13_NoDrop == lost = {}
\* order preserving, no duplicates: the Ok outputs so far are strictly increasing (an Err output
\* does not pass through the queues and may overtake - that is what the code does)
Oks(s) == SelectSeq(s, LAMBDA v : v > 0)
Sorted(s) == \A i \in 1..(Len(s) - 1) : s[i] < s[i + 1]
C13_FIFO == Sorted(Oks(yielded))
\* every channel / queue is in order as well
C13_QueuesInOrder == (\A g \in 1..NG : Sorted(chan[g]) /\ Sorted(Oks(out[g]))) /\ (\A l \in 1..NL : Sorted(q[l]))
\* an item comes out as Err exactly if one of its `process` calls fails
C13_ErrIffFails == \A i \in DOMAIN yielded : (yielded[i] < 0) = (failAt[IF yielded[i] < 0 THEN 0 - yielded[i] ELSE yielded[i]] # 0)
\* exactly once and "the stream stays alive": at quiescence every input - also those behind a
\* failing one - came out exactly once, the Ok ones in order
AllOut == Len(yielded) = N /\ \A x \in 1..N : Has(yielded, x)
C13_ExactlyOnce == Quiet => AllOut
\* with the defect: what came out is in order and the rest is accounted for as dropped
C13_Accounted == Quiet => /\ \A x \in 1..N : Has(yielded, x) # (x \in lost)
                          /\ Len(yielded) + Cardinality(lost) = N
\* the defect needs a composed group: stacked single-leaf layers never drop anything
C13_NoDropStacked == (\A g \in 1..NG : Groups[g] = 1) => lost = {}
\* everything is delivered eventually
C13_Live == <>(Quiet /\ AllOut)
C13_LiveDefect == <>Quiet
=============================================================================
