--------------------------- MODULE MC_ProcStream ---------------------------
(* Bounded instances of ProcStream for TLC, history variable and JSON export *)
(* of complete behaviours.  A behaviour fixes the ORDER of the timer events   *)
(* (arrivals, completions of `process`); the replayer turns that order into   *)
(* concrete arrival times and per-call processing delays on a paused-time     *)
(* tokio runtime.  With RunToCompletion = TRUE a timer may only fire when no  *)
(* internal step is enabled - exactly what a paused clock does (it advances   *)
(* only when every task is idle); the exhaustive checks run with FALSE        *)
(* (every interleaving, as with a real clock).                                *)
EXTENDS ProcStream, TLC, Json

CONSTANTS RunToCompletion,
          KeepHist,     \* FALSE = do not record the history (exhaustive / liveness runs)
          MC_Ns,        \* set of input counts
          MC_Topos,     \* set of topologies
          MC_MaxFail    \* at most this many items have a failing `process` call

\* topologies (cfg files cannot write tuples)
G1   == <<1>>
G2   == <<2>>
G3   == <<3>>
G11  == <<1, 1>>
G21  == <<2, 1>>
G12  == <<1, 2>>
G111 == <<1, 1, 1>>
G22  == <<2, 2>>
G4   == <<4>>
G31  == <<3, 1>>
ToposPair  == {G2}
ToposSmall == {G1, G2, G3, G11, G21, G12}
ToposAll   == {G1, G2, G3, G11, G21, G12, G111, G22, G4, G31}

VARIABLES hist, ties
mcvars == <<vars, hist, ties>>

\* number of internal steps enabled (select! / scheduler choices the replayer cannot force)
B(p) == IF p THEN 1 ELSE 0
NumInternal ==
    B(GYield)
    + Cardinality({g \in 1..NG : GXfer(g)}) + Cardinality({g \in 1..NG : GSelectInput(g)})
    + Cardinality({g \in 1..NG : GYieldDone(g)}) + Cardinality({g \in 1..NG : GOutput(g)})
    + Cardinality({p \in (1..NG) \X (1..NL) : GTake(p[1], p[2])})

TimerOK == RunToCompletion => ~AnyInternal
Tie == ties' = IF KeepHist THEN ties + B(NumInternal > 1) ELSE ties
H(e) == hist' = (IF KeepHist THEN Append(hist, e) ELSE hist) /\ Tie

MC_Arrive       == TimerOK /\ Arrive /\ H([a |-> "Arrive", x |-> nextIn])
MC_Xfer(g)      == Xfer(g) /\ H([a |-> "Xfer", g |-> g, x |-> Head(out[g - 1])])
MC_Yield        == Yield /\ H([a |-> "Yield", x |-> Head(out[NG])])
MC_SelectInput(g) == SelectInput(g) /\ H([a |-> "Input", g |-> g, x |-> Head(chan[g]), ab |-> Aborted(g)])
MC_BufDone(g)   == TimerOK /\ BufDone(g) /\ H([a |-> IF Fails(FirstOf(g), busy[FirstOf(g)]) THEN "BufFail" ELSE "BufDone", g |-> g, x |-> busy[FirstOf(g)]])
MC_Take(g, j)   == Take(g, j) /\ H([a |-> "Take", g |-> g, j |-> j, x |-> Head(q[j]), ab |-> Aborted(g)])
MC_HandDone(g)  == TimerOK /\ HandDone(g) /\ H([a |-> IF Fails(hs[g].j + 1, hs[g].x) THEN "HandFail" ELSE "HandDone", g |-> g, l |-> hs[g].j + 1, x |-> hs[g].x])
MC_YieldDone(g) == YieldDone(g) /\ hist' = hist /\ Tie
MC_Output(g)    == Output(g) /\ H([a |-> "Output", g |-> g, x |-> Head(q[LastOf(g)]), ab |-> Aborted(g)])
MC_Stutter      == Stutter /\ UNCHANGED <<hist, ties>>

MCInit ==
    /\ N \in MC_Ns /\ Groups \in MC_Topos
    /\ failAt \in {f \in [1..N -> 0..NL] : Cardinality({x \in 1..N : f[x] # 0}) <= MC_MaxFail}
    /\ Init /\ hist = <<>> /\ ties = 0
\* one named disjunct per action (per-action coverage = vacuity guard)
A_Xfer        == \E g \in 1..NG : MC_Xfer(g)
A_SelectInput == \E g \in 1..NG : MC_SelectInput(g)
A_BufDone     == \E g \in 1..NG : MC_BufDone(g)
A_Take        == \E g \in 1..NG : \E j \in FirstOf(g)..(LastOf(g) - 1) : MC_Take(g, j)
A_HandDone    == \E g \in 1..NG : MC_HandDone(g)
A_YieldDone   == \E g \in 1..NG : MC_YieldDone(g)
A_Output      == \E g \in 1..NG : MC_Output(g)
MCProgress ==
    \/ MC_Arrive \/ MC_Yield \/ A_Xfer \/ A_SelectInput \/ A_BufDone \/ A_Take
    \/ A_HandDone \/ A_YieldDone \/ A_Output
MCNext == MCProgress \/ MC_Stutter
MCSpec == MCInit /\ [][MCNext]_mcvars

\* liveness: weak fairness on everything that can happen (bounded by construction: N inputs)
MCLiveSpec == MCInit /\ [][MCNext]_mcvars /\ WF_mcvars(MCProgress)

NoHistView == vars

Export ==
    Quiet => PrintT(<<"REPLAY", ToJson([kind |-> "procstream", groups |-> Groups, n |-> N, fail |-> failAt,
                                        steps |-> hist, ties |-> ties,
                                        yielded |-> yielded, lost |-> lost])>>)
=============================================================================
