SPECIFICATION GenLifecycleSpec
CONSTANTS
  DedupCap = 6
  Defect_NoSessionStarted = FALSE
  Defect_CloseNoTerminal = FALSE
  Defect_SyncSpin = FALSE
  Defect_ResolveNoTerminal = FALSE
  StoreFaults = {FALSE, TRUE}
  Defect_DropLateEvents = FALSE
  SelectAllFifo = FALSE
  Sessions = {"s1"}
  TopicNames = {"t1"}
  LiveOps = {"r1", "x"}
  LivePayloads = {"x", "l1"}
  MaxN = 2
  MaxR = 2
  MaxFailAt = 9
  MaxFaults = 2
  MaxLiveIn = 2
  MaxLiveQ = 2
INVARIANTS
  ExportLifecycle
CHECK_DEADLOCK FALSE
