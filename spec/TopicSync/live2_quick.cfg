SPECIFICATION MCLiveSpec
CONSTANTS
  DedupCap = 1
  Defect_NoSessionStarted = FALSE
  Defect_CloseNoTerminal = FALSE
  Defect_SyncSpin = FALSE
  Defect_ResolveNoTerminal = FALSE
  StoreFaults = {FALSE}
  Defect_DropLateEvents = FALSE
  SelectAllFifo = FALSE
  Sessions = {"s1", "s2"}
  TopicNames = {"t1", "t2"}
  LiveOps = {"a", "b"}
  LivePayloads = {}
  MaxN = 0
  MaxR = 0
  MaxFailAt = 0
  MaxFaults = 1
  MaxLiveIn = 1
  MaxLiveQ = 0
INVARIANTS
  C23_ForwardedToAllOthers
  C23_NotForwardedToSource
  C23_DeliveredWhenQuiet
  C23_AtMostOncePerSession
  C23_NeverBackToSource
  C23_ConsumerAtMostOnce
  C23_ConsumerGetsAll
  C23_NoEventLost
  C23_SessionLifecycleTail
VIEW NoHistView
CHECK_DEADLOCK FALSE
