------------------------- MODULE Trace_TopicSync -------------------------
(* Trace validation: schedules recorded from real TopicLogSync sessions    *)
(* and the real TopicSyncManager / ManagerEventStream (harness             *)
(* `vh-topicsync topicsync record`) must be behaviours of TopicSync; the   *)
(* C22 / C23 invariants are evaluated at every step.                       *)
EXTENDS TopicSync, TLC, Json, IOUtils

Rec == ndJsonDeserialize(IOEnv.TRACE)

VARIABLES i, machine
tvars == <<ss, rem, mgr, topicOf, faults, i, machine>>

Ev == Rec[i]

SameS(p, o) == p.res = o.res /\ p.sent = o.sent /\ p.ev = o.ev

\* lifecycle runs log the one session's observable, live runs all sessions' and the consumer's
SameObs ==
    IF machine' = "lifecycle" THEN SameS(ss'["s1"], Ev.obs)
    ELSE /\ \A s \in DOMAIN Ev.obs.ss : SameS(ss'[s], Ev.obs.ss[s])
         /\ mgr'.out = Ev.obs.mgr.out

\* the script state of the remotes is not needed to replay a recorded trace: the events carry the
\* messages. `rem` only keeps the "ended" flag (for C22_NoHang).
FreeRemote == [NewRemote(0) EXCEPT !.pos = "Live"]

StepReset ==
    /\ Ev.ev = "Reset"
    /\ machine' = Ev.machine
    /\ IF Ev.machine = "lifecycle"
       THEN /\ ss' = [s \in Sessions |-> [NewSession("Start", Ev.live, Ev.n, Ev.failAt) EXCEPT !.cap = Ev.cap, !.storeFail = Ev.storeFail]]
            /\ topicOf' = [s \in Sessions |-> "t1"]
       ELSE /\ ss' = [s \in Sessions |-> [LiveSession EXCEPT !.cap = Ev.cap,
                                                             \* sessions that do not take part are over
                                                             !.res = IF s \in DOMAIN Ev.topics THEN "run" ELSE "err",
                                                             !.ev = IF s \in DOMAIN Ev.topics THEN <<>> ELSE <<Evt("Failed", None)>>]]
            /\ topicOf' = [s \in Sessions |-> IF s \in DOMAIN Ev.topics THEN Ev.topics[s] ELSE "none"]
    /\ rem' = [s \in Sessions |-> FreeRemote]
    /\ mgr' = NoMgr
    /\ faults' = 0

StepGive ==
    /\ Ev.ev = "Give"
    /\ ss' = [ss EXCEPT ![Ev.s].inbox = Append(@, Ev.m)]
    /\ UNCHANGED <<rem, mgr, topicOf, faults>>

StepEnd ==
    /\ Ev.ev = "End"
    /\ ss' = [ss EXCEPT ![Ev.s].eos = TRUE]
    /\ rem' = [rem EXCEPT ![Ev.s].ended = TRUE]
    /\ UNCHANGED <<mgr, topicOf, faults>>

\* the recorder's try_send on a finished session's channel fails silently
StepLiveGive ==
    /\ Ev.ev = "LiveGive"
    /\ IF ss[Ev.s].live /\ ss[Ev.s].res = "run"
       THEN ss' = [ss EXCEPT ![Ev.s].liveq = Append(@, Ev.m)]
       ELSE UNCHANGED ss
    /\ UNCHANGED <<rem, mgr, topicOf, faults>>

\* scheduling a session that is blocked (or over) changes nothing
StepRun ==
    /\ Ev.ev = "Run"
    /\ IF Runnable(ss[Ev.s]) THEN Run(Ev.s) ELSE UNCHANGED <<ss, rem, mgr, topicOf, faults>>

\* a consumer poll with nothing pending returns Pending
StepPoll ==
    /\ Ev.ev = "Poll"
    /\ IF \E s \in Sessions : mgr.bq[s] # <<>> THEN ManagerPoll ELSE UNCHANGED <<ss, rem, mgr, topicOf, faults>>

TraceInit ==
    /\ ss = [s \in Sessions |-> NewSession("Start", FALSE, 0, 0)]
    /\ rem = [s \in Sessions |-> FreeRemote]
    /\ mgr = NoMgr
    /\ topicOf = [s \in Sessions |-> "t1"]
    /\ faults = 0
    /\ i = 1 /\ machine = "lifecycle"

TraceNext ==
    /\ i <= Len(Rec)
    /\ i' = i + 1
    /\ \/ StepReset
       \/ /\ (StepGive \/ StepEnd \/ StepLiveGive \/ StepRun \/ StepPoll)
          /\ machine' = machine
          /\ SameObs
TraceSpec == TraceInit /\ [][TraceNext]_tvars

T_C22_Lifecycle == machine = "lifecycle" => Lifecycle(ss["s1"])
T_C22_NoHang == machine = "lifecycle" => ((rem["s1"].ended /\ ~Runnable(ss["s1"])) => ss["s1"].res # "run")
T_C22_NoSpin == \A s \in Sessions : ss[s].res # "spin"

Live == machine = "live"
T_C23_ForwardedToAllOthers == Live => C23_ForwardedToAllOthers
T_C23_NotForwardedToSource == Live => C23_NotForwardedToSource
T_C23_DeliveredWhenQuiet == Live => C23_DeliveredWhenQuiet
T_C23_AtMostOncePerSession == Live => C23_AtMostOncePerSession
T_C23_NeverBackToSource == Live => C23_NeverBackToSource
T_C23_ConsumerAtMostOnce == Live => C23_ConsumerAtMostOnce
T_C23_ConsumerGetsAll == Live => C23_ConsumerGetsAll

TraceAccepted ==
    LET d == TLCGet("stats").diameter IN
    IF d - 1 = Len(Rec) THEN TRUE
    ELSE Print(<<"TRACE_REJECTED", d - 1, Len(Rec), ToJson(Rec[d])>>, FALSE)
===========================================================================
