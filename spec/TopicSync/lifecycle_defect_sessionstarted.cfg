SPECIFICATION MCLifecycleSpec
CONSTANTS
  DedupCap = 2
  Defect_NoSessionStarted = TRUE
  Defect_CloseNoTerminal = FALSE
  Defect_SyncSpin = FALSE
  Defect_ResolveNoTerminal = FALSE
  StoreFaults = {FALSE, TRUE}
  Defect_DropLateEvents = FALSE
  SelectAllFifo = FALSE
  Sessions = {"s1"}
  TopicNames = {"t1"}
  LiveOps = {"x"}
  LivePayloads = {"x"}
  MaxN = 1
  MaxR = 1
  MaxFailAt = 6
  MaxFaults = 1
  MaxLiveIn = 1
  MaxLiveQ = 1
INVARIANTS
  C22_SessionStartedFirst
  C22_LifecycleAfterStart
  C22_NoHang
  C22_NoSpin
VIEW NoHistView
CHECK_DEADLOCK FALSE
