SPECIFICATION GenLiveSpec
CONSTANTS
  DedupCap = 2
  Defect_NoSessionStarted = FALSE
  Defect_CloseNoTerminal = FALSE
  Defect_SyncSpin = FALSE
  Defect_ResolveNoTerminal = FALSE
  StoreFaults = {FALSE}
  Defect_DropLateEvents = FALSE
  SelectAllFifo = TRUE
  Sessions = {"s1", "s2", "s3"}
  TopicNames = {"t1", "t2"}
  LiveOps = {"a", "b", "c"}
  LivePayloads = {}
  MaxN = 0
  MaxR = 0
  MaxFailAt = 0
  MaxFaults = 2
  MaxLiveIn = 3
  MaxLiveQ = 0
INVARIANTS
  ExportLive
CHECK_DEADLOCK FALSE
