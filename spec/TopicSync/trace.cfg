SPECIFICATION TraceSpec
CONSTANTS
  DedupCap = 2
  Defect_NoSessionStarted = FALSE
  Defect_CloseNoTerminal = FALSE
  Defect_SyncSpin = FALSE
  Defect_ResolveNoTerminal = FALSE
  StoreFaults = {FALSE}
  Defect_DropLateEvents = FALSE
  SelectAllFifo = FALSE
  Sessions = {"s1", "s2", "s3"}
  TopicNames = {"t1", "t2"}
  LiveOps = {}
  LivePayloads = {}
  MaxN = 0
  MaxR = 0
  MaxFailAt = 0
  MaxFaults = 1000000
  MaxLiveIn = 1000000
  MaxLiveQ = 1000000
INVARIANTS
  T_C22_Lifecycle
  T_C22_NoHang
  T_C22_NoSpin
  T_C23_ForwardedToAllOthers
  T_C23_NotForwardedToSource
  T_C23_DeliveredWhenQuiet
  T_C23_AtMostOncePerSession
  T_C23_NeverBackToSource
  T_C23_ConsumerAtMostOnce
  T_C23_ConsumerGetsAll
POSTCONDITION TraceAccepted
CHECK_DEADLOCK FALSE
