SPECIFICATION MCLifecycleSpec
CONSTANTS
  DedupCap = 2
  Defect_NoSessionStarted = FALSE
  Defect_CloseNoTerminal = FALSE
  Defect_SyncSpin = FALSE
  Defect_ResolveNoTerminal = FALSE
  StoreFaults = {FALSE, TRUE}
  Defect_DropLateEvents = FALSE
  SelectAllFifo = FALSE
  Sessions = {"s1"}
  TopicNames = {"t1"}
  LiveOps = {"r1", "x"}
  LivePayloads = {"x", "l1"}
  MaxN = 1
  MaxR = 1
  MaxFailAt = 7
  MaxFaults = 1
  MaxLiveIn = 2
  MaxLiveQ = 2
INVARIANTS
  C22_Lifecycle
  C22_NoHang
  C22_NoSpin
VIEW NoHistView
CHECK_DEADLOCK FALSE
