SPECIFICATION MCLifecycleSpec
CONSTANTS
  DedupCap = 2
  Defect_NoSessionStarted = FALSE
  Defect_CloseNoTerminal = TRUE
  Defect_SyncSpin = TRUE
  Sessions = {"s1"}
  TopicNames = {"t1"}
  LiveOps = {"r1", "x"}
  MaxN = 1
  MaxR = 1
  MaxFailAt = 6
  MaxFaults = 1
  MaxLiveIn = 2
  MaxLiveQ = 2
INVARIANTS
  C22_Lifecycle
  C22_NoHang
VIEW NoHistView
CHECK_DEADLOCK FALSE
