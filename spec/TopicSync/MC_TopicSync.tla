-------------------------- MODULE MC_TopicSync --------------------------
(* Bounded instances of TopicSync for TLC + JSON export of behaviours.    *)
(* Every exported step carries the observable the harness must see after  *)
(* it (`obs`) and, for the two nondeterministic actions (Run: unbiased    *)
(* select! in LogSync; ManagerPoll: SelectAll order), the set of all      *)
(* observables the specification allows for that step (`allowed`).        *)
EXTENDS TopicSync, TLC, Json

VARIABLES hist
mcvars == <<ss, rem, mgr, topicOf, faults, hist>>

ObsS(p) == [res |-> p.res, sent |-> p.sent, ev |-> p.ev]
ObsM(m) == [out |-> m.out, given |-> m.given]
Obs == [ss |-> [s \in Sessions |-> ObsS(ss'[s])], mgr |-> ObsM(mgr')]

Step(name, s, m, allowed) ==
    hist' = Append(hist, [act |-> name, s |-> s, m |-> m, obs |-> Obs, allowed |-> allowed])
NoM == Msg(None, None)

MCRun(s) == Run(s) /\ Step("Run", s, NoM, {ObsS(p) : p \in RunSet(ss[s])})
MCRemoteHonest(s) == RemoteHonest(s) /\ Step("Give", s, HonestNext(rem[s]), {})
MCRemoteWrong(s, m) == RemoteWrong(s, m) /\ Step("Give", s, m, {})
MCRemoteLive(s, x) == RemoteLive(s, x) /\ Step("Give", s, Msg("Live", x), {})
MCRemoteClose(s) == RemoteClose(s) /\ Step("Give", s, Msg("Close", None), {})
MCRemoteEnd(s) == RemoteEnd(s) /\ Step("End", s, NoM, {})
MCLiveGive(s, it) == LiveGive(s, it) /\ Step("LiveGive", s, it, {})
MCManagerPoll ==
    /\ ManagerPoll
    /\ Step("Poll", None, NoM, {ObsM(r.m) : r \in PollSetG(mgr, [s \in Sessions |-> ss[s].liveq], FALSE)})

---------------------------------------------------------------------------
MCLifecycleInit == LifecycleInit /\ hist = <<>>
MCLifecycleNext ==
    \E s \in Sessions :
        \/ MCRun(s)
        \/ MCRemoteHonest(s) \/ MCRemoteClose(s) \/ MCRemoteEnd(s)
        \/ \E m \in WrongMsgs : MCRemoteWrong(s, m)
        \/ \E x \in LiveOps : MCRemoteLive(s, x)
        \/ \E x \in LivePayloads : MCLiveGive(s, Msg("Payload", x))
        \/ MCLiveGive(s, Msg("Close", None))
MCLifecycleSpec == MCLifecycleInit /\ [][MCLifecycleNext \/ (LifecycleDone /\ UNCHANGED mcvars)]_mcvars

ExportLifecycle ==
    LifecycleDone => PrintT(<<"REPLAY", ToJson([kind |-> "lifecycle", cap |-> DedupCap,
        init |-> [s \in Sessions |-> [live |-> ss[s].live, n |-> ss[s].nOut, failAt |-> ss[s].failAt, r |-> rem[s].r, storeFail |-> ss[s].storeFail]],
        steps |-> hist])>>)

---------------------------------------------------------------------------
MCLiveInit == LiveInit /\ hist = <<>>
MCLiveClose(s) == CanLeave(s) /\ MCRemoteClose(s)
MCLiveEnd(s) == (rem[s].pos = "Closed" \/ CanLeave(s)) /\ MCRemoteEnd(s)
MCLiveNext ==
    \/ MCManagerPoll
    \/ \E s \in Sessions :
        \/ MCRun(s)
        \/ MCLiveClose(s) \/ MCLiveEnd(s)
        \/ \E x \in LiveOps : MCRemoteLive(s, x)
MCLiveSpec == MCLiveInit /\ [][MCLiveNext \/ (InternallyQuiet /\ UNCHANGED mcvars)]_mcvars

\* export complete behaviours only: every remote has used its budget or ended, everything settled
LiveDone == InternallyQuiet /\ \A s \in Sessions : rem[s].ended \/ rem[s].pos = "Closed" \/ rem[s].liveIn = MaxLiveIn
ExportLive ==
    LiveDone => PrintT(<<"REPLAY", ToJson([kind |-> "live", cap |-> DedupCap, topics |-> topicOf, steps |-> hist])>>)

NoHistView == <<ss, rem, mgr, topicOf, faults>>

\* export runs: no terminal stuttering (a simulated trace ends where the behaviour is over)
GenLifecycleSpec == MCLifecycleInit /\ [][MCLifecycleNext]_mcvars
GenLiveSpec == MCLiveInit /\ [][MCLiveNext]_mcvars

\* exhaustive checking runs: the plain actions of TopicSync, no history
CkLifecycleSpec ==
    /\ LifecycleInit /\ hist = <<>>
    /\ [][(LifecycleNext \/ (LifecycleDone /\ UNCHANGED vars)) /\ UNCHANGED hist]_mcvars
CkLiveSpec ==
    /\ LiveInit /\ hist = <<>>
    /\ [][(LiveNext \/ (InternallyQuiet /\ UNCHANGED vars)) /\ UNCHANGED hist]_mcvars
===========================================================================
