---------------------------- MODULE TopicSync ----------------------------
(***************************************************************************)
(* Topic sync sessions of p2panda-sync: event lifecycle (C22) and          *)
(* live-mode forwarding through the manager (C23).                         *)
(*                                                                         *)
(*   p2panda-sync/src/protocols/topic_log_sync.rs:115-347  TopicLogSync::run *)
(*   p2panda-sync/src/protocols/log_sync.rs:105-443        LogSync::run    *)
(*        (only as far as events, written messages and Ok/Err go)          *)
(*   p2panda-sync/src/manager/event_stream.rs:66-150       next_event      *)
(*                                                                         *)
(* A session is a sequential process (record); one *micro step* per await  *)
(* point / select! arm of the code (operator Micro, `pc` names the await). *)
(* `RunSet(p)` = all states in which one scheduling of the real future can *)
(* leave the process: it runs until it blocks on its inputs (inbound       *)
(* stream `inbox`, live-mode channel `liveq`) or returns.  The only        *)
(* nondeterminism inside a run is the unbiased select! of LogSync's Sync   *)
(* state (log_sync.rs:299).                                                *)
(***************************************************************************)
EXTENDS Integers, Sequences, FiniteSets

CONSTANTS
    DedupCap,                 \* buffer_capacity of the session's de-duplication ring
    Defect_NoSessionStarted,  \* TRUE: as coded - SessionStarted is emitted nowhere
    Defect_CloseNoTerminal,   \* TRUE: as before /repo 8e56cd3 - `sink.close().await?` returned before the terminal event
    Defect_DropLateEvents,    \* TRUE: the manager stream drops the pending OperationReceived events of a session whose
                              \*       live-mode channel it found closed (event_stream.rs:111-115, 136-142)
    SelectAllFifo,            \* TRUE: refine the order in which the manager stream takes events of different sessions
                              \*       to the one futures-util's SelectAll really uses (wake order, round robin)
    Defect_ResolveNoTerminal, \* TRUE: as before the repair - `store.resolve(..).await.map_err(..)?` (:128-132) returns without any event
    Defect_SyncSpin           \* TRUE: as before /repo 3bc10a0 - stream end in LogSync's Sync state -> `loop { select! { else => {} } }` spins

Range(s) == {s[k] : k \in 1..Len(s)}

Msg(k, x) == [k |-> k, x |-> x]
Evt(e, x) == [e |-> e, x |-> x]
None == "-"

LocalOp(k) == <<"l1", "l2", "l3">>[k]

\* FIFO ring of spec/Dedup (dedup.rs:44-62)
IsDup(d, x) == x \in Range(d)
DedupInsert(d, x, cap) ==
    IF x \in Range(d) THEN d
    ELSE IF Len(d) + 1 > cap THEN Append(Tail(d), x) ELSE Append(d, x)

(* Session process record
     pc        next await point          live     live_mode_rx.is_some()
     cap       buffer_capacity of the de-duplication ring
     nOut      local operations the remote needs (sent in the Sync burst)
     burstDone the `remote_needs` iterator is exhausted
     doneSent, doneRecv, closeSent       flags of the code
     inbox/eos inbound stream            liveq    live-mode channel (ToSync items)
     sinkOps   sink operations so far (each send, each close); failAt: the one that fails
     broken    the sink failed once (every later operation fails too)
     storeFail TopicStore::resolve fails for this session
     dedup     the ring                  liveRes  result of the live loop ("-" before)
     res       "run" | "ok" | "err" | "spin"
     sent, ev  history: written messages, emitted events
     nAcc      history: accepted ring insertions so far
     evAt      history: op -> nAcc when its OperationReceived was emitted last (0 = never)
     sentAt    history: sequence of [x, at] for every operation written to the remote
               (Sync Operation or Live), `at` = nAcc at that moment                      *)

NewSession(pc, live, nOut, failAt) ==
    [pc |-> pc, live |-> live, nOut |-> nOut, burstDone |-> (nOut = 0), cap |-> DedupCap,
     doneSent |-> FALSE, doneRecv |-> FALSE, closeSent |-> FALSE,
     inbox |-> <<>>, eos |-> FALSE, liveq |-> <<>>,
     sinkOps |-> 0, failAt |-> failAt, broken |-> FALSE, ok |-> TRUE, storeFail |-> FALSE,
     dedup |-> <<>>, liveRes |-> None, res |-> "run",
     sent |-> <<>>, ev |-> <<>>, nAcc |-> 0, evAt |-> <<>>, sentAt |-> <<>>]

---------------------------------------------------------------------------
(* building blocks                                                         *)

Emit(p, e, x) == [p EXCEPT !.ev = Append(@, Evt(e, x))]

SinkBad(p) == p.broken \/ p.sinkOps + 1 = p.failAt

\* sink.send(m).await : field `ok` tells the caller whether it succeeded
TrySend(p, m) ==
    IF SinkBad(p) THEN [p EXCEPT !.sinkOps = @ + 1, !.broken = TRUE, !.ok = FALSE]
    ELSE [p EXCEPT !.sinkOps = @ + 1, !.sent = Append(@, m), !.ok = TRUE]

\* sink.close().await
TryClose(p) ==
    IF SinkBad(p) THEN [p EXCEPT !.sinkOps = @ + 1, !.broken = TRUE, !.ok = FALSE]
    ELSE [p EXCEPT !.sinkOps = @ + 1, !.ok = TRUE]

\* ring insertion with the history counters
Accept(p, x) == [p EXCEPT !.dedup = DedupInsert(@, x, p.cap), !.nAcc = @ + 1]

Pop(p) == [p EXCEPT !.inbox = Tail(@)]

\* LogSync returned Err: topic_log_sync.rs:169-181 (Failed first, then close, then return)
SyncErr(p) == [Emit(p, "Failed", None) EXCEPT !.pc = "ErrClose"]

\* the live loop ended with `r`: on to `sink.close()` (:319)
LiveEnd(p, r) == [p EXCEPT !.liveRes = r, !.pc = "FinalClose"]

Finish(p, r) == [p EXCEPT !.res = r, !.pc = "End"]

\* log_sync.rs:354-419 one author's burst: every operation, then Done
RECURSIVE Burst(_, _)
Burst(p, k) ==
    IF k > p.nOut
    THEN LET q == TrySend(p, Msg("Done", None)) IN
         IF q.ok THEN [q EXCEPT !.doneSent = TRUE, !.burstDone = TRUE] ELSE SyncErr(q)
    ELSE LET q == TrySend(p, Msg("Op", LocalOp(k))) IN
         \* `dedup.insert(hash)` after the send (log_sync.rs:402): the window also remembers what was
         \* SENT during sync; `sentAt` records the wire message for the at-most-once clause of C23
         IF q.ok THEN Burst([Accept(q, LocalOp(k)) EXCEPT !.sentAt = Append(@, [x |-> LocalOp(k), at |-> q.nAcc + 1])], k + 1)
         ELSE SyncErr(q)

---------------------------------------------------------------------------
(* when is the process waiting for input                                   *)

\* select arm 1 ready (log_sync.rs:300-308). Since /repo 3bc10a0 the arm also fires on the end of
\* the stream (-> UnexpectedStreamClosure); before, `Some(message) = stream.next()` disabled it.
CanRecvSync(p) == ~p.doneRecv /\ (p.inbox # <<>> \/ (p.eos /\ ~Defect_SyncSpin))
CanBurst(p) == ~p.burstDone                              \* select arm 2 ready (:354)

Blocked(p) ==
    /\ p.res = "run"
    /\ CASE p.pc \in {"RecvHave", "RecvPreSync"} -> p.inbox = <<>> /\ ~p.eos
         [] p.pc = "Sync" -> ~CanBurst(p) /\ ~p.doneRecv /\ p.inbox = <<>> /\ ~p.eos
         [] p.pc = "Live" -> p.liveq = <<>> /\ p.inbox = <<>> /\ ~p.eos
         [] OTHER -> FALSE

Runnable(p) == p.res = "run" /\ ~Blocked(p)

---------------------------------------------------------------------------
(* one micro step: the set of possible successors                          *)

RecvSyncMsg(p) ==      \* log_sync.rs:300-358
    IF p.inbox = <<>> THEN SyncErr(p) ELSE      \* stream ended before the remote's Done
    LET m == Head(p.inbox) q == Pop(p) IN
    CASE m.k = "Op"   -> IF IsDup(q.dedup, m.x) THEN q
                         ELSE [Emit(Accept(q, m.x), "Op", m.x) EXCEPT !.evAt = [n \in (DOMAIN @) \cup {m.x} |-> IF n = m.x THEN q.nAcc + 1 ELSE @[n]]]
      [] m.k = "Done" -> [q EXCEPT !.doneRecv = TRUE]
      [] OTHER        -> SyncErr(q)     \* Have / PreSync: UnexpectedMessage; Live / Close / Bad: MessageStream

LiveFromQueue(p) ==    \* topic_log_sync.rs:205-253
    LET it == Head(p.liveq) q == [p EXCEPT !.liveq = Tail(@)] IN
    IF it.k = "Payload"
    THEN IF IsDup(q.dedup, it.x) THEN q
         ELSE LET a == Accept(q, it.x)      \* dedup.insert happens before the send
                  r == TrySend(a, Msg("Live", it.x)) IN
              IF r.ok THEN [r EXCEPT !.sentAt = Append(@, [x |-> it.x, at |-> r.nAcc])]
              ELSE LiveEnd(r, "err")
    ELSE LET r == TrySend(q, Msg("Close", None)) IN
         IF r.ok THEN [r EXCEPT !.closeSent = TRUE] ELSE LiveEnd(r, "err")

LiveFromStream(p) ==   \* topic_log_sync.rs:254-313
    IF p.inbox = <<>>
    THEN LiveEnd(p, IF p.closeSent THEN "ok" ELSE "err")          \* stream ended (:255-260)
    ELSE LET m == Head(p.inbox) q == Pop(p) IN
         CASE m.k = "Close" -> LiveEnd(q, "ok")
           [] m.k = "Live"  -> IF IsDup(q.dedup, m.x) THEN q
                               ELSE [Emit(Accept(q, m.x), "Op", m.x) EXCEPT !.evAt = [n \in (DOMAIN @) \cup {m.x} |-> IF n = m.x THEN q.nAcc + 1 ELSE @[n]]]
           [] m.k = "Bad"   -> LiveEnd(q, IF q.closeSent THEN "ok" ELSE "err")
           [] OTHER         -> LiveEnd(q, "err")                   \* a Sync(..) message in live mode

Micro(p) ==
    CASE p.pc = "Start" ->      \* documented: SessionStarted "is always sent" (:464-467); emitted nowhere
            {[(IF Defect_NoSessionStarted THEN p ELSE Emit(p, "SessionStarted", None)) EXCEPT !.pc = "Resolve"]}
      [] p.pc = "Resolve" ->    \* store.resolve(&self.topic) (:128-132)
            {IF ~p.storeFail THEN [p EXCEPT !.pc = "SendHave"]
             ELSE IF Defect_ResolveNoTerminal THEN Finish(p, "err")
                  ELSE Finish(Emit(p, "Failed", None), "err")}
      [] p.pc = "SendHave" ->   \* store.resolve, get_log_heights, sink.send(Have) (log_sync.rs:121-135)
            {LET q == TrySend(p, Msg("Have", None)) IN IF q.ok THEN [q EXCEPT !.pc = "RecvHave"] ELSE SyncErr(q)}
      [] p.pc = "RecvHave" ->   \* log_sync.rs:136-157
            {IF p.inbox = <<>> THEN SyncErr(p)
             ELSE IF Head(p.inbox).k = "Have" THEN [Pop(p) EXCEPT !.pc = "SendPreSync"] ELSE SyncErr(Pop(p))}
      [] p.pc = "SendPreSync" -> \* log_sync.rs:158-210
            {LET q == TrySend(p, IF p.nOut > 0 THEN Msg("PreSync", None) ELSE Msg("Done", None)) IN
             IF q.ok THEN [q EXCEPT !.pc = "RecvPreSync", !.doneSent = (p.nOut = 0)] ELSE SyncErr(q)}
      [] p.pc = "RecvPreSync" -> \* log_sync.rs:211-286, then SyncStarted (MetricsExchanged)
            {IF p.inbox = <<>> THEN SyncErr(p)
             ELSE LET m == Head(p.inbox) q == Pop(p) IN
                  IF m.k \in {"PreSync", "Done"}
                  THEN [Emit(q, "SyncStarted", None) EXCEPT !.pc = "Sync", !.doneRecv = (m.k = "Done")]
                  ELSE SyncErr(q)}
      [] p.pc = "Sync" ->       \* log_sync.rs:298-431
            IF CanRecvSync(p) \/ CanBurst(p)
            THEN (IF CanRecvSync(p) THEN {RecvSyncMsg(p)} ELSE {}) \cup (IF CanBurst(p) THEN {Burst(p, 1)} ELSE {})
            ELSE IF p.doneRecv /\ p.doneSent
                 THEN {[p EXCEPT !.pc = "SyncOk"]}
                 ELSE \* the stream ended before Done: all arms disabled, `else => {}`, loop again
                      {IF Defect_SyncSpin THEN Finish(p, "spin") ELSE SyncErr(p)}
      [] p.pc = "SyncOk" ->     \* topic_log_sync.rs:160-168, 188-200
            {IF p.live THEN [Emit(Emit(p, "SyncFinished", None), "LiveModeStarted", None) EXCEPT !.pc = "Live"]
             ELSE LiveEnd(Emit(p, "SyncFinished", None), "ok")}
      [] p.pc = "ErrClose" ->   \* :176-181
            {Finish(TryClose(p), "err")}
      [] p.pc = "Live" ->       \* biased select (:203-205): the live-mode channel first
            {IF p.liveq # <<>> THEN LiveFromQueue(p) ELSE LiveFromStream(p)}
      [] p.pc = "FinalClose" -> \* :319-346
            {LET q == TryClose(p) IN
             IF q.ok THEN Finish(Emit(q, IF q.liveRes = "ok" THEN "SessionFinished" ELSE "Failed", None), q.liveRes)
             ELSE IF Defect_CloseNoTerminal THEN Finish(q, "err")
                  ELSE Finish(Emit(q, "Failed", None), "err")}

RECURSIVE RunSet(_)
RunSet(p) == IF Runnable(p) THEN UNION {RunSet(q) : q \in Micro(p)} ELSE {p}

---------------------------------------------------------------------------
(* C22: the lifecycle as a finite automaton over the event kinds           *)

LcNext(st, e) ==
    CASE st = "S0" /\ e = "SessionStarted" -> "S1"
      [] st = "S1" /\ e = "SyncStarted" -> "S2"
      [] st = "S2" /\ e = "Op" -> "S2"
      [] st = "S2" /\ e = "SyncFinished" -> "S3"
      [] st = "S3" /\ e = "LiveModeStarted" -> "S4"
      [] st = "S4" /\ e = "Op" -> "S4"
      [] st \in {"S3", "S4"} /\ e = "SessionFinished" -> "T"
      [] st \in {"S1", "S2", "S3", "S4"} /\ e = "Failed" -> "T"
      [] OTHER -> "dead"

RECURSIVE LcRun(_, _)
LcRun(st, evs) == IF evs = <<>> THEN st ELSE LcRun(LcNext(st, Head(evs).e), Tail(evs))

LcState(p) == LcRun("S0", p.ev)

\* every prefix is a lifecycle prefix: SessionStarted first, ..., nothing after the terminal event
LifecycleOrder(p) == LcState(p) # "dead"
\* a session that has returned (or will never return) has emitted exactly one terminal event
TerminalEventWhenOver(p) == p.res # "run" => LcState(p) = "T"
\* the terminal event matches the outcome
TerminalMatchesResult(p) ==
    (p.res \in {"ok", "err"} /\ LcState(p) = "T") =>
        (p.ev[Len(p.ev)].e = "SessionFinished") = (p.res = "ok")
Lifecycle(p) == LifecycleOrder(p) /\ TerminalEventWhenOver(p) /\ TerminalMatchesResult(p)

\* the two halves used by the run that carries the recorded defect "SessionStarted is emitted nowhere"
SessionStartedFirst(p) == p.ev # <<>> => p.ev[1].e = "SessionStarted"
LcStateAfterStart(p) == LcRun(IF p.ev # <<>> /\ p.ev[1].e # "SessionStarted" THEN "S1" ELSE "S0", p.ev)
LifecycleAfterStart(p) ==
    /\ LcStateAfterStart(p) # "dead"
    /\ p.res # "run" => LcStateAfterStart(p) = "T"

---------------------------------------------------------------------------
(* C23 per-session predicates (history based)                              *)

\* at most once per session within the de-duplication window: between two Live(x) written by
\* the session more than DedupCap other insertions were accepted
AtMostOnceInWindow(p) ==
    \A i, j \in 1..Len(p.sentAt) :
        (i < j /\ p.sentAt[i].x = p.sentAt[j].x) => p.sentAt[j].at - p.sentAt[i].at > p.cap

\* never back to the peer it came from: an operation this session reported as received from its
\* remote is not written to that remote while it is inside the window
NeverBackToSource(p) ==
    \A i \in 1..Len(p.sentAt) :
        LET x == p.sentAt[i].x IN
        (x \in DOMAIN p.evAt /\ p.evAt[x] < p.sentAt[i].at) => p.sentAt[i].at - p.evAt[x] > p.cap

---------------------------------------------------------------------------
(* The two machines.  Sessions live in `ss`; each has a scripted remote    *)
(* `rem` (the other end of its connection, played by the environment).     *)
(* The manager part (`mgr`) is only used by the live machine.              *)

CONSTANTS
    Sessions,       \* session ids (strings)
    TopicNames,     \* topics
    LiveOps,        \* operations the remote may send in live mode
    LivePayloads,   \* operations the environment may put on the live-mode channel (lifecycle machine)
    MaxN, MaxR,     \* lifecycle machine: local operations to send / remote operations to receive
    MaxFailAt,      \* lifecycle machine: the sink operation that fails ranges over 0..MaxFailAt
    StoreFaults,    \* lifecycle machine: {FALSE} or BOOLEAN - may TopicStore::resolve fail
    MaxFaults,      \* lifecycle machine: remote misbehaviours per behaviour (wrong message, early end)
    MaxLiveIn,      \* remote messages in the live phase, per session
    MaxLiveQ        \* lifecycle machine: items put on the live-mode channel by the environment

VARIABLES ss,       \* [Sessions -> session record]
          rem,      \* [Sessions -> remote script state]
          mgr,      \* manager event stream: [bq, dd, out, given, proc]
          topicOf,  \* [Sessions -> TopicNames]
          faults

vars == <<ss, rem, mgr, topicOf, faults>>

NewRemote(r) == [pos |-> "Have", r |-> r, k |-> 0, liveIn |-> 0, ended |-> FALSE, liveQ |-> 0]

\* what an honest remote sends next in the sync phase ("-" = nothing: it is in the live phase)
HonestNext(q) ==
    CASE q.pos = "Have" -> Msg("Have", None)
      [] q.pos = "Second" -> IF q.r > 0 THEN Msg("PreSync", None) ELSE Msg("Done", None)
      [] q.pos = "Ops" -> IF q.k < q.r THEN Msg("Op", <<"r1", "r2", "r3">>[q.k + 1]) ELSE Msg("Done", None)
      [] OTHER -> Msg(None, None)

AfterHonest(q) ==
    CASE q.pos = "Have" -> [q EXCEPT !.pos = "Second"]
      [] q.pos = "Second" -> [q EXCEPT !.pos = IF q.r > 0 THEN "Ops" ELSE "Live"]
      [] q.pos = "Ops" -> IF q.k < q.r THEN [q EXCEPT !.k = @ + 1] ELSE [q EXCEPT !.pos = "Live"]
      [] OTHER -> q

WrongMsgs == {Msg("Have", None), Msg("PreSync", None), Msg("Done", None), Msg("Op", "r1"),
              Msg("Live", "x"), Msg("Close", None), Msg("Bad", None)}

GiveTo(s, m, q) ==
    /\ ss' = [ss EXCEPT ![s].inbox = Append(@, m)]
    /\ rem' = [rem EXCEPT ![s] = q]

\* the remote follows the protocol
RemoteHonest(s) ==
    /\ ~rem[s].ended /\ rem[s].pos \in {"Have", "Second", "Ops"}
    /\ GiveTo(s, HonestNext(rem[s]), AfterHonest(rem[s]))
    /\ UNCHANGED <<mgr, topicOf, faults>>

\* the remote sends something else instead (then only closes the connection)
RemoteWrong(s, m) ==
    /\ ~rem[s].ended /\ rem[s].pos \in {"Have", "Second", "Ops", "Live"} /\ faults < MaxFaults
    /\ m \in WrongMsgs /\ m # HonestNext(rem[s])
    /\ rem[s].pos = "Live" => m.k \notin {"Live", "Close"}
    /\ GiveTo(s, m, [rem[s] EXCEPT !.pos = "Faulted"])
    /\ faults' = faults + 1
    /\ UNCHANGED <<mgr, topicOf>>

\* live phase: a live operation or Close
RemoteLive(s, x) ==
    /\ ~rem[s].ended /\ rem[s].pos = "Live" /\ rem[s].liveIn < MaxLiveIn
    /\ GiveTo(s, Msg("Live", x), [rem[s] EXCEPT !.liveIn = @ + 1])
    /\ UNCHANGED <<mgr, topicOf, faults>>
RemoteClose(s) ==
    /\ ~rem[s].ended /\ rem[s].pos = "Live"
    /\ GiveTo(s, Msg("Close", None), [rem[s] EXCEPT !.pos = "Closed"])
    /\ UNCHANGED <<mgr, topicOf, faults>>

\* the connection ends (a misbehaviour unless it follows Close, but always possible)
RemoteEnd(s) ==
    /\ ~rem[s].ended
    /\ rem[s].pos \notin {"Closed", "Faulted"} => faults < MaxFaults
    /\ ss' = [ss EXCEPT ![s].eos = TRUE]
    /\ rem' = [rem EXCEPT ![s].ended = TRUE]
    /\ faults' = IF rem[s].pos \in {"Closed", "Faulted"} THEN faults ELSE faults + 1
    /\ UNCHANGED <<mgr, topicOf>>

\* the environment (manager handle) puts an item on the live-mode channel
LiveGive(s, it) ==
    /\ ss[s].live /\ ss[s].res = "run" /\ rem[s].liveQ < MaxLiveQ
    /\ ss' = [ss EXCEPT ![s].liveq = Append(@, it)]
    /\ rem' = [rem EXCEPT ![s].liveQ = @ + 1]
    /\ UNCHANGED <<mgr, topicOf, faults>>

\* one scheduling of session s; its new events become visible to the manager stream
NewEvents(before, after) == SubSeq(after.ev, Len(before.ev) + 1, Len(after.ev))
Run(s) ==
    /\ Runnable(ss[s])
    /\ \E p \in RunSet(ss[s]) :
          /\ ss' = [ss EXCEPT ![s] = p]
          /\ mgr' = [mgr EXCEPT !.bq[s] = @ \o NewEvents(ss[s], p),
                                 \* the first new event wakes the session's stream inside SelectAll
                                 !.rq = IF SelectAllFifo /\ NewEvents(ss[s], p) # <<>> /\ s \notin Range(@)
                                        THEN Append(@, s) ELSE @]
    /\ UNCHANGED <<rem, topicOf, faults>>

\* bq: events emitted by a session, not yet taken by the manager stream;  rq: SelectAll's ready queue
\* map: sessions in the stream's SessionTopicMap;  dd: its de-duplication buffer;  out: consumer
\* given / proc / lost: history
NoMgr == [bq |-> [s \in Sessions |-> <<>>], rq |-> <<>>, map |-> Sessions, dd |-> <<>>, out |-> <<>>,
          given |-> [s \in Sessions |-> <<>>], proc |-> {}, lost |-> {}]

---------------------------------------------------------------------------
(* Machine 1 (C22): one session from the start, scripted remote, faults    *)

LifecycleInit ==
    /\ \E live \in BOOLEAN, n \in 0..MaxN, r \in 0..MaxR, f \in 0..MaxFailAt, sf \in StoreFaults :
          /\ sf => (f = 0 /\ n = 0 /\ r = 0)
          /\ ss = [s \in Sessions |-> [NewSession("Start", live, n, f) EXCEPT !.storeFail = sf]]
          /\ rem = [s \in Sessions |-> NewRemote(r)]
    /\ mgr = NoMgr
    /\ topicOf = [s \in Sessions |-> CHOOSE t \in TopicNames : TRUE]
    /\ faults = 0

LifecycleNext ==
    \E s \in Sessions :
        \/ Run(s)
        \/ RemoteHonest(s) \/ RemoteClose(s) \/ RemoteEnd(s)
        \/ \E m \in WrongMsgs : RemoteWrong(s, m)
        \/ \E x \in LiveOps : RemoteLive(s, x)
        \/ \E x \in LivePayloads : LiveGive(s, Msg("Payload", x))
        \/ LiveGive(s, Msg("Close", None))

\* the behaviour is over: the connection ended and the session consumed what it could
LifecycleDone == \A s \in Sessions : rem[s].ended /\ ~Runnable(ss[s])
LifecycleSpec == LifecycleInit /\ [][LifecycleNext \/ (LifecycleDone /\ UNCHANGED vars)]_vars

C22_Lifecycle == \A s \in Sessions : Lifecycle(ss[s])
\* once the connection has ended a session that cannot run any more has returned
C22_NoHang == \A s \in Sessions : (rem[s].ended /\ ~Runnable(ss[s])) => ss[s].res # "run"
C22_NoSpin == \A s \in Sessions : ss[s].res # "spin"
\* C23 on a session that went through a sync phase first: the live-mode window is the buffer LogSync
\* returns (operations received and sent during sync)
C23_WireAtMostOnce == \A s \in Sessions : AtMostOnceInWindow(ss[s])
C23_WireNeverBack == \A s \in Sessions : NeverBackToSource(ss[s])
C22_SessionStartedFirst == \A s \in Sessions : SessionStartedFirst(ss[s])
C22_LifecycleAfterStart == \A s \in Sessions : LifecycleAfterStart(ss[s])

---------------------------------------------------------------------------
(* Machine 2 (C23): several sessions already in live mode, one manager     *)
(* event stream polled by the consumer                                     *)

LiveSession == [NewSession("Live", TRUE, 0, 0) EXCEPT !.doneSent = TRUE, !.doneRecv = TRUE]

LiveInit ==
    /\ ss = [s \in Sessions |-> LiveSession]
    /\ rem = [s \in Sessions |-> [NewRemote(0) EXCEPT !.pos = "Live"]]
    /\ mgr = NoMgr
    /\ topicOf \in [Sessions -> TopicNames]
    /\ faults = 0

(* event_stream.rs:66-150: one `next().await` on the manager event stream.
   State of the computation: m = the manager record, q = the live-mode queues of the sessions
   (only `liveq` changes).  Events of different sessions are taken in an order the model leaves
   open (SelectAll); events of one session in order.  Returns the set of possible
   [m, q, item] results; item = "-" means Pending (nothing left).                           *)
Others(s) == {t \in Sessions : t # s /\ topicOf[t] = topicOf[s]}

\* :117-142 `tx.send(ToSync::Payload(..))` to every other registered session of the topic; a
\* session whose receiver is gone (its run() returned) is dropped from the map
Targets(m, s) == Others(s) \cap m.map
Forward(q, m, s, x) ==
    [t \in Sessions |-> IF t \in Targets(m, s) /\ ss[t].res = "run" THEN Append(q[t], Msg("Payload", x)) ELSE q[t]]
MapAfterForward(m, s) == m.map \ {t \in Targets(m, s) : ss[t].res # "run"}

\* SelectAll: which session's stream yields next, and the ready queue afterwards
RECURSIVE FifoPick(_, _)
FifoPick(m, rq) ==     \* skip streams that are polled and turn out Pending
    IF rq = <<>> THEN [s |-> None, rq |-> <<>>]
    ELSE IF m.bq[Head(rq)] # <<>> THEN [s |-> Head(rq), rq |-> Append(Tail(rq), Head(rq))]
         ELSE FifoPick(m, Tail(rq))
Picks(m, fifo) ==
    IF fifo THEN LET pk == FifoPick(m, m.rq) IN IF pk.s = None THEN {} ELSE {pk}
    ELSE {[s |-> t, rq |-> m.rq] : t \in {u \in Sessions : m.bq[u] # <<>>}}

RECURSIVE PollSetG(_, _, _)
PollSetG(m, q, fifo) ==
    IF Picks(m, fifo) = {} THEN {[m |-> [m EXCEPT !.rq = IF fifo THEN <<>> ELSE @], q |-> q, item |-> None]}
    ELSE UNION {
        LET s == pk.s
            e == Head(m.bq[s])
            m1 == [m EXCEPT !.bq[s] = Tail(@), !.rq = pk.rq] IN
        IF e.e # "Op"
        THEN {[m |-> [m1 EXCEPT !.out = Append(@, [s |-> s, e |-> e.e, x |-> e.x])], q |-> q, item |-> e.e]}    \* :103-106
        ELSE IF Defect_DropLateEvents /\ s \notin m1.map
             THEN PollSetG([m1 EXCEPT !.lost = @ \cup {<<s, e.x>>}], q, fifo)                        \* :111-115 `continue`
             ELSE LET q1 == Forward(q, m1, s, e.x)
                      m2 == [m1 EXCEPT !.proc = @ \cup {<<s, e.x>>}, !.map = MapAfterForward(m1, s),
                                       !.given = [t \in Sessions |-> IF q1[t] # q[t] THEN Append(@[t], e.x) ELSE @[t]]] IN
                  IF e.x \in Range(m2.dd)
                  THEN PollSetG(m2, q1, fifo)                                                          \* :144-146 `continue`
                  ELSE {[m |-> [m2 EXCEPT !.dd = Append(@, e.x), !.out = Append(@, [s |-> s, e |-> "Op", x |-> e.x])],
                         q |-> q1, item |-> "Op"]}
        : pk \in Picks(m, fifo)}

PollSet(m, q) == PollSetG(m, q, SelectAllFifo)

ManagerPoll ==
    /\ \E s \in Sessions : mgr.bq[s] # <<>>
    /\ \E r \in PollSet(mgr, [s \in Sessions |-> ss[s].liveq]) :
          /\ mgr' = r.m
          /\ ss' = [s \in Sessions |-> [ss[s] EXCEPT !.liveq = r.q[s]]]
    /\ UNCHANGED <<rem, topicOf, faults>>

\* at most MaxFaults sessions are closed / cut by their remotes in one behaviour
CanLeave(s) == Cardinality({t \in Sessions : rem[t].pos = "Closed" \/ rem[t].ended}) < MaxFaults

LiveNext ==
    \/ ManagerPoll
    \/ \E s \in Sessions :
        \/ Run(s)
        \/ (CanLeave(s) /\ RemoteClose(s))
        \/ ((rem[s].pos = "Closed" \/ CanLeave(s)) /\ RemoteEnd(s))
        \/ \E x \in LiveOps : RemoteLive(s, x)

InternallyQuiet == (\A s \in Sessions : ~Runnable(ss[s])) /\ (\A s \in Sessions : mgr.bq[s] = <<>>)
LiveSpec == LiveInit /\ [][LiveNext \/ (InternallyQuiet /\ UNCHANGED vars)]_vars

ConsumerOps == [k \in 1..Len(mgr.out) |-> mgr.out[k]]

\* every operation the manager took from session s was put on the live-mode channel of every
\* other session of the topic that was still running
C23_ForwardedToAllOthers ==
    \A pr \in mgr.proc : \A t \in Others(pr[1]) :
        ss[t].res = "run" => pr[2] \in Range(mgr.given[t])
\* ... and never on the channel of the session it came from (unless another session also reported it)
C23_NotForwardedToSource ==
    \A s \in Sessions : \A x \in Range(mgr.given[s]) : \E pr \in mgr.proc : pr[2] = x /\ pr[1] # s
\* end to end, when everything has settled: every other running session of the topic has either
\* written Live(x) to its remote or had received x from its remote itself
C23_DeliveredWhenQuiet ==
    InternallyQuiet =>
        \A s \in Sessions : \A x \in DOMAIN ss[s].evAt : \A t \in Others(s) :
            ss[t].res = "run" =>
                \/ \E i \in 1..Len(ss[t].sent) : ss[t].sent[i] = Msg("Live", x)
                \/ x \in DOMAIN ss[t].evAt
\* no OperationReceived event of a session is thrown away by the manager stream
C23_NoEventLost == mgr.lost = {}
C23_AtMostOncePerSession == \A s \in Sessions : AtMostOnceInWindow(ss[s])
C23_NeverBackToSource == \A s \in Sessions : NeverBackToSource(ss[s])
C23_ConsumerAtMostOnce ==
    \A i, j \in 1..Len(mgr.out) :
        (i < j /\ mgr.out[i].e = "Op" /\ mgr.out[j].e = "Op") => mgr.out[i].x # mgr.out[j].x
\* every operation some session received reaches the consumer (once everything has settled)
C23_ConsumerGetsAll ==
    InternallyQuiet =>
        \A s \in Sessions : \A x \in DOMAIN ss[s].evAt : \E i \in 1..Len(mgr.out) : mgr.out[i].e = "Op" /\ mgr.out[i].x = x
C23_SessionLifecycleTail == \A s \in Sessions : ss[s].res # "run" => ss[s].ev[Len(ss[s].ev)].e \in {"SessionFinished", "Failed"}
===========================================================================
