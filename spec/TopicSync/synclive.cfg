SPECIFICATION MCLifecycleSpec
CONSTANTS
  DedupCap = 4
  Defect_NoSessionStarted = FALSE
  Defect_CloseNoTerminal = FALSE
  Defect_SyncSpin = FALSE
  Defect_ResolveNoTerminal = FALSE
  StoreFaults = {FALSE}
  Defect_DropLateEvents = FALSE
  SelectAllFifo = FALSE
  Sessions = {"s1"}
  TopicNames = {"t1"}
  LiveOps = {"r1", "l1"}
  LivePayloads = {"l1", "r1", "x"}
  MaxN = 1
  MaxR = 1
  MaxFailAt = 0
  MaxFaults = 0
  MaxLiveIn = 1
  MaxLiveQ = 2
INVARIANTS
  C23_WireAtMostOnce
  C23_WireNeverBack
  C22_Lifecycle
VIEW NoHistView
CHECK_DEADLOCK FALSE
