SPECIFICATION TraceSpec
CONSTANTS
  Wall = {}
  Addr = {}
  AsCoded = FALSE
INVARIANTS
  C18_AcceptedAsNewer
  C18_ChainStrictlyIncreasing
  C18_OwnHoldsLatest
  C18_ObserverNeverStuckOnOlder
POSTCONDITION TraceAccepted
CHECK_DEADLOCK FALSE
