SPECIFICATION IncSpec
CONSTANTS
  Wall = {0}
  Addr = {"x"}
  AsCoded = FALSE
  MaxT = 6
  MaxL = 4
  MaxPub = 0
  W1 = {0}
  MaxSteps = 0
INVARIANTS
  C18_StrictlyIncreases
CHECK_DEADLOCK FALSE
