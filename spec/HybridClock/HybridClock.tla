---------------------------- MODULE HybridClock ----------------------------
(***************************************************************************)
(* Hybrid (wall clock, logical) timestamps of p2panda-core and the "newer   *)
(* wins" rule for self-published transport records of p2panda-net.          *)
(*                                                                          *)
(*   Increment(ts, wall)        p2panda-core/src/timestamp.rs               *)
(*                              `HybridTimestamp::increment`; `wall` is the *)
(*                              value `Timestamp::now()` reads in the call  *)
(*   Less(a, b)                 the derived `Ord` of the tuple struct       *)
(*                              `HybridTimestamp(Timestamp, Lamport)`       *)
(*   UpdateTransports(cur, o)   p2panda-net/src/addrs.rs:87-107             *)
(*                              `NodeInfo::update_transports`               *)
(*   PublishFirst/PublishNext/  p2panda-net/src/iroh_endpoint/              *)
(*   PublishUnchanged           discovery.rs:53-112 `publish` (own record)  *)
(*   Deliver                    a remote address book receives one of the   *)
(*                              published records (any order, duplicates)   *)
(*                                                                          *)
(* The wall clock is in MICROSECONDS, the unit `Timestamp` stores.  ASSUMPTION *)
(* bound by the harness: the sub-microsecond part of the OS clock never      *)
(* matters - every reading `wall` is replayed as wall us + {0, 1, 500, 999}  *)
(* ns and must give the same result.                                         *)
(*                                                                          *)
(* A timestamp is a pair <<t, l>> of naturals.  The wall clock is NOT a     *)
(* variable: every reading is an arbitrary natural chosen in the action     *)
(* (earlier, equal or later than anything read before).                     *)
(***************************************************************************)
EXTENDS Integers, Sequences, FiniteSets

CONSTANTS
    Wall,       \* set of values a wall-clock reading may return
    Addr,       \* set of (abstract) own address sets
    AsCoded     \* TRUE: `increment` as it was before commit "fix: HybridTimestamp::increment ..."
                \* (kept to show the counterexample and as the model-level mutant), FALSE: repaired

Less(a, b) == a[1] < b[1] \/ (a[1] = b[1] /\ a[2] < b[2])

Now(wall) == <<wall, 0>>                                    \* timestamp.rs:131-133

\* timestamp.rs:136-143 before the repair
IncrementAsCoded(ts, wall) ==
    IF wall = ts[1] THEN <<wall, ts[2] + 1>> ELSE <<wall, 0>>

\* after the repair: never go below the previous wall-clock part
IncrementRepaired(ts, wall) ==
    IF wall > ts[1] THEN <<wall, 0>> ELSE <<ts[1], ts[2] + 1>>

Increment(ts, wall) == IF AsCoded THEN IncrementAsCoded(ts, wall) ELSE IncrementRepaired(ts, wall)

\* C18, first sentence
StrictlyIncreases(ts, wall) == Less(ts, Increment(ts, wall))

---------------------------------------------------------------------------
(* Transport records.  A record is [ts, addr]; "no record" is NoRec.        *)

NoRec == [ts |-> <<-1, -1>>, addr |-> "-"]
Has(r) == r # NoRec

\* addrs.rs:87-107: returns <<new entry, is_newer>>
UpdateTransports(cur, other) ==
    IF ~Has(cur) THEN <<other, TRUE>>
    ELSE IF Less(cur.ts, other.ts) THEN <<other, TRUE>>
    ELSE <<cur, FALSE>>

VARIABLES
    own,        \* the node's own entry in its own address book
    obs,        \* the node's entry in a remote observer's address book
    pub,        \* sequence of records the node published (inserted into its own book), oldest first
    accepted    \* is_newer verdict of the own-book insert of the last publish

vars == <<own, obs, pub, accepted>>

ChainInit == own = NoRec /\ obs = NoRec /\ pub = <<>> /\ accepted = TRUE

\* discovery.rs:71-89 with no previous record: UnsignedTransportInfo::new / from_addrs reads the
\* clock (addrs.rs:388-394), increment_timestamp(None) keeps it (addrs.rs:455)
PublishFirst(w1, a) ==
    /\ ~Has(own)
    /\ LET rec == [ts |-> Now(w1), addr |-> a]
           upd == UpdateTransports(own, rec)
       IN /\ own' = upd[1] /\ accepted' = upd[2]
          /\ pub' = Append(pub, rec)
    /\ UNCHANGED obs

\* discovery.rs:71-108 with a previous record: the clock is read twice, by `new` (value w1, then
\* overwritten) and by `previous.timestamp.increment()` (value w2) (addrs.rs:443-453)
PublishNext(w1, w2, a) ==
    /\ Has(own)
    /\ a # own.addr                                         \* discovery.rs:95-99 otherwise
    /\ LET rec == [ts |-> Increment(own.ts, w2), addr |-> a]
           upd == UpdateTransports(own, rec)
       IN /\ own' = upd[1] /\ accepted' = upd[2]
          /\ pub' = Append(pub, rec)
    /\ UNCHANGED obs

\* discovery.rs:95-99: nothing changed, the freshly built record is dropped
PublishUnchanged(w1, w2, a) ==
    /\ Has(own)
    /\ a = own.addr
    /\ UNCHANGED vars

\* a remote address book inserts the k-th published record (actor.rs:213-240 -> update_transports)
Deliver(k) ==
    /\ k \in DOMAIN pub
    /\ obs' = UpdateTransports(obs, pub[k])[1]
    /\ UNCHANGED <<own, pub, accepted>>

ChainNext ==
    \/ \E w1 \in Wall, a \in Addr : PublishFirst(w1, a)
    \/ \E w1 \in Wall, w2 \in Wall, a \in Addr : PublishNext(w1, w2, a)
    \/ \E w1 \in Wall, w2 \in Wall, a \in Addr : PublishUnchanged(w1, w2, a)
    \/ \E k \in DOMAIN pub : Deliver(k)

ChainSpec == ChainInit /\ [][ChainNext]_vars

---------------------------------------------------------------------------
(* C18, second sentence                                                    *)

\* every self-published record was accepted as newer by the node's own address book
AcceptedAsNewer == accepted

\* the published chain is strictly increasing, i.e. whoever holds record i accepts record j > i
ChainStrictlyIncreasing ==
    \A i, j \in DOMAIN pub : i < j => Less(pub[i].ts, pub[j].ts)

\* the own book always holds the latest published record
OwnHoldsLatest == pub # <<>> => own = pub[Len(pub)]

\* a remote book never prefers an older record to a later one it has been given:
\* whatever it holds is at least as recent as ... the latest published record once delivered.
\* (phrased on the state: obs is one of the published records and no record published LATER than
\* obs compares smaller than or equal to it)
ObserverNeverStuckOnOlder ==
    Has(obs) => \E i \in DOMAIN pub :
                    /\ obs = pub[i]
                    /\ \A j \in DOMAIN pub : j > i => Less(obs.ts, pub[j].ts)
===========================================================================
