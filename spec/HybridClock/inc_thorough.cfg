SPECIFICATION IncSpec
CONSTANTS
  Wall = {0}
  Addr = {"x"}
  AsCoded = FALSE
  MaxT = 24
  MaxL = 12
  MaxPub = 0
  W1 = {0}
  MaxSteps = 0
INVARIANTS
  C18_StrictlyIncreases
CHECK_DEADLOCK FALSE
